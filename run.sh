#!/bin/sh
# usage: ./run.sh <Cxx|all> <quick|thorough>
# Decides the property by static analysis of /repo's current working tree (nothing of /repo is executed).
cd "$(dirname "$0")" || exit 2
export GOFLAGS=-mod=mod GOPROXY=off GOSUMDB=off GOTOOLCHAIN=local CGO_ENABLED=0
unset GOWORK
need=0
[ -x bin/l4verify ] || need=1
if [ $need = 0 ]; then
  for f in checker/*.go checker/go.mod; do
    [ "$f" -nt bin/l4verify ] && need=1
  done
fi
if [ $need = 1 ]; then
  ./setup.sh >/dev/null 2>&1 || { echo "VIOLATION property=$1 replay=/verif/evidence/$1.violations.json (checker failed to build)"; ./setup.sh; exit 1; }
fi
REPO="${L4_REPO:-/repo}"
exec bin/l4verify -prop "$1" -tier "${2:-quick}" -repo "$REPO" -verif "$(pwd)"
