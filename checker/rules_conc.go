package main

// Rules about concurrency, pooled buffers and channels: C08, C09, C13.

import (
	"fmt"
	"go/token"
	"go/types"
	"os"
	"sort"
	"strings"

	"golang.org/x/tools/go/ssa"
)

func init() {
	register(&property{
		ID:          "C08",
		Explanation: "Static decision of the sharing discipline between concurrently handled connections: (R1) a field or variable accessed through sync/atomic anywhere is accessed only through sync/atomic; (R2) per-connection code (everything reachable from Match/Handle/Select/handle) performs no plain store through the shared module instance (receiver of Match/Handle/Select), through a package-level variable, or into anything reached from them - directly or in a callee (effect summaries over the module call graph) - and uses only package-level variables reviewed as safe for concurrent use; (R3) pooled matching buffers: a buffer obtained from the pool and returned in the same function is never retained (stored, returned, sent), and where the buffer is handed to a Connection the Put is under the same guard as the connection's Close; (R4) a goroutine started by a handler with access to the connection is joined before the handler returns; (R5) Connection.Write, which runs concurrently with itself, performs no plain store. Added: (R6) every buffer handed to WrapConnection has proven length 0 (a recycled slice keeps the length it was returned with); (R7) the hand-off release discipline of C13.R3.",
		NotDecided:  "Absence of data races in general (no whole-program may-happen-in-parallel analysis; third-party code trusted); cross-talk for all interleavings; races on per-connection objects that a handler itself shares between its own goroutines beyond R4/R5.",
		Run:         runC08,
	})
	register(&property{
		ID:          "C09",
		Explanation: "Static decision of the UDP demultiplexing mechanisms: (R1) channel close ownership: a channel is closed only where no other function sends on it, or after a WaitGroup.Wait that joins the senders; (R2) the association table is indexed, filled and cleaned with one and the same key derivation (<addr>.String() of the datagram's source address / of the virtual connection's address); (R3) replies go to the stored client address, which is written only when the association is created from the first datagram's source address; (R4) there is one ReadFrom site in one reader goroutine per socket, started once per listener returned by ListenAll, and every datagram is forwarded to exactly one per-client queue; (R5) end-of-association notifications are blocking sends (never dropped). Added: (R6) queued datagrams do not alias - the record sent by pointer to a client queue is allocated per loop iteration and each queued record carries a buffer obtained in the same iteration; (R7) packetConn.Read, path-evaluated over fresh/continued datagrams and a caller buffer smaller than / equal to / larger than the remaining bytes: the pooled buffer is released iff the datagram is exhausted, otherwise retained.",
		NotDecided:  "Interleavings with idle expiry, back-pressure when a per-client queue is full (the loop blocks - liveness), datagram truncation, ordering guarantees of the kernel.",
		Run:         runC09,
	})
	register(&property{
		ID:          "C13",
		Explanation: "Static decision of the listener-wrapper hand-off: (R1) the wrapper's routes are compiled with the hand-off handler as fallback; (R2) pipeConnection, path-evaluated over the TLS-state cases, performs exactly one send on the hand-off channel and returns errHijacked, which listenerHandler returns unchanged; (R3) in listener.handle the connection's Close and the return of its pooled buffer happen under the same 'not hijacked' guard; (R4) shutdown protocol: wg.Add precedes every go handle, handle defers wg.Done, connChan is closed only after wg.Wait in a goroutine of its own, the drain loop that closes pending connections is reached without waiting for the handlers, done is closed after the accept loop, Accept reports net.ErrClosed on both closed channels; (R6) the delivered value is the layer4 connection itself or a wrapper embedding it (prefetched bytes are replayed, plaintext after TLS); (R7) bounded abstract interpretation of the compiled route handler: nothing - in particular not the hand-off fallback - runs after a terminal route. Added: (R8) the hand-off runs with the matching deadline cleared on every explored path (C05.R2).",
		NotDecided:  "'No goroutine stays blocked' in general (hand-off blocks while the consumer is slow, by design); the stream read back after hand-off (C01); TLS state contents.",
		Run:         runC13,
	})
}

// ---------- helpers ----------

// aliasDerives: v is (a view of) the same memory as src: through slicing, phi, conversion,
// interface boxing, type assertion - not through calls.
func aliasDerives(v, src ssa.Value) bool {
	seen := map[ssa.Value]bool{}
	var walk func(v ssa.Value, d int) bool
	walk = func(v ssa.Value, d int) bool {
		if v == nil || seen[v] || d > 40 {
			return false
		}
		if v == src {
			return true
		}
		seen[v] = true
		switch x := v.(type) {
		case *ssa.Slice:
			return walk(x.X, d+1)
		case *ssa.Phi:
			for _, e := range x.Edges {
				if walk(e, d+1) {
					return true
				}
			}
		case *ssa.ChangeType:
			return walk(x.X, d+1)
		case *ssa.Convert:
			return walk(x.X, d+1)
		case *ssa.MakeInterface:
			return walk(x.X, d+1)
		case *ssa.ChangeInterface:
			return walk(x.X, d+1)
		case *ssa.TypeAssert:
			return walk(x.X, d+1)
		case *ssa.Extract:
			return walk(x.Tuple, d+1)
		case *ssa.UnOp:
			if x.Op == token.MUL {
				if a, ok := x.X.(*ssa.Alloc); ok {
					for _, s := range storesToDeep(a) {
						if walk(s, d+1) {
							return true
						}
					}
				}
			}
		}
		return false
	}
	return walk(v, 0)
}

// addrRoots returns the base values an address (or pointer value) is derived from, following
// field/index addressing and loads of pointers.
// assocValue: v is a *packetConn that was just allocated or looked up in a map of associations.
func assocValue(v ssa.Value, seen map[ssa.Value]bool) bool {
	if v == nil || seen[v] {
		return true
	}
	seen[v] = true
	switch x := v.(type) {
	case *ssa.Alloc:
		return namedName(deref(x.Type())) == "layer4.packetConn"
	case *ssa.Lookup:
		m, ok := x.X.Type().Underlying().(*types.Map)
		return ok && namedName(deref(m.Elem())) == "layer4.packetConn"
	case *ssa.Extract:
		return assocValue(x.Tuple, seen)
	case *ssa.Phi:
		for _, e := range x.Edges {
			if !assocValue(e, seen) {
				return false
			}
		}
		return true
	case *ssa.UnOp:
		if a, ok := x.X.(*ssa.Alloc); ok && x.Op == token.MUL {
			sts := storesTo(a)
			if len(sts) == 0 {
				return false
			}
			for _, sv := range sts {
				if !assocValue(sv, seen) {
					return false
				}
			}
			return true
		}
	case *ssa.Const:
		return x.Value == nil // nil
	}
	return false
}

func addrRoots(v ssa.Value) []ssa.Value {
	seen := map[ssa.Value]bool{}
	var out []ssa.Value
	var walk func(v ssa.Value, d int)
	walk = func(v ssa.Value, d int) {
		if v == nil || seen[v] || d > 40 {
			return
		}
		seen[v] = true
		switch x := v.(type) {
		case *ssa.FieldAddr:
			walk(x.X, d+1)
		case *ssa.IndexAddr:
			walk(x.X, d+1)
		case *ssa.Field:
			walk(x.X, d+1)
		case *ssa.Index:
			walk(x.X, d+1)
		case *ssa.Slice:
			walk(x.X, d+1)
		case *ssa.Lookup:
			walk(x.X, d+1)
		case *ssa.Phi:
			for _, e := range x.Edges {
				walk(e, d+1)
			}
		case *ssa.ChangeType:
			walk(x.X, d+1)
		case *ssa.MakeInterface:
			walk(x.X, d+1)
		case *ssa.TypeAssert:
			walk(x.X, d+1)
		case *ssa.Extract:
			walk(x.Tuple, d+1)
		case *ssa.Next:
			walk(x.Iter, d+1)
		case *ssa.Range:
			walk(x.X, d+1)
		case *ssa.UnOp:
			if x.Op == token.MUL {
				if a, ok := x.X.(*ssa.Alloc); ok {
					sts := storesToDeep(a)
					if len(sts) == 0 {
						out = append(out, a)
					}
					for _, s := range sts {
						walk(s, d+1)
					}
					return
				}
				if fv, ok := x.X.(*ssa.FreeVar); ok {
					if b := freeVarBinding(fv); b != nil {
						if al, ok := b.(*ssa.Alloc); ok {
							for _, s := range storesToDeep(al) {
								walk(s, d+1)
							}
							return
						}
						walk(b, d+1)
						return
					}
					out = append(out, fv)
					return
				}
				walk(x.X, d+1)
				return
			}
			out = append(out, v)
		case *ssa.FreeVar:
			if b := freeVarBinding(x); b != nil {
				walk(b, d+1)
			} else {
				out = append(out, x)
			}
		default:
			out = append(out, v)
		}
	}
	walk(v, 0)
	return out
}

// chanID gives a channel an identity: the struct field that holds it, or the make site.
func chanID(v ssa.Value) string {
	seen := map[ssa.Value]bool{}
	var walk func(v ssa.Value, d int) string
	walk = func(v ssa.Value, d int) string {
		if v == nil || seen[v] || d > 20 {
			return ""
		}
		seen[v] = true
		switch x := v.(type) {
		case *ssa.UnOp:
			if x.Op == token.MUL {
				if _, sn, f, ok := fieldAddr(x.X); ok {
					return "field " + sn + "." + f
				}
				if a, ok := x.X.(*ssa.Alloc); ok {
					for _, s := range storesToDeep(a) {
						if id := walk(s, d+1); id != "" {
							return id
						}
					}
				}
				if g, ok := x.X.(*ssa.Global); ok {
					return "global " + globalName(g)
				}
			}
		case *ssa.MakeChan:
			// stored into a field?
			for _, ref := range *x.Referrers() {
				if st, ok := ref.(*ssa.Store); ok && st.Val == ssa.Value(x) {
					if _, sn, f, ok := fieldAddr(st.Addr); ok {
						return "field " + sn + "." + f
					}
				}
			}
			return "make " + fname(x.Parent()) + ":" + x.Name()
		case *ssa.Parameter:
			// closure parameter bound at a go/call site in the parent
			fn := x.Parent()
			if par := fn.Parent(); par != nil {
				idx := -1
				for i, p := range fn.Params {
					if p == x {
						idx = i
					}
				}
				for _, ci := range callsIn(par) {
					if cl := closureOf(ci.Common().Value); cl == fn && idx < len(ci.Common().Args) {
						return walk(ci.Common().Args[idx], d+1)
					}
				}
			}
			return "param " + fname(fn) + ":" + x.Name()
		case *ssa.Phi:
			for _, e := range x.Edges {
				if id := walk(e, d+1); id != "" {
					return id
				}
			}
		case *ssa.FreeVar:
			if b := freeVarBinding(x); b != nil {
				return walk(b, d+1)
			}
		case *ssa.ChangeType:
			return walk(x.X, d+1)
		}
		return ""
	}
	return walk(v, 0)
}

type chanUse struct {
	fn   *ssa.Function
	in   ssa.Instruction
	kind string // send, close, recv, select-send(nonblocking), select-send
}

// channelUses indexes sends/closes/receives of all channels in the module.
func (c *Ctx) channelUses() map[string][]chanUse {
	out := map[string][]chanUse{}
	for _, fn := range c.Funcs {
		for _, b := range fn.Blocks {
			for _, in := range b.Instrs {
				switch x := in.(type) {
				case *ssa.Send:
					id := chanID(x.Chan)
					out[id] = append(out[id], chanUse{fn, in, "send"})
				case *ssa.Select:
					for _, st := range x.States {
						id := chanID(st.Chan)
						k := "select-recv"
						if st.Dir == types.SendOnly {
							k = "select-send"
							if !x.Blocking {
								k = "select-send-nonblocking"
							}
						}
						out[id] = append(out[id], chanUse{fn, in, k})
					}
				case *ssa.UnOp:
					if x.Op == token.ARROW {
						id := chanID(x.X)
						out[id] = append(out[id], chanUse{fn, in, "recv"})
					}
				case *ssa.Call:
					if calleeID(x) == "builtin close" {
						id := chanID(x.Call.Args[0])
						out[id] = append(out[id], chanUse{fn, in, "close"})
					}
				}
			}
		}
	}
	return out
}

// ---------- effect summaries: which parameters does a function write through ----------

type writeSummary map[*ssa.Function]map[int]string // param index -> example site

func (c *Ctx) writeSummaries() writeSummary {
	sum := writeSummary{}
	for _, f := range c.Funcs {
		sum[f] = map[int]string{}
	}
	paramIndex := func(fn *ssa.Function, v ssa.Value) int {
		for i, p := range fn.Params {
			if ssa.Value(p) == v {
				return i
			}
		}
		return -1
	}
	// direct writes
	for _, fn := range c.Funcs {
		for _, b := range fn.Blocks {
			for _, in := range b.Instrs {
				var addr ssa.Value
				switch x := in.(type) {
				case *ssa.Store:
					if _, isAlloc := x.Addr.(*ssa.Alloc); isAlloc {
						continue
					}
					addr = x.Addr
				case *ssa.MapUpdate:
					addr = x.Map
				default:
					continue
				}
				for _, root := range addrRoots(addr) {
					if i := paramIndex(fn, root); i >= 0 {
						if _, ok := sum[fn][i]; !ok {
							sum[fn][i] = c.ipos(in)
						}
					}
				}
			}
		}
	}
	// propagate through calls
	changed := true
	for changed {
		changed = false
		for _, fn := range c.Funcs {
			for _, ci := range callsIn(fn) {
				if _, isGo := ci.(*ssa.Go); isGo {
					// still a write by the callee
				}
				cc := ci.Common()
				var targets []*ssa.Function
				if cc.IsInvoke() {
					targets = c.implsOf(cc.Value.Type(), cc.Method)
				} else if f := cc.StaticCallee(); f != nil {
					targets = []*ssa.Function{f}
				}
				var args []ssa.Value
				if cc.IsInvoke() {
					args = append(args, cc.Value)
				}
				args = append(args, cc.Args...)
				for _, t := range targets {
					ts, ok := sum[t]
					if !ok {
						continue
					}
					for pi, site := range ts {
						if pi >= len(args) {
							continue
						}
						for _, root := range addrRoots(args[pi]) {
							if i := paramIndex(fn, root); i >= 0 {
								if _, ok := sum[fn][i]; !ok {
									sum[fn][i] = site
									changed = true
								}
							}
						}
					}
				}
			}
		}
	}
	return sum
}

// atomicOnlyParams: pointer parameters of module functions that are used for nothing but sync/atomic operations
// (directly, or handed on to another such parameter), with the operations they are used with. A call that passes a
// field's address at such a position is an atomic access to the field by those operations.
func atomicOnlyParams(c *Ctx) map[*ssa.Function]map[int][]string {
	if c.atomicParams != nil {
		return c.atomicParams
	}
	type key struct {
		fn *ssa.Function
		i  int
	}
	state := map[key][]string{} // candidate -> ops; deleted when disqualified
	for _, fn := range c.Funcs {
		for i, p := range fn.Params {
			if _, ok := p.Type().Underlying().(*types.Pointer); ok && p.Referrers() != nil && len(*p.Referrers()) > 0 {
				state[key{fn, i}] = nil
			}
		}
	}
	for changed := true; changed; {
		changed = false
		for k := range state {
			var ops []string
			ok := true
			for _, ref := range *k.fn.Params[k.i].Referrers() {
				switch x := ref.(type) {
				case *ssa.DebugRef:
				case ssa.CallInstruction:
					id := calleeID(x)
					args := x.Common().Args
					if strings.HasPrefix(id, "sync/atomic.") && len(args) > 0 && args[0] == ssa.Value(k.fn.Params[k.i]) {
						ops = append(ops, id)
						continue
					}
					g := staticCallee(x)
					handed := false
					if g != nil {
						for j, a := range args {
							if a == ssa.Value(k.fn.Params[k.i]) {
								if sub, is := state[key{g, j}]; is {
									handed = true
									ops = append(ops, sub...)
								} else {
									handed = false
									break
								}
							}
						}
					}
					if !handed {
						ok = false
					}
				default:
					ok = false
				}
			}
			if !ok || len(ops) == 0 {
				// a parameter only handed on to candidates that have no operation yet stays a candidate for another round
				if !ok {
					delete(state, k)
					changed = true
				}
				continue
			}
			ops = dedup(ops)
			if strings.Join(ops, ",") != strings.Join(state[k], ",") {
				state[k] = ops
				changed = true
			}
		}
	}
	out := map[*ssa.Function]map[int][]string{}
	for k, ops := range state {
		if len(ops) == 0 {
			continue
		}
		if out[k.fn] == nil {
			out[k.fn] = map[int][]string{}
		}
		out[k.fn][k.i] = ops
	}
	c.atomicParams = out
	return out
}

// atomicOpsAt: the sync/atomic operations a call performs on the value v it is given (directly or through an
// atomic-only parameter of a module function); nil when the call does something else with it.
func atomicOpsAt(c *Ctx, ci ssa.CallInstruction, v ssa.Value) []string {
	id := calleeID(ci)
	args := ci.Common().Args
	if strings.HasPrefix(id, "sync/atomic.") {
		if len(args) > 0 && args[0] == v {
			return []string{id}
		}
		return nil
	}
	g := staticCallee(ci)
	if g == nil {
		return nil
	}
	var ops []string
	for j, a := range args {
		if a == v {
			sub := atomicOnlyParams(c)[g][j]
			if len(sub) == 0 {
				return nil
			}
			ops = append(ops, sub...)
		}
	}
	return dedup(ops)
}

// ---------- C08 ----------

func runC08(c *Ctx, r *Report) {
	c08R1(c, r, "C08.R1")
	c08R2(c, r, "C08.R2")
	c08R3(c, r, "C08.R3")
	c08R4(c, r, "C08.R4")
	c08R5(c, r, "C08.R5")
	c08R6(c, r, "C08.R6")
	c02R6(c, r, "C08.R8") // a compiled handler chain cached across connections would capture one connection's continuation
	c10R5(c, r, "C08.R9") // the shared round-robin position advances by one atomic read-modify-write per probe
	c08SharedAppend(c, r, "C08.R14")
	c08WrapStorage(c, r, "C08.R15")
	c08PoolReset(c, r, "C08.R16")
	c08SharedReplacer(c, r, "C08.R17")
	c08PoolNewFresh(c, r, "C08.R18")
	c09R2(c, r, "C08.R19") // a client talks to its own association only: the table of associations belongs to one socket's loop and is keyed by the client address alone within it
	c08AfterHandOff(c, r, "C08.R20")
	c08PooledPeerUntouched(c, r, "C08.R21")
	c16ConstructorsFresh(c, r, "C08.R23", "")
	c08NoLostUpdate(c, r, "C08.R24")
	c13PerListener(c, r, "C08.R22") // connections of different listeners never meet: every wrapped listener has a hand-off queue of its own
	c08QuicAddr(c, r, "C08.R11")
	c09R6(c, r, "C08.R12")     // a UDP client never reads another client's datagram: queued datagram records do not alias
	c17Handle(c, r, "C08.R10") // per-connection state of a handler (the throttle's own limiter) is built per connection, only the handler-wide limiter is shared
	c09R7(c, r, "C08.R13")     // a datagram's pooled buffer goes back to the pool only when the datagram is consumed: what is kept of it for the next read is never storage another client's datagram is received into
	c13R3(c, r, "C08.R7")      // the hand-off release discipline is also a C08 obligation (buffer shared across connections)
}

func c08R1(c *Ctx, r *Report, rule string) {
	r.rule(rule, "atomic consistency: every struct field or package variable whose address is passed to a sync/atomic function somewhere is accessed only through sync/atomic functions everywhere (composite-literal initialisation excepted)", 4)
	atomicFields := map[string]string{}
	isAtomicCall := func(ci ssa.CallInstruction) bool {
		return strings.HasPrefix(calleeID(ci), "sync/atomic.")
	}
	for _, fn := range c.Funcs {
		for _, ci := range callsIn(fn) {
			if len(ci.Common().Args) == 0 {
				continue
			}
			if !isAtomicCall(ci) {
				// a helper that does nothing but atomic operations on the pointer it is given
				for _, a := range ci.Common().Args {
					if len(atomicOpsAt(c, ci, a)) > 0 {
						if _, sn, f, ok := fieldAddr(a); ok {
							atomicFields[sn+"."+f] = c.ipos(ci)
						} else if g, ok := a.(*ssa.Global); ok {
							atomicFields["global "+globalName(g)] = c.ipos(ci)
						}
					}
				}
				continue
			}
			if _, sn, f, ok := fieldAddr(ci.Common().Args[0]); ok {
				atomicFields[sn+"."+f] = c.ipos(ci)
			} else if g, ok := ci.Common().Args[0].(*ssa.Global); ok {
				atomicFields["global "+globalName(g)] = c.ipos(ci)
			}
		}
	}
	var keys []string
	for k := range atomicFields {
		keys = append(keys, k)
	}
	sort.Strings(keys)
	for _, k := range keys {
		var bad []string
		for _, fn := range c.Funcs {
			for _, b := range fn.Blocks {
				for _, in := range b.Instrs {
					var addr ssa.Value
					switch x := in.(type) {
					case *ssa.FieldAddr:
						addr = x
					default:
						continue
					}
					id := ""
					if _, sn, f, ok := fieldAddr(addr); ok {
						id = sn + "." + f
					}
					if id != k {
						continue
					}
					for _, ref := range *addr.Referrers() {
						if ci, ok := ref.(ssa.CallInstruction); ok && (isAtomicCall(ci) || len(atomicOpsAt(c, ci, addr)) > 0) {
							continue
						}
						if _, ok := ref.(*ssa.DebugRef); ok {
							continue
						}
						// store in a composite literal of a fresh object is initialisation
						if st, ok := ref.(*ssa.Store); ok {
							if fa, ok := st.Addr.(*ssa.FieldAddr); ok {
								if al, ok := fa.X.(*ssa.Alloc); ok && strings.Contains(al.Comment, "complit") {
									continue
								}
							}
						}
						bad = append(bad, fmt.Sprintf("%s in %s", c.ipos(ref), fname(fn)))
					}
				}
			}
		}
		// plain loads through globals
		if strings.HasPrefix(k, "global ") {
			for _, fn := range c.Funcs {
				for _, b := range fn.Blocks {
					for _, in := range b.Instrs {
						if u, ok := in.(*ssa.UnOp); ok && u.Op == token.MUL {
							if g, ok := u.X.(*ssa.Global); ok && "global "+globalName(g) == k {
								bad = append(bad, fmt.Sprintf("%s in %s", c.ipos(in), fname(fn)))
							}
						}
					}
				}
			}
		}
		r.check(len(bad) == 0, rule, "module", k, atomicFields[k], "accessed through sync/atomic only", k+" is updated atomically at "+atomicFields[k]+" but accessed plainly at "+strings.Join(bad, ", ")+": data race between concurrent connections")
	}
}

// reviewed package-level variables that per-connection code may use: safe for concurrent use or never written after init.
var reviewedGlobals = map[string]string{
	"layer4.bufPool":                                "sync.Pool",
	"layer4.udpBufPool":                             "sync.Pool",
	"layer4.ErrConsumedAllPrefetchedBytes":          "error value, never reassigned",
	"layer4.ErrMatchingBufferFull":                  "error value, never reassigned",
	"layer4.ErrMatchingTimeout":                     "error value, never reassigned",
	"layer4.errHijacked":                            "error value, never reassigned",
	"layer4.VarsCtxKey":                             "context key, never reassigned",
	"layer4.ReplacerCtxKey":                         "context key, never reassigned",
	"layer4.listenerCtxKey":                         "context key, never reassigned",
	"modules/l4proxy.peers":                         "caddy.UsagePool (concurrency-safe)",
	"modules/l4winbox.MessageAuthUsernameRegexp":    "*regexp.Regexp is safe for concurrent use",
	"modules/l4winbox.ErrIncorrectSourceBytes":      "error value",
	"modules/l4winbox.ErrNotEnoughSourceBytes":      "error value",
	"modules/l4winbox.ErrInvalidMode":               "error value",
	"modules/l4wireguard.MessageBytesOrder":         "stateless binary.ByteOrder",
	"modules/l4wireguard.ErrInvalidSourceLength":    "error value",
	"modules/l4rdp.ErrInvalidSourceLength":          "error value",
	"modules/l4rdp.RDPCorrInfoBytesOrder":           "stateless binary.ByteOrder",
	"modules/l4rdp.RDPNegReqBytesOrder":             "stateless binary.ByteOrder",
	"modules/l4rdp.RDPTokenBytesOrder":              "stateless binary.ByteOrder",
	"modules/l4rdp.TPKTHeaderBytesOrder":            "stateless binary.ByteOrder",
	"modules/l4rdp.X224CrqBytesOrder":               "stateless binary.ByteOrder",
	"modules/l4openvpn.BytesOrder":                  "stateless binary.ByteOrder",
	"modules/l4openvpn.AuthDigests":                 "table of digests built at init, read-only",
	"modules/l4openvpn.AuthDigestSizes":             "table built at init, read-only",
	"modules/l4openvpn.AuthDigestDefault":           "set at init, read-only",
	"modules/l4openvpn.CryptCipherDefault":          "set at init, read-only",
	"modules/l4openvpn.CryptCiphers":                "table built at init, read-only",
	"modules/l4openvpn.TimestampValidationInterval": "constant-like variable, never reassigned",
}

func c08R2(c *Ctx, r *Report, rule string) {
	r.rule(rule, "per-connection code performs no plain store/map update through the shared module instance (receiver of Match/Handle/Select and what it points to) or through package-level variables, neither directly nor in a callee; package-level variables it uses are reviewed as safe for concurrent use and never stored to outside init", 3)
	roots := c.perConnRoots()
	reach := c.reach(roots)
	sum := c.writeSummaries()
	// shared roots of a root function: its receiver unless it is the connection itself
	isShared := func(fn *ssa.Function, v ssa.Value) string {
		if g, ok := v.(*ssa.Global); ok {
			return "package variable " + globalName(g)
		}
		if p, ok := v.(*ssa.Parameter); ok && p.Parent().Signature.Recv() != nil && p == p.Parent().Params[0] {
			t := deref(p.Type())
			nm := namedName(t)
			// per-connection objects
			switch nm {
			case connStruct, "layer4.packetConn", "layer4.tlsConnection", "modules/l4throttle.throttledConn", "modules/l4tee.teeConn", "modules/l4tee.nextConn":
				return ""
			}
			return "shared instance " + nm
		}
		return ""
	}
	rootSet := map[*ssa.Function]bool{}
	for _, f := range roots {
		rootSet[f] = true
	}
	nviol := 0
	for _, fn := range sortedFuncs(reach) {
		name := fname(fn)
		if !rootSet[fn] {
			// non-root functions are judged through the summaries at the roots; but stores through globals count everywhere
			for _, b := range fn.Blocks {
				for _, in := range b.Instrs {
					if st, ok := in.(*ssa.Store); ok {
						for _, root := range addrRoots(st.Addr) {
							if g, ok := root.(*ssa.Global); ok {
								nviol++
								r.bad(rule, name, "store to "+globalName(g), c.ipos(st), "per-connection code stores to a package-level variable (shared by all connections) without synchronisation")
							}
						}
					}
				}
			}
			continue
		}
		for _, b := range fn.Blocks {
			for _, in := range b.Instrs {
				switch x := in.(type) {
				case *ssa.Store:
					if _, isAlloc := x.Addr.(*ssa.Alloc); isAlloc {
						continue
					}
					for _, root := range addrRoots(x.Addr) {
						if why := isShared(fn, root); why != "" {
							nviol++
							_, sn, f, _ := fieldAddr(x.Addr)
							r.bad(rule, name, "store "+sn+"."+f, c.ipos(x), "plain store into the "+why+" from per-connection code: data race between concurrent connections (and state leaking from one connection into another)")
						}
					}
				case *ssa.MapUpdate:
					for _, root := range addrRoots(x.Map) {
						if why := isShared(fn, root); why != "" {
							nviol++
							r.bad(rule, name, "map update", c.ipos(x), "map of the "+why+" updated from per-connection code without synchronisation")
						}
					}
				case ssa.CallInstruction:
					cc := x.Common()
					var targets []*ssa.Function
					if cc.IsInvoke() {
						targets = c.implsOf(cc.Value.Type(), cc.Method)
					} else if f := cc.StaticCallee(); f != nil {
						targets = []*ssa.Function{f}
					}
					var args []ssa.Value
					if cc.IsInvoke() {
						args = append(args, cc.Value)
					}
					args = append(args, cc.Args...)
					for _, t := range targets {
						for pi, site := range sum[t] {
							if pi >= len(args) {
								continue
							}
							for _, root := range addrRoots(args[pi]) {
								if why := isShared(fn, root); why != "" {
									nviol++
									r.bad(rule, name, "callee "+fname(t)+" writes arg", c.ipos(x), fmt.Sprintf("passes (part of) the %s to %s, which stores through that parameter at %s, without synchronisation", why, fname(t), site))
								}
							}
						}
					}
				}
			}
		}
	}
	// objects that hang off the provisioned configuration (a value loaded from a field of a configuration struct:
	// an upstream's TLS config, a matcher's compiled state) are shared by all connections wherever per-connection
	// code gets hold of them - also in helpers, also when the configuration object itself came out of a call
	isConfigStruct := func(t types.Type) bool {
		st, ok := t.Underlying().(*types.Struct)
		if !ok || !strings.HasPrefix(typeStr(t), "modules/") && !strings.HasPrefix(typeStr(t), "layer4.") {
			return false
		}
		for i := 0; i < st.NumFields(); i++ {
			if strings.Contains(st.Tag(i), "json:") {
				return true
			}
		}
		return false
	}
	var fromConfigField func(v ssa.Value, seen map[ssa.Value]bool) string
	fromConfigField = func(v ssa.Value, seen map[ssa.Value]bool) string {
		if v == nil || seen[v] {
			return ""
		}
		seen[v] = true
		switch x := v.(type) {
		case *ssa.Phi:
			for _, e := range x.Edges {
				if w := fromConfigField(e, seen); w != "" {
					return w
				}
			}
		case *ssa.ChangeType:
			return fromConfigField(x.X, seen)
		case *ssa.UnOp:
			if x.Op != token.MUL {
				return ""
			}
			if fa, ok := x.X.(*ssa.FieldAddr); ok && isConfigStruct(deref(fa.X.Type())) {
				if _, isPtr := x.Type().Underlying().(*types.Pointer); isPtr {
					return namedName(deref(fa.X.Type())) + "." + fieldName(deref(fa.X.Type()), fa.Field)
				}
			}
			if al, ok := x.X.(*ssa.Alloc); ok {
				for _, sv := range storesTo(al) {
					if w := fromConfigField(sv, seen); w != "" {
						return w
					}
				}
			}
		}
		return ""
	}
	for _, fn := range sortedFuncs(reach) {
		for _, ci := range callsIn(fn) {
			cc := ci.Common()
			t := cc.StaticCallee()
			if t == nil {
				continue
			}
			for pi, site := range sum[t] {
				if pi >= len(cc.Args) {
					continue
				}
				if w := fromConfigField(cc.Args[pi], map[ssa.Value]bool{}); w != "" {
					nviol++
					r.bad(rule, fname(fn), "callee "+fname(t)+" writes through "+w, c.ipos(ci), fmt.Sprintf("per-connection code passes what %s holds - an object of the provisioned configuration, shared by all connections - to %s, which stores through that parameter at %s: one connection's values leak into the others and concurrent connections race", w, fname(t), site))
				}
			}
		}
	}
	// globals used per connection must be reviewed; and no global is stored to outside init
	used := map[string]string{}
	for _, fn := range sortedFuncs(reach) {
		for _, b := range fn.Blocks {
			for _, in := range b.Instrs {
				var ops []*ssa.Value
				for _, op := range in.Operands(ops) {
					if g, ok := (*op).(*ssa.Global); ok && g.Pkg != nil && strings.HasPrefix(g.Pkg.Pkg.Path(), modPath) {
						if !strings.HasPrefix(g.Name(), "init$guard") {
							if _, ok := used[globalName(g)]; !ok {
								used[globalName(g)] = c.ipos(in) + " in " + fname(fn)
							}
						}
					}
				}
			}
		}
	}
	var gl []string
	for g := range used {
		gl = append(gl, g)
	}
	sort.Strings(gl)
	for _, g := range gl {
		why, ok := reviewedGlobals[g]
		if !ok {
			why, ok = c.valueLikeGlobal(g)
		}
		r.check(ok, rule, "module", "global "+g, used[g], "reviewed: "+why, "package-level variable "+g+" is used by per-connection code but is not in the reviewed table of variables safe for concurrent use (a shared mutable object - hasher, buffer, cache - makes connections interfere)")
	}
	// stores to module globals outside init
	for _, fn := range c.Funcs {
		if strings.HasPrefix(fn.Name(), "init") {
			continue
		}
		for _, b := range fn.Blocks {
			for _, in := range b.Instrs {
				if st, ok := in.(*ssa.Store); ok {
					if g, ok := st.Addr.(*ssa.Global); ok && g.Pkg != nil && strings.HasPrefix(g.Pkg.Pkg.Path(), modPath) {
						if _, ok := used[globalName(g)]; ok {
							nviol++
							r.bad(rule, fname(fn), "assigns "+globalName(g), c.ipos(st), "a package-level variable read by per-connection code is reassigned outside init")
						}
					}
				}
			}
		}
	}
	if nviol == 0 {
		r.ok(rule, "module", "no plain shared write", "-", fmt.Sprintf("%d per-connection functions (%d roots) scanned with write summaries of %d functions", len(reach), len(roots), len(sum)))
	}
}

func c08R3(c *Ctx, r *Report, rule string) {
	r.rule(rule, "pooled matching buffers: (a) where a buffer is taken from bufPool and returned in the same function without being handed to a Connection, no view of it is stored, returned or sent; (b) where it is handed to WrapConnection, bufPool.Put happens under exactly the guard of the connection's Close", 3)
	isPut := func(ci ssa.CallInstruction) bool {
		kind, pool, _ := poolOp(ci)
		return kind == "put" && pool != nil && globalName(pool) == "layer4.bufPool"
	}
	for _, fn := range c.Funcs {
		name := fname(fn)
		var gets []*ssa.Call
		var puts []ssa.CallInstruction
		collect := func(f *ssa.Function) {
			for _, ci := range callsIn(f) {
				kind, pool, _ := poolOp(ci)
				if pool == nil || globalName(pool) != "layer4.bufPool" {
					continue
				}
				switch kind {
				case "get":
					if call, ok := ci.(*ssa.Call); ok && f == fn {
						gets = append(gets, call)
					}
				case "put":
					puts = append(puts, ci)
				}
			}
		}
		if poolGetter(fn) != nil {
			continue // a wrapper that only hands out what it took from the pool: its callers carry the obligations
		}
		collect(fn)
		for _, d := range deferredCalls(fn) {
			if cl := closureOf(d.Call.Value); cl != nil && cl != fn {
				collect(cl)
			}
		}
		if len(gets) == 0 {
			continue
		}
		for gi, g := range gets {
			k := fmt.Sprintf("bufPool.Get#%d", gi+1)
			handed := false
			for _, ci := range callsIn(fn) {
				if calleeID(ci) == "layer4.WrapConnection" && len(ci.Common().Args) >= 2 && aliasDerives(ci.Common().Args[1], g) {
					handed = true
				}
			}
			if !handed {
				// (a) no retention
				bad := ""
				for _, b := range fn.Blocks {
					for _, in := range b.Instrs {
						switch x := in.(type) {
						case *ssa.Store:
							if _, isAlloc := x.Addr.(*ssa.Alloc); !isAlloc && aliasDerives(x.Val, g) {
								bad = "stored at " + c.ipos(x)
							}
						case *ssa.Return:
							for _, rv := range x.Results {
								if aliasDerives(rv, g) {
									bad = "returned at " + c.ipos(x)
								}
							}
						case *ssa.Send:
							if aliasDerives(x.X, g) {
								bad = "sent at " + c.ipos(x)
							}
						}
					}
				}
				r.check(bad == "", rule, name, k+" not retained", c.ipos(g), "the temporary pooled buffer is only read from and returned to the pool", "a view of the pooled buffer is "+bad+" although the buffer goes back to the pool when the function returns: the next connection's prefetch overwrites bytes this connection still refers to")
				continue
			}
			// (b) release consistency with Close
			var closeGuard, putGuard []string
			foundClose, foundPut := false, false
			guardOf := func(in ssa.Instruction) []string {
				var g []string
				for _, cd := range edgeConds(in.Block()) {
					d := "?"
					if cl, ok := cd.V.(*ssa.Call); ok {
						d = calleeID(cl)
						for _, a := range cl.Call.Args {
							for _, o := range origins(a, sliceOpts{}) {
								if o.Kind == "global" {
									d += "(" + o.Desc + ")"
								}
							}
						}
					}
					g = append(g, fmt.Sprintf("%s=%v", d, cd.Truth))
				}
				sort.Strings(g)
				return g
			}
			for _, d := range deferredCalls(fn) {
				if isPut(d) {
					foundPut = true
					putGuard = []string{}
				}
				if cl := closureOf(d.Call.Value); cl != nil {
					for _, ci := range callsIn(cl) {
						if isPut(ci) {
							foundPut = true
							putGuard = guardOf(ci)
						}
						if isInvoke(ci, "Close") {
							foundClose = true
							closeGuard = guardOf(ci)
						}
					}
				}
			}
			same := foundClose && foundPut && strings.Join(closeGuard, ";") == strings.Join(putGuard, ";")
			r.check(same, rule, name, k+" released with Close", c.ipos(g), "buffer returned to the pool exactly when the connection is closed (guard: ["+strings.Join(putGuard, ";")+"])", fmt.Sprintf("the pooled buffer handed to the Connection is returned under guard [%s] but the connection is closed under guard [%s]: a connection that lives on (hijacked by the wrapped listener) keeps reading from a buffer that another connection now fills", strings.Join(putGuard, ";"), strings.Join(closeGuard, ";")))
		}
	}
}

// goroutines that may outlive their starter, each reviewed (single named site with a reason)
var unjoinedReviewed = map[string]string{
	"modules/l4tee.(*Handler).Handle": "the branch connection reads only from the io.Pipe fed by the main chain's reads (teeConn.Read -> PipeReader), never from the original connection or its pooled buffer; when the main chain stops reading the branch blocks or sees EOF",
}

func c08R4(c *Ctx, r *Report, rule string) {
	r.rule(rule, "a goroutine started in handler-reachable code that can access the connection is joined before its starter returns: WaitGroup (Add before go, deferred Done, Wait afterwards) or a receive on a channel the goroutine sends to", 2)
	reach := c.reach(c.handlerRoots())
	for _, fn := range sortedFuncs(reach) {
		name := fname(fn)
		n := 0
		for _, b := range fn.Blocks {
			for _, in := range b.Instrs {
				g, ok := in.(*ssa.Go)
				if !ok {
					continue
				}
				cl := closureOf(g.Call.Value)
				// does it see a connection?
				sees := false
				var vals []ssa.Value
				vals = append(vals, g.Call.Args...)
				if mc, ok := g.Call.Value.(*ssa.MakeClosure); ok {
					vals = append(vals, mc.Bindings...)
				}
				for _, v := range vals {
					t := v.Type()
					if pt, ok := t.(*types.Pointer); ok && isConnPtr(pt.Elem()) {
						sees = true
					}
					if isConnPtr(t) {
						sees = true
					}
				}
				if cl != nil {
					for _, ci := range callsIn(cl) {
						for _, a := range ci.Common().Args {
							if isConnPtr(a.Type()) {
								sees = true
							}
						}
					}
				}
				if !sees {
					continue
				}
				n++
				k := fmt.Sprintf("go#%d", n)
				joined := ""
				if cl != nil {
					// waitgroup
					doneDeferred := false
					for _, d := range deferredCalls(cl) {
						if calleeID(d) == "(*sync.WaitGroup).Done" {
							doneDeferred = true
						}
					}
					if doneDeferred {
						for _, ci := range callsIn(fn) {
							if calleeID(ci) == "(*sync.WaitGroup).Wait" && pathAvoiding(g, func(i ssa.Instruction) bool { return i == ssa.Instruction(ci) }, nil) != nil {
								// every return after the go must pass the Wait
								if pathAvoiding(g, isReturn, func(i ssa.Instruction) bool { return i == ssa.Instruction(ci) }) == nil {
									joined = "WaitGroup.Wait at " + c.ipos(ci)
								}
							}
						}
					}
					// channel
					if joined == "" {
						for _, b2 := range cl.Blocks {
							for _, in2 := range b2.Instrs {
								if sd, ok := in2.(*ssa.Send); ok {
									id := chanID(sd.Chan)
									for _, b3 := range fn.Blocks {
										for _, in3 := range b3.Instrs {
											if u, ok := in3.(*ssa.UnOp); ok && u.Op == token.ARROW && chanID(u.X) == id {
												if pathAvoiding(g, isReturn, func(i ssa.Instruction) bool { return i == ssa.Instruction(u) }) == nil {
													joined = "receive at " + c.ipos(u)
												}
											}
										}
									}
								}
							}
						}
					}
				}
				if why, ok := unjoinedReviewed[name]; ok && joined == "" {
					r.ok(rule, name, k, c.ipos(g), "reviewed exception: "+why)
					continue
				}
				r.check(joined != "", rule, name, k, c.ipos(g), "joined by "+joined, "the goroutine started here can use the connection but is not joined before "+name+" returns: when the outer handle returns, the connection is closed and its pooled buffer recycled while the goroutine may still read it")
			}
		}
	}
}

func c08R5(c *Ctx, r *Report, rule string) {
	r.rule(rule, "Connection.Write, which the proxy calls concurrently from one goroutine per upstream peer, performs no plain store to the Connection", 1)
	fn := c.Fn("layer4.(*Connection).Write")
	if fn == nil {
		r.bad(rule, "layer4.(*Connection).Write", "exists", "-", "function not found")
		return
	}
	bad := ""
	for _, b := range fn.Blocks {
		for _, in := range b.Instrs {
			if st, ok := in.(*ssa.Store); ok {
				if _, sn, f, ok := fieldAddr(st.Addr); ok && sn == connStruct {
					bad = "plain store to " + f + " at " + c.ipos(st)
				}
			}
		}
	}
	r.check(bad == "", rule, fname(fn), "no plain store", c.pos(fn.Pos()), "Write updates its counter atomically only", bad+": data race when an upstream has several peers")
}

// ---------- C09 ----------

func runC09(c *Ctx, r *Report) {
	c09R1(c, r, "C09.R1")
	c09R2(c, r, "C09.R2")
	c09R3(c, r, "C09.R3")
	c09R4(c, r, "C09.R4")
	c09R5(c, r, "C09.R5")
	c09R6(c, r, "C09.R6")
	c09R7(c, r, "C09.R7")
	c09R8(c, r, "C09.R8")
	c09R9(c, r, "C09.R9")
	c09Reader(c, r, "C09.R10")
	nilFieldContradictions(c, r, "C09.R11", 1, func(fn *ssa.Function) bool { // the server loop and the virtual connection: a nil timer ends the loop
		return fn.Pkg != nil && fn.Pkg.Pkg.Path() == modPath+"/layer4"
	})
	c09ServerOwnsClose(c, r, "C09.R14")
	c09SourceAddress(c, r, "C09.R15")
	c09EmptyDatagram(c, r, "C09.R16")
	c09CloseIdentity(c, r, "C09.R17")
	c09DatagramNotDropped(c, r, "C09.R18")
	c09UDPPoolLength(c, r, "C09.R19")
	c09CloseOnce(c, r, "C09.R20")
	c09DiscardOnlyUnaddressed(c, r, "C09.R21")
	c05UDPWaits(c, r, "C09.R22") // a wait that nothing but a datagram ends keeps the association (and its table entry) for ever
	c09FreshAfterEnd(c, r, "C09.R23")
	c09IdleTimerDrained(c, r, "C09.R24")
	c09NoticeMeansEnd(c, r, "C09.R25")
	c09NoticeMeansEnd(c, r, "C09.R25")
	c05R7(c, r, "C09.R12")          // setting the deadline of a virtual connection never blocks (the association's handler, its queue and then the server loop would wait with it)
	c05UDPDeadline(c, r, "C09.R13") // ... and arms the timer that wakes a waiting Read
}

func c09R1(c *Ctx, r *Report, rule string) {
	r.rule(rule, "channel close ownership: every close(ch) in the module is either on a channel nobody sends on, in the function that contains all sends on it, or dominated by a WaitGroup.Wait() that joins the sending goroutines", 3)
	uses := c.channelUses()
	var ids []string
	for id := range uses {
		ids = append(ids, id)
	}
	sort.Strings(ids)
	for _, id := range ids {
		var closes, sends []chanUse
		for _, u := range uses[id] {
			switch {
			case u.kind == "close":
				closes = append(closes, u)
			case strings.Contains(u.kind, "send"):
				sends = append(sends, u)
			}
		}
		for i, cl := range closes {
			k := fmt.Sprintf("close(%s)#%d", id, i+1)
			name := fname(cl.fn)
			if id == "" {
				r.bad(rule, name, k, c.ipos(cl.in), "undecided: the closed channel could not be identified")
				continue
			}
			if len(sends) == 0 {
				r.ok(rule, name, k, c.ipos(cl.in), "no send on this channel anywhere in the module")
				continue
			}
			allSame := true
			var others []string
			for _, s := range sends {
				if s.fn != cl.fn {
					allSame = false
					others = append(others, fname(s.fn)+" ("+c.ipos(s.in)+")")
				}
			}
			waited := false
			for _, ci := range callsIn(cl.fn) {
				if calleeID(ci) == "(*sync.WaitGroup).Wait" && dominates(ci, cl.in) {
					waited = true
				}
			}
			switch {
			case allSame:
				r.ok(rule, name, k, c.ipos(cl.in), "all sends are in the closing function")
			case waited:
				r.ok(rule, name, k, c.ipos(cl.in), "closed after WaitGroup.Wait() joined the senders")
			default:
				r.bad(rule, name, k, c.ipos(cl.in), "the channel is closed here while "+strings.Join(others, ", ")+" sends on it without being joined first: a send after the close panics ('send on closed channel') and, outside any recover, kills the whole server")
			}
		}
	}
}

func c09R2(c *Ctx, r *Report, rule string) {
	r.rule(rule, "association key agreement in servePacket: the table is looked up and filled with <datagram source address>.String(), cleaned with the key received on the close-notification channel (the address string, or the address string of the connection received there), and every notification sent on that channel is <the virtual connection's addr>.String() or the connection itself", 4)
	fn := c.Fn("layer4.(*Server).servePacket")
	if fn == nil {
		r.bad(rule, "layer4.(*Server).servePacket", "exists", "-", "function not found")
		return
	}
	name := fname(fn)
	var isAddrString func(v ssa.Value, structName, field string) bool
	isAddrString = func(v ssa.Value, structName, field string) bool {
		call, ok := v.(*ssa.Call)
		if !ok || !call.Call.IsInvoke() || call.Call.Method.Name() != "String" {
			return false
		}
		if _, ok = loadOfField(call.Call.Value, structName, field); ok {
			return true
		}
		// in a helper the address is a parameter: what every caller passes
		if par, isPar := call.Call.Value.(*ssa.Parameter); isPar {
			h := par.Parent()
			sites, escapes := c.callSitesOf(h)
			idx := paramIndex(h, par)
			if escapes || len(sites) == 0 || idx < 0 {
				return false
			}
			for _, cs := range sites {
				if idx >= len(cs.Common().Args) {
					return false
				}
				if _, ok := loadOfField(cs.Common().Args[idx], structName, field); !ok {
					return false
				}
			}
			return true
		}
		return false
	}
	n := 0
	var tbl ssa.Value
	// servePacket and the helpers of its package it calls synchronously
	var scan []*ssa.BasicBlock
	for _, h := range sortedFuncs(c.reachSync(fn)) {
		if h == fn || (h.Pkg == fn.Pkg && !token.IsExported(h.Name()) && !strings.Contains(fname(h), "(*Connection)")) {
			scan = append(scan, h.Blocks...)
		}
	}
	for _, b := range scan {
		for _, in := range b.Instrs {
			switch x := in.(type) {
			case *ssa.Lookup:
				if _, ok := x.X.Type().Underlying().(*types.Map); ok {
					n++
					tbl = x.X
					r.check(isAddrString(x.Index, "layer4.packet", "addr") || isAddrString(x.Index, "layer4.packetConn", "addr"), rule, name, fmt.Sprintf("lookup#%d", n), c.ipos(x), "looked up by the address string of the datagram's source (or of the connection that notified)", "the association table is looked up with a key that is not <datagram addr>.String()")
				}
			case *ssa.MapUpdate:
				n++
				r.check(isAddrString(x.Key, "layer4.packet", "addr"), rule, name, fmt.Sprintf("insert#%d", n), c.ipos(x), "inserted under the datagram's source address string", "the association is stored under a key that is not <datagram addr>.String(): later datagrams of the client do not find it")
				// an entry is written only where the lookup found none: an existing entry - also one whose association
				// has just ended - is removed by its own end-of-association notification; overwriting it lets that
				// pending notification remove the new association, and the client's later datagrams start a second
				// one next to it
				missed := false
				for _, cd := range edgeConds(x.Block()) {
					if ex, ok := cd.V.(*ssa.Extract); ok && ex.Index == 1 && !cd.Truth {
						if lk, ok := ex.Tuple.(*ssa.Lookup); ok && lk.CommaOk {
							if _, isMap := lk.X.Type().Underlying().(*types.Map); isMap {
								missed = true
							}
						}
					}
				}
				r.check(missed, rule, name, fmt.Sprintf("insert#%d only after a miss", n), c.ipos(x), "the entry is written on the not-found edge of the table lookup", "the association table entry is written where the lookup may have found an entry (the write is not on the lookup's not-found edge): an association that still has its end notification pending is overwritten, the notification then removes the new one, and the client ends up with two live virtual connections")
			case *ssa.Call:
				if calleeID(x) == "builtin delete" {
					n++
					// key must come from a receive (select) on the closeCh
					os := origins(x.Call.Args[1], sliceOpts{})
					fromSelect := false
					for _, o := range os {
						if _, ok := o.V.(*ssa.Select); ok {
							fromSelect = true
						}
						if o.Kind == "other" && strings.Contains(o.Desc, "Select") {
							fromSelect = true
						}
					}
					// ... or is the address string of the connection received there
					if call, ok := x.Call.Args[1].(*ssa.Call); ok && !fromSelect && isAddrString(call, "layer4.packetConn", "addr") {
						if ld, ok := call.Call.Value.(*ssa.UnOp); ok {
							if base, _, _, ok := fieldAddr(ld.X); ok {
								for _, o := range origins(base, sliceOpts{}) {
									if _, ok := o.V.(*ssa.Select); ok || o.Kind == "other" && strings.Contains(o.Desc, "Select") {
										fromSelect = true
									}
									// in a helper the connection is a parameter: what every caller passes
									if par, isPar := o.V.(*ssa.Parameter); isPar && par.Parent() != nil {
										h := par.Parent()
										sites, escapes := c.callSitesOf(h)
										idx := paramIndex(h, par)
										all := !escapes && len(sites) > 0 && idx >= 0
										for _, cs := range sites {
											got := false
											if all && idx < len(cs.Common().Args) {
												for _, o2 := range origins(cs.Common().Args[idx], sliceOpts{}) {
													if _, ok := o2.V.(*ssa.Select); ok || o2.Kind == "other" && strings.Contains(o2.Desc, "Select") {
														got = true
													}
												}
											}
											if !got {
												all = false
											}
										}
										if all {
											fromSelect = true
										}
									}
								}
							}
						}
					}
					r.check(fromSelect, rule, name, fmt.Sprintf("delete#%d", n), c.ipos(x), "deleted by the key received on the close-notification channel (or the address of the connection received there)", "the association is deleted by a key that does not come from the close-notification channel")
				}
			}
		}
	}
	_ = tbl
	// the table is consulted, filled and cleaned: one of each at least
	kinds := map[string]int{}
	for _, o := range r.Obls {
		if o.Rule == rule {
			for _, k := range []string{"lookup#", "insert#", "delete#"} {
				if strings.Contains(o.Key, "|"+k) {
					kinds[k]++
				}
			}
		}
	}
	r.check(kinds["lookup#"] >= 1 && kinds["insert#"] >= 1 && kinds["delete#"] >= 1, rule, name, "table is looked up, filled and cleaned", c.pos(fn.Pos()), fmt.Sprintf("%d lookup(s), %d insert(s), %d delete(s)", kinds["lookup#"], kinds["insert#"], kinds["delete#"]),
		fmt.Sprintf("the association table has %d lookup(s), %d insert(s), %d delete(s): without an insert every datagram starts a new virtual connection, without a delete a finished association swallows the client's later datagrams", kinds["lookup#"], kinds["insert#"], kinds["delete#"]))
	// notifications
	uses := c.channelUses()
	m := 0
	for _, u := range uses["field layer4.packetConn.closeCh"] {
		if !strings.Contains(u.kind, "send") {
			continue
		}
		m++
		var val ssa.Value
		if sd, ok := u.in.(*ssa.Send); ok {
			val = sd.X
		} else if sel, ok := u.in.(*ssa.Select); ok {
			for _, st := range sel.States {
				if st.Dir == types.SendOnly {
					val = st.Send
				}
			}
		}
		isSelf := false // the connection notifies with itself (the loop derives the key from it)
		if par, ok := val.(*ssa.Parameter); ok && len(u.fn.Params) > 0 && par == u.fn.Params[0] && strings.HasSuffix(typeStr(par.Type()), "layer4.packetConn") {
			isSelf = true
		}
		r.check(val != nil && (isSelf || isAddrString(val, "layer4.packetConn", "addr")), rule, fname(u.fn), fmt.Sprintf("notify#%d", m), c.ipos(u.in), "notifies with the connection's address string (or the connection itself)", "the end-of-association notification does not carry <pc.addr>.String(): the association is never removed (or a wrong one is)")
	}
	if m == 0 {
		r.bad(rule, "layer4.packetConn", "notify", "-", "no end-of-association notification found")
	}
}

func c09R3(c *Ctx, r *Report, rule string) {
	r.rule(rule, "replies: packetConn.Write calls WriteTo(b, pc.addr) with its own argument; packetConn.addr is stored only in the literal that creates the association, from the first datagram's source address", 2)
	fn := c.Fn("layer4.(*packetConn).Write")
	if fn == nil {
		r.bad(rule, "layer4.(*packetConn).Write", "exists", "-", "function not found")
	} else {
		good := false
		for _, ci := range callsIn(fn) {
			if isInvoke(ci, "WriteTo") {
				args := ci.Common().Args
				_, okAddr := loadOfField(args[1], "layer4.packetConn", "addr")
				good = okAddr && args[0] == ssa.Value(fn.Params[1])
			}
		}
		r.check(good, rule, fname(fn), "WriteTo(b, pc.addr)", c.pos(fn.Pos()), "replies go to the stored client address", "Write does not send its argument to the stored client address")
	}
	n, bad := 0, ""
	for _, f := range c.Funcs {
		for _, st := range storesToField(f, "layer4.packetConn", "addr") {
			n++
			fa, _ := st.Addr.(*ssa.FieldAddr)
			al, isLit := fa.X.(*ssa.Alloc)
			fromPkt := c.valueIsFieldLoad(f, st.Val, "layer4.packet", "addr", 0)
			if !(isLit && strings.Contains(al.Comment, "complit") && fromPkt) {
				bad = c.ipos(st) + " in " + fname(f)
			}
		}
	}
	r.check(n >= 1 && bad == "", rule, "layer4.packetConn", "addr written once", "-", "the client address is fixed when the association is created", "packetConn.addr is (re)written at "+bad+": replies can go to another client")
}

func c09R4(c *Ctx, r *Report, rule string) {
	r.rule(rule, "one ordered reader: a single ReadFrom site, in a goroutine started outside any loop of servePacket; every received datagram is sent to exactly one per-client queue; App.Start starts one servePacket per PacketConn returned by ListenAll (never from the accumulated list)", 3)
	n := 0
	for _, fn := range c.Funcs {
		for _, ci := range callsIn(fn) {
			if isInvoke(ci, "ReadFrom") {
				n++
				// the reader: a closure of servePacket, or a function of its own, started with go by servePacket outside every loop
				good := false
				if sp := c.Fn("layer4.(*Server).servePacket"); sp != nil {
					for _, b := range sp.Blocks {
						for _, in := range b.Instrs {
							if g, ok := in.(*ssa.Go); ok && (closureOf(g.Call.Value) == fn || g.Call.StaticCallee() == fn) && !inLoop(b) {
								good = true
							}
						}
					}
				}
				r.check(good, rule, fname(fn), fmt.Sprintf("ReadFrom#%d", n), c.ipos(ci), "socket read by the single reader goroutine of servePacket", "the socket is read outside the single reader goroutine started once by servePacket: datagrams are split between readers and reordered")
			}
		}
	}
	// one send per datagram to a per-client queue
	if fn := c.Fn("layer4.(*Server).servePacket"); fn != nil {
		var sends []ssa.Value // the channel operands of the forwarding sends
		nonBlocking := false
		for _, b := range fn.Blocks {
			for _, in := range b.Instrs {
				if sd, ok := in.(*ssa.Send); ok && chanID(sd.Chan) == "field layer4.packetConn.readCh" {
					sends = append(sends, sd.Chan)
				}
				if sel, ok := in.(*ssa.Select); ok {
					for _, st := range sel.States {
						if st.Dir == types.SendOnly && chanID(st.Chan) == "field layer4.packetConn.readCh" {
							sends = append(sends, st.Chan)
							if !sel.Blocking {
								nonBlocking = true
							}
						}
					}
				}
			}
		}
		// the hand-over as a method of the association (or a helper given it): the send is on the queue of the value
		// the loop passes
		for _, ci := range callsIn(fn) {
			call, ok := ci.(*ssa.Call)
			if !ok {
				continue
			}
			g := call.Call.StaticCallee()
			if g == nil || g.Pkg != fn.Pkg || len(g.Blocks) == 0 {
				continue
			}
			for _, b := range g.Blocks {
				for _, in := range b.Instrs {
					var chans []ssa.Value
					blocking := true
					switch x := in.(type) {
					case *ssa.Send:
						chans = append(chans, x.Chan)
					case *ssa.Select:
						for _, st := range x.States {
							if st.Dir == types.SendOnly {
								chans = append(chans, st.Chan)
								blocking = x.Blocking
							}
						}
					}
					for _, ch := range chans {
						if chanID(ch) != "field layer4.packetConn.readCh" {
							continue
						}
						mapped := false
						for _, rt := range addrRoots(ch) {
							if pr, ok := rt.(*ssa.Parameter); ok {
								if j := paramIndex(g, pr); j >= 0 && j < len(call.Call.Args) {
									sends = append(sends, call.Call.Args[j])
									mapped = true
								}
							}
						}
						if !mapped {
							sends = append(sends, ch)
						}
						if !blocking {
							nonBlocking = true
						}
					}
				}
			}
		}
		good := len(sends) == 1 && !nonBlocking
		detail := fmt.Sprintf("%d sends to per-client queues per loop iteration (non-blocking: %v)", len(sends), nonBlocking)
		if good {
			// the queue belongs to the looked-up or freshly created association
			roots := addrRoots(sends[0])
			okRoot := len(roots) > 0
			for _, rt := range roots {
				switch x := rt.(type) {
				case *ssa.Alloc:
					okRoot = okRoot && namedName(deref(x.Type())) == "layer4.packetConn"
				case *ssa.Lookup:
				case *ssa.Extract:
				case *ssa.Call:
					// a constructor helper: every value it returns is a fresh packetConn
					cal := x.Call.StaticCallee()
					isCtor := cal != nil && len(returnsOf(cal)) > 0
					if isCtor {
						// every *packetConn it returns is freshly created or found in a table of associations
						for _, rv := range returnsOf(cal) {
							for _, res := range rv.Results {
								if namedName(deref(res.Type())) != "layer4.packetConn" {
									continue
								}
								if !assocValue(res, map[ssa.Value]bool{}) {
									isCtor = false
								}
							}
						}
					}
					if !isCtor {
						okRoot = false
						detail = "queue derived from the result of " + calleeID(x)
					}
				default:
					if _, isLk := rt.(*ssa.MakeMap); !isLk {
						okRoot = false
						detail = fmt.Sprintf("queue derived from %T", rt)
					}
				}
			}
			good = okRoot
		}
		r.check(good, rule, fname(fn), "forward to one queue", c.pos(fn.Pos()), "each datagram is forwarded to the queue of the association found or created for its source address", "datagram forwarding is not a single send to the association's queue: "+detail)
	}
	// every place that starts a serve loop (App.Start or a helper of it)
	{
		found, good, detail := false, true, ""
		where := "layer4.(*App).Start"
		check := func(arg ssa.Value, at ssa.Instruction) {
			found = true
			for _, o := range origins(arg, sliceOpts{}) {
				if (o.Kind == "field" || o.Kind == "fieldaddr") && strings.HasSuffix(o.Desc, ".packetConns") {
					good = false
					detail = "servePacket is started for elements of the accumulated App.packetConns list at " + c.ipos(at) + ": a socket gets a second serve loop"
				}
			}
		}
		for _, f := range c.Funcs {
			for _, ci := range callsIn(f) {
				if calleeID(ci) != "layer4.(*Server).servePacket" {
					continue
				}
				where = fname(f)
				arg := ci.Common().Args[1]
				if _, isGo := ci.(*ssa.Go); isGo {
					check(arg, ci)
					continue
				}
				// inside a closure the socket is the closure's parameter: map to the go site's argument
				p, isParam := arg.(*ssa.Parameter)
				if f.Parent() == nil {
					found, good, detail = true, false, "servePacket is called synchronously in "+fname(f)
					continue
				}
				if !isParam {
					check(arg, ci) // a captured variable: followed to what the enclosing function bound
				}
				started := false
				for _, pci := range callsIn(f.Parent()) {
					if closureOf(pci.Common().Value) == f {
						idx := -1
						if isParam {
							idx = paramIndex(f, p)
						}
						if idx >= 0 && idx < len(pci.Common().Args) {
							check(pci.Common().Args[idx], pci)
						}
						if _, isGo := pci.(*ssa.Go); isGo {
							started = true
						}
					}
				}
				if !started {
					good, detail = false, "the closure calling servePacket is not started with go"
				}
			}
		}
		r.check(found && good, rule, "layer4.(*App).Start", "one serve loop per socket", "-", "servePacket is started (in "+where+") with the PacketConn of the current listener", "servePacket start site not found or wrong: "+detail)
	}
}

func c09R5(c *Ctx, r *Report, rule string) {
	r.rule(rule, "end-of-association notifications on the close-notification channel are blocking sends; none is a select with default (which would drop it when the channel is full); both packetConn.Close and packetConn.Read (idle expiry) reach such a send", 3)
	uses := c.channelUses()
	n := 0
	sendFns := map[*ssa.Function]bool{}
	for _, u := range uses["field layer4.packetConn.closeCh"] {
		if strings.Contains(u.kind, "send") {
			sendFns[u.fn] = true
		}
	}
	for _, m := range []string{"layer4.(*packetConn).Close", "layer4.(*packetConn).Read"} {
		mf := c.Fn(m)
		found := false
		if mf != nil {
			for f := range c.reach([]*ssa.Function{mf}) {
				if sendFns[f] {
					found = true
				}
			}
		}
		r.check(found, rule, m, "notifies the server loop", "-", "a send on the close-notification channel is reachable", "no send on the close-notification channel is reachable from "+m+": the association is never removed from the table")
	}
	for _, u := range uses["field layer4.packetConn.closeCh"] {
		if !strings.Contains(u.kind, "send") {
			continue
		}
		n++
		r.check(u.kind != "select-send-nonblocking", rule, fname(u.fn), fmt.Sprintf("notify#%d", n), c.ipos(u.in), "blocking send", "the notification is sent in a select with default: when the channel is full it is dropped, the dead association stays in the table and the next datagram of that client is sent on its closed queue (panic)")
	}
}

// c08R6: a connection starts with an empty matching buffer. The pool hands out slices of whatever length
// they were put back with (prefetch returns its scratch chunk with its full length), so the taker must
// truncate: the buffer given to WrapConnection has length 0 (decided by the bounds prover).
func c08R6(c *Ctx, r *Report, rule string) {
	r.rule(rule, "every buffer handed to WrapConnection in the module's non-test code has length 0 (proven): bytes that another connection left in a recycled slice are never part of a new connection's matching buffer", 2)
	n := 0
	for _, fn := range c.Funcs {
		if len(fn.Blocks) == 0 {
			continue
		}
		var p *prover
		for _, ci := range callsIn(fn) {
			if calleeID(ci) != "layer4.WrapConnection" {
				continue
			}
			n++
			if p == nil {
				p = newProver(c, fn)
			}
			l := p.lenOf(ci.Common().Args[1])
			ok := l.ok && p.entails(ci.Block(), l, 0)
			r.check(ok, rule, fname(fn), fmt.Sprintf("WrapConnection#%d buffer", n), c.ipos(ci), "len(buf) = 0 proven", "the buffer given to the new connection is not proven empty: a slice recycled through the pool keeps the length it was returned with, so the connection's matchers and handlers would first see another connection's bytes")
		}
	}
}

// valueIsFieldLoad: v is a load of struct.field, or a parameter of an unexported helper to which every
// caller passes such a load.
func (c *Ctx) valueIsFieldLoad(fn *ssa.Function, v ssa.Value, structName, field string, depth int) bool {
	if _, ok := loadOfField(v, structName, field); ok {
		return true
	}
	par, ok := v.(*ssa.Parameter)
	if !ok || depth > 2 || token.IsExported(fn.Name()) {
		return false
	}
	sites, escapes := c.callSitesOf(fn)
	idx := paramIndex(fn, par)
	if escapes || len(sites) == 0 || idx < 0 {
		return false
	}
	for _, cs := range sites {
		if idx >= len(cs.Common().Args) || !c.valueIsFieldLoad(cs.Parent(), cs.Common().Args[idx], structName, field, depth+1) {
			return false
		}
	}
	return true
}

// c09R6: queued datagrams do not alias. Everything put on a queue from inside a loop (the datagram
// record sent by pointer to a client's queue, the pooled buffer inside the record sent by the reader
// goroutine) is storage obtained in the same loop iteration.
func c09R6(c *Ctx, r *Report, rule string) {
	r.rule(rule, "queued datagrams do not alias: a pointer sent on a per-client queue from the serve loop addresses a variable allocated inside the loop (one per datagram), and the buffer of every datagram record the reader goroutine queues comes from a pool Get / allocation made in the same iteration", 2)
	fn := c.Fn("layer4.(*Server).servePacket")
	if fn == nil {
		r.bad(rule, "layer4.(*Server).servePacket", "exists", "-", "function not found")
		return
	}
	type sendSite struct {
		ch, val ssa.Value
		in      ssa.Instruction
		fn      *ssa.Function
	}
	var sends []sendSite
	scanned := map[*ssa.Function]bool{}
	var scan func(f *ssa.Function)
	scan = func(f *ssa.Function) {
		for _, b := range f.Blocks {
			for _, in := range b.Instrs {
				switch x := in.(type) {
				case *ssa.Send:
					sends = append(sends, sendSite{x.Chan, x.X, in, f})
				case *ssa.Select:
					for _, st := range x.States {
						if st.Dir == types.SendOnly {
							sends = append(sends, sendSite{st.Chan, st.Send, in, f})
						}
					}
				}
			}
		}
		for _, a := range f.AnonFuncs {
			scan(a)
		}
		// a helper of the package called in place from a loop: what it sends of its parameters is what the caller
		// passes, sent where the call stands
		for _, ci := range callsIn(f) {
			call, ok := ci.(*ssa.Call)
			if !ok {
				continue
			}
			g := call.Call.StaticCallee()
			if g == nil || g.Pkg != f.Pkg || len(g.Blocks) == 0 || g == f || !inLoop(call.Block()) {
				continue
			}
			for _, b := range g.Blocks {
				for _, in := range b.Instrs {
					var pairs [][2]ssa.Value
					switch x := in.(type) {
					case *ssa.Send:
						pairs = append(pairs, [2]ssa.Value{x.Chan, x.X})
					case *ssa.Select:
						for _, st := range x.States {
							if st.Dir == types.SendOnly {
								pairs = append(pairs, [2]ssa.Value{st.Chan, st.Send})
							}
						}
					}
					for _, pr := range pairs {
						if pp, ok := pr[1].(*ssa.Parameter); ok {
							if j := paramIndex(g, pp); j >= 0 && j < len(call.Call.Args) {
								sends = append(sends, sendSite{pr[0], call.Call.Args[j], call, f})
							}
						}
					}
				}
			}
		}
		// goroutines started as functions of their own
		for _, ci := range callsIn(f) {
			if g, ok := ci.(*ssa.Go); ok {
				if cal := g.Call.StaticCallee(); cal != nil && cal.Pkg == f.Pkg && cal.Parent() == nil && !scanned[cal] {
					scanned[cal] = true
					scan(cal)
				}
			}
		}
	}
	scan(fn)
	n := 0
	for _, sd := range sends {
		if !inLoop(sd.in.Block()) {
			continue
		}
		et := sd.ch.Type().Underlying().(*types.Chan).Elem()
		switch et.Underlying().(type) {
		case *types.Pointer:
			n++
			k := fmt.Sprintf("pointer sent on %s#%d", chanID(sd.ch), n)
			good, detail := true, ""
			for _, rt := range addrRoots(sd.val) {
				al, ok := rt.(*ssa.Alloc)
				if !ok {
					good, detail = false, fmt.Sprintf("the pointer is derived from %T %s, not from a variable of the loop body", rt, rt.Name())
					continue
				}
				if !inLoop(al.Block()) {
					good, detail = false, "the pointer addresses variable '"+al.Comment+"' allocated once outside the loop: every queued datagram is the same record, overwritten by the next one (also another client's)"
				}
			}
			r.check(good, rule, fname(sd.fn), k, c.ipos(sd.in), "addresses a variable allocated per iteration", detail)
		case *types.Struct:
			// a record sent by value: its slice fields must be obtained in the same iteration
			var parts []ssa.Value
			var allocs []*ssa.Alloc
			if ld, ok := sd.val.(*ssa.UnOp); ok && ld.Op == token.MUL {
				if al, ok := ld.X.(*ssa.Alloc); ok {
					allocs = append(allocs, al)
				}
			}
			for _, al := range allocs {
				{
					for _, b := range sd.fn.Blocks {
						for _, in := range b.Instrs {
							if st, ok := in.(*ssa.Store); ok {
								if base, _, _, ok := fieldAddr(st.Addr); ok && base == ssa.Value(al) {
									if _, isSl := st.Val.Type().Underlying().(*types.Slice); isSl {
										parts = append(parts, st.Val)
									}
								}
							}
						}
					}
				}
			}
			for _, pv := range parts {
				n++
				k := fmt.Sprintf("buffer in record sent on %s#%d", chanID(sd.ch), n)
				good, detail := true, ""
				for _, rt := range addrRoots(pv) {
					in, ok := rt.(ssa.Instruction)
					if !ok || in.Block() == nil || !inLoop(in.Block()) {
						good, detail = false, fmt.Sprintf("the buffer queued with every datagram comes from %s, obtained outside the loop: the next socket read overwrites datagrams that are still queued", rt.Name())
					}
				}
				r.check(good, rule, fname(sd.fn), k, c.ipos(sd.in), "buffer obtained in the same iteration", detail)
			}
		}
	}
}

// c09R7: path evaluation of packetConn.Read on concrete sizes - a datagram of 5 bytes in a pooled buffer of 9000, read
// with a caller buffer of 3, 5 and 8 bytes, and a continued datagram with 2 bytes left, read with 1, 2 and 4. The
// count returned is min(len(b), remaining); the pooled buffer goes back to the pool exactly when nothing remains;
// otherwise record and a reader over exactly the remaining bytes are kept for the next Read.
func c09R7(c *Ctx, r *Report, rule string) {
	r.rule(rule, "path evaluation of packetConn.Read over {fresh 5-byte datagram, continued datagram with 2 bytes left} x {caller's buffer smaller than / exactly / larger than the remaining bytes}: returns min(len(b), remaining) bytes; the pooled buffer is returned to the pool iff the datagram is exhausted, otherwise record and a reader over exactly the remaining bytes are retained; a datagram is never both", 6)
	fnName := "layer4.(*packetConn).Read"
	fn := c.Fn(fnName)
	if fn == nil {
		r.bad(rule, fnName, "exists", "-", "function not found")
		return
	}
	type tc struct {
		cont      bool
		lenb      int64
		remaining int64
	}
	var cases []tc
	for _, lb := range []int64{3, 5, 8} {
		cases = append(cases, tc{false, lb, 5})
	}
	for _, lb := range []int64{1, 2, 4} {
		cases = append(cases, tc{true, lb, 2})
	}
	for _, t := range cases {
		t := t
		name := fmt.Sprintf("continued=%v,len(b)=%d,remaining=%d", t.cont, t.lenb, t.remaining)
		sc := &Scenario{Name: name, MaxVisit: 3,
			Heap:   map[string]SV{},
			Params: map[string]SV{"recv": symRef("recv", false), "p0": symSlice("b", t.lenb)},
			Inline: func(f *ssa.Function) bool { return strings.HasPrefix(fname(f), "layer4.") && f != fn },
		}
		sc.Call = func(callee string, args []SV, ev *symEval, st *symState) (SV, bool) {
			switch callee {
			case "bytes.NewReader":
				if args[0].Len == nil || !args[0].Len.Known {
					return SV{}, false
				}
				id := ev.fresh("reader")
				st.heap["remaining:"+id] = *args[0].Len
				st.heap["made:"+id] = *args[0].Len
				return SV{K: "ref", Known: true, Desc: id}, true
			case "(*bytes.Reader).Read":
				rem, ok := st.heap["remaining:"+args[0].Desc]
				if !ok || args[1].Len == nil || !args[1].Len.Known {
					return SV{}, false
				}
				n := rem.N
				if args[1].Len.N < n {
					n = args[1].Len.N
				}
				st.heap["remaining:"+args[0].Desc] = symInt(rem.N - n)
				return SV{K: "tuple", Desc: "rd", Elems: []SV{symInt(n), symNil()}}, true
			case "(*bytes.Reader).Len":
				if v, ok := st.heap["remaining:"+args[0].Desc]; ok {
					return v, true
				}
			case "builtin copy":
				if args[0].Len != nil && args[0].Len.Known && args[1].Len != nil && args[1].Len.Known {
					n := args[0].Len.N
					if args[1].Len.N < n {
						n = args[1].Len.N
					}
					return symInt(n), true
				}
			case "layer4.isDeadlineExceeded":
				return symBool(false), true
			}
			return SV{}, false
		}
		if t.cont {
			sc.Heap["recv.lastPacket"] = symRef("lastPkt", false)
			sc.Heap["recv.lastBuf"] = symRef("lastRd", false)
			sc.Heap["remaining:lastRd"] = symInt(t.remaining)
			sc.Heap["lastPkt.pooledBuf"] = symSliceCap("lastPkt.pooledBuf", 9000, 9000)
			sc.Heap["lastPkt.n"] = symInt(5)
		} else {
			sc.Heap["recv.lastPacket"] = symNil()
			sc.Heap["recv.lastBuf"] = symNil()
		}
		sc.Heap["recv.idleTimer"] = symRef("idle", false)
		sc.Heap["recv.deadlineTimer"] = symRef("dl", false)
		// the datagram a receive from the queue delivers
		sc.Heap["pkt.pooledBuf"] = symSliceCap("pkt.pooledBuf", 9000, 9000)
		sc.Heap["pkt.n"] = symInt(5)
		sc.Recv = func(ch SV) (SV, bool) {
			if strings.HasSuffix(ch.Desc, ".readCh") {
				return symRef("pkt", false), true
			}
			return SV{}, false
		}
		paths, err := evalPaths(fn, sc)
		if err != nil || len(paths) == 0 {
			r.bad(rule, fnName, name, c.pos(fn.Pos()), fmt.Sprintf("undecided: %v", err))
			continue
		}
		var problems []string
		delivered := 0
		for _, p := range paths {
			if p.Outcome != "return" || len(p.Ret) != 2 {
				continue
			}
			// only the paths on which a datagram was delivered (not closed / idle / deadline)
			if !(p.Ret[1].Known && p.Ret[1].Nil) {
				continue
			}
			fired := selectFired(p)
			if !t.cont {
				got := false
				for _, f := range fired {
					if strings.Contains(f, "readCh") {
						got = true
					}
				}
				if !got {
					continue
				}
			}
			delivered++
			want := t.lenb
			if t.remaining < want {
				want = t.remaining
			}
			if !(p.Ret[0].K == "int" && p.Ret[0].Known && p.Ret[0].N == want) {
				problems = append(problems, fmt.Sprintf("returns n=%s, the caller must get min(len(b), remaining) = %d bytes", p.Ret[0].Desc, want))
			}
			puts := 0
			for _, e := range p.Trace {
				if e.Kind == "call" && e.What == "(*sync.Pool).Put" {
					puts++
				}
			}
			lp, lb := p.Heap["recv.lastPacket"], p.Heap["recv.lastBuf"]
			retained := !(lp.Known && lp.Nil)
			left := t.remaining - want
			switch {
			case left == 0 && puts != 1:
				problems = append(problems, fmt.Sprintf("the datagram is exhausted but its pooled buffer is returned %d times", puts))
			case left == 0 && retained:
				problems = append(problems, "the datagram is exhausted but kept as lastPacket: the next Read returns (0, EOF) on a live association")
			case left > 0 && puts != 0:
				problems = append(problems, "bytes remain but the pooled buffer is released: the rest of the datagram is lost / overwritten")
			case left > 0 && !retained:
				problems = append(problems, "bytes remain but the datagram is not retained for the next Read")
			case left > 0:
				rem, ok := p.Heap["remaining:"+lb.Desc]
				if !ok || !(rem.Known && rem.N == left) {
					d := "unknown"
					if ok {
						d = rem.Desc
					}
					problems = append(problems, fmt.Sprintf("the reader kept for the next Read holds %s bytes, %d bytes of the datagram remain: the next Read delivers bytes the client never sent (the unused tail of the pooled buffer) or loses some", d, left))
				}
			}
		}
		if delivered == 0 {
			problems = append(problems, "no path delivers the datagram")
		}
		r.check(len(problems) == 0, rule, fnName, name, c.pos(fn.Pos()), fmt.Sprintf("%d delivering path(s): n=min(len(b),remaining), release iff exhausted, retain exactly the rest", delivered), strings.Join(dedup(problems), "; "))
	}
}

// ---------- C13 ----------

func runC13(c *Ctx, r *Report) {
	defer c13StatesAppended(c, r, "C13.R16")
	defer c08R6(c, r, "C13.R17")               // the consumer reads the client's stream from its first byte: a connection of the wrapper starts with an empty matching buffer
	defer c01TeeKeepsPipeOpen(c, r, "C13.R18") // a connection that falls through a tee to the wrapped listener is still read through the tee: the handler must not have closed the pipe
	defer c01R5(c, r, "C13.R19")               // prefetched bytes are replayed to the consumer: a handler that hands on a new connection builds it on the connection it was given (Wrap of a wrapper that reads through it), not on the raw socket below the matching buffer
	defer c06R4(c, r, "C13.R20")               // ... and replayed unaltered: nothing a matcher does writes into the matching buffer (a view of it is only read)
	defer c08AfterHandOff(c, r, "C13.R21")     // the hand-over is clean: the handler that handed the connection on no longer touches it
	defer c01R7(c, r, "C13.R22")               // the consumer reads from the first unconsumed byte: a handler that built a reading wrapper on the connection hands on a connection that reads through it, whatever the header said
	defer c01R3(c, r, "C13.R23")               // the bytes replayed to the consumer are the client's: the matching buffer goes back to the pool once, by the function that took it, and never while a handed-on connection still reads from it
	defer c01R4(c, r, "C13.R24")               // a connection whose bytes have all arrived is decided and handed on: one prefetch is one read (a second one in the same prefetch waits for bytes the client will not send)
	// R1
	r.rule("C13.R1", "ListenerWrapper.Provision compiles its routes with listenerHandler as fallback", 1)
	if fn := c.Fn("layer4.(*ListenerWrapper).Provision"); fn != nil {
		found := false
		for _, ci := range callsIn(fn) {
			if calleeID(ci) == "layer4.(RouteList).Compile" {
				if mi, ok := ci.Common().Args[3].(*ssa.MakeInterface); ok && namedName(mi.X.Type()) == "layer4.listenerHandler" {
					found = true
				}
			}
		}
		r.check(found, "C13.R1", fname(fn), "fallback listenerHandler", c.pos(fn.Pos()), "hand-off is the fallback", "the listener wrapper's routes are not compiled with the hand-off handler as fallback")
	}
	c13R2(c, r, "C13.R2")
	c13R3(c, r, "C13.R3")
	c13R4(c, r, "C13.R4")
	c13Loop(c, r, "C13.R11")
	c02Router(c, r, "C13.R12") // a connection no terminal route consumed reaches the hand-off: the routing invariants (progress, fallback exactly once when every remaining route said no)
	c13PerListener(c, r, "C13.R13")
	c13R6(c, r, "C13.R6")
	c13R10(c, r, "C13.R10")
	c02R6(c, r, "C13.R15") // a subroute in the wrapper's routes falls through to this connection's hand-off: its routes are compiled per connection with the handler's own next
	c01R1(c, r, "C13.R14") // ... and every matcher of a set is bracketed by its own freeze/unfreeze: the cursor is back at the first unconsumed byte when the hand-off runs
	c01R2(c, r, "C13.R9")  // what the consumer of the wrapped listener reads starts at the first unconsumed byte: freeze/unfreeze restore exactly the cursor
	c05R23(c, r, "C13.R8") // the hand-off is a fallback: it must run with the matching deadline cleared, or the consumer's reads time out
	// R7
	r.rule("C13.R7", "bounded abstract interpretation of the compiled route handler (0..3 routes): after a terminal route nothing runs - in particular the hand-off fallback is not called - and the fallback is called at most once", 4)
	for n := 0; n <= 3; n++ {
		paths, err := exploreRouter(c, n, 2)
		name := "layer4.(RouteList).Compile$1"
		if err != nil {
			r.bad("C13.R7", name, fmt.Sprintf("routes=%d", n), "-", "undecided: "+err.Error())
			continue
		}
		bad := ""
		for _, p := range paths {
			term, fb := false, 0
			for _, s := range p.Steps {
				if term && (s.Kind == "fallback" || s.Kind == "chain" || s.Kind == "match") {
					bad = "a " + s.Kind + " step follows a terminal route: " + p.String()
				}
				if s.Kind == "chain" && (s.Note == "terminal" || s.Note == "error") {
					term = true
				}
				if s.Kind == "fallback" {
					fb++
				}
			}
			if fb > 1 {
				bad = "fallback called more than once: " + p.String()
			}
		}
		r.check(bad == "", "C13.R7", name, fmt.Sprintf("routes=%d", n), "-", fmt.Sprintf("%d paths: consumed connections are never handed off", len(paths)), "a connection consumed by a terminal layer4 handler is also delivered to the wrapped listener (and left open): "+bad)
	}
}

func c13R2(c *Ctx, r *Report, rule string) {
	r.rule(rule, "pipeConnection (path-evaluated over 'no TLS state', 'empty TLS state list', 'TLS state recorded') sends exactly once on the hand-off channel - the connection itself, or with a recorded TLS state a tlsConnection around it exposing the last state - and returns errHijacked; listenerHandler.Handle returns pipeConnection's result unchanged", 4)
	fnName := "layer4.(*listener).pipeConnection"
	fn := c.Fn(fnName)
	if fn == nil {
		r.bad(rule, fnName, "exists", "-", "function not found")
		return
	}
	for _, w := range []struct {
		name  string
		isNil bool
		n     int64
	}{{"no-tls-var", true, 0}, {"empty-tls-states", false, 0}, {"one-tls-state", false, 1}, {"two-tls-states", false, 2}} {
		sc := &Scenario{Name: w.name, Params: map[string]SV{"recv": symRef("recv", false), "p0": symRef("conn", false)}, Heap: map[string]SV{}}
		sc.Call = func(callee string, args []SV, ev *symEval, st *symState) (SV, bool) {
			if callee == "layer4.(*Connection).GetVar" {
				if w.isNil {
					return symNil(), true
				}
				v := symSlice("states", w.n)
				v.K = "ref"
				v.Known = true
				return v, true
			}
			return SV{}, false
		}
		paths, err := evalPaths(fn, sc)
		if err != nil || len(paths) == 0 {
			r.bad(rule, fnName, sc.Name, c.pos(fn.Pos()), fmt.Sprintf("undecided: %v", err))
			continue
		}
		var problems []string
		for _, p := range paths {
			sends := 0
			for _, e := range p.Trace {
				if e.Kind == "send" {
					sends++
					if e.What != "recv.connChan" {
						problems = append(problems, "send on "+e.What)
					}
					// what is delivered: the connection itself, or - when a TLS state was recorded by a terminating
					// handler - a wrapper around it that exposes the last recorded state
					sent := ""
					if len(e.Args) > 0 {
						sent = e.Args[0]
					}
					if w.isNil || w.n == 0 {
						if sent != "conn" {
							problems = append(problems, "without a recorded TLS state the layer4 connection itself must be delivered, delivers "+sent)
						}
					} else {
						inner, state := p.Heap[sent+".Conn"].Desc, p.Heap[sent+".connState"].Desc
						wantIdx := fmt.Sprintf("[%d]", w.n-1)
						if !strings.Contains(sent, "tlsConnection") || inner != "conn" || !strings.HasSuffix(state, wantIdx) || !strings.HasPrefix(state, "states") {
							problems = append(problems, fmt.Sprintf("with %d recorded TLS state(s) the wrapped listener must get a tlsConnection around the connection exposing the last state; it gets %s (Conn=%s, state=%s): the TLS connection state is not exposed to the wrapped server", w.n, sent, inner, state))
						}
					}
				}
			}
			if sends != 1 {
				problems = append(problems, fmt.Sprintf("%d sends on the hand-off channel: %s", sends, fmtTrace(p)))
			}
			if len(p.Ret) != 1 || !strings.Contains(p.Ret[0].Desc, "errHijacked") {
				problems = append(problems, "does not return errHijacked: "+p.retDesc())
			}
		}
		r.check(len(problems) == 0, rule, fnName, sc.Name, c.pos(fn.Pos()), fmtTrace(paths[0]), "the connection is not delivered exactly once / not reported as hijacked: "+strings.Join(dedup(problems), "; "))
	}
	if lh := c.Fn("layer4.(listenerHandler).Handle"); lh != nil {
		good := false
		for _, ci := range callsIn(lh) {
			if calleeID(ci) == fnName {
				for _, ret := range returnsOf(lh) {
					if len(ret.Results) == 1 && ret.Results[0] == ssa.Value(ci.(*ssa.Call)) && ci.Common().Args[1] == ssa.Value(lh.Params[1]) {
						good = true
					}
				}
			}
		}
		r.check(good, rule, fname(lh), "returns pipeConnection(conn)", c.pos(lh.Pos()), "hand-off result returned unchanged", "listenerHandler does not return pipeConnection's result for its own connection: the connection would be closed although handed off (or the reverse)")
	}
}

func c13R3(c *Ctx, r *Report, rule string) {
	r.rule(rule, "release consistency in listener.handle (path evaluation over the route handler's result nil / errHijacked / another error, deferred closures included): conn.Close() and bufPool.Put(buf) run exactly once iff the handler chain did not report errHijacked, and never when it did", 2)
	fn := c.Fn("layer4.(*listener).handle")
	if fn == nil {
		r.bad(rule, "layer4.(*listener).handle", "exists", "-", "function not found")
		return
	}
	name := fname(fn)
	sc := &Scenario{Name: "release", MaxVisit: 4,
		Params: map[string]SV{"recv": symRef("l", false), "p0": symRef("conn", false)},
		Heap:   map[string]SV{"l.compiledRoute": symRef("route", false), "l.logger": symRef("logger", false), "l.wg": symRef("wg", false)},
		Inline: func(f *ssa.Function) bool { return f.Parent() == fn },
	}
	sc.Call = func(callee string, args []SV, ev *symEval, st *symState) (SV, bool) {
		switch {
		case callee == "(*sync.Pool).Get":
			l, cp := symInt(0), symInt(8192)
			return SV{K: "ref", Known: true, Desc: "pooled", Dyn: "[]byte", Len: &l, Cap: &cp}, true
		case callee == "layer4.WrapConnection":
			return symRef("cx", false), true
		case strings.HasPrefix(callee, "(*go.uber.org/zap.Logger)"), strings.HasPrefix(callee, "go.uber.org/zap."), callee == "time.Now", callee == "time.Since", strings.HasPrefix(callee, "context."),
			strings.Contains(callee, "RemoteAddr"), strings.HasSuffix(callee, "Addr.String"), strings.Contains(callee, "atomic.Uint64"):
			return symOpaque(shortCallee(callee)), true
		}
		return SV{}, false
	}
	sc.Alts = func(callee string, args []SV, ev *symEval, st *symState) []CallAlt {
		if callee == "invoke layer4.Handler.Handle" {
			return []CallAlt{
				{Ret: symNil(), Note: "nil"},
				{Ret: SV{K: "ref", Known: true, Desc: "global:layer4.errHijacked"}, Note: "hijacked"},
				{Ret: SV{K: "ref", Known: true, Desc: "errOther"}, Note: "error"},
			}
		}
		return nil
	}
	paths, err := evalPaths(fn, sc)
	if err != nil || len(paths) == 0 {
		r.bad(rule, name, "Close unless hijacked", c.pos(fn.Pos()), fmt.Sprintf("undecided: %v", err))
		r.bad(rule, name, "Put unless hijacked", c.pos(fn.Pos()), fmt.Sprintf("undecided: %v", err))
		return
	}
	var pClose, pPut []string
	seenOutcome := map[string]bool{}
	for _, p := range paths {
		if p.Outcome != "return" {
			pClose = append(pClose, "undecided path: "+fmtTrace(p))
			continue
		}
		outcome := ""
		closes, puts := 0, 0
		for _, e := range p.Trace {
			if e.Kind != "call" {
				continue
			}
			switch {
			case e.What == "invoke layer4.Handler.Handle":
				outcome = e.Note
			case e.What == "invoke net.Conn.Close" && len(e.Args) > 0 && e.Args[0] == "conn":
				closes++
			case e.What == "(*sync.Pool).Put":
				puts++
			}
		}
		if outcome == "" {
			pClose = append(pClose, "the route handler is not run on a path: "+fmtTrace(p))
			continue
		}
		seenOutcome[outcome] = true
		want := 1
		if outcome == "hijacked" {
			want = 0
		}
		if closes != want {
			pClose = append(pClose, fmt.Sprintf("route handler result %s: conn.Close() runs %d time(s), expected %d", outcome, closes, want))
		}
		if puts != want {
			pPut = append(pPut, fmt.Sprintf("route handler result %s: bufPool.Put runs %d time(s), expected %d", outcome, puts, want))
		}
	}
	if len(seenOutcome) != 3 {
		pClose = append(pClose, fmt.Sprintf("only %d of the 3 handler results were explored", len(seenOutcome)))
	}
	r.check(len(pClose) == 0, rule, name, "Close unless hijacked", c.pos(fn.Pos()), fmt.Sprintf("%d paths: the connection is closed iff it was not handed off", len(paths)), "conn.Close() does not run exactly when the route handler's result is not errHijacked: "+strings.Join(dedup(pClose), "; "))
	r.check(len(pPut) == 0, rule, name, "Put unless hijacked", c.pos(fn.Pos()), "the pooled buffer is recycled iff the connection was not handed off", "the pooled matching buffer is returned although the connection may have been handed to the wrapped listener, which still replays prefetched bytes from it (another connection's prefetch overwrites them), or it is not returned at all: "+strings.Join(dedup(pPut), "; "))
}

func c13R4(c *Ctx, r *Report, rule string) {
	r.rule(rule, "shutdown protocol of the wrapped listener: wg.Add(1) precedes go handle in the same block; handle's first deferred closure calls wg.Done; close(connChan) is dominated by wg.Wait() and runs in a goroutine of its own; the drain loop over connChan in loop() is reachable without passing wg.Wait() and closes every connection it receives; close(done) follows the accept loop; Accept returns net.ErrClosed when connChan is closed or done is closed", 7)
	loop := c.Fn("layer4.(*listener).loop")
	handle := c.Fn("layer4.(*listener).handle")
	accept := c.Fn("layer4.(*listener).Accept")
	if loop == nil || handle == nil || accept == nil {
		r.bad(rule, "layer4.listener", "exists", "-", "loop/handle/Accept not found")
		return
	}
	// Add before go
	okAdd := false
	for _, b := range loop.Blocks {
		var add ssa.Instruction
		for _, in := range b.Instrs {
			if ci, ok := in.(ssa.CallInstruction); ok && calleeID(ci) == "(*sync.WaitGroup).Add" {
				add = in
			}
			if g, ok := in.(*ssa.Go); ok && calleeID(g) == "layer4.(*listener).handle" {
				okAdd = add != nil
			}
		}
	}
	r.check(okAdd, rule, fname(loop), "wg.Add before go handle", c.pos(loop.Pos()), "every handler is counted before it starts", "go handle is not preceded by wg.Add(1) in the same block: Wait can return while a handler is about to send on the closed hand-off channel")
	// Done deferred first
	okDone := false
	if ds := deferredCalls(handle); len(ds) > 0 {
		if cl := closureOf(ds[0].Call.Value); cl != nil {
			for _, ci := range callsIn(cl) {
				if calleeID(ci) == "(*sync.WaitGroup).Done" && len(edgeConds(ci.Block())) == 0 {
					okDone = true
				}
			}
		} else if calleeID(ds[0]) == "(*sync.WaitGroup).Done" {
			okDone = true
		}
	}
	r.check(okDone, rule, fname(handle), "deferred wg.Done", c.pos(handle.Pos()), "handle always signals completion", "handle does not unconditionally defer wg.Done as its first deferred action")
	// close(connChan) after Wait, in its own goroutine
	uses := c.channelUses()
	okClose, n := false, 0
	for _, u := range uses["field layer4.listener.connChan"] {
		if u.kind != "close" {
			continue
		}
		n++
		waited := false
		for _, ci := range callsIn(u.fn) {
			if calleeID(ci) == "(*sync.WaitGroup).Wait" && dominates(ci, u.in) {
				waited = true
			}
		}
		// the closing function is started with go (a closure or a method), by the loop or a helper of it
		ownGoroutine := false
		for _, f := range c.Funcs {
			for _, ci := range callsIn(f) {
				if g, ok := ci.(*ssa.Go); ok && (closureOf(g.Call.Value) == u.fn || g.Call.StaticCallee() == u.fn) {
					ownGoroutine = true
				}
			}
		}
		okClose = waited && ownGoroutine
	}
	r.check(n == 1 && okClose, rule, fname(loop), "close(connChan) after Wait in own goroutine", c.pos(loop.Pos()), "the hand-off channel is closed once, after all handlers are done, without blocking the drain", "close(connChan) is not (once) dominated by wg.Wait() inside a goroutine of its own")
	// drain reachable without Wait
	isDrain := func(in ssa.Instruction) bool {
		u, ok := in.(*ssa.UnOp)
		return ok && u.Op == token.ARROW && chanID(u.X) == "field layer4.listener.connChan"
	}
	isWait := func(in ssa.Instruction) bool {
		ci, ok := in.(ssa.CallInstruction)
		return ok && calleeID(ci) == "(*sync.WaitGroup).Wait"
	}
	// the drain may live in a helper the loop calls synchronously; a synchronous call of something that waits counts as waiting
	waits := func(f *ssa.Function) bool {
		for g := range c.reachSync(f) {
			for _, ci := range callsIn(g) {
				if calleeID(ci) == "(*sync.WaitGroup).Wait" {
					return true
				}
			}
		}
		return false
	}
	var drainFn *ssa.Function
	isDrainOrCallsDrain := func(in ssa.Instruction) bool {
		if isDrain(in) {
			drainFn = loop
			return true
		}
		if call, ok := in.(*ssa.Call); ok {
			if cal := call.Call.StaticCallee(); cal != nil && cal != loop && !waits(cal) {
				for g := range c.reachSync(cal) {
					if pathFromEntryAvoiding(g, isDrain, isWait) != nil {
						drainFn = g
						return true
					}
				}
			}
		}
		return false
	}
	isWaitOrCallsWait := func(in ssa.Instruction) bool {
		if isWait(in) {
			return true
		}
		if call, ok := in.(*ssa.Call); ok {
			if cal := call.Call.StaticCallee(); cal != nil && cal != loop && cal.Pkg == loop.Pkg && waits(cal) {
				return true
			}
		}
		return false
	}
	drain := pathFromEntryAvoiding(loop, isDrainOrCallsDrain, isWaitOrCallsWait)
	if drain != nil && drainFn != nil && drainFn != loop {
		drain = pathFromEntryAvoiding(drainFn, isDrain, isWait)
	}
	r.check(drain != nil, rule, fname(loop), "drain not behind Wait", c.pos(loop.Pos()), "pending connections are drained while the handlers finish", "the loop waits for the handlers before draining the hand-off channel: handlers blocked on a full channel never finish, the loop and they stay blocked forever and pending connections are never closed")
	// drained conns closed
	okDrainClose := false
	if drain != nil {
		if u, ok := drain.(*ssa.UnOp); ok {
			for _, ref := range *u.Referrers() {
				if ex, ok := ref.(*ssa.Extract); ok && ex.Index == 0 {
					for _, r2 := range *ex.Referrers() {
						if ci, ok := r2.(ssa.CallInstruction); ok && isInvoke(ci, "Close") {
							okDrainClose = true
						}
					}
				}
			}
		}
	}
	r.check(okDrainClose, rule, fname(loop), "drained connections closed", c.pos(loop.Pos()), "every pending connection is closed", "connections drained from the hand-off channel at shutdown are not closed")
	// close(done)
	okDoneCh := false
	for _, u := range uses["field layer4.listener.done"] {
		if u.kind != "close" || inLoop(u.in.Block()) {
			continue
		}
		if u.fn == loop {
			okDoneCh = true
			continue
		}
		// in a helper the loop calls once, after (outside) the accept loop
		sites, escapes := c.callSitesOf(u.fn)
		if !escapes && len(sites) == 1 && sites[0].Parent() == loop && !inLoop(sites[0].Block()) {
			if _, plain := sites[0].(*ssa.Call); plain {
				okDoneCh = true
			}
		}
	}
	r.check(okDoneCh, rule, fname(loop), "close(done) after accept loop", c.pos(loop.Pos()), "waiting Accept calls are released", "done is not closed once after the accept loop")
	// Accept
	sc := &Scenario{Name: "accept", Params: map[string]SV{"recv": symRef("recv", false)}}
	paths, err := evalPaths(accept, sc)
	goodAcc := err == nil && len(paths) > 0
	detail := ""
	sawSelect := false
	for _, p := range paths {
		for _, e := range p.Trace {
			if e.Kind == "select" {
				sawSelect = strings.Contains(e.What, "recv recv.connChan") && strings.Contains(e.What, "recv recv.done")
			}
		}
		if p.Outcome == "panic" && len(p.Trace) > 0 && strings.Contains(p.Trace[len(p.Trace)-1].What, "blocking select matched no case") {
			continue // compiler-generated unreachable arm of a blocking select
		}
		if len(p.Ret) != 2 {
			goodAcc = false
			continue
		}
		if os.Getenv("L4V_DEBUG") != "" {
			fmt.Fprintln(os.Stderr, "ACCEPT", fmtTrace(p), "ASSUME", p.Assume, "FIRED", selectFired(p))
		}
		isConn := strings.Contains(p.Ret[0].Desc, "select#") && p.Ret[1].Known && p.Ret[1].Nil
		isClosed := p.Ret[0].Known && p.Ret[0].Nil && strings.Contains(p.Ret[1].Desc, "net.ErrClosed")
		if !isConn && !isClosed {
			goodAcc = false
			detail = "returns (" + p.retDesc() + ")"
		}
		// which answer belongs to which event: a connection received from the hand-off channel (ok) is returned,
		// a closed channel or the done signal reports closure
		fired := strings.Join(selectFired(p), ",")
		received, okKnown := false, false
		for _, a := range p.Assume {
			if strings.HasSuffix(a, ".ok=true") {
				received, okKnown = true, true
			}
			if strings.HasSuffix(a, ".ok=false") {
				okKnown = true
			}
		}
		switch {
		case strings.Contains(fired, "connChan") && okKnown && received && !isConn:
			goodAcc = false
			detail = "a connection received from the hand-off channel is not returned (" + p.retDesc() + "): it is delivered to nobody"
		case strings.Contains(fired, "connChan") && okKnown && !received && !isClosed:
			goodAcc = false
			detail = "a closed hand-off channel is answered with (" + p.retDesc() + ") instead of net.ErrClosed"
		case strings.Contains(fired, "done") && !isClosed:
			goodAcc = false
			detail = "the done signal is answered with (" + p.retDesc() + ")"
		}
	}
	r.check(goodAcc && sawSelect, rule, fname(accept), "Accept", c.pos(accept.Pos()), fmt.Sprintf("%d paths: a received connection or net.ErrClosed", len(paths)), "Accept does not select on connChan and done / does not report net.ErrClosed: "+detail)
}

func c13R6(c *Ctx, r *Report, rule string) {
	r.rule(rule, "the value sent on the hand-off channel is the *Connection parameter itself or a struct whose embedded Conn is that parameter - never its inner Conn (prefetched bytes and TLS plaintext would be bypassed); values built by a helper are followed into the helper", 2)
	fn := c.Fn("layer4.(*listener).pipeConnection")
	if fn == nil {
		return
	}
	n := 0
	// leaves(v): the values v can be, each with a verdict
	var leaves func(f *ssa.Function, v ssa.Value, conn ssa.Value, at ssa.Instruction, depth int)
	leaves = func(f *ssa.Function, v ssa.Value, conn ssa.Value, at ssa.Instruction, depth int) {
		verdict := func(good bool, detail string) {
			n++
			r.check(good, rule, fname(fn), fmt.Sprintf("delivered value#%d", n), c.ipos(at), "delivers the layer4 connection (or a wrapper embedding it)", "the value handed to the wrapped listener does not read through the layer4 connection ("+detail+"): prefetched bytes are lost / ciphertext is delivered")
		}
		switch x := v.(type) {
		case *ssa.MakeInterface:
			leaves(f, x.X, conn, at, depth)
		case *ssa.ChangeInterface:
			leaves(f, x.X, conn, at, depth)
		case *ssa.Phi:
			for _, e := range x.Edges {
				leaves(f, e, conn, at, depth)
			}
		case *ssa.Parameter:
			verdict(ssa.Value(x) == conn, "parameter "+x.Name())
		case *ssa.Alloc:
			// wrapper literal: its Conn field must be the connection
			found := false
			if x.Referrers() != nil {
				for _, ref := range *x.Referrers() {
					if fa, ok := ref.(*ssa.FieldAddr); ok && fieldName(deref(x.Type()), fa.Field) == "Conn" && fa.Referrers() != nil {
						for _, r2 := range *fa.Referrers() {
							if st, ok := r2.(*ssa.Store); ok {
								found = true
								val := st.Val
								if mi2, ok := val.(*ssa.MakeInterface); ok {
									val = mi2.X
								}
								verdict(val == conn, "wrapper's Conn is "+originKinds(origins(st.Val, sliceOpts{})))
							}
						}
					}
				}
			}
			if !found {
				verdict(false, "a "+typeStr(deref(x.Type()))+" without the connection in its Conn field")
			}
		case *ssa.Call:
			cal := x.Call.StaticCallee()
			idx := -1
			for i, a := range x.Call.Args {
				if a == conn {
					idx = i
				}
			}
			if cal == nil || idx < 0 || depth > 2 || len(cal.Blocks) == 0 || cal.Pkg == nil || !strings.HasPrefix(cal.Pkg.Pkg.Path(), modPath) {
				verdict(false, "result of "+calleeID(x))
				return
			}
			for _, rv := range returnsOf(cal) {
				if len(rv.Results) > 0 {
					leaves(cal, rv.Results[0], cal.Params[idx], at, depth+1)
				}
			}
		default:
			verdict(false, originKinds(origins(v, sliceOpts{})))
		}
	}
	for _, b := range fn.Blocks {
		for _, in := range b.Instrs {
			if sd, ok := in.(*ssa.Send); ok {
				leaves(fn, sd.X, fn.Params[1], sd, 0)
			}
		}
	}
}

// valueLikeGlobal decides whether a module package-level variable is harmless to share: its type
// holds no hidden mutable state (basic types, strings, error values, slices/arrays of those that
// are never element-written anywhere in the module, and a few library types documented as safe
// for concurrent use).
func (c *Ctx) valueLikeGlobal(name string) (string, bool) {
	var g *ssa.Global
	for _, p := range c.Pkgs {
		for _, m := range c.SSA[p.PkgPath].Members {
			if gg, ok := m.(*ssa.Global); ok && globalName(gg) == name {
				g = gg
			}
		}
	}
	if g == nil {
		return "", false
	}
	t := deref(g.Type())
	var valueLike func(t types.Type, d int) bool
	valueLike = func(t types.Type, d int) bool {
		if d > 4 {
			return false
		}
		if isErrorType(t) {
			return true
		}
		switch ts := typeStr(t); ts {
		case "*regexp.Regexp", "encoding/binary.littleEndian", "encoding/binary.bigEndian", "github.com/caddyserver/caddy/v2.CtxKey", "*github.com/caddyserver/caddy/v2.UsagePool":
			return true
		}
		switch u := t.Underlying().(type) {
		case *types.Basic:
			return true
		case *types.Slice:
			return valueLike(u.Elem(), d+1)
		case *types.Array:
			return valueLike(u.Elem(), d+1)
		}
		return false
	}
	if !valueLike(t, 0) {
		return "", false
	}
	// never element-written
	for _, fn := range c.Funcs {
		if strings.HasPrefix(fn.Name(), "init") {
			continue
		}
		for _, b := range fn.Blocks {
			for _, in := range b.Instrs {
				st, ok := in.(*ssa.Store)
				if !ok {
					continue
				}
				for _, root := range addrRoots(st.Addr) {
					if u, ok := root.(*ssa.UnOp); ok && u.X == ssa.Value(g) {
						return "", false
					}
					if root == ssa.Value(g) {
						return "", false
					}
				}
			}
		}
	}
	return "value-like (" + typeStr(t) + "), never written outside init", true
}

// c09R8: the datagram buffers keep their full size through the pool. What is stored in a datagram record and what
// is put back into the pool is the slice obtained from the pool, never a shortened view of it: the reader goroutine
// hands the pooled slice to ReadFrom as it is, so a shortened slice truncates every later, longer datagram.
func c09R8(c *Ctx, r *Report, rule string) {
	r.rule(rule, "every value put into the datagram buffer pool, and every value stored as a record's pooled buffer, is the slice obtained from the pool (or allocated at full size) - no sub-slice of it: the datagram's length travels separately", 4)
	isPool := func(v ssa.Value) bool {
		g, ok := v.(*ssa.Global)
		return ok && globalName(g) == "layer4.udpBufPool"
	}
	var sliced func(v ssa.Value, seen map[ssa.Value]bool, d int) string
	sliced = func(v ssa.Value, seen map[ssa.Value]bool, d int) string {
		if v == nil || seen[v] || d > 25 {
			return ""
		}
		seen[v] = true
		switch x := v.(type) {
		case *ssa.Slice:
			if x.High != nil || x.Low != nil {
				return c.ipos(x)
			}
			return sliced(x.X, seen, d+1)
		case *ssa.Phi:
			for _, e := range x.Edges {
				if s := sliced(e, seen, d+1); s != "" {
					return s
				}
			}
		case *ssa.TypeAssert:
			return sliced(x.X, seen, d+1)
		case *ssa.ChangeType:
			return sliced(x.X, seen, d+1)
		case *ssa.UnOp:
			if x.Op != token.MUL {
				return ""
			}
			if _, sn, f, ok := fieldAddr(x.X); ok && f == "pooledBuf" {
				for _, fn := range c.Funcs {
					for _, st := range storesToField(fn, sn, f) {
						if s := sliced(st.Val, seen, d+1); s != "" {
							return s
						}
					}
				}
				return ""
			}
			if al, ok := x.X.(*ssa.Alloc); ok {
				for _, sv := range storesToDeep(al) {
					if s := sliced(sv, seen, d+1); s != "" {
						return s
					}
				}
			}
		}
		return ""
	}
	n := 0
	for _, fn := range c.Funcs {
		for _, ci := range callsIn(fn) {
			if calleeID(ci) == "(*sync.Pool).Put" && isPool(ci.Common().Args[0]) {
				n++
				arg := ci.Common().Args[1]
				if mi, ok := arg.(*ssa.MakeInterface); ok {
					arg = mi.X
				}
				s := sliced(arg, map[ssa.Value]bool{}, 0)
				r.check(s == "", rule, fname(fn), fmt.Sprintf("Put#%d", n), c.ipos(ci), "the pooled slice itself goes back", "a shortened view of the pooled buffer (sliced at "+s+") is returned to the pool: the reader goroutine later passes it to ReadFrom as it is and longer datagrams are cut to that length")
			}
		}
		for _, st := range storesToField(fn, "layer4.packet", "pooledBuf") {
			n++
			s := sliced(st.Val, map[ssa.Value]bool{}, 0)
			r.check(s == "", rule, fname(fn), fmt.Sprintf("record buffer#%d", n), c.ipos(st), "the record carries the pooled slice itself", "the record's pooled buffer is a sub-slice (sliced at "+s+") of what the pool handed out: it comes back to the pool shortened")
		}
	}
}

// c09R9: Close releases before it notifies. The server loop may be blocked handing this association a datagram
// (its queue is full); only closing the association's `closed` channel lets it go on. The notification on the shared
// channel can block (it is drained by that same loop), so it must come after.
func c09R9(c *Ctx, r *Report, rule string) {
	r.rule(rule, "packetConn.Close (path evaluation): close(closed) and the drain of the queue precede every send on the close-notification channel", 1)
	fnName := "layer4.(*packetConn).Close"
	fn := c.Fn(fnName)
	if fn == nil {
		r.bad(rule, fnName, "exists", "-", "function not found")
		return
	}
	sc := &Scenario{Name: "close", MaxVisit: 4, Params: map[string]SV{"recv": symRef("recv", false)}, Heap: map[string]SV{"recv.lastPacket": symNil()}}
	paths, err := evalPaths(fn, sc)
	if err != nil || len(paths) == 0 {
		r.bad(rule, fnName, sc.Name, c.pos(fn.Pos()), fmt.Sprintf("undecided: %v", err))
		return
	}
	var problems []string
	notified := 0
	for _, p := range paths {
		closedAt, sendAt := -1, -1
		for i, e := range p.Trace {
			if e.Kind == "call" && e.What == "builtin close" && len(e.Args) > 0 && strings.HasSuffix(e.Args[0], ".closed") && closedAt < 0 {
				closedAt = i
			}
			if e.Kind == "send" && strings.HasSuffix(e.What, ".closeCh") && sendAt < 0 {
				sendAt = i
			}
		}
		if p.Outcome != "return" {
			continue
		}
		if sendAt >= 0 {
			notified++
		}
		if sendAt >= 0 && (closedAt < 0 || closedAt > sendAt) {
			problems = append(problems, "the notification is sent before close(closed): with the notification channel full and the server loop blocked on this association's full queue, Close and the loop wait for each other and the listener stops serving every client: "+fmtTrace(p))
		}
		if closedAt < 0 {
			// the path of a second call: a test-and-set said that an earlier Close has done (or is doing) the work,
			// and this one does nothing at all
			again := false
			for _, e := range p.Trace {
				if e.Kind == "call" && (strings.Contains(e.What, "CompareAndSwap") || strings.Contains(e.What, ").Swap") || strings.Contains(e.What, "sync.Once).Do")) {
					again = true
				}
			}
			if again && sendAt < 0 {
				continue
			}
			problems = append(problems, "a path of Close does not close the association's `closed` channel")
		}
	}
	if notified == 0 {
		problems = append(problems, "no path notifies the server loop")
	}
	r.check(len(problems) == 0, rule, fnName, "release before notify", c.pos(fn.Pos()), fmt.Sprintf("%d paths", len(paths)), strings.Join(dedup(problems), "; "))
}

// c13R10: the accept loop of the wrapped listener survives transient accept errors. A temporary error of the
// underlying Accept (EMFILE, ECONNABORTED ...) while the listener is open must lead back to Accept; only a
// permanent error ends the loop (and with it closes `done`, drains and closes what is pending).
func c13R10(c *Ctx, r *Report, rule string) {
	r.rule(rule, "listener.loop: there is a way back to Accept that is taken when the accept error reports itself as temporary (net.Error.Temporary) and the listener is not closed; the loop is left only on other errors", 1)
	fn := c.Fn("layer4.(*listener).loop")
	if fn == nil {
		r.bad(rule, "layer4.(*listener).loop", "exists", "-", "function not found")
		return
	}
	var accept *ssa.Call
	for _, ci := range callsIn(fn) {
		if isInvoke(ci, "Accept") {
			accept, _ = ci.(*ssa.Call)
		}
	}
	if accept == nil {
		r.bad(rule, fname(fn), "accept", c.pos(fn.Pos()), "the call of the underlying Accept was not found")
		return
	}
	good := false
	for _, b := range fn.Blocks {
		ifi, ok := b.Instrs[len(b.Instrs)-1].(*ssa.If)
		if !ok {
			continue
		}
		// the condition (possibly one leg of a && chain) is a call of Temporary on the error, or of a helper of the
		// package whose answer derives from one (the loop's evaluation, C13.R11, decides what the answer means)
		call, ok := ifi.Cond.(*ssa.Call)
		if !ok {
			continue
		}
		isTemp := func(cl *ssa.Call) bool { return cl.Call.IsInvoke() && cl.Call.Method.Name() == "Temporary" }
		viaHelper := false
		if !isTemp(call) {
			if callee := call.Call.StaticCallee(); callee != nil && callee.Pkg == fn.Pkg && len(callee.Blocks) > 0 {
				for _, ci2 := range callsIn(callee) {
					if c2, ok := ci2.(*ssa.Call); ok && isTemp(c2) && callee.Signature.Results().Len() == 1 {
						viaHelper = true // (the answer depends on it by data or by control: `t.Temporary() && !closed`)
					}
				}
			}
			if !viaHelper {
				continue
			}
		}
		// from the true edge the Accept call is reachable again without leaving the loop
		for blk := range reachableFrom(b.Succs[0], true) {
			if blk == accept.Block() {
				good = true
			}
		}
	}
	r.check(good, rule, fname(fn), "temporary accept errors are retried", c.ipos(accept), "a temporary accept error leads back to Accept", "no branch on the accept error being temporary leads back to Accept: one transient error (too many open files, aborted connection) ends the loop although the listener is open - `done` is closed, pending connections are dropped and later clients are never served")
}

// c13Loop evaluates the accept loop of the wrapped listener over the outcomes of Accept (a connection / an error
// that is or is not a temporary net.Error, listener closed or not), two iterations deep.
func c13Loop(c *Ctx, r *Report, rule string) {
	r.rule(rule, "accept loop (path evaluation, 2 iterations, Accept -> connection | error x errors.As x Temporary() x closed): an accepted connection is counted with wg.Add(1) and handed to exactly one go handle(conn); an error is retried iff it is a temporary net.Error and the listener is not closed; any other error ends the loop, after which done is closed once and no further Accept happens", 1)
	fn := c.Fn("layer4.(*listener).loop")
	if fn == nil {
		r.bad(rule, "layer4.(*listener).loop", "exists", "-", "function not found")
		return
	}
	name := fname(fn)
	nAcc := 0
	sc := &Scenario{Name: "loop", MaxVisit: 3, MaxPaths: 20000,
		Params: map[string]SV{"recv": symRef("l", false)},
		Heap:   map[string]SV{"l.wg": symRef("wg", false), "l.logger": symRef("logger", false), "l.connChan": symRef("connChan", false), "l.done": symRef("done", false)},
	}
	sc.Call = func(callee string, args []SV, ev *symEval, st *symState) (SV, bool) {
		switch {
		case strings.HasPrefix(callee, "(*go.uber.org/zap.Logger)"), strings.HasPrefix(callee, "go.uber.org/zap."):
			return symOpaque("log"), true
		case callee == "errors.As" && len(args) == 2 && args[0].K == "ref" && args[0].Known && args[0].Nil:
			return symBool(false), true
		}
		return SV{}, false
	}
	sc.Alts = func(callee string, args []SV, ev *symEval, st *symState) []CallAlt {
		switch {
		case callee == "invoke net.Listener.Accept":
			nAcc++
			conn := symRef(fmt.Sprintf("conn%d", nAcc), false)
			return []CallAlt{
				{Ret: symTuple(conn, symNil()), Note: "conn:" + conn.Desc},
				{Ret: symTuple(symNil(), SV{K: "ref", Known: true, Desc: "acceptErr"}), Note: "error"},
			}
		case callee == "errors.As":
			if len(args) == 2 && args[0].K == "ref" && args[0].Known && args[0].Nil {
				return []CallAlt{{Ret: symBool(false), Note: "nil"}}
			}
			return []CallAlt{{Ret: symBool(true), Note: "neterr"}, {Ret: symBool(false), Note: "other"}}
		case strings.HasSuffix(callee, ".Temporary"):
			return []CallAlt{{Ret: symBool(true), Note: "temporary"}, {Ret: symBool(false), Note: "permanent"}}
		case strings.HasSuffix(callee, "atomic.Bool).Load"):
			return []CallAlt{{Ret: symBool(true), Note: "closed"}, {Ret: symBool(false), Note: "open"}}
		}
		return nil
	}
	paths, err := evalPaths(fn, sc)
	if err != nil || len(paths) == 0 {
		r.bad(rule, name, "accept loop", c.pos(fn.Pos()), fmt.Sprintf("undecided: %v", err))
		return
	}
	var problems []string
	ended, retried, handled := 0, 0, 0
	for i, p := range paths {
		if os.Getenv("L4V_DEBUG") != "" && i < 4 {
			fmt.Fprintln(os.Stderr, "LOOP", fmtTrace(p))
		}
		if p.Outcome == "panic" {
			problems = append(problems, "a path panics: "+fmtTrace(p))
			continue
		}
		// split the trace into iterations at the Accept calls
		type iter struct {
			outcome               string
			as, temp, closed      string
			adds                  []string
			gos                   []string
			closesDone, acceptsAf int
		}
		var its []*iter
		var cur *iter
		over := false // the loop has ended (an error that is not retried)
		for _, e := range p.Trace {
			switch {
			case e.Kind == "call" && e.What == "invoke net.Listener.Accept":
				if over {
					problems = append(problems, "Accept is called again after the loop ended with an error")
				}
				cur = &iter{outcome: e.Note}
				its = append(its, cur)
			case cur == nil:
			case e.Kind == "call" && e.What == "errors.As":
				cur.as = e.Note
			case e.Kind == "call" && strings.HasSuffix(e.What, ".Temporary"):
				cur.temp = e.Note
			case e.Kind == "call" && strings.HasSuffix(e.What, "atomic.Bool).Load"):
				cur.closed = e.Note
			case e.Kind == "call" && e.What == "(*sync.WaitGroup).Add" && len(e.Args) == 2:
				cur.adds = append(cur.adds, e.Args[1])
			case e.Kind == "go" && strings.HasSuffix(e.What, "(*listener).handle"):
				cur.gos = append(cur.gos, e.Args[len(e.Args)-1])
			case e.Kind == "call" && e.What == "builtin close" && len(e.Args) == 1 && e.Args[0] == "done":
				cur.closesDone++
				over = true
			}
		}
		if p.Outcome == "cutoff" && len(its) > 0 {
			// the exploration bound cut the last iteration short: only complete iterations are judged, except that a
			// loop which ended must not have accepted again (checked above)
			if its[len(its)-1].closesDone == 0 {
				its = its[:len(its)-1]
			}
		}
		for i, it := range its {
			last := i == len(its)-1
			switch {
			case strings.HasPrefix(it.outcome, "conn:"):
				conn := strings.TrimPrefix(it.outcome, "conn:")
				handled++
				if len(it.gos) != 1 || it.gos[0] != conn {
					problems = append(problems, fmt.Sprintf("an accepted connection %s is handed to %v (expected exactly one go handle(%s))", conn, it.gos, conn))
				}
				if len(it.adds) != 1 || it.adds[0] != "1" {
					problems = append(problems, fmt.Sprintf("an accepted connection is counted with wg.Add%v (expected one Add(1) before its handler starts)", it.adds))
				}
				if it.closesDone > 0 {
					problems = append(problems, "the loop ends after a successful Accept")
				}
			default:
				retry := it.as == "neterr" && it.temp == "temporary" && it.closed == "open"
				if len(it.gos) > 0 || len(it.adds) > 0 {
					problems = append(problems, "a handler is started although Accept returned an error (nil connection)")
				}
				if retry {
					retried++
					if it.closesDone > 0 || (last && p.Outcome == "return") {
						problems = append(problems, "a temporary accept error on an open listener ends the accept loop instead of being retried")
					}
				} else {
					ended++
					if it.closesDone != 1 && !(last && p.Outcome == "cutoff" && it.closesDone == 1) {
						problems = append(problems, fmt.Sprintf("an accept error that is not a temporary error of an open listener (net.Error:%s %s, listener %s) does not end the loop with close(done) exactly once (closed %d times)", it.as, it.temp, it.closed, it.closesDone))
					}
				}
			}
		}
	}
	if ended == 0 || retried == 0 || handled == 0 {
		problems = append(problems, fmt.Sprintf("the evaluation did not exercise all three outcomes (handled %d, retried %d, ended %d)", handled, retried, ended))
	}
	r.check(len(problems) == 0, rule, name, "accept loop", c.pos(fn.Pos()), fmt.Sprintf("%d paths: %d accepted connections handled, %d retries, %d loop ends", len(paths), handled, retried, ended), strings.Join(dedup(problems), "; "))
}

// c09Reader evaluates the socket reader of servePacket (the function that calls ReadFrom) over the outcomes of
// ReadFrom, two iterations deep.
func c09Reader(c *Ctx, r *Report, rule string) {
	r.rule(rule, "socket reader (path evaluation, ReadFrom -> datagram | error x errors.As x Timeout()): a datagram is sent on as one record carrying the pooled buffer it was read into, its length and its source address, and reading continues; a timeout error is skipped and reading continues; any other error is sent on as an error record, after which nothing more is read", 1)
	var fn *ssa.Function
	for _, f := range c.Funcs {
		if f.Pkg == nil || short(f.Pkg.Pkg.Path()) != "layer4" {
			continue
		}
		for _, ci := range callsIn(f) {
			if isInvoke(ci, "ReadFrom") {
				fn = f
			}
		}
	}
	if fn == nil {
		r.bad(rule, "layer4", "socket reader", "-", "no function of package layer4 calls ReadFrom")
		return
	}
	name := fname(fn)
	nRead := 0
	sc := &Scenario{Name: "reader", MaxVisit: 3, MaxPaths: 20000, ByType: map[string]SV{"net.PacketConn": symRef("sock", false)}}
	sc.Call = func(callee string, args []SV, ev *symEval, st *symState) (SV, bool) {
		if callee == "(*sync.Pool).Get" {
			nRead++
			l := symInt(9216)
			return SV{K: "ref", Known: true, Desc: fmt.Sprintf("pooled%d", nRead), Dyn: "[]byte", Len: &l, Cap: &l}, true
		}
		return SV{}, false
	}
	sc.Alts = func(callee string, args []SV, ev *symEval, st *symState) []CallAlt {
		switch {
		case callee == "invoke net.PacketConn.ReadFrom":
			buf := ""
			if len(args) > 1 {
				buf = args[1].Desc
			}
			return []CallAlt{
				{Ret: symTuple(SV{K: "int", Desc: "n(" + buf + ")"}, symRef("addr("+buf+")", false), symNil()), Note: "datagram:" + buf},
				{Ret: symTuple(symInt(0), symNil(), SV{K: "ref", Known: true, Desc: "readErr"}), Note: "error"},
			}
		case callee == "errors.As":
			if len(args) == 2 && args[0].K == "ref" && args[0].Known && args[0].Nil {
				return []CallAlt{{Ret: symBool(false), Note: "nil"}}
			}
			return []CallAlt{{Ret: symBool(true), Note: "neterr"}, {Ret: symBool(false), Note: "other"}}
		case strings.HasSuffix(callee, ".Timeout"):
			return []CallAlt{{Ret: symBool(true), Note: "timeout"}, {Ret: symBool(false), Note: "no timeout"}}
		}
		return nil
	}
	paths, err := evalPaths(fn, sc)
	if err != nil || len(paths) == 0 {
		r.bad(rule, name, "socket reader", c.pos(fn.Pos()), fmt.Sprintf("undecided: %v", err))
		return
	}
	var problems []string
	datagrams, skipped, ended := 0, 0, 0
	for _, p := range paths {
		if p.Outcome == "panic" {
			problems = append(problems, "a path panics: "+fmtTrace(p))
			continue
		}
		type iter struct {
			outcome, as, to string
			sends           []string
		}
		var its []*iter
		var cur *iter
		over := false
		for _, e := range p.Trace {
			switch {
			case e.Kind == "call" && e.What == "invoke net.PacketConn.ReadFrom":
				if over {
					problems = append(problems, "the socket is read again after a fatal read error was reported")
				}
				cur = &iter{outcome: e.Note}
				its = append(its, cur)
			case cur == nil:
			case e.Kind == "call" && e.What == "errors.As":
				cur.as = e.Note
			case e.Kind == "call" && strings.HasSuffix(e.What, ".Timeout"):
				cur.to = e.Note
			case e.Kind == "send" && len(e.Args) == 1:
				cur.sends = append(cur.sends, e.Args[0])
			}
			if cur != nil && cur.outcome == "error" && e.Kind == "send" {
				over = true
			}
		}
		if p.Outcome == "cutoff" && len(its) > 0 {
			its = its[:len(its)-1]
		}
		for i, it := range its {
			last := i == len(its)-1
			switch {
			case strings.HasPrefix(it.outcome, "datagram:"):
				datagrams++
				buf := strings.TrimPrefix(it.outcome, "datagram:")
				if len(it.sends) != 1 {
					problems = append(problems, fmt.Sprintf("a received datagram is sent on %d times", len(it.sends)))
					continue
				}
				rec := it.sends[0]
				get := func(f string) string { return p.Heap[rec+"."+f].Desc }
				if get("pooledBuf") != buf || get("n") != "n("+buf+")" || get("addr") != "addr("+buf+")" {
					problems = append(problems, fmt.Sprintf("the record sent for the datagram read into %s carries buffer %q, length %q, address %q", buf, get("pooledBuf"), get("n"), get("addr")))
				}
				if e := p.Heap[rec+".err"]; e.Desc != "" && !(e.Known && e.Nil) && !strings.HasPrefix(e.Desc, "zero") {
					problems = append(problems, "a datagram record carries an error: "+e.Desc)
				}
				if last && p.Outcome == "return" {
					problems = append(problems, "the reader stops after a datagram")
				}
			case it.as == "neterr" && it.to == "timeout":
				skipped++
				if len(it.sends) != 0 || (last && p.Outcome == "return") {
					problems = append(problems, "a read timeout is reported or ends the reader instead of being skipped: the UDP server loop stops")
				}
			default:
				ended++
				if len(it.sends) != 1 || p.Heap[it.sends[0]+".err"].Desc != "readErr" {
					problems = append(problems, fmt.Sprintf("a fatal read error is not passed on as exactly one error record (%d sends)", len(it.sends)))
				}
				if !(last && p.Outcome == "return") {
					problems = append(problems, "the reader goes on after a fatal read error")
				}
			}
		}
	}
	if datagrams == 0 || skipped == 0 || ended == 0 {
		problems = append(problems, fmt.Sprintf("the evaluation did not exercise all outcomes (datagrams %d, timeouts %d, fatal errors %d)", datagrams, skipped, ended))
	}
	r.check(len(problems) == 0, rule, name, "socket reader", c.pos(fn.Pos()), fmt.Sprintf("%d paths: %d datagrams, %d timeouts skipped, %d fatal errors", len(paths), datagrams, skipped, ended), strings.Join(dedup(problems), "; "))
}

// c08QuicAddr: the QUIC matcher lets quic-go parse the datagram through an in-memory packet pipe. quic-go keeps a
// process-wide registry of transports keyed by the local address of their packet conn and panics ("connection
// already exists") when a second transport is started on an address that is still registered. The pipe's local
// address therefore has to be made for each evaluation: it must not come from the matcher's fields or a package
// variable, which every concurrent connection shares.
func c08QuicAddr(c *Ctx, r *Report, rule string) {
	r.rule(rule, "QUIC matcher: the local address given to the in-memory packet pipe of each evaluation is an object created in that evaluation (never a field of the matcher or a package variable shared by concurrent connections - quic-go panics when two live transports have the same local address)", 1)
	fnName := "modules/l4quic.(*MatchQUIC).Match"
	fn := c.Fn(fnName)
	if fn == nil {
		r.bad(rule, fnName, "exists", "-", "function not found")
		return
	}
	n := 0
	for _, h := range sortedFuncs(c.reachSync(fn)) {
		if h.Pkg != fn.Pkg {
			continue
		}
		for _, ci := range callsIn(h) {
			cal := ci.Common().StaticCallee()
			if cal == nil || cal.Pkg != fn.Pkg || len(ci.Common().Args) == 0 {
				continue
			}
			// the pipe constructor: takes net.Addr values and returns packet conns
			takesAddr := false
			for _, p := range cal.Params {
				if strings.HasSuffix(typeStr(p.Type()), "net.Addr") {
					takesAddr = true
				}
			}
			if !takesAddr || !strings.Contains(strings.ToLower(cal.Name()), "pipe") {
				continue
			}
			for i, a := range ci.Common().Args {
				if i >= len(cal.Params) || !strings.HasSuffix(typeStr(cal.Params[i].Type()), "net.Addr") {
					continue
				}
				if cst, isConst := a.(*ssa.Const); isConst && cst.Value == nil {
					continue // nil address
				}
				n++
				var shared []string
				for _, o := range c.originsIP(h, a, 0) {
					switch o.Kind {
					case "field", "fieldaddr", "global":
						shared = append(shared, o.Kind+":"+o.Desc)
					}
				}
				r.check(len(shared) == 0, rule, fname(h), fmt.Sprintf("pipe address#%d", n), c.ipos(ci), "made for this evaluation", "the pipe's local address comes from "+strings.Join(dedup(shared), ", ")+", which concurrent evaluations share: the second of two simultaneous QUIC-looking datagrams makes quic-go panic (connection already exists) and the process dies")
			}
		}
	}
	if n == 0 {
		r.bad(rule, fnName, "pipe address", c.pos(fn.Pos()), "undecided: the packet pipe of the QUIC matcher was not found")
	}
}

// c13PerListener: one ListenerWrapper instance wraps every listener of its server (one per listen address). The
// hand-off queue, the done signal and the handler count of a wrapped listener belong to that listener: they are made
// where the listener object is made, never taken from the wrapper (or a package variable), which all listeners share
// - a shared queue delivers a connection accepted on one address to the Accept of another, and closing one listener
// closes the queue under the others.
func c13PerListener(c *Ctx, r *Report, rule string) {
	r.rule(rule, "per-listener state: every channel and WaitGroup field of the wrapped-listener object is created in the function that creates the object (make/new there), not loaded from the ListenerWrapper or a package variable", 3)
	n := 0
	for _, fn := range c.Funcs {
		if fn.Pkg == nil || short(fn.Pkg.Pkg.Path()) != "layer4" {
			continue
		}
		for _, b := range fn.Blocks {
			for _, in := range b.Instrs {
				st, ok := in.(*ssa.Store)
				if !ok {
					continue
				}
				fa, ok := st.Addr.(*ssa.FieldAddr)
				if !ok || namedName(deref(fa.X.Type())) != "layer4.listener" {
					continue
				}
				if al, isAlloc := fa.X.(*ssa.Alloc); !isAlloc || !al.Heap {
					continue // only the construction of the object
				}
				ft := st.Val.Type()
				_, isChan := ft.Underlying().(*types.Chan)
				isWG := strings.HasSuffix(typeStr(ft), "sync.WaitGroup")
				if !isChan && !isWG {
					continue
				}
				n++
				f := fieldName(deref(fa.X.Type()), fa.Field)
				var shared []string
				for _, o := range c.originsIP(fn, st.Val, 0) {
					switch o.Kind {
					case "field", "fieldaddr", "global", "param":
						shared = append(shared, o.Kind+":"+o.Desc)
					}
				}
				r.check(len(shared) == 0, rule, fname(fn), "listener."+f, c.ipos(st), "created with the listener", "the wrapped listener's "+f+" comes from "+strings.Join(dedup(shared), ", ")+", which every listener wrapped by the same wrapper shares: connections accepted on one address are delivered to another listener's Accept, and closing one listener closes the queue of the others")
			}
		}
	}
	if n == 0 {
		r.bad(rule, "layer4.listener", "construction", "-", "the construction of the wrapped-listener object was not found")
	}
}
