package main

import (
	"fmt"
	"go/ast"
	"go/parser"
	"go/token"
	"go/types"
	"math/big"
	"os"
	"sort"
	"strconv"
	"strings"
	"time"

	"golang.org/x/tools/go/packages"
	"golang.org/x/tools/go/ssa"
)

// ---- a model of caddyfile.Dispenser (caddy v2.8.4 caddyconfig/caddyfile/dispenser.go), on tokens with line numbers

type cfTok struct {
	text string
	line int
}

// cfTokenize: whitespace-separated tokens, "double quoted" and `backquoted` strings, braces as tokens of their own
// when they stand alone (as the Caddyfile lexer does).
func cfTokenize(src string) []cfTok {
	var out []cfTok
	for li, line := range strings.Split(src, "\n") {
		i := 0
		for i < len(line) {
			switch {
			case line[i] == ' ' || line[i] == '\t':
				i++
			case line[i] == '"' || line[i] == '`':
				q := line[i]
				j := i + 1
				for j < len(line) && line[j] != q {
					j++
				}
				out = append(out, cfTok{line[i+1 : j], li + 1})
				i = j + 1
			default:
				j := i
				for j < len(line) && line[j] != ' ' && line[j] != '\t' {
					j++
				}
				out = append(out, cfTok{line[i:j], li + 1})
				i = j
			}
		}
	}
	return out
}

type cfDisp struct {
	toks            []cfTok
	cursor, nesting int
}

func (d *cfDisp) next() bool {
	if d.cursor < len(d.toks)-1 {
		d.cursor++
		return true
	}
	return false
}
func (d *cfDisp) prev() bool {
	if d.cursor > -1 {
		d.cursor--
		return d.cursor > -1
	}
	return false
}
func (d *cfDisp) val() string {
	if d.cursor < 0 || d.cursor >= len(d.toks) {
		return ""
	}
	return d.toks[d.cursor].text
}
func (d *cfDisp) nextOnSameLine() bool {
	if d.cursor < 0 {
		d.cursor++
		return true
	}
	if d.cursor >= len(d.toks)-1 {
		return false
	}
	if !(d.toks[d.cursor].line < d.toks[d.cursor+1].line) {
		d.cursor++
		return true
	}
	return false
}
func (d *cfDisp) nextLine() bool {
	if d.cursor < 0 {
		d.cursor++
		return true
	}
	if d.cursor >= len(d.toks)-1 {
		return false
	}
	if d.toks[d.cursor].line < d.toks[d.cursor+1].line {
		d.cursor++
		return true
	}
	return false
}
func (d *cfDisp) nextArg() bool {
	if !d.nextOnSameLine() {
		return false
	}
	if d.val() == "{" {
		d.cursor--
		return false
	}
	return true
}
func (d *cfDisp) nextBlock(initial int) bool {
	if d.nesting > initial {
		if !d.next() {
			return false
		}
		if d.val() == "}" && !d.nextOnSameLine() {
			d.nesting--
		} else if d.val() == "{" && !d.nextOnSameLine() {
			d.nesting++
		}
		return d.nesting > initial
	}
	if !d.nextOnSameLine() {
		return false
	}
	if d.val() != "{" {
		d.cursor--
		return false
	}
	d.next()
	if d.val() == "}" {
		return false
	}
	d.nesting++
	return true
}
func (d *cfDisp) countRemainingArgs() int {
	n := 0
	for d.nextArg() {
		n++
	}
	for i := 0; i < n; i++ {
		d.prev()
	}
	return n
}
func (d *cfDisp) nextSegment() []cfTok {
	tok := func() cfTok {
		if d.cursor < 0 || d.cursor >= len(d.toks) {
			return cfTok{}
		}
		return d.toks[d.cursor]
	}
	out := []cfTok{tok()}
	for d.nextArg() {
		out = append(out, tok())
	}
	opened := false
	for nesting := d.nesting; d.nextBlock(nesting); {
		if !opened {
			d.prev()
			out = append(out, tok())
			d.next()
			opened = true
		}
		out = append(out, tok())
	}
	if opened {
		out = append(out, tok())
	}
	return out
}

// cfCalls installs the dispenser model (and the parsing helpers the option handlers use) into a scenario. The
// dispenser value is the reference "disp#0"; its cursor and nesting live in the path's heap.
func cfCalls(sc *Scenario, toks []cfTok, inner func(string, []SV, *symEval, *symState) (SV, bool)) {
	reg := map[string][]cfTok{"disp#0": toks}
	sc.Heap["disp#0.cursor"], sc.Heap["disp#0.nesting"] = symInt(-1), symInt(0)
	load := func(st *symState, id string) (*cfDisp, bool) {
		ts, ok := reg[id]
		cu, ok1 := st.heap[id+".cursor"]
		ne, ok2 := st.heap[id+".nesting"]
		if !ok || !ok1 || !ok2 {
			return nil, false
		}
		return &cfDisp{toks: ts, cursor: int(cu.N), nesting: int(ne.N)}, true
	}
	store := func(st *symState, id string, d *cfDisp) {
		st.heap[id+".cursor"], st.heap[id+".nesting"] = symInt(int64(d.cursor)), symInt(int64(d.nesting))
	}
	errV := func(kind string) SV { return SV{K: "ref", Known: true, Desc: "caddyfileErr:" + kind} }
	sc.Call = func(callee string, args []SV, ev *symEval, st *symState) (SV, bool) {
		if i := strings.Index(callee, "caddyfile.Dispenser)."); i >= 0 && len(args) >= 1 {
			m := callee[i+len("caddyfile.Dispenser)."):]
			id := args[0].Desc
			d, ok := load(st, id)
			if !ok {
				return SV{}, false
			}
			defer store(st, id, d)
			switch m {
			case "Next":
				return symBool(d.next()), true
			case "Prev":
				return symBool(d.prev()), true
			case "NextArg":
				return symBool(d.nextArg()), true
			case "NextLine":
				return symBool(d.nextLine()), true
			case "NextBlock":
				if len(args) == 2 && args[1].K == "int" && args[1].Known {
					return symBool(d.nextBlock(int(args[1].N))), true
				}
				return SV{}, false
			case "Nesting":
				return symInt(int64(d.nesting)), true
			case "Val", "ValRaw":
				return symStr(d.val()), true
			case "CountRemainingArgs":
				return symInt(int64(d.countRemainingArgs())), true
			case "RemainingArgs", "RemainingArgsRaw":
				var vals []string
				for d.nextArg() {
					vals = append(vals, d.val())
				}
				name := ev.fresh("args")
				for i, v := range vals {
					st.heap[fmt.Sprintf("%s[%d]", name, i)] = symStr(v)
				}
				l := symInt(int64(len(vals)))
				if len(vals) == 0 {
					return SV{K: "slice", Desc: name, Len: &l, Cap: &l, Known: true, Nil: true}, true
				}
				return SV{K: "slice", Desc: name, Len: &l, Cap: &l, Known: true}, true
			case "Args", "AllArgs":
				// Args(targets ...*string): one argument per target, false if there are not enough;
				// AllArgs: the same, and false too if arguments remain
				if len(args) == 2 && args[1].Len != nil && args[1].Len.Known {
					okAll := true
					for i := int64(0); i < args[1].Len.N; i++ {
						if !d.nextArg() {
							okAll = false
							break
						}
						if t, ok := lookupElem(st, args[1].Desc, i); ok && t.Desc != "" {
							st.heap[t.Desc] = symStr(d.val())
						} else {
							return SV{}, false
						}
					}
					if m == "AllArgs" && okAll {
						if d.nextArg() {
							d.prev()
							okAll = false
						}
					}
					return symBool(okAll), true
				}
				return SV{}, false
			case "ScalarVal":
				v := d.val()
				if n, err := strconv.Atoi(v); err == nil {
					return SV{K: "int", Known: true, N: int64(n), Desc: v, Dyn: "int"}, true
				}
				if b, err := strconv.ParseBool(v); err == nil {
					return symBool(b), true
				}
				return symStr(v), true
			case "Reset":
				d.cursor, d.nesting = -1, 0
				return symOpaque("reset"), true
			case "NewFromNextSegment":
				seg := d.nextSegment()
				nid := ev.fresh("disp")
				reg[nid] = seg
				st.heap[nid+".cursor"], st.heap[nid+".nesting"] = symInt(-1), symInt(0)
				return symRef(nid, false), true
			case "NextSegment":
				// the tokens as values: they travel through appends and maps and come back in NewDispenser
				seg := d.nextSegment()
				name := ev.fresh("seg")
				for i, t := range seg {
					st.heap[fmt.Sprintf("%s[%d]", name, i)] = SV{K: "tok", Known: true, S: t.text, N: int64(t.line), Desc: fmt.Sprintf("tok(%q@%d)", t.text, t.line)}
				}
				l := symInt(int64(len(seg)))
				return SV{K: "slice", Desc: name, Len: &l, Cap: &l, Known: true}, true
			case "ArgErr", "Err", "Errf", "SyntaxErr", "EOFErr", "WrapErr":
				return errV(m), true
			case "Line":
				if d.cursor >= 0 && d.cursor < len(d.toks) {
					return symInt(int64(d.toks[d.cursor].line)), true
				}
				return symInt(0), true
			case "File":
				return symStr("Caddyfile"), true
			}
			return SV{}, false
		}
		known := func(i int) bool { return i < len(args) && args[i].K == "str" && args[i].Known }
		switch {
		case strings.HasSuffix(callee, "caddyfile.NewDispenser") && len(args) == 1 && args[0].Len != nil && args[0].Len.Known:
			var toks []cfTok
			for i := int64(0); i < args[0].Len.N; i++ {
				e, ok := lookupElem(st, args[0].Desc, i)
				if !ok || e.K != "tok" {
					return SV{}, false
				}
				toks = append(toks, cfTok{e.S, int(e.N)})
			}
			nid := ev.fresh("disp")
			reg[nid] = toks
			st.heap[nid+".cursor"], st.heap[nid+".nesting"] = symInt(-1), symInt(0)
			return symRef(nid, false), true
		case strings.HasSuffix(callee, "caddyfile.UnmarshalModule") && len(args) == 2:
			// reached only when the module id is not one of this program's modules (see Redirect)
			return symTuple(symNil(), errV("UnmarshalModule")), true
		case strings.HasSuffix(callee, "caddyhttp.PrivateRangesCIDR") && len(args) == 0 && msgCtx != nil:
			if xs := depStringList(msgCtx, "github.com/caddyserver/caddy/v2/modules/caddyhttp", "PrivateRangesCIDR"); xs != nil {
				name := ev.fresh("privateRanges")
				for i, x := range xs {
					st.heap[fmt.Sprintf("%s[%d]", name, i)] = symStr(x)
				}
				l := symInt(int64(len(xs)))
				return SV{K: "slice", Desc: name, Len: &l, Cap: &l, Known: true}, true
			}
		case callee == "encoding/json.Marshal" && len(args) == 1:
			if os.Getenv("L4DEBUG") == "cfjson" {
				fmt.Printf("DBG marshal %+v\n", args[0])
			}
			if (args[0].K == "slice" || args[0].K == "ref") && args[0].Len != nil && args[0].Len.Known {
				st.heap["jsonlen:"+args[0].Desc] = *args[0].Len // (a list: its length at the time of encoding)
			}
			return symTuple(SV{K: "slice", Known: true, Desc: "json:" + args[0].Desc}, symNil()), true
		case callee == "encoding/json.Unmarshal" && len(args) == 2 && os.Getenv("L4DEBUG") == "cfjson" && func() bool { fmt.Printf("DBG unmarshal %+v | %+v\n", args[0], args[1]); return false }():
		case callee == "encoding/json.Unmarshal" && len(args) == 2 && strings.HasPrefix(args[0].Desc, "json:") && args[1].K == "addr":
			// decoding the encoding of a list of known strings into a list variable: the variable holds exactly those
			// elements afterwards (what it held before is gone: json.Unmarshal resets a slice before it fills it)
			src := strings.TrimPrefix(args[0].Desc, "json:")
			if ln, ok := st.heap["jsonlen:"+src]; ok && ln.Known {
				dst := ev.fresh("decoded")
				for i := int64(0); i < ln.N; i++ {
					e, ok := lookupElem(st, src, i)
					if !ok || !e.Known {
						return SV{}, false
					}
					st.heap[fmt.Sprintf("%s[%d]", dst, i)] = e
				}
				n := ln
				st.heap[args[1].Desc] = SV{K: "slice", Known: true, Desc: dst, Len: &n, Cap: &n}
				return symNil(), true
			}
		case callee == "(*math/big.Int).SetString" && len(args) == 3 && known(1) && args[2].K == "int" && args[2].Known:
			if v, ok := new(big.Int).SetString(args[1].S, int(args[2].N)); ok {
				st.heap["bigint:"+args[0].Desc] = symStr(v.String())
				return symTuple(args[0], symBool(true)), true
			}
			return symTuple(symNil(), symBool(false)), true
		case callee == "(*math/big.Int).String" && len(args) == 1:
			if v, ok := st.heap["bigint:"+args[0].Desc]; ok {
				return v, true
			}
		case strings.HasSuffix(callee, "caddyconfig.JSON") && len(args) == 2:
			return SV{K: "slice", Known: true, Desc: "json:" + args[0].Desc}, true
		case strings.HasSuffix(callee, "layer4.SetModuleNameInline") && len(args) == 3 && known(0) && known(1):
			return symTuple(SV{K: "slice", Known: true, Desc: args[2].Desc + "+" + args[0].S + "=" + args[1].S}, symNil()), true
		}
		if os.Getenv("L4DEBUG") == "cf" && strings.HasPrefix(callee, "slices.") {
			fmt.Println("DBG cf", callee, len(args), args)
		}
		if (strings.HasPrefix(callee, "slices.Contains") || strings.HasPrefix(callee, "slices.Index")) && len(args) == 2 && known(1) && args[0].Len != nil && args[0].Len.Known {
			idx, all := int64(-1), true
			for i := int64(0); i < args[0].Len.N; i++ {
				e, ok := lookupElem(st, args[0].Desc, i)
				if !ok || e.K != "str" || !e.Known {
					all = false
					break
				}
				if e.S == args[1].S && idx < 0 {
					idx = i
				}
			}
			if all {
				if strings.HasPrefix(callee, "slices.Contains") {
					return symBool(idx >= 0), true
				}
				return symInt(idx), true
			}
		}
		parseErr := SV{K: "ref", Known: true, Desc: "errParse"}
		switch callee {
		case "strings.ToLower":
			if known(0) {
				return symStr(strings.ToLower(args[0].S)), true
			}
		case "strings.ToUpper":
			if known(0) {
				return symStr(strings.ToUpper(args[0].S)), true
			}
		case "strings.TrimSpace":
			if known(0) {
				return symStr(strings.TrimSpace(args[0].S)), true
			}
		case "strings.EqualFold":
			if known(0) && known(1) {
				return symBool(strings.EqualFold(args[0].S, args[1].S)), true
			}
		case "strings.HasPrefix":
			if known(0) && known(1) {
				return symBool(strings.HasPrefix(args[0].S, args[1].S)), true
			}
		case "strings.HasSuffix":
			if known(0) && known(1) {
				return symBool(strings.HasSuffix(args[0].S, args[1].S)), true
			}
		case "strings.Contains":
			if known(0) && known(1) {
				return symBool(strings.Contains(args[0].S, args[1].S)), true
			}
		case "strings.TrimPrefix":
			if known(0) && known(1) {
				return symStr(strings.TrimPrefix(args[0].S, args[1].S)), true
			}
		case "strings.TrimSuffix":
			if known(0) && known(1) {
				return symStr(strings.TrimSuffix(args[0].S, args[1].S)), true
			}
		case "strconv.Atoi":
			if known(0) {
				v, err := strconv.Atoi(args[0].S)
				if err != nil {
					return symTuple(symInt(0), parseErr), true
				}
				return symTuple(symInt(int64(v)), symNil()), true
			}
		case "strconv.ParseInt":
			if known(0) && len(args) == 3 && args[1].Known && args[2].Known {
				v, err := strconv.ParseInt(args[0].S, int(args[1].N), int(args[2].N))
				if err != nil {
					return symTuple(symInt(0), parseErr), true
				}
				return symTuple(symInt(v), symNil()), true
			}
		case "strconv.ParseUint":
			if known(0) && len(args) == 3 && args[1].Known && args[2].Known {
				v, err := strconv.ParseUint(args[0].S, int(args[1].N), int(args[2].N))
				if err != nil {
					return symTuple(symInt(0), parseErr), true
				}
				return symTuple(symInt(int64(v)), symNil()), true
			}
		case "strconv.ParseBool":
			if known(0) {
				v, err := strconv.ParseBool(args[0].S)
				if err != nil {
					return symTuple(symBool(false), parseErr), true
				}
				return symTuple(symBool(v), symNil()), true
			}
		case "strconv.ParseFloat":
			if known(0) {
				v, err := strconv.ParseFloat(args[0].S, 64)
				if err != nil {
					return symTuple(SV{K: "float", Desc: "0"}, parseErr), true
				}
				return symTuple(SV{K: "float", Known: true, Desc: strconv.FormatFloat(v, 'g', -1, 64)}, symNil()), true
			}
		case "github.com/caddyserver/caddy/v2.ParseDuration", "time.ParseDuration":
			if known(0) {
				s := args[0].S
				var v time.Duration
				var err error
				if strings.HasSuffix(s, "d") && callee != "time.ParseDuration" {
					var days float64
					days, err = strconv.ParseFloat(strings.TrimSuffix(s, "d"), 64)
					v = time.Duration(days * 24 * float64(time.Hour))
				} else {
					v, err = time.ParseDuration(s)
				}
				if err != nil {
					return symTuple(symInt(0), parseErr), true
				}
				return symTuple(symInt(int64(v)), symNil()), true
			}
		case "github.com/dustin/go-humanize.ParseBytes":
			if known(0) {
				if v, err := strconv.ParseUint(args[0].S, 10, 64); err == nil {
					return symTuple(symInt(int64(v)), symNil()), true
				}
				mult := map[string]int64{"kb": 1000, "mb": 1000 * 1000, "kib": 1024, "mib": 1024 * 1024, "b": 1}
				ls := strings.ToLower(args[0].S)
				for suf, m := range mult {
					if strings.HasSuffix(ls, suf) {
						if v, err := strconv.ParseInt(strings.TrimSpace(strings.TrimSuffix(ls, suf)), 10, 64); err == nil {
							return symTuple(symInt(v*m), symNil()), true
						}
					}
				}
				return symTuple(symInt(0), parseErr), true
			}
		case "fmt.Errorf", "errors.New":
			return SV{K: "ref", Known: true, Desc: "err:" + callee}, true
		}
		if inner != nil {
			return inner(callee, args, ev, st)
		}
		return SV{}, false
	}
}

// cfModules installs the module registry: caddyfile.UnmarshalModule(d, id) for an id registered by this program is
// the registered type's UnmarshalCaddyfile on a fresh value and the dispenser of the next segment.
func cfModules(c *Ctx, sc *Scenario) {
	ids := moduleIDs(c)
	if os.Getenv("L4DEBUG") == "cfmod" {
		for k, v := range ids {
			fmt.Println("DBG module", k, typeStr(v))
		}
	}
	sc.Redirect = func(callee string, args []SV, ev *symEval, st *symState) (*ssa.Function, []SV, func([]SV, *symState) []SV, bool) {
		if !strings.HasSuffix(callee, "caddyfile.UnmarshalModule") || len(args) != 2 || args[1].K != "str" || !args[1].Known {
			return nil, nil, nil, false
		}
		t, ok := ids[args[1].S]
		if !ok {
			return nil, nil, nil, false
		}
		um := methodOf(c, t, "UnmarshalCaddyfile")
		if um == nil || len(um.Blocks) == 0 {
			return nil, nil, nil, false
		}
		// the dispenser of the next segment, through the model
		nd, ok := sc.Call(strings.TrimSuffix(callee, "UnmarshalModule")+"Dispenser).NewFromNextSegment", []SV{args[0]}, ev, st)
		if !ok {
			return nil, nil, nil, false
		}
		obj := SV{K: "addr", Known: true, Desc: ev.fresh("new " + typeStr(deref(t))), DynT: t, Dyn: typeStr(t)}
		zeroFields(st.heap, obj.Desc, t)
		wrap := func(rets []SV, _ *symState) []SV {
			if len(rets) == 1 && rets[0].K == "ref" && rets[0].Known && rets[0].Nil {
				return []SV{obj, symNil()}
			}
			if len(rets) == 1 {
				return []SV{symNil(), rets[0]}
			}
			return rets
		}
		return um, []SV{obj, nd}, wrap, true
	}
}

// moduleIDs: the caddy module id of every module type of the program, read from its CaddyModule method.
func moduleIDs(c *Ctx) map[string]types.Type {
	out := map[string]types.Type{}
	for _, fn := range c.Funcs {
		if fn.Name() != "CaddyModule" || fn.Signature.Recv() == nil {
			continue
		}
		for _, b := range fn.Blocks {
			for _, in := range b.Instrs {
				st, ok := in.(*ssa.Store)
				if !ok {
					continue
				}
				fa, ok := st.Addr.(*ssa.FieldAddr)
				if !ok || fieldName(deref(fa.X.Type()), fa.Field) != "ID" {
					continue
				}
				if id, ok := constString(st.Val); ok {
					t := fn.Signature.Recv().Type()
					if _, isPtr := t.(*types.Pointer); !isPtr {
						t = types.NewPointer(t)
					}
					out[id] = t
				}
			}
		}
	}
	return out
}

// zeroFields fills the heap with the zero values of the fields of the struct behind recv (the unmarshaller starts
// from a fresh module value).
func zeroFields(h map[string]SV, recv string, t types.Type) {
	st, ok := deref(t).Underlying().(*types.Struct)
	if !ok {
		return
	}
	for i := 0; i < st.NumFields(); i++ {
		f := st.Field(i)
		key := recv + "." + canonFieldName(f) // (the name the evaluator reads and writes the field under)
		switch u := f.Type().Underlying().(type) {
		case *types.Basic:
			switch {
			case u.Info()&types.IsString != 0:
				h[key] = symStr("")
			case u.Info()&types.IsBoolean != 0:
				h[key] = symBool(false)
			case u.Info()&types.IsInteger != 0:
				h[key] = symInt(0)
			case u.Info()&types.IsFloat != 0:
				h[key] = SV{K: "float", Known: true, Desc: "0"}
			}
		case *types.Slice:
			l := symInt(0)
			h[key] = SV{K: "slice", Desc: key, Len: &l, Cap: &l, Known: true, Nil: true}
		case *types.Array:
			if eb, ok := u.Elem().Underlying().(*types.Basic); ok && u.Len() <= 512 {
				for j := int64(0); j < u.Len(); j++ {
					ek := fmt.Sprintf("%s[%d]", key, j)
					switch {
					case eb.Info()&types.IsBoolean != 0:
						h[ek] = symBool(false)
					case eb.Info()&types.IsInteger != 0:
						h[ek] = symInt(0)
					case eb.Info()&types.IsString != 0:
						h[ek] = symStr("")
					}
				}
			}
		case *types.Pointer, *types.Map, *types.Interface:
			h[key] = symNil()
		case *types.Struct:
			zeroFields(h, key, f.Type())
		}
	}
}

// renderHeap: the canonical text of a configuration value after the evaluation.
func renderHeap(h map[string]SV, st *symState, v SV) string {
	if mv, ok := h["smap:"+v.Desc]; ok && mv.MS != nil {
		var ks []string
		for k := range mv.MS {
			ks = append(ks, k)
		}
		sort.Strings(ks)
		var parts []string
		for _, k := range ks {
			parts = append(parts, strconv.Quote(k)+":"+renderHeap(h, st, mv.MS[k]))
		}
		return "map[" + strings.Join(parts, " ") + "]"
	}
	if strings.HasPrefix(v.Desc, "json:") {
		// the JSON encoding of a configuration object: shown as the object (with what was set inline)
		obj, suffix := strings.TrimPrefix(v.Desc, "json:"), ""
		if i := strings.Index(obj, "+"); i >= 0 {
			obj, suffix = obj[:i], obj[i:]
		}
		t := strings.TrimPrefix(obj, "new ")
		if i := strings.LastIndex(t, "#"); i >= 0 {
			t = t[:i]
		}
		if i := strings.LastIndex(t, "."); i >= 0 {
			t = t[i+1:]
		}
		if strings.HasPrefix(obj, "cell:") {
			t = "" // a local variable: its name is not part of what was configured
		}
		return t + renderHeap(h, st, SV{K: "addr", Known: true, Desc: obj}) + suffix
	}
	switch v.K {
	case "str":
		if v.Known {
			return strconv.Quote(v.S)
		}
	case "int":
		if v.Known {
			return fmt.Sprint(v.N)
		}
	case "bool":
		if v.Known {
			return fmt.Sprint(v.B)
		}
	case "float":
		if v.Known {
			return v.Desc
		}
	case "ref", "addr":
		if v.K == "ref" && v.Known && v.Nil {
			return "nil"
		}
		if cv, ok := h[v.Desc]; ok && cv.K == "slice" && strings.HasPrefix(v.Desc, "cell:") {
			return renderHeap(h, st, cv) // a pointer to a variable of a named slice type (MatchServerName): the list it holds
		}
		if strings.HasPrefix(v.Desc, "new ") || strings.HasPrefix(v.Desc, "cell:") {
			// a fresh object: the fields that were assigned
			var ks []string
			for k := range h {
				if strings.HasPrefix(k, v.Desc+".") && !strings.ContainsAny(k[len(v.Desc)+1:], ".[") {
					ks = append(ks, k)
				}
			}
			sort.Strings(ks)
			var parts []string
			for _, k := range ks {
				name := k[len(v.Desc)+1:]
				if name == "" || !token.IsExported(name) {
					continue // not part of the configuration (JSON ignores it)
				}
				val := renderHeap(h, st, h[k])
				switch val {
				case "nil", `""`, "0", "false", "[]":
					continue // zero values are what an absent option means
				}
				parts = append(parts, name+":"+val)
			}
			return "{" + strings.Join(parts, " ") + "}"
		}
	case "slice":
		if v.Len != nil && v.Len.Known {
			var parts []string
			for i := int64(0); i < v.Len.N; i++ {
				e, ok := h[fmt.Sprintf("%s[%d]", v.Desc, i)]
				if !ok {
					parts = append(parts, "?")
					continue
				}
				parts = append(parts, renderHeap(h, st, e))
			}
			return "[" + strings.Join(parts, " ") + "]"
		}
	}
	return "?(" + v.K + " " + v.Desc + ")"
}

type cfCase struct {
	name string
	src  string
	want map[string]string // field -> canonical value; nil = the unmarshaller must fail
}

type cfTable struct {
	fn          string
	source      string
	noProvision bool // Provision needs what the tables cannot give (files, the module registry at run time)
	pre         int  // tokens the caller has consumed before it hands the dispenser over (0: the usual fresh dispenser)
	cases       []cfCase
}

func c15Tables(c *Ctx, r *Report, rule string) { c15TablesFor(c, r, rule, "") }

// c15TablesFor: the option tables, restricted to the unmarshallers of the packages whose path contains only.
func c15TablesFor(c *Ctx, r *Report, rule, only string) {
	floor := 240
	if only != "" {
		floor = 3
	}
	r.rule(rule, "Caddyfile option tables: each unmarshaller, evaluated on concrete token sequences with a model of the dispenser (Next/NextArg/NextBlock/Nesting/Val/RemainingArgs/CountRemainingArgs/NextSegment/NewFromNextSegment/NewDispenser as in caddy v2.8.4) and of the module registry (caddyfile.UnmarshalModule(d, id) is the UnmarshalCaddyfile of the type registered under id, evaluated in place on a fresh value; JSON encodings are kept as references to the encoded objects), stores exactly the configuration its documented syntax denotes and rejects what the syntax does not allow", floor)
	msgCtx = c
	for _, tb := range cfTables {
		if only != "" && !strings.Contains(tb.fn, only) {
			continue
		}
		fn := c.Fn(tb.fn)
		if fn == nil {
			r.bad(rule, tb.fn, "exists", "-", "unmarshaller not found")
			continue
		}
		for _, cs := range tb.cases {
			key := cs.name + ": " + strings.ReplaceAll(cs.src, "\n", " \\n ")
			base := msgScenario(c, msgMatcher{fn: tb.fn}, msgCase{})
			sc := &Scenario{Name: key, MaxVisit: 60, MaxPaths: 500, ConcreteCopy: true, MaxDepth: 24,
				Params: map[string]SV{"recv": symRef("m", false), "p0": symRef("disp#0", false)},
				Heap:   map[string]SV{},
			}
			sc.Inline = func(f *ssa.Function) bool { // helpers of the package and the unmarshaller's own closures
				for q := f.Parent(); q != nil; q = q.Parent() {
					if q == fn {
						return true
					}
				}
				if base.Inline != nil && base.Inline(f) {
					return true
				}
				// the module's Caddyfile helpers, wherever they live (they take the dispenser)
				if f.Pkg != nil && strings.HasPrefix(f.Pkg.Pkg.Path(), modPath) && f.Parent() == nil {
					if f.Signature.Recv() == nil {
						return true // plain functions of the module (parsing helpers, also those that only see tokens)
					}
					for _, pr := range f.Params {
						if strings.HasSuffix(typeStr(pr.Type()), "caddyfile.Dispenser") {
							return true
						}
					}
				}
				return false
			}
			for k, v := range base.Heap {
				if strings.HasPrefix(k, "global:") {
					sc.Heap[k] = v
				}
			}
			zeroFields(sc.Heap, "m", fn.Signature.Recv().Type())
			if _, isList := deref(fn.Signature.Recv().Type()).Underlying().(*types.Slice); isList {
				z := symInt(0) // a matcher that is a list (MatchALPN): a fresh, empty one
				sc.Heap["m"] = SV{K: "slice", Desc: "m", Len: &z, Cap: &z, Known: true, Nil: true}
			}
			cfCalls(sc, cfTokenize(cs.src), base.Call)
			cfModules(c, sc)
			sc.Heap["disp#0.cursor"] = symInt(int64(tb.pre - 1))
			paths, err := evalPaths(fn, sc)
			if err != nil || len(paths) == 0 {
				r.bad(rule, tb.fn, key, c.pos(fn.Pos()), fmt.Sprintf("undecided: %v", err))
				continue
			}
			var problems []string
			for _, p := range paths {
				if p.Outcome != "return" || len(p.Ret) != 1 {
					problems = append(problems, "undecided path: "+p.Outcome)
					continue
				}
				failed := !(p.Ret[0].Known && p.Ret[0].Nil)
				if !p.Ret[0].Known {
					problems = append(problems, "undecided: the result is "+p.Ret[0].Desc)
					continue
				}
				if cs.want == nil {
					if !failed {
						problems = append(problems, "accepted, although the documented syntax does not allow it")
					}
					continue
				}
				if failed {
					problems = append(problems, "rejected ("+p.Ret[0].Desc+"), although it is documented syntax")
					continue
				}
				var fields []string
				for f := range cs.want {
					fields = append(fields, f)
				}
				sort.Strings(fields)
				for _, f := range fields {
					got := "?"
					if v, ok := p.Heap["m."+f]; ok {
						got = renderHeap(p.Heap, nil, v)
					} else if v, ok := p.Heap["m"]; ok && f == "*" { // the receiver itself is the value (a named list type)
						got = renderHeap(p.Heap, nil, v)
					}
					if got != cs.want[f] {
						problems = append(problems, fmt.Sprintf("%s = %s, the syntax denotes %s", f, got, cs.want[f]))
					}
				}
			}
			// "that JSON loads and provisions": where the module's Provision can be evaluated on the state the
			// unmarshaller left, it must not fail for a documented configuration
			provNote := ""
			if cs.want != nil && len(problems) == 0 && len(paths) == 1 && !strings.Contains(cs.src, "{env.") { // (placeholders resolve at run time only)
				if prov := methodOf(c, fn.Signature.Recv().Type(), "Provision"); prov != nil && len(prov.Blocks) > 0 && !tb.noProvision {
					psc := &Scenario{Name: "provision after " + key, MaxVisit: 40, MaxPaths: 400, ConcreteCopy: true, FreshBase: 700000,
						Params: map[string]SV{"recv": symRef("m", false), "p0": symOpaque("ctx")},
						Heap:   map[string]SV{},
					}
					pbase := msgScenario(c, msgMatcher{fn: fname(prov)}, msgCase{})
					psc.Inline = pbase.Inline
					for k, v := range pbase.Heap {
						if strings.HasPrefix(k, "global:") || strings.HasPrefix(k, "regexp:") {
							psc.Heap[k] = v
						}
					}
					for k, v := range paths[0].Heap {
						if !strings.HasPrefix(k, "disp#") {
							psc.Heap[k] = v
						}
					}
					psc.Call = provisionModels(func(callee string, args []SV, ev *symEval, st *symState) (SV, bool) {
						if callee == "time.LoadLocation" {
							return SV{}, false // depends on the machine's zone database
						}
						if v, ok := timeModel(callee, args); ok {
							return v, true
						}
						return pbase.Call(callee, args, ev, st)
					})
					ppaths, perr := evalPaths(prov, psc)
					decided, fails := perr == nil && len(ppaths) > 0, ""
					for _, pp := range ppaths {
						if pp.Outcome != "return" || len(pp.Ret) != 1 || !pp.Ret[0].Known {
							decided = false
						} else if !pp.Ret[0].Nil {
							fails = pp.Ret[0].Desc
						}
					}
					switch {
					case !decided:
						provNote = "; provisioning not evaluated"
					case fails != "" && len(ppaths) == 1:
						problems = append(problems, "the configuration adapts but does not provision ("+fails+")")
					default:
						provNote = "; provisions"
						// caddy runs Validate (where the module has one) on what Provision left: it must accept it too
						if val := methodOf(c, fn.Signature.Recv().Type(), "Validate"); val != nil && len(val.Blocks) > 0 && len(ppaths) == 1 {
							vsc := &Scenario{Name: "validate after " + key, MaxVisit: 40, MaxPaths: 400, ConcreteCopy: true, FreshBase: 800000,
								Params: map[string]SV{"recv": symRef("m", false)},
								Heap:   map[string]SV{},
							}
							vsc.Inline = pbase.Inline
							for k, v := range ppaths[0].Heap {
								vsc.Heap[k] = v
							}
							vsc.Call = psc.Call
							vpaths, verr := evalPaths(val, vsc)
							vdecided, vfails := verr == nil && len(vpaths) > 0, ""
							for _, vp := range vpaths {
								if vp.Outcome != "return" || len(vp.Ret) != 1 || !vp.Ret[0].Known {
									vdecided = false
								} else if !vp.Ret[0].Nil {
									vfails = vp.Ret[0].Desc
								}
							}
							switch {
							case !vdecided:
								provNote += "; validation not evaluated"
							case vfails != "" && len(vpaths) == 1:
								problems = append(problems, "the configuration adapts and provisions but does not validate ("+vfails+")")
							default:
								provNote += "; validates"
							}
						}
					}
				}
			}
			r.check(len(problems) == 0, rule, tb.fn, key, c.pos(fn.Pos()), fmt.Sprintf("%d path(s)%s; %s", len(paths), provNote, tb.source), strings.Join(dedup(problems), "; "))
		}
	}
}

var _ = ssa.Value(nil)

var cfTables = []cfTable{
	{
		fn: "modules/l4clock.(*MatchClock).UnmarshalCaddyfile", source: "clock <time_after> <time_before> [<time_zone>] | clock <after|from> <time_after> [<time_zone>] | clock <before|till|to|until> <time_before> [<time_zone>]",
		cases: []cfCase{
			{"two times", "clock 08:00:00 17:00:00", map[string]string{"After": `"08:00:00"`, "Before": `"17:00:00"`, "Timezone": `""`}},
			{"two times and zone", "clock 08:00:00 17:00:00 Europe/Berlin", map[string]string{"After": `"08:00:00"`, "Before": `"17:00:00"`, "Timezone": `"Europe/Berlin"`}},
			{"after", "clock after 21:00:00", map[string]string{"After": `"21:00:00"`, "Before": `"00:00:00"`, "Timezone": `""`}},
			{"from with zone", "clock from 21:00:00 +02", map[string]string{"After": `"21:00:00"`, "Before": `"00:00:00"`, "Timezone": `"+02"`}},
			{"AFTER in capitals with zone", "clock AFTER 21:00:00 Local", map[string]string{"After": `"21:00:00"`, "Before": `"00:00:00"`, "Timezone": `"Local"`}},
			{"before", "clock before 06:00:00", map[string]string{"After": `"00:00:00"`, "Before": `"06:00:00"`, "Timezone": `""`}},
			{"until with zone", "clock until 06:00:00 America/New_York", map[string]string{"After": `"00:00:00"`, "Before": `"06:00:00"`, "Timezone": `"America/New_York"`}},
			{"till", "clock till 06:00:00", map[string]string{"After": `"00:00:00"`, "Before": `"06:00:00"`}},
			{"to", "clock to 06:00:00 UTC", map[string]string{"After": `"00:00:00"`, "Before": `"06:00:00"`, "Timezone": `"UTC"`}},
			{"one argument", "clock 08:00:00", nil},
			{"no argument", "clock", nil},
			{"four arguments", "clock 08:00:00 17:00:00 UTC extra", nil},
			{"block", "clock 08:00:00 17:00:00 {\n x\n}", nil},
		},
	},

	{
		fn: "modules/l4socks.(*Socks5Matcher).UnmarshalCaddyfile", source: "socks5 { auth_methods <auth_methods...> } | socks5",
		cases: []cfCase{
			{"bare", "socks5", map[string]string{"AuthMethods": "[]"}},
			{"methods", "socks5 {\n auth_methods 0 2\n}", map[string]string{"AuthMethods": "[0 2]"}},
			{"methods on two lines accumulate in order", "socks5 {\n auth_methods 2\n auth_methods 0 255\n}", map[string]string{"AuthMethods": "[2 0 255]"}},
			{"method above 255", "socks5 {\n auth_methods 256\n}", nil},
			{"method not a number", "socks5 {\n auth_methods gssapi\n}", nil},
			{"no method", "socks5 {\n auth_methods\n}", nil},
			{"unknown option", "socks5 {\n methods 0\n}", nil},
			{"same-line argument", "socks5 0", nil},
			{"nested block", "socks5 {\n auth_methods 0 {\n  x\n }\n}", nil},
		},
	},
	{
		fn: "modules/l4socks.(*Socks4Matcher).UnmarshalCaddyfile", source: "socks4 { commands <commands...>; networks <ranges...>; ports <ports...> } | socks4",
		cases: []cfCase{
			{"bare", "socks4", map[string]string{"Commands": "[]", "Networks": "[]", "Ports": "[]"}},
			{"all options", "socks4 {\n commands CONNECT BIND\n networks 10.0.0.0/8 fd00::/8\n ports 80 443\n}", map[string]string{"Commands": `["CONNECT" "BIND"]`, "Networks": `["10.0.0.0/8" "fd00::/8"]`, "Ports": "[80 443]"}},
			{"options in another order, repeated", "socks4 {\n ports 1\n commands BIND\n ports 65535 2\n}", map[string]string{"Commands": `["BIND"]`, "Networks": "[]", "Ports": "[1 65535 2]"}},
			{"port above 65535", "socks4 {\n ports 65536\n}", nil},
			{"port not a number", "socks4 {\n ports http\n}", nil},
			{"no port", "socks4 {\n ports\n}", nil},
			{"no command", "socks4 {\n commands\n}", nil},
			{"no network", "socks4 {\n networks\n}", nil},
			{"unknown option", "socks4 {\n port 80\n}", nil},
			{"same-line argument", "socks4 CONNECT", nil},
			{"nested block", "socks4 {\n ports 80 {\n  x\n }\n}", nil},
		},
	},
	{
		fn: "modules/l4proxyprotocol.(*Handler).UnmarshalCaddyfile", source: "proxy_protocol { allow <ranges...>; timeout <duration> } | proxy_protocol",
		cases: []cfCase{
			{"bare", "proxy_protocol", map[string]string{"Allow": "[]", "Timeout": "0"}},
			{"both options", "proxy_protocol {\n allow 10.0.0.0/8 192.168.0.0/16\n timeout 5s\n}", map[string]string{"Allow": `["10.0.0.0/8" "192.168.0.0/16"]`, "Timeout": "5000000000"}},
			{"allow twice accumulates in order", "proxy_protocol {\n allow 10.0.0.0/8\n allow ::1/128\n}", map[string]string{"Allow": `["10.0.0.0/8" "::1/128"]`, "Timeout": "0"}},
			{"timeout in days", "proxy_protocol {\n timeout 1d\n}", map[string]string{"Timeout": "86400000000000"}},
			{"private_ranges shortcut", "proxy_protocol {\n allow private_ranges\n}", map[string]string{"Allow": `["192.168.0.0/16" "172.16.0.0/12" "10.0.0.0/8" "127.0.0.1/8" "fd00::/8" "::1"]`}},
			{"private_ranges with another range", "proxy_protocol {\n allow 203.0.113.0/24 private_ranges\n}", map[string]string{"Allow": `["203.0.113.0/24" "192.168.0.0/16" "172.16.0.0/12" "10.0.0.0/8" "127.0.0.1/8" "fd00::/8" "::1"]`}},
			{"timeout twice", "proxy_protocol {\n timeout 5s\n timeout 6s\n}", nil},
			{"timeout without value", "proxy_protocol {\n timeout\n}", nil},
			{"timeout with two values", "proxy_protocol {\n timeout 5s 6s\n}", nil},
			{"timeout not a duration", "proxy_protocol {\n timeout soon\n}", nil},
			{"allow without value", "proxy_protocol {\n allow\n}", nil},
			{"unknown option", "proxy_protocol {\n deny 10.0.0.0/8\n}", nil},
			{"same-line argument", "proxy_protocol 5s", nil},
			{"nested block", "proxy_protocol {\n timeout 5s {\n  x\n }\n}", nil},
		},
	},
	{
		fn: "modules/l4winbox.(*MatchWinbox).UnmarshalCaddyfile", source: "winbox { modes <standard|romon> [<...>]; username <value>; username_regexp <pattern> } | winbox (username and username_regexp exclude each other)",
		cases: []cfCase{
			{"bare", "winbox", map[string]string{"Modes": "[]", "Username": `""`, "UsernameRegexp": `""`}},
			{"modes and username", "winbox {\n modes standard romon\n username admin\n}", map[string]string{"Modes": `["standard" "romon"]`, "Username": `"admin"`, "UsernameRegexp": `""`}},
			{"one mode and expression", "winbox {\n username_regexp ^adm\n modes romon\n}", map[string]string{"Modes": `["romon"]`, "Username": `""`, "UsernameRegexp": `"^adm"`}},
			{"both username forms", "winbox {\n username admin\n username_regexp ^adm\n}", nil},
			{"username twice", "winbox {\n username a\n username b\n}", nil},
			{"modes twice", "winbox {\n modes standard\n modes romon\n}", nil},
			{"three modes", "winbox {\n modes standard romon standard\n}", nil},
			{"no mode", "winbox {\n modes\n}", nil},
			{"username with two values", "winbox {\n username a b\n}", nil},
			{"unknown option", "winbox {\n user a\n}", nil},
			{"same-line argument", "winbox romon", nil},
		},
	},
	{
		fn: "modules/l4socks.(*Socks5Handler).UnmarshalCaddyfile", source: "socks5 { bind_ip <address>; commands <values...>; credentials <username> <password> [<username> <password>] } (several commands/credentials options, one bind_ip)",
		cases: []cfCase{
			{"bare", "socks5", map[string]string{"BindIP": `""`, "Commands": "[]", "Credentials": "nil"}},
			{"all options", "socks5 {\n bind_ip 10.0.0.1\n commands CONNECT ASSOCIATE\n credentials alice pw1 bob pw2\n}", map[string]string{"BindIP": `"10.0.0.1"`, "Commands": `["CONNECT" "ASSOCIATE"]`, "Credentials": `map["alice":"pw1" "bob":"pw2"]`}},
			{"commands and credentials on several lines", "socks5 {\n commands BIND\n credentials alice pw1\n commands CONNECT\n credentials bob pw2\n}", map[string]string{"Commands": `["BIND" "CONNECT"]`, "Credentials": `map["alice":"pw1" "bob":"pw2"]`}},
			{"placeholders are kept", "socks5 {\n commands {env.CMD}\n credentials {env.U} {env.P}\n}", map[string]string{"Commands": `["{env.CMD}"]`, "Credentials": `map["{env.U}":"{env.P}"]`}},
			{"odd number of credential words", "socks5 {\n credentials alice pw1 bob\n}", nil},
			{"no credential words", "socks5 {\n credentials\n}", nil},
			{"bind_ip twice", "socks5 {\n bind_ip 10.0.0.1\n bind_ip 10.0.0.2\n}", nil},
			{"bind_ip with two values", "socks5 {\n bind_ip 10.0.0.1 10.0.0.2\n}", nil},
			{"no command", "socks5 {\n commands\n}", nil},
			{"unknown option", "socks5 {\n bind 10.0.0.1\n}", nil},
			{"same-line argument", "socks5 CONNECT", nil},
		},
	},
	{
		fn: "modules/l4throttle.(*Handler).UnmarshalCaddyfile", source: "throttle { latency <duration>; read_burst_size <int>; read_bytes_per_second <float>; total_read_burst_size <int>; total_read_bytes_per_second <float> }",
		cases: []cfCase{
			{"bare", "throttle", map[string]string{"Latency": "0", "ReadBurstSize": "0", "ReadBytesPerSecond": "0", "TotalReadBurstSize": "0", "TotalReadBytesPerSecond": "0"}},
			{"all options", "throttle {\n latency 100ms\n read_burst_size 4096\n read_bytes_per_second 1024.5\n total_read_burst_size 65536\n total_read_bytes_per_second 1e6\n}", map[string]string{"Latency": "100000000", "ReadBurstSize": "4096", "ReadBytesPerSecond": "1024.5", "TotalReadBurstSize": "65536", "TotalReadBytesPerSecond": "1e+06"}},
			{"per-connection only, reversed order", "throttle {\n read_bytes_per_second 10\n read_burst_size 20\n}", map[string]string{"ReadBurstSize": "20", "ReadBytesPerSecond": "10", "TotalReadBurstSize": "0", "TotalReadBytesPerSecond": "0"}},
			{"total only", "throttle {\n total_read_burst_size 7\n total_read_bytes_per_second 3\n}", map[string]string{"ReadBurstSize": "0", "ReadBytesPerSecond": "0", "TotalReadBurstSize": "7", "TotalReadBytesPerSecond": "3"}},
			{"largest burst", "throttle {\n read_burst_size 2147483647\n}", map[string]string{"ReadBurstSize": "2147483647"}},
			{"total burst before the per-connection burst", "throttle {\n total_read_burst_size 7\n read_burst_size 3\n}", map[string]string{"ReadBurstSize": "3", "TotalReadBurstSize": "7"}},
			{"total rate before the per-connection rate", "throttle {\n total_read_bytes_per_second 7\n read_bytes_per_second 3\n}", map[string]string{"ReadBytesPerSecond": "3", "TotalReadBytesPerSecond": "7"}},
			{"total_read_burst_size twice", "throttle {\n total_read_burst_size 1\n total_read_burst_size 2\n}", nil},
			{"read_bytes_per_second twice", "throttle {\n read_bytes_per_second 1\n read_bytes_per_second 2\n}", nil},
			{"total_read_bytes_per_second twice", "throttle {\n total_read_bytes_per_second 1\n total_read_bytes_per_second 2\n}", nil},
			{"latency twice", "throttle {\n latency 1s\n latency 2s\n}", nil},
			{"read_burst_size twice", "throttle {\n read_burst_size 1\n read_burst_size 2\n}", nil},
			{"burst not an integer", "throttle {\n read_burst_size 1.5\n}", nil},
			{"burst beyond 32 bits", "throttle {\n total_read_burst_size 2147483648\n}", nil},
			{"rate not a number", "throttle {\n read_bytes_per_second fast\n}", nil},
			{"latency not a duration", "throttle {\n latency slow\n}", nil},
			{"option without value", "throttle {\n latency\n}", nil},
			{"option with two values", "throttle {\n read_burst_size 1 2\n}", nil},
			{"unknown option", "throttle {\n write_burst_size 1\n}", nil},
			{"same-line argument", "throttle 1s", nil},
		},
	},
	{
		fn: "modules/l4rdp.(*MatchRDP).UnmarshalCaddyfile", source: "rdp { cookie_hash <value> } | { cookie_hash_regexp <value> } | { cookie_ip <ranges...>; cookie_port <ports...> } | { custom_info <value> } | { custom_info_regexp <value> } | rdp",
		cases: []cfCase{
			{"bare", "rdp", map[string]string{"CookieHash": `""`, "CookieHashRegexp": `""`, "CookieIPs": "[]", "CookiePorts": "[]", "CustomInfo": `""`, "CustomInfoRegexp": `""`}},
			{"cookie_hash", "rdp {\n cookie_hash user\n}", map[string]string{"CookieHash": `"user"`, "CookieHashRegexp": `""`, "CustomInfo": `""`}},
			{"cookie_hash_regexp", "rdp {\n cookie_hash_regexp ^adm\n}", map[string]string{"CookieHash": `""`, "CookieHashRegexp": `"^adm"`}},
			{"cookie_ip and cookie_port", "rdp {\n cookie_ip 10.0.0.0/8 192.168.1.1\n cookie_port 3389 3390\n}", map[string]string{"CookieIPs": `["10.0.0.0/8" "192.168.1.1"]`, "CookiePorts": "[3389 3390]", "CookieHash": `""`}},
			{"cookie_port first, repeated", "rdp {\n cookie_port 1\n cookie_ip ::1\n cookie_port 65535\n}", map[string]string{"CookieIPs": `["::1"]`, "CookiePorts": "[1 65535]"}},
			{"custom_info", "rdp {\n custom_info farm1\n}", map[string]string{"CustomInfo": `"farm1"`, "CustomInfoRegexp": `""`, "CookieHash": `""`}},
			{"custom_info_regexp", "rdp {\n custom_info_regexp ^farm\n}", map[string]string{"CustomInfo": `""`, "CustomInfoRegexp": `"^farm"`}},
			{"cookie_hash with cookie_ip", "rdp {\n cookie_hash user\n cookie_ip 10.0.0.1\n}", nil},
			{"cookie_port with cookie_hash", "rdp {\n cookie_port 3389\n cookie_hash user\n}", nil},
			{"cookie_hash with custom_info", "rdp {\n cookie_hash user\n custom_info x\n}", nil},
			{"custom_info with cookie_ip", "rdp {\n custom_info x\n cookie_ip 10.0.0.1\n}", nil},
			{"cookie_hash and cookie_hash_regexp", "rdp {\n cookie_hash user\n cookie_hash_regexp ^u\n}", nil},
			{"custom_info twice", "rdp {\n custom_info a\n custom_info b\n}", nil},
			{"port above 65535", "rdp {\n cookie_port 65536\n}", nil},
			{"port not a number", "rdp {\n cookie_port rdp\n}", nil},
			{"cookie_hash with two values", "rdp {\n cookie_hash a b\n}", nil},
			{"cookie_ip without value", "rdp {\n cookie_ip\n}", nil},
			{"unknown option", "rdp {\n cookie user\n}", nil},
			{"same-line argument", "rdp user", nil},
		},
	},
	{
		fn: "modules/l4openvpn.(*MatchOpenVPN).UnmarshalCaddyfile", source: "openvpn { modes <plain|auth|crypt|crypt2> [<...>]; ignore_crypto; ignore_timestamp; group_key <hex> | group_key_file <path>; auth_digest <digest>; group_key_direction <...>; server_key <base64> | server_key_file <path>; client_key <base64>; client_key_file <path> } (several client_key / client_key_file)",
		cases: []cfCase{
			{"bare", "openvpn", map[string]string{"Modes": "[]", "IgnoreCrypto": "false", "IgnoreTimestamp": "false", "GroupKey": `""`, "ClientKeys": "[]"}},
			{"modes and flags", "openvpn {\n modes plain auth crypt crypt2\n ignore_crypto\n ignore_timestamp\n}", map[string]string{"Modes": `["plain" "auth" "crypt" "crypt2"]`, "IgnoreCrypto": "true", "IgnoreTimestamp": "true"}},
			{"auth mode options", "openvpn {\n modes auth\n group_key abcdef\n auth_digest sha256\n group_key_direction inverse\n}", map[string]string{"Modes": `["auth"]`, "GroupKey": `"abcdef"`, "GroupKeyFile": `""`, "AuthDigest": `"sha256"`, "GroupKeyDirection": `"inverse"`, "IgnoreCrypto": "false"}},
			{"key files", "openvpn {\n group_key_file /etc/ta.key\n server_key_file /etc/server.key\n}", map[string]string{"GroupKey": `""`, "GroupKeyFile": `"/etc/ta.key"`, "ServerKey": `""`, "ServerKeyFile": `"/etc/server.key"`}},
			{"crypt2 keys", "openvpn {\n server_key c2VydmVy\n client_key Y2xpZW50MQ==\n client_key_file /etc/c2.key\n client_key Y2xpZW50Mw==\n client_key_file /etc/c4.key\n}", map[string]string{"ServerKey": `"c2VydmVy"`, "ClientKeys": `["Y2xpZW50MQ==" "Y2xpZW50Mw=="]`, "ClientKeyFiles": `["/etc/c2.key" "/etc/c4.key"]`}},
			{"group_key and group_key_file", "openvpn {\n group_key ab\n group_key_file /x\n}", nil},
			{"group_key_file and group_key", "openvpn {\n group_key_file /x\n group_key ab\n}", nil},
			{"server_key and server_key_file", "openvpn {\n server_key ab\n server_key_file /x\n}", nil},
			{"modes twice", "openvpn {\n modes plain\n modes auth\n}", nil},
			{"five modes", "openvpn {\n modes plain auth crypt crypt2 plain\n}", nil},
			{"no mode", "openvpn {\n modes\n}", nil},
			{"ignore_crypto with a value", "openvpn {\n ignore_crypto yes\n}", nil},
			{"ignore_timestamp twice", "openvpn {\n ignore_timestamp\n ignore_timestamp\n}", nil},
			{"auth_digest twice", "openvpn {\n auth_digest sha1\n auth_digest sha256\n}", nil},
			{"client_key with two values", "openvpn {\n client_key a b\n}", nil},
			{"unknown option", "openvpn {\n mode plain\n}", nil},
			{"same-line argument", "openvpn plain", nil},
		},
	},
	{
		fn: "modules/l4dns.(*MatchDNS).UnmarshalCaddyfile", source: "dns { <allow|deny> <*|name> [<*|type> [<*|class>]]; <allow_regexp|deny_regexp> <*|name_pattern> [<*|type_pattern> [<*|class_pattern>]]; default_deny; prefer_allow } | dns",
		cases: []cfCase{
			{"bare", "dns", map[string]string{"Allow": "[]", "Deny": "[]", "DefaultDeny": "false", "PreferAllow": "false"}},
			{"allow name", "dns {\n allow example.com.\n}", map[string]string{"Allow": `[{Name:"example.com."}]`, "Deny": "[]"}},
			{"allow name type class", "dns {\n allow example.com. A IN\n}", map[string]string{"Allow": `[{Class:"IN" Name:"example.com." Type:"A"}]`}},
			{"deny any name, type", "dns {\n deny * MX\n}", map[string]string{"Deny": `[{Type:"MX"}]`, "Allow": "[]"}},
			{"deny all three any", "dns {\n deny * * *\n}", map[string]string{"Deny": `[{}]`}},
			{"allow_regexp", "dns {\n allow_regexp ^.*\\.org\\.$ ^(A|AAAA)$ ^IN$\n}", map[string]string{"Allow": `[{ClassRegexp:"^IN$" NameRegexp:"^.*\\.org\\.$" TypeRegexp:"^(A|AAAA)$"}]`}},
			{"deny_regexp with any type", "dns {\n deny_regexp evil * ^CH$\n}", map[string]string{"Deny": `[{ClassRegexp:"^CH$" NameRegexp:"evil"}]`}},
			{"several rules keep their order and lists", "dns {\n allow a.\n deny b.\n allow_regexp c\n deny_regexp d\n default_deny\n prefer_allow\n}", map[string]string{"Allow": `[{Name:"a."} {NameRegexp:"c"}]`, "Deny": `[{Name:"b."} {NameRegexp:"d"}]`, "DefaultDeny": "true", "PreferAllow": "true"}},
			{"flags only", "dns {\n prefer_allow\n}", map[string]string{"DefaultDeny": "false", "PreferAllow": "true"}},
			{"allow without value", "dns {\n allow\n}", nil},
			{"allow with four values", "dns {\n allow a. A IN extra\n}", nil},
			{"default_deny twice", "dns {\n default_deny\n default_deny\n}", nil},
			{"prefer_allow with a value", "dns {\n prefer_allow yes\n}", nil},
			{"unknown option", "dns {\n permit a.\n}", nil},
			{"same-line argument", "dns allow", nil},
			{"nested block", "dns {\n allow a. {\n  x\n }\n}", nil},
		},
	},
	{
		fn: "modules/l4proxy.(*RandomChoiceSelection).UnmarshalCaddyfile", source: "random_choose <int> | random_choose",
		cases: []cfCase{
			{"bare", "random_choose", map[string]string{"Choose": "0"}},
			{"value", "random_choose 3", map[string]string{"Choose": "3"}},
			{"not a number", "random_choose many", nil},
			{"beyond 32 bits", "random_choose 2147483648", nil},
			{"two values", "random_choose 2 3", nil},
			{"block", "random_choose {\n x\n}", nil},
		},
	},
	{
		fn: "modules/l4proxy.(*RandomSelection).UnmarshalCaddyfile", source: "random",
		cases: []cfCase{{"bare", "random", map[string]string{}}, {"argument", "random x", nil}, {"block", "random {\n x\n}", nil}},
	},
	{
		fn: "modules/l4proxy.(*LeastConnSelection).UnmarshalCaddyfile", source: "least_conn",
		cases: []cfCase{{"bare", "least_conn", map[string]string{}}, {"argument", "least_conn x", nil}, {"block", "least_conn {\n x\n}", nil}},
	},
	{
		fn: "modules/l4proxy.(*RoundRobinSelection).UnmarshalCaddyfile", source: "round_robin",
		cases: []cfCase{{"bare", "round_robin", map[string]string{}}, {"argument", "round_robin x", nil}, {"block", "round_robin {\n x\n}", nil}},
	},
	{
		fn: "modules/l4proxy.(*FirstSelection).UnmarshalCaddyfile", source: "first",
		cases: []cfCase{{"bare", "first", map[string]string{}}, {"argument", "first x", nil}, {"block", "first {\n x\n}", nil}},
	},
	{
		fn: "modules/l4proxy.(*IPHashSelection).UnmarshalCaddyfile", source: "ip_hash",
		cases: []cfCase{{"bare", "ip_hash", map[string]string{}}, {"argument", "ip_hash x", nil}, {"block", "ip_hash {\n x\n}", nil}},
	},
	{
		fn: "modules/l4proxy.(*Upstream).UnmarshalCaddyfile", source: "upstream [<address:port>] { dial <address:port> [<address:port>]; max_connections <int>; tls; tls_client_auth <automate_name> | <cert_file> <key_file>; tls_curves <curves...>; tls_except_ports <ports...>; tls_insecure_skip_verify; tls_renegotiation <never|once|freely>; tls_server_name <name>; tls_timeout <duration>; ... } | upstream <address:port>",
		cases: []cfCase{
			{"shortcut", "upstream 10.0.0.1:80", map[string]string{"Dial": `["10.0.0.1:80"]`, "MaxConnections": "0", "TLS": "nil"}},
			{"two shortcut addresses", "upstream 10.0.0.1:80 10.0.0.2:80", map[string]string{"Dial": `["10.0.0.1:80" "10.0.0.2:80"]`}},
			{"dial option", "upstream {\n dial 10.0.0.1:80 10.0.0.2:80\n max_connections 5\n}", map[string]string{"Dial": `["10.0.0.1:80" "10.0.0.2:80"]`, "MaxConnections": "5", "TLS": "nil"}},
			{"shortcut before dial options, in order", "upstream a:1 {\n dial b:2\n dial c:3\n}", map[string]string{"Dial": `["a:1" "b:2" "c:3"]`}},
			{"tls flag", "upstream a:1 {\n tls\n}", map[string]string{"Dial": `["a:1"]`, "TLS": "{}"}},
			{"tls options", "upstream a:1 {\n tls_server_name example.com\n tls_insecure_skip_verify\n tls_renegotiation once\n tls_timeout 5s\n}", map[string]string{"TLS": `{HandshakeTimeout:5000000000 InsecureSkipVerify:true Renegotiation:"once" ServerName:"example.com"}`}},
			{"tls_client_auth automate", "upstream a:1 {\n tls_client_auth client.example.com\n}", map[string]string{"TLS": `{ClientCertificateAutomate:"client.example.com"}`}},
			{"tls_client_auth files", "upstream a:1 {\n tls_client_auth /c.pem /k.pem\n}", map[string]string{"TLS": `{ClientCertificateFile:"/c.pem" ClientCertificateKeyFile:"/k.pem"}`}},
			{"tls_curves before tls_except_ports, both repeated", "upstream a:1 {\n tls_curves x25519 secp256r1\n tls_except_ports 80\n tls_curves secp384r1\n tls_except_ports 8080 8081\n}", map[string]string{"TLS": `{Curves:["x25519" "secp256r1" "secp384r1"] ExceptPorts:["80" "8080" "8081"]}`}},
			{"deprecated CA options", "upstream a:1 {\n tls_trusted_ca_certs /a.pem /b.pem\n tls_trusted_ca_pool cHVi\n}", map[string]string{"TLS": `{RootCAPEMFiles:["/a.pem" "/b.pem"] RootCAPool:["cHVi"]}`}},
			{"no address at all", "upstream {\n max_connections 5\n}", nil},
			{"bare", "upstream", nil},
			{"dial without value", "upstream {\n dial\n}", nil},
			{"largest max_connections", "upstream a:1 {\n max_connections 2147483647\n}", map[string]string{"MaxConnections": "2147483647"}},
			{"max_connections beyond 32 bits", "upstream a:1 {\n max_connections 2147483648\n}", nil},
			{"max_connections twice", "upstream a:1 {\n max_connections 1\n max_connections 2\n}", nil},
			{"max_connections not a number", "upstream a:1 {\n max_connections many\n}", nil},
			{"tls twice", "upstream a:1 {\n tls\n tls\n}", nil},
			{"tls_renegotiation unknown value", "upstream a:1 {\n tls_renegotiation always\n}", nil},
			{"tls_client_auth with three values", "upstream a:1 {\n tls_client_auth a b c\n}", nil},
			{"tls_timeout not a duration", "upstream a:1 {\n tls_timeout soon\n}", nil},
			{"tls_insecure_skip_verify with value", "upstream a:1 {\n tls_insecure_skip_verify yes\n}", nil},
			{"unknown option", "upstream a:1 {\n weight 5\n}", nil},
		},
	},
	{
		fn: "modules/l4proxy.(*Handler).UnmarshalCaddyfile", source: "proxy [<upstreams...>] { health_interval|health_timeout|fail_duration|lb_try_duration|lb_try_interval <duration>; health_port|max_fails|unhealthy_connection_count <int>; proxy_protocol <v1|v2>; upstream [<args...>] [{...}] } (lb_policy <name> [<args>] resolved through the module registry)",
		cases: []cfCase{
			{"one upstream", "proxy 10.0.0.1:80", map[string]string{"Upstreams": `[{Dial:["10.0.0.1:80"]}]`, "HealthChecks": "nil", "LoadBalancing": "nil", "ProxyProtocol": `""`}},
			{"two upstreams in order", "proxy a:1 b:2", map[string]string{"Upstreams": `[{Dial:["a:1"]} {Dial:["b:2"]}]`}},
			{"active health checks", "proxy a:1 {\n health_interval 5s\n health_port 8080\n health_timeout 2s\n}", map[string]string{"HealthChecks": `{Active:{Interval:5000000000 Port:8080 Timeout:2000000000}}`}},
			{"passive health checks", "proxy a:1 {\n fail_duration 10s\n max_fails 3\n unhealthy_connection_count 100\n}", map[string]string{"HealthChecks": `{Passive:{FailDuration:10000000000 MaxFails:3 UnhealthyConnectionCount:100}}`}},
			{"both kinds of health checks", "proxy a:1 {\n max_fails 1\n health_port 81\n}", map[string]string{"HealthChecks": `{Active:{Port:81} Passive:{MaxFails:1}}`}},
			{"load balancing durations and proxy protocol", "proxy a:1 {\n lb_try_duration 3s\n lb_try_interval 250ms\n proxy_protocol v2\n}", map[string]string{"LoadBalancing": `{TryDuration:3000000000 TryInterval:250000000}`, "ProxyProtocol": `"v2"`}},
			{"upstream options after shortcut upstreams", "proxy a:1 {\n upstream b:2\n upstream {\n  dial c:3 d:4\n  max_connections 7\n }\n}", map[string]string{"Upstreams": `[{Dial:["a:1"]} {Dial:["b:2"]} {Dial:["c:3" "d:4"] MaxConnections:7}]`}},
			{"active option, then unhealthy_connection_count as the first passive one", "proxy a:1 {\n health_port 81\n health_interval 5s\n unhealthy_connection_count 5\n}", map[string]string{"HealthChecks": `{Active:{Interval:5000000000 Port:81} Passive:{UnhealthyConnectionCount:5}}`}},
			{"passive option, then active ones", "proxy a:1 {\n fail_duration 1s\n health_timeout 2s\n}", map[string]string{"HealthChecks": `{Active:{Timeout:2000000000} Passive:{FailDuration:1000000000}}`}},
			{"highest port", "proxy a:1 {\n health_port 65535\n}", map[string]string{"HealthChecks": `{Active:{Port:65535}}`}},
			{"large counts", "proxy a:1 {\n max_fails 100000\n unhealthy_connection_count 2147483647\n}", map[string]string{"HealthChecks": `{Passive:{MaxFails:100000 UnhealthyConnectionCount:2147483647}}`}},
			{"count beyond 32 bits", "proxy a:1 {\n max_fails 2147483648\n}", nil},
			{"load balancing policy without arguments", "proxy a:1 b:2 {\n lb_policy round_robin\n}", map[string]string{"LoadBalancing": `{SelectionPolicyRaw:RoundRobinSelection{}+policy=round_robin}`}},
			{"load balancing policy with an argument", "proxy a:1 b:2 {\n lb_policy random_choose 3\n lb_try_duration 1s\n}", map[string]string{"LoadBalancing": `{SelectionPolicyRaw:RandomChoiceSelection{Choose:3}+policy=random_choose TryDuration:1000000000}`}},
			{"unknown load balancing policy", "proxy a:1 {\n lb_policy fastest\n}", nil},
			{"lb_policy twice", "proxy a:1 {\n lb_policy first\n lb_policy random\n}", nil},
			{"lb_policy without a name", "proxy a:1 {\n lb_policy\n}", nil},
			{"health_interval twice", "proxy a:1 {\n health_interval 1s\n health_interval 2s\n}", nil},
			{"max_fails twice", "proxy a:1 {\n max_fails 1\n max_fails 2\n}", nil},
			{"max_fails not a number", "proxy a:1 {\n max_fails many\n}", nil},
			{"health_port with two values", "proxy a:1 {\n health_port 1 2\n}", nil},
			{"fail_duration not a duration", "proxy a:1 {\n fail_duration long\n}", nil},
			{"proxy_protocol twice", "proxy a:1 {\n proxy_protocol v1\n proxy_protocol v2\n}", nil},
			{"upstream without address", "proxy {\n upstream {\n  max_connections 1\n }\n}", nil},
			{"unknown option", "proxy a:1 {\n health_uri /\n}", nil},
		},
	},
	{
		fn: "layer4.(*Server).UnmarshalCaddyfile", pre: 1, source: "<addresses...> { matching_timeout <duration>; @name <matcher> [<args>] | @name { <matcher> ... }; route [@name...] { <handler> [<args>] ... } }",
		cases: []cfCase{
			{"addresses only", ":443 :8443", map[string]string{"Listen": `[":443" ":8443"]`, "Routes": "[]", "MatchingTimeout": "0"}},
			{"one route with a handler", ":443 {\n route {\n  echo\n }\n}", map[string]string{"Listen": `[":443"]`, "Routes": `[{HandlersRaw:[Handler{}+handler=echo]}]`}},
			{"named matcher and route", ":443 {\n @s ssh\n route @s {\n  proxy 10.0.0.1:22\n }\n}", map[string]string{"Routes": `[{HandlersRaw:[Handler{Upstreams:[{Dial:["10.0.0.1:22"]}]}+handler=proxy] MatcherSetsRaw:[map["ssh":MatchSSH{}]]}]`}},
			{"matcher block, two sets on a route, two handlers", ":443 {\n @a {\n  ssh\n  remote_ip 10.0.0.0/8\n }\n @b regexp ^x 4\n route @a @b {\n  throttle {\n   latency 1s\n  }\n  echo\n }\n}", map[string]string{"Routes": `[{HandlersRaw:[Handler{Latency:1000000000}+handler=throttle Handler{}+handler=echo] MatcherSetsRaw:[map["remote_ip":MatchRemoteIP{Ranges:["10.0.0.0/8"]} "ssh":MatchSSH{}] map["regexp":MatchRegexp{Count:4 Pattern:"^x"}]]}]`}},
			{"two routes keep their order", ":443 {\n @a ssh\n @b xmpp\n route @b {\n  echo\n }\n route @a {\n  proxy a:1\n }\n route {\n  proxy b:2\n }\n}", map[string]string{"Routes": `[{HandlersRaw:[Handler{}+handler=echo] MatcherSetsRaw:[map["xmpp":MatchXMPP{}]]} {HandlersRaw:[Handler{Upstreams:[{Dial:["a:1"]}]}+handler=proxy] MatcherSetsRaw:[map["ssh":MatchSSH{}]]} {HandlersRaw:[Handler{Upstreams:[{Dial:["b:2"]}]}+handler=proxy]}]`}},
			{"matching timeout", ":443 {\n matching_timeout 5s\n route {\n  echo\n }\n}", map[string]string{"MatchingTimeout": "5000000000"}},
			{"matching timeout in days", ":443 {\n matching_timeout 1d\n}", map[string]string{"MatchingTimeout": "86400000000000"}},
			{"undefined matcher set", ":443 {\n route @nope {\n  echo\n }\n}", nil},
			{"duplicate matcher set", ":443 {\n @a ssh\n @a xmpp\n}", nil},
			{"duplicate matching timeout", ":443 {\n matching_timeout 5s\n matching_timeout 6s\n}", nil},
			{"matching timeout not a duration", ":443 {\n matching_timeout soon\n}", nil},
			{"matcher set without a matcher", ":443 {\n @a\n}", nil},
			{"unknown option", ":443 {\n handle {\n  echo\n }\n}", nil},
			{"unknown handler", ":443 {\n route {\n  shout\n }\n}", nil},
			{"unknown matcher", ":443 {\n @a telnet\n}", nil},
			{"handler with a wrong argument", ":443 {\n route {\n  echo loud\n }\n}", nil},
		},
	},
	{
		fn: "layer4.(*ListenerWrapper).UnmarshalCaddyfile", source: "layer4 { matching_timeout <duration>; @name <matcher> ...; route [@name...] { <handler> ... } }",
		cases: []cfCase{
			{"bare", "layer4", map[string]string{"Routes": "[]", "MatchingTimeout": "0"}},
			{"route with a matcher and the tls handler chain", "layer4 {\n @p postgres\n route @p {\n  proxy db:5432\n }\n route {\n  echo\n }\n}", map[string]string{"Routes": `[{HandlersRaw:[Handler{Upstreams:[{Dial:["db:5432"]}]}+handler=proxy] MatcherSetsRaw:[map["postgres":MatchPostgres{}]]} {HandlersRaw:[Handler{}+handler=echo]}]`}},
			{"matching timeout", "layer4 {\n matching_timeout 3s\n}", map[string]string{"MatchingTimeout": "3000000000", "Routes": "[]"}},
			{"same-line argument", "layer4 :443", nil},
			{"undefined matcher set", "layer4 {\n route @x {\n  echo\n }\n}", nil},
		},
	},
	{
		fn: "modules/l4subroute.(*Handler).UnmarshalCaddyfile", source: "subroute { matching_timeout <duration>; @name <matcher> ...; route [@name...] { <handler> ... } }",
		cases: []cfCase{
			{"bare", "subroute", map[string]string{"Routes": "[]", "MatchingTimeout": "0"}},
			{"nested routes", "subroute {\n matching_timeout 2s\n @h regexp ^GET 3\n route @h {\n  proxy web:80\n }\n route {\n  proxy other:1\n }\n}", map[string]string{"MatchingTimeout": "2000000000", "Routes": `[{HandlersRaw:[Handler{Upstreams:[{Dial:["web:80"]}]}+handler=proxy] MatcherSetsRaw:[map["regexp":MatchRegexp{Count:3 Pattern:"^GET"}]]} {HandlersRaw:[Handler{Upstreams:[{Dial:["other:1"]}]}+handler=proxy]}]`}},
			{"subroute inside a subroute", "subroute {\n route {\n  subroute {\n   route {\n    echo\n   }\n  }\n }\n}", map[string]string{"Routes": `[{HandlersRaw:[Handler{Routes:[{HandlersRaw:[Handler{}+handler=echo]}]}+handler=subroute]}]`}},
			{"same-line argument", "subroute x", nil},
			{"unknown option", "subroute {\n routes {\n }\n}", nil},
		},
	},
	{
		fn: "modules/l4tee.(*Handler).UnmarshalCaddyfile", source: "tee { <handler> [<args>] ... }",
		cases: []cfCase{
			{"two branch handlers in order", "tee {\n throttle {\n  latency 1s\n }\n proxy log:9000\n}", map[string]string{"HandlersRaw": `[Handler{Latency:1000000000}+handler=throttle Handler{Upstreams:[{Dial:["log:9000"]}]}+handler=proxy]`}},
			{"same-line argument", "tee echo", nil},
			{"unknown handler", "tee {\n shout\n}", nil},
		},
	},
	{
		fn: "layer4.(*MatchNot).UnmarshalCaddyfile", source: "not <matcher> [<args>] | not { <matcher> [<args>] ... } (one set: the matchers are ANDed)",
		cases: []cfCase{
			{"inline matcher", "not ssh", map[string]string{"MatcherSetsRaw": `[map["ssh":MatchSSH{}]]`}},
			{"inline matcher with arguments", "not remote_ip 10.0.0.0/8 fd00::/8", map[string]string{"MatcherSetsRaw": `[map["remote_ip":MatchRemoteIP{Ranges:["10.0.0.0/8" "fd00::/8"]}]]`}},
			{"block of two matchers is one set", "not {\n ssh\n remote_ip 10.0.0.0/8\n}", map[string]string{"MatcherSetsRaw": `[map["remote_ip":MatchRemoteIP{Ranges:["10.0.0.0/8"]} "ssh":MatchSSH{}]]`}},
			{"duplicate matcher", "not {\n ssh\n ssh\n}", nil},
			{"unknown matcher", "not telnet", nil},
		},
	},
	{
		fn: "modules/l4tls.(*Handler).UnmarshalCaddyfile", source: "tls { connection_policy { alpn <values...>; ciphers <...>; curves <...>; default_sni <name>; fallback_sni <name>; protocols <min> [<max>]; drop; ... } ... } | tls",
		cases: []cfCase{
			{"bare", "tls", map[string]string{"ConnectionPolicies": "[]"}},
			{"one policy", "tls {\n connection_policy {\n  alpn h2 http/1.1\n  default_sni example.com\n  protocols tls1.2 tls1.3\n }\n}", map[string]string{"ConnectionPolicies": `[{ALPN:["h2" "http/1.1"] DefaultSNI:"example.com" ProtocolMax:"tls1.3" ProtocolMin:"tls1.2"}]`}},
			{"protocols with the minimum only", "tls {\n connection_policy {\n  protocols tls1.3\n }\n}", map[string]string{"ConnectionPolicies": `[{ProtocolMin:"tls1.3"}]`}},
			{"two policies stay two objects, in order", "tls {\n connection_policy {\n  default_sni a.example\n }\n connection_policy {\n  default_sni b.example\n  curves x25519\n }\n}", map[string]string{"ConnectionPolicies": `[{DefaultSNI:"a.example"} {Curves:["x25519"] DefaultSNI:"b.example"}]`}},
			{"certificate selection by serial numbers, two lines add up", "tls {\n connection_policy {\n  cert_selection {\n   serial_number 11 22\n   serial_number 33\n  }\n }\n}", map[string]string{"ConnectionPolicies": `[{CertSelection:{SerialNumber:["11" "22" "33"]}}]`}},
			{"certificate selection by tags and organization", "tls {\n connection_policy {\n  cert_selection {\n   any_tag a b\n   any_tag c\n   subject_organization Example\n  }\n }\n}", map[string]string{"ConnectionPolicies": `[{CertSelection:{AnyTag:["a" "b" "c"] SubjectOrganization:["Example"]}}]`}},
			{"serial number that is no number", "tls {\n connection_policy {\n  cert_selection {\n   serial_number abc\n  }\n }\n}", nil},
			{"same-line argument", "tls on", nil},
			{"unknown option", "tls {\n policy {\n }\n}", nil},
			{"unknown policy option", "tls {\n connection_policy {\n  sni x\n }\n}", nil},
		},
	},
	{
		fn: "modules/l4regexp.(*MatchRegexp).UnmarshalCaddyfile", source: "regexp <pattern> [<count>]",
		cases: []cfCase{
			{"pattern", "regexp ^GET", map[string]string{"Pattern": `"^GET"`, "Count": "0"}},
			{"pattern and count", "regexp ^GET 16", map[string]string{"Pattern": `"^GET"`, "Count": "16"}},
			{"quoted pattern", "regexp \"^GET /\" 5", map[string]string{"Pattern": `"^GET /"`, "Count": "5"}},
			{"largest count", "regexp x 65535", map[string]string{"Pattern": `"x"`, "Count": "65535"}},
			{"count too large", "regexp x 65536", nil},
			{"count not a number", "regexp x many", nil},
			{"negative count", "regexp x -1", nil},
			{"no pattern", "regexp", nil},
			{"three arguments", "regexp a 1 2", nil},
			{"block", "regexp a {\n b\n}", nil},
		},
	},
	{
		fn: "modules/l4postgres.(*MatchPostgres).UnmarshalCaddyfile", source: "postgres",
		cases: []cfCase{
			{"bare", "postgres", map[string]string{}},
			{"argument", "postgres x", nil},
			{"block", "postgres {\n x\n}", nil},
		},
	},
	{
		fn: "modules/l4ssh.(*MatchSSH).UnmarshalCaddyfile", source: "ssh",
		cases: []cfCase{
			{"bare", "ssh", map[string]string{}},
			{"argument", "ssh x", nil},
			{"block", "ssh {\n x\n}", nil},
		},
	},
	{
		fn: "modules/l4xmpp.(*MatchXMPP).UnmarshalCaddyfile", source: "xmpp",
		cases: []cfCase{
			{"bare", "xmpp", map[string]string{}},
			{"argument", "xmpp x", nil},
			{"block", "xmpp {\n x\n}", nil},
		},
	},
	{
		fn: "modules/l4proxyprotocol.(*MatchProxyProtocol).UnmarshalCaddyfile", source: "proxy_protocol",
		cases: []cfCase{
			{"bare", "proxy_protocol", map[string]string{}},
			{"argument", "proxy_protocol x", nil},
			{"block", "proxy_protocol {\n x\n}", nil},
		},
	},
	{
		fn: "modules/l4echo.(*Handler).UnmarshalCaddyfile", source: "echo",
		cases: []cfCase{
			{"bare", "echo", map[string]string{}},
			{"argument", "echo x", nil},
			{"block", "echo {\n x\n}", nil},
		},
	},
	{
		fn: "modules/l4wireguard.(*MatchWireGuard).UnmarshalCaddyfile", source: "wireguard [<zero>]",
		cases: []cfCase{
			{"bare", "wireguard", map[string]string{"Zero": "0"}},
			{"zero", "wireguard 4285988864", map[string]string{"Zero": "4285988864"}},
			{"largest zero", "wireguard 4294967295", map[string]string{"Zero": "4294967295"}},
			{"zero too large", "wireguard 4294967296", nil},
			{"zero not a number", "wireguard abc", nil},
			{"two arguments", "wireguard 1 2", nil},
			{"block", "wireguard {\n x\n}", nil},
		},
	},
	{
		fn: "layer4.(*MatchRemoteIP).UnmarshalCaddyfile", source: "remote_ip <ranges...>",
		cases: []cfCase{
			{"one range", "remote_ip 10.0.0.0/8", map[string]string{"Ranges": `["10.0.0.0/8"]`}},
			{"three ranges in order", "remote_ip 10.0.0.0/8 192.168.1.1 fd00::/8", map[string]string{"Ranges": `["10.0.0.0/8" "192.168.1.1" "fd00::/8"]`}},
			{"no range", "remote_ip", nil},
			{"block", "remote_ip 10.0.0.0/8 {\n x\n}", nil},
		},
	},
	{
		fn: "layer4.(*MatchLocalIP).UnmarshalCaddyfile", source: "local_ip <ranges...>",
		cases: []cfCase{
			{"one range", "local_ip 10.0.0.0/8", map[string]string{"Ranges": `["10.0.0.0/8"]`}},
			{"two ranges in order", "local_ip 192.168.1.1 10.0.0.0/8", map[string]string{"Ranges": `["192.168.1.1" "10.0.0.0/8"]`}},
			{"no range", "local_ip", nil},
			{"block", "local_ip 10.0.0.0/8 {\n x\n}", nil},
		},
	},
	{
		fn: "modules/l4tls.(*MatchTLS).UnmarshalCaddyfile", source: "tls { <handshake matcher> [<args...>] ... } | tls <handshake matcher> [<args...>] | tls (several lines of one matcher add up: the parser collects all their tokens for the matcher's unmarshaller)",
		noProvision: true,
		cases: []cfCase{
			{"bare", "tls", map[string]string{"MatchersRaw": "map[]"}},
			{"sni inline", "tls sni a.example.com", map[string]string{"MatchersRaw": `map["sni":["a.example.com"]]`}},
			{"sni in a block", "tls {\n sni a.example.com b.example.com\n}", map[string]string{"MatchersRaw": `map["sni":["a.example.com" "b.example.com"]]`}},
			{"two sni lines add up", "tls {\n sni a.example.com b.example.com\n sni c.example.com\n}", map[string]string{"MatchersRaw": `map["sni":["a.example.com" "b.example.com" "c.example.com"]]`}},
			{"two remote_ip lines add up", "tls {\n remote_ip 10.0.0.0/8\n remote_ip 192.168.0.0/16\n}", map[string]string{"MatchersRaw": `map["remote_ip":{Ranges:["10.0.0.0/8" "192.168.0.0/16"]}]`}},
			{"sni and local_ip", "tls {\n sni a.example.com\n local_ip 10.0.0.1\n}", map[string]string{"MatchersRaw": `map["local_ip":{Ranges:["10.0.0.1"]} "sni":["a.example.com"]]`}},
			{"sni without a name", "tls {\n sni\n}", nil},
		},
	},
	{
		fn: "modules/l4tls.(*MatchALPN).UnmarshalCaddyfile", source: "alpn <values...>",
		cases: []cfCase{
			{"one value", "alpn h2", map[string]string{"*": `["h2"]`}},
			{"two values", "alpn h2 http/1.1", map[string]string{"*": `["h2" "http/1.1"]`}},
			{"two lines add up (what the tls matcher's parser hands on for a repeated line)", "alpn h2\nalpn http/1.1", map[string]string{"*": `["h2" "http/1.1"]`}},
			{"no value", "alpn", nil},
		},
	},
}

// depStringList reads, from the source of a dependency as the build uses it (module cache), the string literals of
// the slice a parameterless function returns (caddyhttp.PrivateRangesCIDR: the ranges behind the private_ranges
// shortcut). nil when the function is not found or is not of that shape.
var depListMemo = map[string][]string{}

func depStringList(c *Ctx, pkgPath, fn string) []string {
	key := pkgPath + "." + fn
	if v, ok := depListMemo[key]; ok {
		return v
	}
	depListMemo[key] = nil
	var files []string
	seen := map[string]bool{}
	var walk func(p *packages.Package)
	walk = func(p *packages.Package) {
		if p == nil || seen[p.PkgPath] {
			return
		}
		seen[p.PkgPath] = true
		if p.PkgPath == pkgPath {
			files = append(files, p.GoFiles...)
			files = append(files, p.CompiledGoFiles...)
			return
		}
		for _, ip := range p.Imports {
			walk(ip)
		}
	}
	for _, p := range c.Pkgs {
		walk(p)
	}
	fset := token.NewFileSet()
	for _, f := range files {
		af, err := parser.ParseFile(fset, f, nil, 0)
		if err != nil {
			continue
		}
		for _, d := range af.Decls {
			fd, ok := d.(*ast.FuncDecl)
			if !ok || fd.Name.Name != fn || fd.Recv != nil || fd.Body == nil || len(fd.Body.List) != 1 {
				continue
			}
			ret, ok := fd.Body.List[0].(*ast.ReturnStmt)
			if !ok || len(ret.Results) != 1 {
				continue
			}
			cl, ok := ret.Results[0].(*ast.CompositeLit)
			if !ok {
				continue
			}
			var out []string
			for _, el := range cl.Elts {
				bl, ok := el.(*ast.BasicLit)
				if !ok || bl.Kind != token.STRING {
					out = nil
					break
				}
				sv, _ := strconv.Unquote(bl.Value)
				out = append(out, sv)
			}
			if out != nil {
				depListMemo[key] = out
				return out
			}
		}
	}
	return nil
}
