package main

import (
	"fmt"
	"go/constant"
	"go/token"
	"go/types"
	"sort"
	"strings"

	"golang.org/x/tools/go/ssa"
)

// Concrete evaluation of a pure validation region: starting at the first block of fn that tests a field of
// one of the given structures, the blocks are interpreted with concrete values for those fields (everything
// else is unknown). The region ends with a return (the message is rejected / answered) or is left through an
// instruction that is not a pure test (the message passed this validation). No heap, no calls: only loads of
// the fields, constants, arithmetic, comparisons and branches are interpreted.

type regionResult struct {
	kind string // "return" or "leave"
	ret  string // for return: rendered results
	why  string
}

func maskTo(t types.Type, v int64) int64 {
	b, ok := t.Underlying().(*types.Basic)
	if !ok {
		return v
	}
	switch b.Kind() {
	case types.Uint8:
		return v & 0xff
	case types.Uint16:
		return v & 0xffff
	case types.Uint32:
		return v & 0xffffffff
	case types.Int8:
		return int64(int8(v))
	case types.Int16:
		return int64(int16(v))
	case types.Int32:
		return int64(int32(v))
	}
	return v
}

// fieldKey names the memory a load reads, if it is a field (or a constant element of an array field) of a structure.
func fieldKey(addr ssa.Value) (string, bool) {
	switch a := addr.(type) {
	case *ssa.FieldAddr:
		if _, sn, f, ok := fieldAddr(a); ok {
			return shortType(sn) + "." + f, true
		}
	case *ssa.IndexAddr:
		if k, isC := constInt(a.Index); isC {
			if base, ok := fieldKey(a.X); ok {
				return fmt.Sprintf("%s[%d]", base, k), true
			}
		}
	}
	return "", false
}

func shortType(sn string) string {
	if i := strings.LastIndex(sn, "."); i >= 0 {
		return sn[i+1:]
	}
	return sn
}

func evalRegion(start *ssa.BasicBlock, vals map[string]int64) regionResult {
	env := map[ssa.Value]int64{}
	known := map[ssa.Value]bool{}
	get := func(v ssa.Value) (int64, bool) {
		if c, ok := v.(*ssa.Const); ok {
			if c.Value == nil {
				return 0, false
			}
			switch c.Value.Kind() {
			case constant.Int:
				if i, ok := constant.Int64Val(c.Value); ok {
					return i, true
				}
			case constant.Bool:
				if constant.BoolVal(c.Value) {
					return 1, true
				}
				return 0, true
			}
			return 0, false
		}
		if known[v] {
			return env[v], true
		}
		return 0, false
	}
	b2i := func(b bool) int64 {
		if b {
			return 1
		}
		return 0
	}
	cur := start
	var prev *ssa.BasicBlock
	for steps := 0; steps < 400; steps++ {
		var next *ssa.BasicBlock
		for _, in := range cur.Instrs {
			switch x := in.(type) {
			case *ssa.DebugRef, *ssa.FieldAddr, *ssa.IndexAddr:
			case *ssa.Phi:
				for i, p := range cur.Preds {
					if p == prev {
						if v, ok := get(x.Edges[i]); ok {
							env[x], known[x] = v, true
						}
					}
				}
			case *ssa.UnOp:
				switch x.Op {
				case token.MUL:
					if k, ok := fieldKey(x.X); ok {
						if v, has := vals[k]; has {
							env[x], known[x] = maskTo(x.Type(), v), true
						}
					}
				case token.NOT:
					if v, ok := get(x.X); ok {
						env[x], known[x] = b2i(v == 0), true
					}
				case token.SUB:
					if v, ok := get(x.X); ok {
						env[x], known[x] = maskTo(x.Type(), -v), true
					}
				case token.XOR:
					if v, ok := get(x.X); ok {
						env[x], known[x] = maskTo(x.Type(), ^v), true
					}
				default:
					return regionResult{kind: "leave", why: "operation " + x.Op.String()}
				}
			case *ssa.Convert:
				if v, ok := get(x.X); ok {
					env[x], known[x] = maskTo(x.Type(), v), true
				}
			case *ssa.ChangeType:
				if v, ok := get(x.X); ok {
					env[x], known[x] = v, true
				}
			case *ssa.BinOp:
				a, ok1 := get(x.X)
				b, ok2 := get(x.Y)
				if !ok1 || !ok2 {
					continue
				}
				var r int64
				switch x.Op {
				case token.ADD:
					r = maskTo(x.Type(), a+b)
				case token.SUB:
					r = maskTo(x.Type(), a-b)
				case token.MUL:
					r = maskTo(x.Type(), a*b)
				case token.AND:
					r = a & b
				case token.OR:
					r = a | b
				case token.XOR:
					r = maskTo(x.Type(), a^b)
				case token.AND_NOT:
					r = a &^ b
				case token.SHL:
					r = maskTo(x.Type(), a<<uint(b))
				case token.SHR:
					r = a >> uint(b)
				case token.EQL:
					r = b2i(a == b)
				case token.NEQ:
					r = b2i(a != b)
				case token.LSS:
					r = b2i(a < b)
				case token.LEQ:
					r = b2i(a <= b)
				case token.GTR:
					r = b2i(a > b)
				case token.GEQ:
					r = b2i(a >= b)
				default:
					continue
				}
				env[x], known[x] = r, true
			case *ssa.If:
				v, ok := get(x.Cond)
				if !ok {
					return regionResult{kind: "leave", why: "a test on something other than the message's fields"}
				}
				if v != 0 {
					next = cur.Succs[0]
				} else {
					next = cur.Succs[1]
				}
			case *ssa.Jump:
				next = cur.Succs[0]
			case *ssa.Return:
				var rs []string
				for _, rv := range x.Results {
					if c, ok := rv.(*ssa.Const); ok {
						if c.Value == nil {
							rs = append(rs, "nil")
						} else {
							rs = append(rs, c.Value.String())
						}
					} else if v, ok := get(rv); ok {
						rs = append(rs, fmt.Sprint(v))
					} else {
						rs = append(rs, "?")
					}
				}
				return regionResult{kind: "return", ret: strings.Join(rs, ", ")}
			default:
				return regionResult{kind: "leave", why: fmt.Sprintf("%T", in)}
			}
		}
		if next == nil {
			return regionResult{kind: "leave", why: "end of block"}
		}
		prev, cur = cur, next
	}
	return regionResult{kind: "leave", why: "step bound"}
}

// regionStart: the first block (in block order) that loads a field of the structure and whose terminating
// branch depends on it.
func regionStart(fn *ssa.Function, structShort string) *ssa.BasicBlock {
	for _, b := range fn.Blocks {
		for _, in := range b.Instrs {
			if ld, ok := in.(*ssa.UnOp); ok && ld.Op == token.MUL {
				if k, ok := fieldKey(ld.X); ok && strings.HasPrefix(k, structShort+".") {
					if _, isIf := b.Instrs[len(b.Instrs)-1].(*ssa.If); isIf {
						return b
					}
				}
			}
		}
	}
	return nil
}

type fieldPredicate struct {
	name    string
	fn      string
	strct   string
	domains map[string][]int64
	accept  func(v map[string]int64) bool
	source  string
}

// rdpPredicates: reference predicates written from MS-RDPBCGR 2.2.1.1 / 2.2.1.1.1 / 2.2.1.1.2 and RFC 1006 / X.224
// (literal values, not the repository's constants).
var rdpPredicates = []fieldPredicate{
	{
		name: "TPKT header", fn: "modules/l4rdp.(*MatchRDP).Match", strct: "TPKTHeader",
		domains: map[string][]int64{"TPKTHeader.Version": {0, 2, 3, 4}, "TPKTHeader.Reserved": {0, 1, 255}, "TPKTHeader.Length": {0, 10, 11, 19, 200, 300, 65535}},
		accept: func(v map[string]int64) bool {
			return v["TPKTHeader.Version"] == 3 && v["TPKTHeader.Reserved"] == 0 && v["TPKTHeader.Length"] >= 11 && v["TPKTHeader.Length"] <= 259
		},
		source: "RFC 1006 s.6: version 3, reserved 0, length covers the 4-byte header plus a 7-byte X.224 CR TPDU at least",
	},
	{
		name: "X.224 connection request", fn: "modules/l4rdp.(*MatchRDP).Match", strct: "X224Crq",
		domains: map[string][]int64{"X224Crq.TypeCredit": {0xE0, 0xD0, 0xE1, 0}, "X224Crq.DstRef": {0, 1}, "X224Crq.SrcRef": {0, 0x1234}, "X224Crq.ClassOptions": {0, 1},
			"X224Crq.Length": {6, 14, 15, 40}, "TPKTHeader.Length": {11, 19, 20, 45}},
		accept: func(v map[string]int64) bool {
			return v["X224Crq.TypeCredit"] == 0xE0 && v["X224Crq.DstRef"] == 0 && v["X224Crq.SrcRef"] == 0 && v["X224Crq.ClassOptions"] == 0 &&
				v["X224Crq.Length"] == v["TPKTHeader.Length"]-5 && v["X224Crq.Length"] > 6
		},
		source: "MS-RDPBCGR 2.2.1.1: CR TPDU code 0xE0, dst/src reference 0, class 0; length indicator = TPKT length - 5; a request without any payload is not accepted by the matcher (documented choice)",
	},
	{
		name: "RDP negotiation request", fn: "modules/l4rdp.(*MatchRDP).Match", strct: "RDPNegReq",
		domains: map[string][]int64{"RDPNegReq.Type": {0, 1, 2}, "RDPNegReq.Length": {0, 8, 9}, "RDPNegReq.Flags": {0, 1, 2, 3, 4, 8, 9, 11, 12, 16, 255},
			"RDPNegReq.Protocols": {0, 1, 2, 3, 4, 5, 6, 7, 8, 9, 10, 11, 12, 15, 16, 17, 19, 27, 31, 32, 0x80000000}},
		accept: func(v map[string]int64) bool {
			p, f := v["RDPNegReq.Protocols"], v["RDPNegReq.Flags"]
			const ssl, hybrid, rdstls, hybridEx, rdsaad = 1, 2, 4, 8, 16
			return v["RDPNegReq.Type"] == 1 && v["RDPNegReq.Length"] == 8 && f&^(0x01|0x02|0x08) == 0 && p&^(ssl|hybrid|rdstls|hybridEx|rdsaad) == 0 &&
				(p&hybridEx == 0 || p&hybrid != 0) && (p&hybrid == 0 || p&ssl != 0)
		},
		source: "MS-RDPBCGR 2.2.1.1.1: type 0x01, length 8, flags from {0x01,0x02,0x08}, requestedProtocols from {SSL 1, HYBRID 2, RDSTLS 4, HYBRID_EX 8, RDSAAD 16}; HYBRID_EX requires HYBRID, HYBRID requires SSL",
	},
	{
		name: "RDP correlation info", fn: "modules/l4rdp.(*MatchRDP).Match", strct: "RDPCorrInfo",
		domains: map[string][]int64{"RDPCorrInfo.Type": {0, 6, 1}, "RDPCorrInfo.Flags": {0, 1}, "RDPCorrInfo.Length": {0, 36, 8}, "RDPCorrInfo.Identity[0]": {0, 1, 0xF4, 0x0D, 0xFF}},
		accept: func(v map[string]int64) bool {
			id := v["RDPCorrInfo.Identity[0]"]
			return v["RDPCorrInfo.Type"] == 6 && v["RDPCorrInfo.Flags"] == 0 && v["RDPCorrInfo.Length"] == 36 && id != 0 && id != 0xF4
		},
		source: "MS-RDPBCGR 2.2.1.1.2: type 0x06, flags 0, length 36, first identifier byte neither 0x00 nor 0xF4 (0x0D is excluded later, for every identifier byte)",
	},
}

func c14Region(c *Ctx, r *Report, rule string) {
	r.rule(rule, "field predicates of the RDP connection request (concrete evaluation of the validation regions of MatchRDP.Match over value tables that hit every clause and boundary): a header is rejected with (false, nil) exactly when the reference predicate written from MS-RDPBCGR / RFC 1006 rejects it, otherwise validation continues", 4)
	for _, sp := range rdpPredicates {
		fn := c.Fn(sp.fn)
		if fn == nil {
			r.bad(rule, sp.fn, sp.name, "-", "function not found")
			continue
		}
		start := regionStart(fn, sp.strct)
		helperMode := false
		{
			// the validation may live in a helper of the matcher that reports "valid" as a bool: its "false" must
			// be the matcher's (false, nil) where it is called, and it must be called before the matcher's own first
			// test of the structure's fields (if it has one)
			for _, g := range c.Funcs {
				if g == fn || g.Parent() != nil || g.Signature.Results().Len() != 1 || typeStr(g.Signature.Results().At(0).Type()) != "bool" {
					continue
				}
				inChain := false
				for _, h := range c.homeChain(g) {
					if h == fn {
						inChain = true
					}
				}
				if !inChain {
					continue
				}
				if st := regionStart(g, sp.strct); st != nil && falseRejects(c, g) {
					first := start == nil
					if sites, _ := c.callSitesOf(g); !first && len(sites) == 1 && sites[0].Parent() == fn {
						cb := sites[0].Block()
						first = cb != start && cb.Dominates(start)
						if cb == start {
							// same block: the call comes before the block's first load of the structure
							for _, in := range start.Instrs {
								if in == sites[0].(ssa.Instruction) {
									first = true
									break
								}
								if ld, ok := in.(*ssa.UnOp); ok && ld.Op == token.MUL {
									if k, ok := fieldKey(ld.X); ok && strings.HasPrefix(k, sp.strct+".") {
										break
									}
								}
							}
						}
					}
					if first {
						start, helperMode = st, true
						break
					}
				}
			}
		}
		if start == nil {
			r.bad(rule, sp.fn, sp.name, c.pos(fn.Pos()), "no validation of "+sp.strct+" found in the matcher")
			continue
		}
		var keys []string
		for k := range sp.domains {
			keys = append(keys, k)
		}
		sort.Strings(keys)
		total, rejected := 0, 0
		var problems []string
		var rec func(i int, v map[string]int64)
		rec = func(i int, v map[string]int64) {
			if i == len(keys) {
				total++
				res := evalRegion(start, v)
				want := sp.accept(v)
				if helperMode && res.kind == "return" {
					switch {
					case res.ret == "0":
						res.ret = "false"
					case res.ret == "1" || strings.HasPrefix(res.ret, "true"):
						res.ret = "?" // the helper says "valid": validation continues in the matcher
					}
				}
				switch {
				case res.kind == "return" && res.ret == "false:untyped bool, nil", res.kind == "return" && strings.HasPrefix(res.ret, "false"):
					rejected++
					if want {
						problems = append(problems, fmt.Sprintf("%v is rejected although it is well-formed", fmtVals(v, keys)))
					}
				case res.kind == "return" && strings.HasPrefix(res.ret, "?"):
					// the verdict returned here depends on something other than the header's fields: the header passed
					if !want {
						problems = append(problems, fmt.Sprintf("%v passes the validation although it is malformed", fmtVals(v, keys)))
					}
				case res.kind == "return":
					problems = append(problems, fmt.Sprintf("%v answers (%s) inside the validation", fmtVals(v, keys), res.ret))
				default:
					if !want {
						problems = append(problems, fmt.Sprintf("%v passes the validation although it is malformed", fmtVals(v, keys)))
					}
				}
				return
			}
			for _, x := range sp.domains[keys[i]] {
				v[keys[i]] = x
				rec(i+1, v)
			}
		}
		rec(0, map[string]int64{})
		if len(problems) > 6 {
			problems = append(problems[:6], fmt.Sprintf("... %d more", len(problems)-6))
		}
		r.check(len(problems) == 0, rule, sp.fn, sp.name, c.pos(fn.Pos()), fmt.Sprintf("%d value combinations (%d rejected) agree with: %s", total, rejected, sp.source), strings.Join(problems, "; ")+" - reference: "+sp.source)
	}
}

func fmtVals(v map[string]int64, keys []string) string {
	var s []string
	for _, k := range keys {
		s = append(s, fmt.Sprintf("%s=%#x", k, v[k]))
	}
	return "{" + strings.Join(s, " ") + "}"
}

// c14Clock: the clock matcher decides on the wall clock of the configured zone at the connection's instant:
// the value compared with the configured bounds derives from t.In(location) where t is the connection's time
// (placeholder or now) and location the provisioned zone - the zone's rules (daylight saving) are applied per
// connection, never through an offset computed at another instant.
func c14Clock(c *Ctx, r *Report, rule string) {
	r.rule(rule, "clock matcher: every value compared with the configured window bounds (secondsAfter/secondsBefore) derives from (time.Time).In(m.location) applied to the connection's time value; no other zone arithmetic (offsets computed at provisioning) enters the comparison", 2)
	fnName := "modules/l4clock.(*MatchClock).Match"
	fn := c.Fn(fnName)
	if fn == nil {
		r.bad(rule, fnName, "exists", "-", "function not found")
		return
	}
	var inCall *ssa.Call
	for _, ci := range callsIn(fn) {
		if calleeID(ci) == "(time.Time).In" {
			if cl, ok := ci.(*ssa.Call); ok {
				if _, isLoc := loadOfField(cl.Call.Args[1], "modules/l4clock.MatchClock", "location"); isLoc {
					inCall = cl
				}
			}
		}
	}
	if !r.check(inCall != nil, rule, fnName, "zone conversion", c.pos(fn.Pos()), "t.In(m.location) is evaluated per connection", "the matcher does not convert the connection's time with (time.Time).In(m.location): the zone rules valid at the connection's instant are not applied") {
		return
	}
	n := 0
	for _, b := range fn.Blocks {
		for _, in := range b.Instrs {
			bo, ok := in.(*ssa.BinOp)
			if !ok {
				continue
			}
			switch bo.Op {
			case token.LSS, token.LEQ, token.GTR, token.GEQ:
			default:
				continue
			}
			for _, pr := range [][2]ssa.Value{{bo.X, bo.Y}, {bo.Y, bo.X}} {
				_, isA := loadOfField(pr[1], "modules/l4clock.MatchClock", "secondsAfter")
				_, isB := loadOfField(pr[1], "modules/l4clock.MatchClock", "secondsBefore")
				if !isA && !isB {
					continue
				}
				n++
				good := derivesFrom(pr[0], inCall)
				detail := ""
				if good {
					// nothing else of the matcher's own state may be mixed in
					for _, o := range origins(pr[0], sliceOpts{throughCalls: true}) {
						if (o.Kind == "field" || o.Kind == "fieldaddr") && strings.HasPrefix(o.Desc, "modules/l4clock.MatchClock.") && !strings.HasSuffix(o.Desc, ".location") {
							good, detail = false, "the compared value also depends on "+o.Desc
						}
					}
				} else {
					detail = "the compared value does not derive from t.In(m.location)"
				}
				r.check(good, rule, fnName, fmt.Sprintf("window comparison#%d", n), c.ipos(bo), "local wall clock of the connection's instant", detail+": across a daylight-saving change the window is shifted by the difference between the two offsets")
			}
		}
	}
}

// c14Siblings: a plain filter and its regexp sibling (fields X and XRegexp of one matcher) are two spellings of one
// condition; they must look at the same thing. The value compared with the configured X and the value handed to
// the compiled XRegexp are the same expression (same call on the same receiver / same field / same variable).
func c14Siblings(c *Ctx, r *Report, rule string) {
	r.rule(rule, "sibling filters agree on their subject: where a matcher has a plain filter X and a regexp filter XRegexp, the value compared with the configured X and the value given to XRegexp.MatchString are the same expression", 3)
	var key func(v ssa.Value, d int) string
	key = func(v ssa.Value, d int) string {
		if d > 6 {
			return "?"
		}
		switch x := v.(type) {
		case *ssa.Call:
			var as []string
			if x.Call.IsInvoke() {
				as = append(as, key(x.Call.Value, d+1))
			}
			for _, a := range x.Call.Args {
				as = append(as, key(a, d+1))
			}
			return calleeID(x) + "(" + strings.Join(as, ",") + ")"
		case *ssa.UnOp:
			if x.Op == token.MUL {
				if base, sn, f, ok := fieldAddr(x.X); ok {
					return sn + "." + f + " of " + key(base, d+1)
				}
				return "*" + key(x.X, d+1)
			}
		case *ssa.Alloc:
			return "new " + typeStr(deref(x.Type())) + "@" + x.Name()
		case *ssa.Parameter:
			return "param " + x.Name()
		case *ssa.Const:
			return constDesc(x)
		case *ssa.Convert:
			return key(x.X, d+1)
		case *ssa.ChangeType:
			return key(x.X, d+1)
		case *ssa.Slice:
			lo, hi := "", ""
			if x.Low != nil {
				lo = key(x.Low, d+1)
			}
			if x.High != nil {
				hi = key(x.High, d+1)
			}
			return key(x.X, d+1) + "[" + lo + ":" + hi + "]"
		case *ssa.BinOp:
			return "(" + key(x.X, d+1) + x.Op.String() + key(x.Y, d+1) + ")"
		case *ssa.Phi, *ssa.Extract:
			return v.Name() // one variable
		}
		return v.Name()
	}
	lower := func(s string) string { return strings.ToLower(s) }
	mreach := c.matcherReach()
	for _, fn := range sortedFuncs(mreach) {
		if len(fn.Blocks) == 0 {
			continue
		}
		// regexp uses: stem -> subject
		type use struct {
			subj ssa.Value
			at   ssa.Instruction
		}
		re := map[string][]use{}
		for _, ci := range callsIn(fn) {
			if calleeID(ci) != "(*regexp.Regexp).MatchString" && calleeID(ci) != "(*regexp.Regexp).Match" {
				continue
			}
			if _, _, f, ok := fieldAddrOfLoad(ci.Common().Args[0]); ok && strings.HasSuffix(lower(f), "regexp") {
				stem := strings.TrimSuffix(lower(f), "regexp")
				re[stem] = append(re[stem], use{ci.Common().Args[1], ci})
			}
		}
		if len(re) == 0 {
			continue
		}
		// equality filters: a comparison one side of which derives from the configured field <stem>
		for _, b := range fn.Blocks {
			for _, in := range b.Instrs {
				bo, ok := in.(*ssa.BinOp)
				if !ok || (bo.Op != token.EQL && bo.Op != token.NEQ) {
					continue
				}
				if bt, isB := bo.X.Type().Underlying().(*types.Basic); !isB || bt.Info()&types.IsString == 0 {
					continue
				}
				for _, pr := range [][2]ssa.Value{{bo.X, bo.Y}, {bo.Y, bo.X}} {
					cfg, subj := pr[0], pr[1]
					if _, isC := subj.(*ssa.Const); isC {
						continue
					}
					stem := ""
					for _, o := range origins(cfg, sliceOpts{throughCalls: true}) {
						if o.Kind == "field" {
							f := lower(o.Desc[strings.LastIndex(o.Desc, ".")+1:])
							if _, has := re[f]; has {
								stem = f
							}
						}
					}
					if stem == "" {
						continue
					}
					// the subject must not itself be the configured side
					cfgSide := false
					for _, o := range origins(subj, sliceOpts{throughCalls: true}) {
						if o.Kind == "field" && lower(o.Desc[strings.LastIndex(o.Desc, ".")+1:]) == stem {
							cfgSide = true
						}
					}
					if cfgSide {
						continue
					}
					for _, u := range re[stem] {
						same := key(subj, 0) == key(u.subj, 0)
						r.check(same, rule, fname(fn), "filter "+stem+" / "+stem+"_regexp", c.ipos(u.at), "both filters test "+key(subj, 0), "the plain filter tests "+key(subj, 0)+" but the regexp filter tests "+key(u.subj, 0)+": the two spellings of the filter disagree (e.g. one sees the name with a mode suffix, the other without)")
					}
				}
			}
		}
	}
}

// fieldAddrOfLoad: v is a load of a struct field.
func fieldAddrOfLoad(v ssa.Value) (ssa.Value, string, string, bool) {
	if ld, ok := v.(*ssa.UnOp); ok && ld.Op == token.MUL {
		return fieldAddr(ld.X)
	}
	return nil, "", "", false
}

// c14Transport: OpenVPN over TCP prefixes each packet with its length; that length counts the opcode byte which the
// matcher has already consumed when it reads the rest, while a datagram is measured without it. Wherever the matcher
// treats the two transports in sibling branches, the TCP bounds are the datagram bounds plus that one byte.
func c14Transport(c *Ctx, r *Report, rule string) {
	r.rule(rule, "OpenVPN: in every branch on the transport (local address is a *net.TCPAddr or not) the length bounds of the TCP arm equal those of the datagram arm plus the one opcode byte (upper bounds compared with >, lower bounds with <); where the arms have no constant bounds of their own (e.g. they were moved into a helper that gets them as parameters) there is nothing to compare", 1)
	fnName := "modules/l4openvpn.(*MatchOpenVPN).Match"
	fn := c.Fn(fnName)
	if fn == nil {
		r.bad(rule, fnName, "exists", "-", "function not found")
		return
	}
	var isTCP ssa.Value
	for _, b := range fn.Blocks {
		for _, in := range b.Instrs {
			if ta, ok := in.(*ssa.TypeAssert); ok && ta.CommaOk && strings.HasSuffix(typeStr(ta.AssertedType), "net.TCPAddr") {
				if ex := extractOfTuple(ta, 1); ex != nil {
					isTCP = ex
				}
			}
		}
	}
	if isTCP == nil {
		r.bad(rule, fnName, "transport test", c.pos(fn.Pos()), "the test for a TCP local address was not found")
		return
	}
	n := 0
	for _, b := range fn.Blocks {
		ifi, ok := b.Instrs[len(b.Instrs)-1].(*ssa.If)
		if !ok || ifi.Cond != isTCP {
			continue
		}
		tArm, uArm := b.Succs[0], b.Succs[1]
		collect := func(arm, other *ssa.BasicBlock) (gt, lt []int64) {
			for _, blk := range fn.Blocks {
				if !(blk == arm || arm.Dominates(blk)) || blk == other || other.Dominates(blk) {
					continue
				}
				// the arm proper: not past the join
				if arm != blk && !arm.Dominates(blk) {
					continue
				}
				for _, in := range blk.Instrs {
					bo, ok := in.(*ssa.BinOp)
					if !ok {
						continue
					}
					k, isC := constInt(bo.Y)
					op := bo.Op
					if !isC {
						if k2, isC2 := constInt(bo.X); isC2 {
							k, isC = k2, true
							switch op {
							case token.GTR:
								op = token.LSS
							case token.LSS:
								op = token.GTR
							}
						}
					}
					if !isC {
						continue
					}
					switch op {
					case token.GTR:
						gt = append(gt, k)
					case token.LSS:
						lt = append(lt, k)
					}
				}
			}
			return
		}
		// only arms that are not each other's continuation (a plain if without else has its join as "else")
		if len(uArm.Preds) > 1 {
			continue
		}
		tg, tl := collect(tArm, uArm)
		ug, ul := collect(uArm, tArm)
		maxOf := func(xs []int64) int64 {
			m := xs[0]
			for _, x := range xs {
				if x > m {
					m = x
				}
			}
			return m
		}
		minOf := func(xs []int64) int64 {
			m := xs[0]
			for _, x := range xs {
				if x < m {
					m = x
				}
			}
			return m
		}
		if len(tg) > 0 && len(ug) > 0 {
			n++
			a, bb := maxOf(tg), maxOf(ug)
			r.check(a == bb+1, rule, fnName, fmt.Sprintf("upper bound#%d", n), c.ipos(ifi), fmt.Sprintf("TCP %d = datagram %d + 1", a, bb), fmt.Sprintf("over TCP the length may be at most %d, as a datagram at most %d: the TCP bound must be the datagram bound + 1 (the length prefix counts the opcode byte) - the largest well-formed message is accepted on one transport only", a, bb))
		}
		if len(tl) > 0 && len(ul) > 0 {
			n++
			a, bb := minOf(tl), minOf(ul)
			r.check(a == bb+1, rule, fnName, fmt.Sprintf("lower bound#%d", n), c.ipos(ifi), fmt.Sprintf("TCP %d = datagram %d + 1", a, bb), fmt.Sprintf("over TCP the length must be at least %d, as a datagram at least %d: the TCP bound must be the datagram bound + 1", a, bb))
		}
	}
	r.ok(rule, fnName, "transport branches examined", c.pos(fn.Pos()), fmt.Sprintf("%d pair(s) of constant bounds compared", n))
}

func init() { _ = 0 }

func extractOfTuple(v ssa.Value, i int) *ssa.Extract {
	if v.Referrers() == nil {
		return nil
	}
	for _, r := range *v.Referrers() {
		if e, ok := r.(*ssa.Extract); ok && e.Index == i {
			return e
		}
	}
	return nil
}

// falseRejects: every use of the bool result of helper g makes "false" the caller's rejection: the result is the
// condition of a branch (directly or negated) whose false side returns false first, or it is returned as the
// caller's own first result.
func falseRejects(c *Ctx, g *ssa.Function) bool {
	sites, escapes := c.callSitesOf(g)
	if escapes || len(sites) == 0 {
		return false
	}
	returnsFalse := func(b *ssa.BasicBlock) bool {
		ret, ok := b.Instrs[len(b.Instrs)-1].(*ssa.Return)
		if !ok || len(ret.Results) == 0 {
			return false
		}
		v, ok := constBool(ret.Results[0])
		return ok && !v
	}
	var okUse func(v ssa.Value, negated bool, depth int) bool
	okUse = func(v ssa.Value, negated bool, depth int) bool {
		if v.Referrers() == nil || depth > 3 {
			return false
		}
		n := 0
		for _, ref := range *v.Referrers() {
			switch x := ref.(type) {
			case *ssa.DebugRef:
			case *ssa.If:
				n++
				side := 1 // the side taken when the helper said false
				if negated {
					side = 0
				}
				if !returnsFalse(x.Block().Succs[side]) {
					return false
				}
			case *ssa.UnOp:
				n++
				if x.Op != token.NOT || !okUse(x, !negated, depth+1) {
					return false
				}
			case *ssa.Return:
				n++
				if negated || len(x.Results) == 0 || x.Results[0] != v {
					return false
				}
			case *ssa.Phi:
				// `a && helper()`: the join of a short-circuit; the other edges are constants false
				n++
				for _, e := range x.Edges {
					if e == v {
						continue
					}
					if cv, ok := constBool(e); !ok || cv != negated {
						return false
					}
				}
				if !okUse(x, negated, depth+1) {
					return false
				}
			default:
				return false
			}
		}
		return n > 0
	}
	for _, cs := range sites {
		call, ok := cs.(*ssa.Call)
		if !ok || !okUse(call, false, 0) {
			return false
		}
	}
	return true
}
