package main

import (
	"bytes"
	"fmt"
	"go/ast"
	"go/constant"
	"go/parser"
	"go/printer"
	"go/token"
	"go/types"
	"os"
	"path/filepath"
	"regexp"
	"runtime"
	"sort"
	"strconv"
	"strings"

	"golang.org/x/tools/go/ast/astutil"
	"golang.org/x/tools/go/ssa"
)

func init() {
	register(&property{
		ID:          "C07",
		Explanation: "Static decision of the TLS matcher's agreement with crypto/tls, with the standard library's own source (the toolchain's $GOROOT/src/crypto/tls, parsed on every run) as oracle: (R1) record gate: the hello is read only behind the test that byte 0 of the 5-byte header is the handshake type 22, whose failing edge answers (false, nil); (R2) the hello is read with io.ReadFull into a buffer whose size is exactly header[3]<<8|header[4]; (R3) framing agreement: for the fixed part and for every extension case present in both parsers, the ordered sequence of cryptobyte reads (method, reader role, fixed sizes) in parseRawClientHello equals the one in clientHelloMsg.unmarshal, and the case labels are the same constant values; (R4) field mapping: each extension that feeds tls.ClientHelloInfo is stored into the ClientHelloInfo field that crypto/tls fills from it (composed from unmarshal and clientHelloInfo()); (R5) the placeholders l4.tls.server_name / l4.tls.version are set from the parsed ServerName / Version, and the handshake sub-matchers are evaluated on the parsed info; (R6) an incomplete hello answers need-more (the C06 propagation rule on both reads) and the matcher does not consult the amount of buffered data. Added: (R7) the loop of the fixed part that collects the cipher suites performs the same ordered effects (reads, tests against the same constants, assignments/appends, continue/break/return) as crypto/tls; (R5) also requires that no path to a possibly-true verdict avoids the parse or either placeholder assignment.",
		NotDecided:  "Value-level agreement on actual hellos (name-type filter, trailing-dot rule, legacy-version fallback, validity predicates such as Empty() tests), i.e. the differential statement itself over all ClientHellos crypto/tls emits.",
		Run:         runC07,
	})
}

func runC07(c *Ctx, r *Report) {
	c07R12(c, r)
	c07R34(c, r)
	c07R5(c, r, "C07.R5")
	c07R9(c, r, "C07.R9")
	c07ALPN(c, r, "C07.R11")
	c07Hello(c, r, "C07.R12")
	c07PlaceholdersFirst(c, r, "C07.R13")
	c15TablesFor(c, r, "C07.R15", "l4tls.(*MatchALPN)") // ALPN routing decides on the ids the configuration lists: all lines of an alpn matcher add up
	// R6
	c06R3only(c, r, "C07.R6", "modules/l4tls.")
}

// c06R3only re-runs the need-more propagation rule restricted to functions of one package prefix.
func c06R3only(c *Ctx, r *Report, rule, prefix string) {
	tmp := newReport("tmp")
	c06R3(c, tmp, "X")
	c06R4(c, tmp, "Y")
	r.rule(rule, "need-more propagation for the reads of the TLS matcher (C06.R3) and no use of the buffered-bytes view outside reviewed places (C06.R4)", 3)
	for _, o := range tmp.Obls {
		parts := strings.SplitN(o.Key, "|", 3)
		if len(parts) == 3 && strings.HasPrefix(parts[1], prefix) {
			if o.OK {
				r.ok(rule, parts[1], parts[2], o.Pos, o.Detail)
			} else {
				r.bad(rule, parts[1], parts[2], o.Pos, o.Detail)
			}
		}
		if o.Rule == "Y" && o.OK && strings.Contains(o.Key, "view read-only") {
			r.ok(rule, parts[1], parts[2], o.Pos, o.Detail)
		}
	}
}

// c07HeaderOffset says where in the handshake message the parser's input starts: 0 when the parser itself skips
// the 4-byte message header (type and uint24 length) as crypto/tls's unmarshal does, 4 when its first read is
// something else - then the caller has to hand it the message without the header, which the evaluations of Match
// (C07.R2, C07.R14) demand in that case.
func c07HeaderOffset(c *Ctx) int {
	fn := c.Fn("modules/l4tls.parseRawClientHello")
	if fn == nil {
		return 0
	}
	for _, b := range fn.Blocks {
		for _, ins := range b.Instrs {
			call, ok := ins.(ssa.CallInstruction)
			if !ok {
				continue
			}
			callee := call.Common().StaticCallee()
			if callee == nil || callee.Pkg == nil || !strings.HasSuffix(callee.Pkg.Pkg.Path(), "cryptobyte") {
				continue
			}
			if !strings.HasPrefix(callee.Name(), "Read") && callee.Name() != "Skip" {
				continue
			}
			if callee.Name() == "Skip" && len(call.Common().Args) == 2 {
				if k, ok := call.Common().Args[1].(*ssa.Const); ok && k.Value != nil && k.Int64() == 4 {
					return 0
				}
			}
			return 4
		}
	}
	return 0
}

func c07R12(c *Ctx, r *Report) {
	r.rule("C07.R1", "record gate (evaluation of Match on fixed first messages, reads served from the message): a record whose type byte is not 22 answers (false, nil) after the 5 header bytes and nothing else is read or parsed; a handshake record - whatever record-layer version it carries - is read and handed to the hello parser", 1)
	r.rule("C07.R2", "length-exact read: for handshake records announcing 5, 256 and 0x1234 body bytes (trailing bytes present) exactly 5 + that many bytes are consumed and exactly the body is handed to the hello parser; a body that is not complete yet answers 'need more'", 1)
	fnName := "modules/l4tls.(*MatchTLS).Match"
	fn := c.Fn(fnName)
	if fn == nil {
		r.bad("C07.R1", fnName, "exists", "-", "function not found")
		return
	}
	mk := func(typ byte, n int, have int) []byte {
		b := []byte{typ, 3, 1, byte(n >> 8), byte(n)}
		for i := 0; i < have; i++ {
			b = append(b, byte(i*7+1))
		}
		if n >= 4 && have >= 4 {
			// the record holds one handshake message: ClientHello, with its own length
			b[5], b[6], b[7], b[8] = 1, byte((n-4)>>16), byte((n-4)>>8), byte(n-4)
		}
		return b
	}
	type tc struct {
		name      string
		msg       []byte
		handshake bool
		body      int // announced
		complete  bool
	}
	cases := []tc{
		{"application data record", mk(23, 5, 9), false, 5, true},
		{"alert record", mk(21, 2, 2), false, 2, true},
		{"type 0", mk(0, 0x1603, 40), false, 0x1603, true},
		{"handshake, 5 bytes, trailing data", mk(22, 5, 9), true, 5, true},
		{"handshake, 256 bytes, trailing data", mk(22, 256, 300), true, 256, true},
		{"handshake, 0x1234 bytes, trailing data", mk(22, 0x1234, 0x1234+3), true, 0x1234, true},
		{"handshake, 0x0102 bytes, exact", mk(22, 0x0102, 0x0102), true, 0x0102, true},
		{"handshake, body incomplete", mk(22, 300, 120), true, 300, false},
	}
	// the record-layer version of the first record is not looked at (as crypto/tls accepts any first-record version
	// below 0x1000; RFC 5246 appendix E.1 lets old clients send {03,00}, RFC 8446 clients may send {03,04}-like values)
	for _, ver := range [][2]byte{{3, 0}, {3, 2}, {3, 3}, {3, 4}, {2, 0}} {
		m := mk(22, 40, 44)
		m[1], m[2] = ver[0], ver[1]
		cases = append(cases, tc{fmt.Sprintf("handshake, record version {%02x,%02x}", ver[0], ver[1]), m, true, 40, true})
	}
	off := c07HeaderOffset(c)
	var p1, p2 []string
	for _, t := range cases {
		mm := msgMatcher{fn: fnName, cfgName: "tls", heap: func(h map[string]SV) {
			h["m.matchers"] = symSlice("matchers", 0)
			h["m.logger"] = symRef("logger", false)
		}}
		sc := msgScenario(c, mm, msgCase{name: t.name, msg: t.msg})
		orig := sc.Call
		parsed := -1
		parsedOK := true
		sc.Call = func(callee string, args []SV, ev *symEval, st *symState) (SV, bool) {
			switch {
			case strings.HasSuffix(callee, "l4tls.parseRawClientHello"):
				if b, ok := concreteBytes(st, args[0]); ok {
					parsed = len(b) + off
					if 5+off+len(b) <= len(t.msg) && !bytes.Equal(b, t.msg[5+off:5+off+len(b)]) {
						parsedOK = false
					}
				} else {
					parsed = -2
				}
				return SV{K: "struct", Desc: "chi"}, true
			case strings.Contains(callee, "context.Context.Value"), strings.Contains(callee, "Replacer"):
				return symRef("repl", false), true
			}
			return orig(callee, args, ev, st)
		}
		paths, err := evalPaths(fn, sc)
		if err != nil || len(paths) != 1 {
			p1 = append(p1, fmt.Sprintf("%s: undecided (%d paths, %v)", t.name, len(paths), err))
			continue
		}
		p := paths[0]
		pos := p.Heap["msg.pos"].N
		ret := p.retDesc()
		switch {
		case !t.handshake:
			if pos != 5 || parsed != -1 || ret != "false, nil" {
				p1 = append(p1, fmt.Sprintf("%s: consumed %d bytes, parser called: %v, answer (%s); expected 5 bytes, no parsing, (false, nil)", t.name, pos, parsed != -1, ret))
			}
		case !t.complete:
			if parsed != -1 || !strings.Contains(ret, "ErrConsumedAllPrefetchedBytes") {
				p2 = append(p2, fmt.Sprintf("%s: answer (%s), parser called: %v; expected 'need more' without parsing", t.name, ret, parsed != -1))
			}
		default:
			if parsed == -1 {
				p1 = append(p1, fmt.Sprintf("%s: the hello parser is not reached (answer %s)", t.name, ret))
			}
			if pos != int64(5+t.body) || parsed != t.body || !parsedOK {
				p2 = append(p2, fmt.Sprintf("%s: %d bytes consumed and %d handed to the hello parser (content equal: %v); the record announces %d body bytes after the 5 header bytes", t.name, pos, parsed, parsedOK, t.body))
			}
		}
	}
	// a hello spread over several records (RFC 8446 section 5.1; crypto/tls readHandshakeBytes puts the pieces together)
	r.rule("C07.R14", "a hello spread over several records (evaluation of Match on a 40-byte ClientHello message cut into two or three handshake records at 1, 3, 4, 20 and 39 bytes): the hello parser is given the whole message and nothing else - the record bodies joined, cut at the length the message header announces - as crypto/tls (readHandshakeBytes) does; while a later record is missing or incomplete the answer is 'need more' and nothing is parsed; a record of another type in between answers (false, nil)", 1)
	hello := make([]byte, 40)
	for i := range hello {
		hello[i] = byte(i*5 + 3)
	}
	hello[0], hello[1], hello[2], hello[3] = 1, 0, 0, 36
	rec := func(typ byte, announced int, body []byte) []byte {
		return append([]byte{typ, 3, 1, byte(announced >> 8), byte(announced)}, body...)
	}
	type fc struct {
		name   string
		msg    []byte
		expect string // "parse", "more", "no"
	}
	var fcases []fc
	for _, at := range []int{1, 3, 4, 20, 39} {
		fcases = append(fcases, fc{fmt.Sprintf("two records, cut at %d", at), append(rec(22, at, hello[:at]), rec(22, 40-at, hello[at:])...), "parse"})
	}
	fcases = append(fcases,
		fc{"three records, cut at 2 and 30", append(append(rec(22, 2, hello[:2]), rec(22, 28, hello[2:30])...), rec(22, 10, hello[30:])...), "parse"},
		fc{"twenty records of two bytes", func() []byte {
			var out []byte
			for i := 0; i < 40; i += 2 {
				out = append(out, rec(22, 2, hello[i:i+2])...)
			}
			return out
		}(), "parse"},
		fc{"two records and trailing bytes", append(append(rec(22, 20, hello[:20]), rec(22, 20, hello[20:])...), 9, 9, 9), "parse"},
		fc{"two records, the second holding 3 bytes beyond the message", append(rec(22, 20, hello[:20]), rec(22, 23, append(append([]byte(nil), hello[20:]...), 9, 9, 9))...), "parse"},
		fc{"one record holding 3 bytes beyond the message", rec(22, 43, append(append([]byte(nil), hello...), 9, 9, 9)), "parse"},
		fc{"first of two records only", rec(22, 20, hello[:20]), "more"},
		fc{"first record and 3 bytes of the next header", append(rec(22, 20, hello[:20]), 22, 3, 1), "more"},
		fc{"first record and an incomplete second record", append(rec(22, 20, hello[:20]), rec(22, 20, hello[20:25])...), "more"},
		fc{"first record, then an application data record", append(rec(22, 20, hello[:20]), rec(23, 20, hello[20:])...), "no"},
		fc{"first record, then an alert record", append(rec(22, 3, hello[:3]), rec(21, 2, []byte{2, 40})...), "no"},
	)
	var p14 []string
	for _, t := range fcases {
		mm := msgMatcher{fn: fnName, cfgName: "tls", heap: func(h map[string]SV) {
			h["m.matchers"] = symSlice("matchers", 0)
			h["m.logger"] = symRef("logger", false)
		}}
		sc := msgScenario(c, mm, msgCase{name: t.name, msg: t.msg})
		sc.MaxVisit = 60 // a hello may take many records
		orig := sc.Call
		parsed := "-"
		sc.Call = func(callee string, args []SV, ev *symEval, st *symState) (SV, bool) {
			switch {
			case strings.HasSuffix(callee, "l4tls.parseRawClientHello"):
				if b, ok := concreteBytes(st, args[0]); ok {
					parsed = fmt.Sprintf("%x", b)
				} else {
					parsed = "?"
				}
				return SV{K: "struct", Desc: "chi"}, true
			case strings.Contains(callee, "context.Context.Value"), strings.Contains(callee, "Replacer"):
				return symRef("repl", false), true
			}
			return orig(callee, args, ev, st)
		}
		paths, err := evalPaths(fn, sc)
		if err != nil || len(paths) != 1 {
			p14 = append(p14, fmt.Sprintf("%s: undecided (%d paths, %v)", t.name, len(paths), err))
			continue
		}
		ret := paths[0].retDesc()
		switch t.expect {
		case "parse":
			if parsed == "-" {
				p14 = append(p14, fmt.Sprintf("%s: the hello parser is not reached (answer %s)", t.name, ret))
			} else if parsed != fmt.Sprintf("%x", hello[off:]) && strings.HasPrefix(parsed, fmt.Sprintf("%x", hello[off:])) {
				p14 = append(p14, fmt.Sprintf("%s: the message is 40 bytes long by its own header, the hello parser is given %d bytes - the message and what follows it in the record: crypto/tls cuts the message at its announced length and reports server name and ALPN, the parser here stops at bytes it cannot account for and reports none", t.name, len(parsed)/2+off))
			} else if !strings.HasPrefix(parsed, fmt.Sprintf("%x", hello[off:])) {
				what := fmt.Sprintf("%d bytes that are not the message", len(parsed)/2)
				if strings.HasPrefix(fmt.Sprintf("%x", hello[off:]), parsed) {
					what = fmt.Sprintf("its first %d bytes only (the first record's share)", len(parsed)/2+off)
				}
				p14 = append(p14, fmt.Sprintf("%s: the message is 40 bytes long by its own header, the hello parser is given %s - server name, ALPN and versions that lie beyond are not seen, while crypto/tls reads on", t.name, what))
			}
		case "more":
			if parsed != "-" || !strings.Contains(ret, "ErrConsumedAllPrefetchedBytes") {
				p14 = append(p14, fmt.Sprintf("%s: answer (%s), parser called: %v; the hello is incomplete, expected 'need more' without parsing", t.name, ret, parsed != "-"))
			}
		case "no":
			if parsed != "-" || ret != "false, nil" {
				p14 = append(p14, fmt.Sprintf("%s: answer (%s), parser called: %v; expected (false, nil) without parsing", t.name, ret, parsed != "-"))
			}
		}
	}
	r.check(len(p14) == 0, "C07.R14", fnName, "hello across records", c.pos(fn.Pos()), fmt.Sprintf("%d streams", len(fcases)), strings.Join(p14, "; "))

	// sub-matchers: the verdict on a handshake record is the conjunction of the configured handshake matchers, each
	// asked about the parsed hello, whose Conn is the connection being matched
	r.rule("C07.R10", "handshake sub-matchers (evaluation of Match on a complete handshake record with 0..2 sub-matchers, every combination of their answers): the verdict is true iff every sub-matcher asked answers true, at least one is asked when configured, each is given the parsed hello, and that hello's Conn is the connection being matched", 1)
	var p10 []string
	for nm := 0; nm <= 2; nm++ {
		mm := msgMatcher{fn: fnName, cfgName: "tls", heap: func(h map[string]SV) {
			h["m.matchers"] = symSlice("matchers", int64(nm))
			h["m.logger"] = symRef("logger", false)
		}}
		sc := msgScenario(c, mm, msgCase{name: "hello", msg: mk(22, 5, 5)})
		orig := sc.Call
		sc.Call = func(callee string, args []SV, ev *symEval, st *symState) (SV, bool) {
			switch {
			case strings.HasSuffix(callee, "l4tls.parseRawClientHello"):
				return SV{K: "struct", Desc: "chi"}, true
			case strings.Contains(callee, "context.Context.Value"), strings.Contains(callee, "Replacer"):
				return symRef("repl", false), true
			}
			return orig(callee, args, ev, st)
		}
		connAtCall := map[string]bool{}
		sc.Alts = func(callee string, args []SV, ev *symEval, st *symState) []CallAlt {
			if strings.HasPrefix(callee, "invoke ") && strings.HasSuffix(callee, "ConnectionMatcher.Match") {
				okConn := false
				for k, v := range st.heap {
					if strings.HasSuffix(k, ".Conn") && strings.Contains(k, "chi") && v.Desc == "cx" {
						okConn = true
					}
				}
				connAtCall[fmt.Sprint(okConn)] = true
				return []CallAlt{{Ret: symBool(true), Note: "yes"}, {Ret: symBool(false), Note: "no"}}
			}
			return nil
		}
		paths, err := evalPaths(fn, sc)
		if err != nil || len(paths) == 0 {
			p10 = append(p10, fmt.Sprintf("%d sub-matchers: undecided (%v)", nm, err))
			continue
		}
		for _, p := range paths {
			all, asked := true, 0
			for _, e := range p.Trace {
				if e.Kind == "call" && strings.HasPrefix(e.What, "invoke ") && strings.HasSuffix(e.What, "ConnectionMatcher.Match") {
					asked++
					if e.Note == "no" {
						all = false
					}
					if len(e.Args) < 2 || !strings.Contains(e.Args[1], "chi") {
						p10 = append(p10, "a sub-matcher is asked about "+strings.Join(e.Args, ",")+" instead of the parsed hello")
					}
				}
			}
			if len(p.Ret) != 2 || !p.Ret[0].Known {
				p10 = append(p10, "no definite verdict: "+p.retDesc())
				continue
			}
			if p.Ret[0].B != all {
				p10 = append(p10, fmt.Sprintf("%d sub-matcher(s), %d asked, all said yes: %v - the verdict is %v", nm, asked, all, p.Ret[0].B))
			}
			if nm > 0 && asked == 0 {
				p10 = append(p10, "configured sub-matchers are not asked")
			}
			if all && asked != nm {
				p10 = append(p10, fmt.Sprintf("a match is reported after asking %d of %d sub-matchers", asked, nm))
			}
		}
		if nm > 0 && (connAtCall["false"] || !connAtCall["true"]) {
			p10 = append(p10, "the hello given to the sub-matchers does not carry the connection being matched (Conn): matchers that look at the peer address dereference nil")
		}
	}
	r.check(len(p10) == 0, "C07.R10", fnName, "sub-matcher conjunction", c.pos(fn.Pos()), "verdict = AND of the sub-matchers over the parsed hello with Conn set", strings.Join(dedup(p10), "; "))
	r.check(len(p1) == 0, "C07.R1", fnName, "handshake record gate", c.pos(fn.Pos()), fmt.Sprintf("%d first messages", len(cases)), "the record gate is wrong: "+strings.Join(p1, "; "))
	r.check(len(p2) == 0, "C07.R2", fnName, "hello length", c.pos(fn.Pos()), "exactly the record length announced in the header is read and parsed", "a different amount than the record announces is read or parsed as the ClientHello: "+strings.Join(p2, "; "))
}

// ---- AST extraction of cryptobyte read sequences ----

type readOp struct {
	role   int
	method string
	arg    string
}

func (o readOp) String() string {
	s := fmt.Sprintf("s%d.%s", o.role, o.method)
	if o.arg != "" {
		s += "(" + o.arg + ")"
	}
	return s
}

var cryptobyteReads = map[string]bool{"Skip": true, "ReadUint8": true, "ReadUint16": true, "ReadUint24": true, "ReadUint32": true, "ReadUint64": true, "ReadBytes": true,
	"ReadUint8LengthPrefixed": true, "ReadUint16LengthPrefixed": true, "ReadUint24LengthPrefixed": true, "CopyBytes": true}

// readSeq extracts the ordered cryptobyte reads below node; helper functions named
// readUintNLengthPrefixed(&s, &x) count as reads on s.
func readSeq(node ast.Node) []readOp {
	roles := map[string]int{}
	roleOf := func(e ast.Expr) int {
		name := exprName(e)
		if _, ok := roles[name]; !ok {
			roles[name] = len(roles)
		}
		return roles[name]
	}
	var out []readOp
	ast.Inspect(node, func(n ast.Node) bool {
		call, ok := n.(*ast.CallExpr)
		if !ok {
			return true
		}
		switch f := call.Fun.(type) {
		case *ast.SelectorExpr:
			if cryptobyteReads[f.Sel.Name] {
				op := readOp{role: roleOf(f.X), method: f.Sel.Name}
				if (f.Sel.Name == "Skip" && len(call.Args) == 1) || (f.Sel.Name == "ReadBytes" && len(call.Args) == 2) {
					a := call.Args[len(call.Args)-1]
					if bl, ok := a.(*ast.BasicLit); ok {
						op.arg = bl.Value
					} else if ce, ok := a.(*ast.CallExpr); ok && exprName(ce.Fun) == "len" && len(ce.Args) == 1 {
						op.arg = fmt.Sprintf("len(s%d)", roleOf(ce.Args[0]))
					} else {
						op.arg = "expr"
					}
				}
				out = append(out, op)
			}
		case *ast.Ident:
			if strings.HasPrefix(f.Name, "readUint") && strings.HasSuffix(f.Name, "LengthPrefixed") && len(call.Args) == 2 {
				a := call.Args[0]
				if u, ok := a.(*ast.UnaryExpr); ok {
					a = u.X
				}
				out = append(out, readOp{role: roleOf(a), method: "Read" + strings.TrimPrefix(f.Name, "read")})
			}
		}
		return true
	})
	return out
}

func exprName(e ast.Expr) string {
	switch x := e.(type) {
	case *ast.Ident:
		return x.Name
	case *ast.SelectorExpr:
		return exprName(x.X) + "." + x.Sel.Name
	case *ast.UnaryExpr:
		return exprName(x.X)
	case *ast.ParenExpr:
		return exprName(x.X)
	case *ast.StarExpr:
		return exprName(x.X)
	}
	return fmt.Sprintf("%T", e)
}

func seqString(s []readOp) string {
	var p []string
	for _, o := range s {
		p = append(p, o.String())
	}
	return strings.Join(p, " ")
}

type helloParser struct {
	loops       [][]string // normalised effects of the loops of the fixed part
	caseEffects map[int64][]string
	prefix      []readOp           // reads before the extension switch
	cases       map[int64][]readOp // extension id -> reads
	fields      map[int64][]string // extension id -> fields assigned (last selector component)
	caseNames   map[int64]string
}

// extractHelloParser finds, in fn, the switch over the extension id and collects the read sequences.
func extractHelloParser(fn *ast.FuncDecl, constVal func(e ast.Expr) (int64, bool)) *helloParser {
	hp := &helloParser{cases: map[int64][]readOp{}, fields: map[int64][]string{}, caseNames: map[int64]string{}}
	var sw *ast.SwitchStmt
	ast.Inspect(fn.Body, func(n ast.Node) bool {
		if s, ok := n.(*ast.SwitchStmt); ok && sw == nil {
			if id, ok := s.Tag.(*ast.Ident); ok && (id.Name == "extension" || id.Name == "ext") {
				sw = s
				return false
			}
		}
		return true
	})
	if sw == nil {
		return nil
	}
	// prefix: all reads in the function body positioned before the switch
	for _, op := range readSeqBefore(fn.Body, sw.Pos()) {
		hp.prefix = append(hp.prefix, op)
	}
	for _, lp := range loopsBefore(fn.Body, sw.Pos()) {
		hp.loops = append(hp.loops, loopEffects(lp.Body, constVal))
	}
	if hp.caseEffects == nil {
		hp.caseEffects = map[int64][]string{}
	}
	// what happens to an extension none of the cases names (the default clause), and what follows the switch for
	// the extensions whose case did not leave the loop iteration
	hp.caseNames[-1], hp.caseNames[-2] = "unknown extensions: default clause", "after the switch"
	hp.caseEffects[-1] = []string{"(no default clause)"}
	ast.Inspect(fn.Body, func(n ast.Node) bool {
		blk, ok := n.(*ast.BlockStmt)
		if !ok {
			return true
		}
		for i, st := range blk.List {
			if st == ast.Stmt(sw) {
				hp.caseEffects[-2] = loopEffects(&ast.BlockStmt{List: blk.List[i+1:]}, constVal)
			}
		}
		return true
	})
	for _, st := range sw.Body.List {
		cc := st.(*ast.CaseClause)
		if len(cc.List) == 0 {
			hp.caseEffects[-1] = append([]string{"default:"}, loopEffects(&ast.BlockStmt{List: cc.Body}, constVal)...)
		}
		for _, lbl := range cc.List {
			v, ok := constVal(lbl)
			if !ok {
				continue
			}
			hp.caseNames[v] = exprName(lbl)
			body := &ast.BlockStmt{List: cc.Body}
			hp.cases[v] = readSeq(body)
			if hp.caseEffects == nil {
				hp.caseEffects = map[int64][]string{}
			}
			hp.caseEffects[v] = loopEffects(body, constVal)
			// assigned fields
			ast.Inspect(body, func(n ast.Node) bool {
				switch x := n.(type) {
				case *ast.AssignStmt:
					for _, l := range x.Lhs {
						if se, ok := l.(*ast.SelectorExpr); ok {
							hp.fields[v] = append(hp.fields[v], se.Sel.Name)
						}
					}
				case *ast.CallExpr:
					// reads that store directly into a field: ReadX(&m.field) / readUintN(&s, &m.field)
					for _, a := range x.Args {
						if u, ok := a.(*ast.UnaryExpr); ok && u.Op == token.AND {
							if se, ok := u.X.(*ast.SelectorExpr); ok {
								hp.fields[v] = append(hp.fields[v], se.Sel.Name)
							}
						}
					}
				}
				return true
			})
		}
	}
	return hp
}

// loopEffects normalises the body of a parsing loop to its ordered effects: conditions (reads negated,
// comparisons against constants by value), field assignments/appends (field name, case-insensitive),
// and the control statements continue/break/return.
func loopEffects(body *ast.BlockStmt, constVal func(e ast.Expr) (int64, bool)) []string {
	var out []string
	var cond func(e ast.Expr) string
	cond = func(e ast.Expr) string {
		switch x := e.(type) {
		case *ast.ParenExpr:
			return cond(x.X)
		case *ast.UnaryExpr:
			return x.Op.String() + cond(x.X)
		case *ast.BinaryExpr:
			l, rr := cond(x.X), cond(x.Y)
			return "(" + l + x.Op.String() + rr + ")"
		case *ast.CallExpr:
			if se, ok := x.Fun.(*ast.SelectorExpr); ok {
				return se.Sel.Name
			}
			return exprName(x.Fun)
		case *ast.BasicLit:
			return x.Value
		case *ast.Ident, *ast.SelectorExpr:
			if v, ok := constVal(e); ok {
				return fmt.Sprintf("%#x", v)
			}
			if se, ok := x.(*ast.SelectorExpr); ok {
				return "." + strings.ToLower(se.Sel.Name)
			}
			return "v"
		}
		return fmt.Sprintf("%T", e)
	}
	var walk func(list []ast.Stmt)
	walk = func(list []ast.Stmt) {
		for _, st := range list {
			switch x := st.(type) {
			case *ast.IfStmt:
				out = append(out, "if "+cond(x.Cond)+" {")
				walk(x.Body.List)
				out = append(out, "}")
				if x.Else != nil {
					out = append(out, "else {")
					switch e := x.Else.(type) {
					case *ast.BlockStmt:
						walk(e.List)
					case *ast.IfStmt:
						walk([]ast.Stmt{e})
					}
					out = append(out, "}")
				}
			case *ast.AssignStmt:
				for i, l := range x.Lhs {
					se, ok := l.(*ast.SelectorExpr)
					if !ok {
						continue
					}
					rhs := "expr"
					if i < len(x.Rhs) {
						switch rv := x.Rhs[i].(type) {
						case *ast.CallExpr:
							if exprName(rv.Fun) == "append" && len(rv.Args) >= 1 {
								rhs = "append(." + strings.ToLower(lastSel(rv.Args[0])) + ")"
							}
						case *ast.Ident:
							rhs = rv.Name
						case *ast.BasicLit:
							rhs = rv.Value
						}
					}
					out = append(out, "."+strings.ToLower(se.Sel.Name)+" = "+rhs)
				}
			case *ast.BranchStmt:
				out = append(out, x.Tok.String())
			case *ast.ReturnStmt:
				out = append(out, "return")
			case *ast.BlockStmt:
				walk(x.List)
			case *ast.ForStmt:
				out = append(out, "for {")
				walk(x.Body.List)
				out = append(out, "}")
			}
		}
	}
	walk(body.List)
	return out
}

func lastSel(e ast.Expr) string {
	if se, ok := e.(*ast.SelectorExpr); ok {
		return se.Sel.Name
	}
	return exprName(e)
}

// loopsBefore returns the for loops of body that end before limit (the loops of the fixed part).
func loopsBefore(body *ast.BlockStmt, limit token.Pos) []*ast.ForStmt {
	var out []*ast.ForStmt
	ast.Inspect(body, func(n ast.Node) bool {
		if f, ok := n.(*ast.ForStmt); ok && f.End() < limit {
			out = append(out, f)
			return false
		}
		return true
	})
	return out
}

func readSeqBefore(body *ast.BlockStmt, limit token.Pos) []readOp {
	// copy of readSeq restricted to nodes before limit, with its own role numbering
	roles := map[string]int{}
	roleOf := func(e ast.Expr) int {
		name := exprName(e)
		if _, ok := roles[name]; !ok {
			roles[name] = len(roles)
		}
		return roles[name]
	}
	var out []readOp
	ast.Inspect(body, func(n ast.Node) bool {
		if n == nil || n.Pos() >= limit {
			return n == nil || n.Pos() < limit
		}
		call, ok := n.(*ast.CallExpr)
		if !ok {
			return true
		}
		switch f := call.Fun.(type) {
		case *ast.SelectorExpr:
			if cryptobyteReads[f.Sel.Name] {
				op := readOp{role: roleOf(f.X), method: f.Sel.Name}
				if (f.Sel.Name == "Skip" && len(call.Args) == 1) || (f.Sel.Name == "ReadBytes" && len(call.Args) == 2) {
					if bl, ok := call.Args[len(call.Args)-1].(*ast.BasicLit); ok {
						op.arg = bl.Value
					}
				}
				out = append(out, op)
			}
		case *ast.Ident:
			if strings.HasPrefix(f.Name, "readUint") && strings.HasSuffix(f.Name, "LengthPrefixed") && len(call.Args) == 2 {
				a := call.Args[0]
				if u, ok := a.(*ast.UnaryExpr); ok {
					a = u.X
				}
				out = append(out, readOp{role: roleOf(a), method: "Read" + strings.TrimPrefix(f.Name, "read")})
			}
		}
		return true
	})
	return out
}

func c07R34(c *Ctx, r *Report) {
	r.rule("C07.R3", "framing agreement with crypto/tls (clientHelloMsg.unmarshal): fixed part and every extension case present in both parsers perform the same ordered cryptobyte reads; case labels are the same values; the six extensions that feed ClientHelloInfo are present in both", 12)
	r.rule("C07.R4", "field mapping agreement: extension -> tls.ClientHelloInfo field as composed from crypto/tls (unmarshal + clientHelloInfo()) equals the field the repo's case fills", 5)
	// --- standard library side ---
	goroot := runtime.GOROOT()
	if env := os.Getenv("GOROOT"); env != "" {
		goroot = env
	}
	dir := filepath.Join(goroot, "src", "crypto", "tls")
	fset := token.NewFileSet()
	pkgs, err := parser.ParseDir(fset, dir, func(fi os.FileInfo) bool { return !strings.HasSuffix(fi.Name(), "_test.go") }, 0)
	if err != nil || pkgs["tls"] == nil {
		r.bad("C07.R3", "crypto/tls", "oracle source", dir, fmt.Sprintf("the standard library source is not available: %v", err))
		return
	}
	stdConst := map[string]int64{}
	var stdUnmarshal, stdCHI *ast.FuncDecl
	for _, f := range pkgs["tls"].Files {
		for _, d := range f.Decls {
			switch x := d.(type) {
			case *ast.GenDecl:
				if x.Tok != token.CONST {
					continue
				}
				for _, s := range x.Specs {
					vs := s.(*ast.ValueSpec)
					for i, n := range vs.Names {
						if i < len(vs.Values) {
							if bl, ok := vs.Values[i].(*ast.BasicLit); ok && bl.Kind == token.INT {
								if v, err := strconv.ParseInt(bl.Value, 0, 64); err == nil {
									stdConst[n.Name] = v
								}
							}
						}
					}
				}
			case *ast.FuncDecl:
				if x.Name.Name == "unmarshal" && x.Recv != nil && exprName(x.Recv.List[0].Type) == "clientHelloMsg" {
					stdUnmarshal = x
				}
				if x.Name.Name == "clientHelloInfo" {
					stdCHI = x
				}
			}
		}
	}
	if stdUnmarshal == nil || stdCHI == nil {
		r.bad("C07.R3", "crypto/tls", "oracle functions", dir, "clientHelloMsg.unmarshal / clientHelloInfo not found in the standard library source")
		return
	}
	std := extractHelloParser(stdUnmarshal, func(e ast.Expr) (int64, bool) { v, ok := stdConst[exprName(e)]; return v, ok })
	// --- repository side ---
	var pkg = c.ByPath[modPath+"/modules/l4tls"]
	// the parser and its helpers under their current names (unexported names may have been changed)
	curParse := "parseRawClientHello"
	renamed := map[string]string{} // current -> reference spelling
	for f, ref := range aliasFunc {
		if f.Pkg != nil && f.Pkg.Pkg.Path() == modPath+"/modules/l4tls" && f.Signature.Recv() == nil {
			renamed[f.Name()] = ref
			if ref == "parseRawClientHello" {
				curParse = f.Name()
			}
		}
	}
	var repoFn *ast.FuncDecl
	if pkg != nil {
		for _, f := range pkg.Syntax {
			for _, d := range f.Decls {
				if fd, ok := d.(*ast.FuncDecl); ok && fd.Recv == nil && fd.Name.Name == curParse {
					repoFn = fd
				}
			}
		}
	}
	if repoFn == nil || std == nil {
		r.bad("C07.R3", "modules/l4tls.parseRawClientHello", "exists", "-", "parser (or the oracle's extension switch) not found")
		return
	}
	repoDecls := map[string]*ast.FuncDecl{}
	for _, f := range pkg.Syntax {
		for _, d := range f.Decls {
			if fd, ok := d.(*ast.FuncDecl); ok && fd.Recv == nil {
				repoDecls[fd.Name.Name] = fd
			}
		}
	}
	c07Renamed = renamed
	repoCopy := inlineGuardedHelpers(c.Fset, repoFn, repoDecls)
	if len(renamed) > 0 {
		ast.Inspect(repoCopy, func(n ast.Node) bool {
			if call, ok := n.(*ast.CallExpr); ok {
				if id, ok := call.Fun.(*ast.Ident); ok {
					if ref, ok := renamed[id.Name]; ok {
						id.Name = ref
					}
				}
			}
			return true
		})
	}
	repo := extractHelloParser(repoCopy, func(e ast.Expr) (int64, bool) {
		// by name: the parser is analysed on a copy with its guarded helpers inlined
		if id, ok := e.(*ast.Ident); ok {
			if cst, ok := pkg.Types.Scope().Lookup(id.Name).(*types.Const); ok && cst.Val().Kind() == constant.Int {
				return constant.Int64Val(cst.Val())
			}
		}
		if bl, ok := e.(*ast.BasicLit); ok && bl.Kind == token.INT {
			v, err := strconv.ParseInt(bl.Value, 0, 64)
			return v, err == nil
		}
		return 0, false
	})
	if repo == nil {
		r.bad("C07.R3", "modules/l4tls.parseRawClientHello", "extension switch", "-", "no switch over the extension id found")
		return
	}
	fnName := "modules/l4tls.parseRawClientHello"
	pos := c.pos(repoFn.Pos())
	r.rule("C07.R7", "value-flow agreement of the fixed part with crypto/tls: every loop of the fixed part (the cipher-suite list) has the same ordered effects - reads, tests against the same constants, field assignments and appends (names compared case-insensitively), continue/break/return", 1)
	if len(repo.loops) != len(std.loops) {
		r.bad("C07.R7", fnName, "loops of the fixed part", pos, fmt.Sprintf("the fixed part has %d loop(s), crypto/tls has %d", len(repo.loops), len(std.loops)))
	} else {
		for i := range repo.loops {
			a, b := strings.Join(repo.loops[i], " ; "), strings.Join(std.loops[i], " ; ")
			r.check(a == b, "C07.R7", fnName, fmt.Sprintf("fixed-part loop %d", i+1), pos, a, fmt.Sprintf("the loop collects values differently from crypto/tls, so ClientHelloInfo differs from what Go's TLS server reports:\n  repo:       %s\n  crypto/tls: %s", a, b))
		}
	}
	r.rule("C07.R8", "value-flow agreement per extension: every extension case handled by both parsers has the same ordered effects as crypto/tls (reads, emptiness/length tests, constants, loops, field assignments and appends with field names abstracted per case, continue/break/return)", 12)
	alpha := func(eff []string) string {
		names := map[string]string{}
		re := regexp.MustCompile(`\.[a-z0-9_]+`)
		out := re.ReplaceAllStringFunc(strings.Join(eff, " ; "), func(m string) string {
			if _, ok := names[m]; !ok {
				names[m] = fmt.Sprintf(".f%d", len(names))
			}
			return names[m]
		})
		return out
	}
	var effIDs []int64
	for id := range repo.caseEffects {
		if _, both := std.caseEffects[id]; both {
			effIDs = append(effIDs, id)
		}
	}
	sort.Slice(effIDs, func(a, b int) bool { return effIDs[a] < effIDs[b] })
	for _, id := range effIDs {
		a, b := alpha(repo.caseEffects[id]), alpha(std.caseEffects[id])
		k := fmt.Sprintf("extension %d (%s) effects", id, repo.caseNames[id])
		r.check(a == b, "C07.R8", fnName, k, pos, a, fmt.Sprintf("%s differ from crypto/tls: values are collected or rejected differently, so ClientHelloInfo (and with it the sni/alpn/version sub-matchers and placeholders) differs from what Go's TLS server sees:\n  repo:       %s\n  crypto/tls: %s", k, a, b))
	}
	if os.Getenv("L4DEBUG") == "c07" {
		fmt.Println("REPO:", strings.Join(loopEffects(repoFn.Body, func(e ast.Expr) (int64, bool) { return 0, false }), " ; "))
		fmt.Println("STD: ", strings.Join(loopEffects(stdUnmarshal.Body, func(e ast.Expr) (int64, bool) { return 0, false }), " ; "))
	}
	stdPrefix := std.prefix
	if c07HeaderOffset(c) == 4 && len(stdPrefix) > 0 && stdPrefix[0].method == "Skip" && stdPrefix[0].arg == "4" {
		// the message header is taken off by the caller (which C07.R2 and C07.R14 then demand of it)
		stdPrefix = stdPrefix[1:]
	}
	r.check(seqString(repo.prefix) == seqString(stdPrefix), "C07.R3", fnName, "fixed part", pos, seqString(repo.prefix), fmt.Sprintf("the fixed part of the hello is framed differently from crypto/tls:\n  repo:       %s\n  crypto/tls: %s", seqString(repo.prefix), seqString(stdPrefix)))
	var ids []int64
	for id := range repo.cases {
		ids = append(ids, id)
	}
	sort.Slice(ids, func(i, j int) bool { return ids[i] < ids[j] })
	key := map[int64]string{0: "server_name", 10: "supported_groups", 11: "ec_point_formats", 13: "signature_algorithms", 16: "alpn", 43: "supported_versions"}
	for id, nm := range key {
		_, inRepo := repo.cases[id]
		_, inStd := std.cases[id]
		if !inRepo || !inStd {
			r.bad("C07.R3", fnName, fmt.Sprintf("extension %d (%s) present", id, nm), pos, fmt.Sprintf("extension %d (%s) is handled by repo:%v crypto/tls:%v", id, nm, inRepo, inStd))
		}
	}
	for _, id := range ids {
		ss, ok := std.cases[id]
		k := fmt.Sprintf("extension %d (%s)", id, repo.caseNames[id])
		if !ok {
			r.Notes = append(r.Notes, k+" is parsed by the repo only (not compared)")
			continue
		}
		r.check(seqString(repo.cases[id]) == seqString(ss), "C07.R3", fnName, k, pos, seqString(ss), fmt.Sprintf("%s is framed differently from crypto/tls (a different amount of the extension is consumed, so this or every following extension is mis-parsed):\n  repo:       %s\n  crypto/tls: %s", k, seqString(repo.cases[id]), seqString(ss)))
	}
	// R4: clientHelloInfo() mapping  Field: hs.clientHello.x
	stdMap := map[string]string{} // msg field -> CHI field
	ast.Inspect(stdCHI.Body, func(n ast.Node) bool {
		kv, ok := n.(*ast.KeyValueExpr)
		if !ok {
			return true
		}
		k, _ := kv.Key.(*ast.Ident)
		if k == nil {
			return true
		}
		name := exprName(kv.Value)
		if i := strings.LastIndex(name, "clientHello."); i >= 0 {
			stdMap[name[i+len("clientHello."):]] = k.Name
		}
		return true
	})
	// supportedVersions is computed: versions := supportedVersionsFromMax / hs.clientHello.supportedVersions
	stdMap["supportedVersions"] = "SupportedVersions"
	want := map[int64]string{}
	for id, fs := range std.fields {
		for _, f := range fs {
			if chi, ok := stdMap[f]; ok {
				want[id] = chi
			}
		}
	}
	var wids []int64
	for id := range want {
		wids = append(wids, id)
	}
	sort.Slice(wids, func(i, j int) bool { return wids[i] < wids[j] })
	for _, id := range wids {
		got := false
		for _, f := range repo.fields[id] {
			if f == want[id] {
				got = true
			}
		}
		r.check(got, "C07.R4", fnName, fmt.Sprintf("extension %d -> ClientHelloInfo.%s", id, want[id]), pos, "same field as crypto/tls", fmt.Sprintf("crypto/tls reports extension %d as ClientHelloInfo.%s, the repo's case assigns %v", id, want[id], repo.fields[id]))
	}
}

func c07R5(c *Ctx, r *Report, rule string) {
	r.rule(rule, "placeholders and sub-matchers: l4.tls.server_name is set from the parsed ClientHelloInfo.ServerName, l4.tls.version from the parsed Version; every configured handshake matcher is invoked on the parsed info and a false result answers (false, nil); every path to a possibly-true verdict passes the parse and both placeholder assignments", 6)
	fn := c.Fn("modules/l4tls.(*MatchTLS).Match")
	if fn == nil {
		return
	}
	var parsed *ssa.Call
	for _, ci := range callsIn(fn) {
		if calleeID(ci) == "modules/l4tls.parseRawClientHello" {
			parsed = ci.(*ssa.Call)
		}
	}
	if parsed == nil {
		r.bad(rule, fname(fn), "parse", c.pos(fn.Pos()), "parseRawClientHello is not called")
		return
	}
	want := map[string]string{"l4.tls.server_name": "ServerName", "l4.tls.version": "Version"}
	for _, ci := range callsIn(fn) {
		if !strings.HasSuffix(calleeID(ci), "Replacer).Set") {
			continue
		}
		k, _ := constString(ci.Common().Args[1])
		f, ok := want[k]
		if !ok {
			continue
		}
		good := false
		for _, o := range origins(ci.Common().Args[2], sliceOpts{}) {
			if (o.Kind == "field" || o.Kind == "fieldaddr") && strings.HasSuffix(o.Desc, "."+f) {
				good = true
			}
		}
		good = good && derivesFrom(ci.Common().Args[2], parsed)
		r.check(good, rule, fname(fn), "placeholder "+k, c.ipos(ci), "set from the parsed "+f, "placeholder "+k+" is not set from the parsed hello's "+f+" ("+originKinds(origins(ci.Common().Args[2], sliceOpts{}))+")")
		delete(want, k)
	}
	for k := range want {
		r.bad(rule, fname(fn), "placeholder "+k, c.pos(fn.Pos()), "placeholder is never set")
	}
	// must-pass-through: no path to a return whose verdict may be "matched" avoids the parse or either placeholder
	mayMatch := func(in ssa.Instruction) bool {
		ret, ok := in.(*ssa.Return)
		if !ok || len(ret.Results) < 1 {
			return false
		}
		if b, isC := constBool(ret.Results[0]); isC && !b {
			return false
		}
		return true
	}
	for _, k := range []string{"parse", "l4.tls.server_name", "l4.tls.version"} {
		k := k
		through := func(in ssa.Instruction) bool {
			ci, ok := in.(ssa.CallInstruction)
			if !ok {
				return false
			}
			if k == "parse" {
				return in == ssa.Instruction(parsed)
			}
			if !strings.HasSuffix(calleeID(ci), "Replacer).Set") {
				return false
			}
			s, _ := constString(ci.Common().Args[1])
			return s == k
		}
		esc := pathFromEntryAvoiding(fn, mayMatch, through)
		where := ""
		if esc != nil {
			where = c.ipos(esc)
		}
		r.check(esc == nil, rule, fname(fn), "every matched path passes "+k, c.pos(fn.Pos()), "no path to a possibly-true verdict avoids it", "the return at "+where+" can answer 'matched' on a path that never passes "+k+": the route matches but the TLS placeholders / parsed hello are missing for this connection")
	}
	// sub-matchers
	good := false
	for _, ci := range callsIn(fn) {
		if isInvoke(ci, "Match") && strings.Contains(typeStr(ci.Common().Value.Type()), "caddytls.ConnectionMatcher") {
			if derivesFrom(ci.Common().Args[0], parsed) {
				good = true
			}
		}
	}
	r.check(good, rule, fname(fn), "handshake matchers on parsed info", c.pos(fn.Pos()), "sub-matchers see the parsed hello", "configured handshake matchers (sni, alpn, ...) are not evaluated on the parsed ClientHelloInfo")
}

// inlineGuardedHelpers returns a copy of fn in which every statement of the form
//
//	if !helper(args...) { return ... }
//
// where helper is a function of the same package that reports success as a bool, is replaced by the helper's body
// (its parameters replaced by the argument expressions, `return false` by the guard's return, the final `return true`
// dropped). The agreement rules then see the parser as if the helper had not been extracted.
var c07Renamed = map[string]string{}

func inlineGuardedHelpers(fset *token.FileSet, fn *ast.FuncDecl, decls map[string]*ast.FuncDecl) *ast.FuncDecl {
	clone := func(fd *ast.FuncDecl) *ast.FuncDecl {
		var buf bytes.Buffer
		buf.WriteString("package p\n")
		cp := *fd
		cp.Doc = nil
		if err := printer.Fprint(&buf, fset, &cp); err != nil {
			return nil
		}
		f, err := parser.ParseFile(token.NewFileSet(), "copy.go", buf.Bytes(), 0)
		if err != nil || len(f.Decls) == 0 {
			return nil
		}
		out, _ := f.Decls[0].(*ast.FuncDecl)
		return out
	}
	root := clone(fn)
	if root == nil {
		return fn
	}
	var rewrite func(list []ast.Stmt, depth int) []ast.Stmt
	expand := func(ifs *ast.IfStmt, depth int) ([]ast.Stmt, bool) {
		if ifs.Else != nil || ifs.Init != nil || len(ifs.Body.List) != 1 {
			return nil, false
		}
		guardRet, ok := ifs.Body.List[0].(*ast.ReturnStmt)
		if !ok {
			return nil, false
		}
		not, ok := ifs.Cond.(*ast.UnaryExpr)
		if !ok || not.Op != token.NOT {
			return nil, false
		}
		call, ok := not.X.(*ast.CallExpr)
		if !ok {
			return nil, false
		}
		id, ok := call.Fun.(*ast.Ident)
		if !ok {
			return nil, false
		}
		canon := id.Name
		if ref, has := c07Renamed[id.Name]; has {
			canon = ref
		}
		if strings.HasPrefix(canon, "readUint") && strings.HasSuffix(canon, "LengthPrefixed") || decls[id.Name] == nil || depth > 1 {
			return nil, false // (readUintNLengthPrefixed are counted as reads where they stand)
		}
		h := clone(decls[id.Name])
		if h == nil || h.Body == nil || h.Type.Results == nil || len(h.Type.Results.List) != 1 {
			return nil, false
		}
		// parameter -> argument
		env := map[string]ast.Expr{}
		i := 0
		for _, fl := range h.Type.Params.List {
			for _, nm := range fl.Names {
				if i < len(call.Args) {
					env[nm.Name] = call.Args[i]
				}
				i++
			}
		}
		// a function literal handed to the helper (a "for each value" callback): where the helper calls the parameter
		// as a statement, the literal's body stands there with its parameters replaced by the call's arguments
		litFor := func(e ast.Expr) *ast.FuncLit {
			fl, _ := e.(*ast.FuncLit)
			if fl == nil || fl.Type.Results != nil && len(fl.Type.Results.List) > 0 {
				return nil
			}
			return fl
		}
		body := astutil.Apply(h.Body, func(cur *astutil.Cursor) bool {
			switch x := cur.Node().(type) {
			case *ast.ExprStmt:
				if call, ok := x.X.(*ast.CallExpr); ok {
					if pid, ok := call.Fun.(*ast.Ident); ok {
						if fl := litFor(env[pid.Name]); fl != nil {
							lenv := map[string]ast.Expr{}
							k := 0
							for _, fld := range fl.Type.Params.List {
								for _, nm := range fld.Names {
									if k < len(call.Args) {
										lenv[nm.Name] = call.Args[k]
									}
									k++
								}
							}
							var buf bytes.Buffer
							buf.WriteString("package p\nfunc f() ")
							if err := printer.Fprint(&buf, fset, fl.Body); err == nil {
								if pf, err := parser.ParseFile(token.NewFileSet(), "lit.go", buf.Bytes(), 0); err == nil && len(pf.Decls) == 1 {
									lb := pf.Decls[0].(*ast.FuncDecl).Body
									lb = astutil.Apply(lb, func(c2 *astutil.Cursor) bool {
										if idn, ok := c2.Node().(*ast.Ident); ok {
											if a, ok := lenv[idn.Name]; ok {
												if _, isField := c2.Parent().(*ast.SelectorExpr); isField && c2.Name() == "Sel" {
													return true
												}
												c2.Replace(a)
											}
										}
										return true
									}, nil).(*ast.BlockStmt)
									cur.Replace(lb)
									return false
								}
							}
						}
					}
				}
			case *ast.StarExpr:
				if pid, ok := x.X.(*ast.Ident); ok {
					if a, ok := env[pid.Name]; ok {
						if u, ok := a.(*ast.UnaryExpr); ok && u.Op == token.AND {
							cur.Replace(u.X)
							return false
						}
					}
				}
			case *ast.Ident:
				if a, ok := env[x.Name]; ok {
					if _, isField := cur.Parent().(*ast.SelectorExpr); isField && cur.Name() == "Sel" {
						return true
					}
					if u, ok := a.(*ast.UnaryExpr); ok && u.Op == token.AND {
						cur.Replace(u.X)
					} else {
						cur.Replace(a)
					}
				}
			case *ast.ReturnStmt:
				if len(x.Results) == 1 {
					if rid, ok := x.Results[0].(*ast.Ident); ok && rid.Name == "false" {
						cur.Replace(&ast.ReturnStmt{Results: guardRet.Results})
					}
				}
			}
			return true
		}, nil).(*ast.BlockStmt)
		list := body.List
		if n := len(list); n > 0 {
			if rs, ok := list[n-1].(*ast.ReturnStmt); ok && len(rs.Results) == 1 {
				if rid, ok := rs.Results[0].(*ast.Ident); ok && rid.Name == "true" {
					list = list[:n-1]
				}
			}
		}
		return rewrite(list, depth+1), true
	}
	rewrite = func(list []ast.Stmt, depth int) []ast.Stmt {
		var out []ast.Stmt
		for _, st := range list {
			switch x := st.(type) {
			case *ast.IfStmt:
				if repl, ok := expand(x, depth); ok {
					out = append(out, repl...)
					continue
				}
				x.Body.List = rewrite(x.Body.List, depth)
				if eb, ok := x.Else.(*ast.BlockStmt); ok {
					eb.List = rewrite(eb.List, depth)
				}
			case *ast.ForStmt:
				x.Body.List = rewrite(x.Body.List, depth)
			case *ast.RangeStmt:
				x.Body.List = rewrite(x.Body.List, depth)
			case *ast.BlockStmt:
				x.List = rewrite(x.List, depth)
			case *ast.SwitchStmt:
				for _, cc := range x.Body.List {
					if c2, ok := cc.(*ast.CaseClause); ok {
						c2.Body = rewrite(c2.Body, depth)
					}
				}
			}
			out = append(out, st)
		}
		return out
	}
	root.Body.List = rewrite(root.Body.List, 0)
	// positions must be consistent for the extractor (it orders by position): print and re-parse once more
	if again := clone(root); again != nil {
		return again
	}
	return root
}

// c07R9: crypto/tls derives the supported versions from the legacy version field whenever the hello carries no
// supported_versions extension - also for a hello that ends early or has no extensions at all. In the repo's
// parser that fallback must therefore be applied on every way out of the function.
func c07R9(c *Ctx, r *Report, rule string) {
	r.rule(rule, "the supported-versions fallback (supportedVersionsFromMax on the legacy version when no supported_versions extension was seen) is applied on every path out of parseRawClientHello: it is deferred before the first return, or no return is reachable without passing it", 1)
	fnName := "modules/l4tls.parseRawClientHello"
	fn := c.Fn(fnName)
	if fn == nil {
		r.bad(rule, fnName, "exists", "-", "function not found")
		return
	}
	callsFallback := func(f *ssa.Function) bool {
		for g := range c.reachSync(f) {
			for _, ci := range callsIn(g) {
				if strings.HasSuffix(calleeID(ci), "supportedVersionsFromMax") {
					return true
				}
			}
		}
		return false
	}
	through := func(in ssa.Instruction) bool {
		switch x := in.(type) {
		case *ssa.Defer:
			if cl := closureOf(x.Call.Value); cl != nil && callsFallback(cl) {
				return true
			}
			if cal := x.Call.StaticCallee(); cal != nil && callsFallback(cal) {
				return true
			}
		case *ssa.Call:
			if strings.HasSuffix(calleeID(x), "supportedVersionsFromMax") {
				return true
			}
			if cal := x.Call.StaticCallee(); cal != nil && cal != fn && cal.Pkg == fn.Pkg && callsFallback(cal) {
				return true
			}
		}
		return false
	}
	esc := pathFromEntryAvoiding(fn, func(in ssa.Instruction) bool {
		ret, ok := in.(*ssa.Return)
		return ok && (fn.Recover == nil || ret.Block() != fn.Recover)
	}, through)
	where := ""
	if esc != nil {
		where = c.ipos(esc)
	}
	r.check(esc == nil, rule, fnName, "fallback on every path", c.pos(fn.Pos()), "no return avoids the fallback", "the return at "+where+" is reachable without the supported-versions fallback: for a hello without extensions (or cut short) the matcher reports no versions where Go's TLS server reports those implied by the legacy version")
}

// c07ALPN: the alpn sub-matcher sees what the terminating server sees. ALPN protocol ids are opaque byte strings
// (RFC 7301): crypto/tls offers and selects them by exact comparison. MatchALPN.Match is evaluated on configured
// lists x offered lists: it matches exactly when some configured id equals some offered id byte for byte.
func c07ALPN(c *Ctx, r *Report, rule string) {
	r.rule(rule, "alpn sub-matcher (evaluation of MatchALPN.Match on configured x offered protocol lists, ids differing in case, prefix and order included): matches exactly when a configured id - placeholders in it resolved - equals an offered id byte for byte, as crypto/tls compares them", 8)
	fnName := "modules/l4tls.(*MatchALPN).Match"
	fn := c.Fn(fnName)
	if fn == nil {
		r.bad(rule, fnName, "exists", "-", "function not found")
		return
	}
	type tc struct{ cfg, offered []string }
	cases := []tc{
		{[]string{"h2"}, []string{"h2"}},
		{[]string{"h2"}, []string{"http/1.1", "h2"}},
		{[]string{"h2", "http/1.1"}, []string{"http/1.1"}},
		{[]string{"h2"}, []string{"H2"}},
		{[]string{"H2"}, []string{"h2"}},
		{[]string{"h2"}, []string{"h2c"}},
		{[]string{"h2c"}, []string{"h2"}},
		{[]string{"h2"}, []string{"http/1.1"}},
		{[]string{"h2"}, nil},
		{nil, []string{"h2"}},
		{[]string{"acme-tls/1"}, []string{"ACME-TLS/1"}},
		// configured ids given as placeholders are compared as resolved ({env.L4_PROTO} = h2, {env.L4_EMPTY} = "")
		{[]string{"{env.L4_PROTO}"}, []string{"h2"}},
		{[]string{"{env.L4_PROTO}"}, []string{"http/1.1"}},
		{[]string{"x-{env.L4_PROTO}"}, []string{"x-h2"}},
		{[]string{"{env.L4_EMPTY}", "h2"}, []string{"h2"}},
		{[]string{"{env.L4_PROTO}"}, []string{"{env.L4_PROTO}"}},
		// braces that are no placeholder are part of the id
		{[]string{"a{b}c"}, []string{"a{b}c"}},
		{[]string{"a{b}c"}, []string{"ac"}},
	}
	alpnEnv := func(key string) (string, bool) {
		switch key {
		case "env.L4_PROTO":
			return "h2", true
		case "env.L4_EMPTY":
			return "", true
		}
		return "", false
	}
	for _, cs := range cases {
		want := false
		for _, a := range cs.cfg {
			for _, b := range cs.offered {
				if caddyReplace(a, "", false, alpnEnv) == b {
					want = true
				}
			}
		}
		name := fmt.Sprintf("configured %q, offered %q", cs.cfg, cs.offered)
		base := msgScenario(c, msgMatcher{fn: fnName}, msgCase{})
		base.Name = name
		base.MaxVisit = 12
		base.Params = map[string]SV{"recv": symRef("m", false), "p0": symRef("hello", false)}
		list := func(desc string, xs []string) SV {
			l := symInt(int64(len(xs)))
			for i, x := range xs {
				base.Heap[fmt.Sprintf("%s[%d]", desc, i)] = symStr(x)
			}
			return SV{K: "slice", Desc: desc, Len: &l, Cap: &l, Known: true}
		}
		base.Heap["m"] = list("cfg", cs.cfg)
		base.Heap["hello.SupportedProtos"] = list("offered", cs.offered)
		inner := base.Call
		base.Call = func(callee string, args []SV, ev *symEval, st *symState) (SV, bool) {
			switch {
			case strings.HasSuffix(callee, "ClientHelloInfo).Context"):
				return symNil(), true
			case strings.HasSuffix(callee, "caddy/v2.NewReplacer"):
				return symRef("repl", false), true
			case (strings.HasSuffix(callee, "Replacer).ReplaceAll") || strings.HasSuffix(callee, "Replacer).ReplaceKnown")) && len(args) == 3 && args[1].K == "str" && args[1].Known && args[2].K == "str" && args[2].Known:
				return symStr(caddyReplace(args[1].S, args[2].S, strings.HasSuffix(callee, ".ReplaceAll"), alpnEnv)), true
			}
			return inner(callee, args, ev, st)
		}
		paths, err := evalPaths(fn, base)
		if err != nil || len(paths) == 0 {
			r.bad(rule, fnName, name, c.pos(fn.Pos()), fmt.Sprintf("undecided: %v", err))
			continue
		}
		var got []string
		good := true
		for _, p := range paths {
			if p.Outcome != "return" || len(p.Ret) != 1 || !p.Ret[0].Known {
				good = false
				got = append(got, "undecided")
				continue
			}
			got = append(got, fmt.Sprint(p.Ret[0].B))
			if p.Ret[0].B != want {
				good = false
			}
		}
		r.check(good, rule, fnName, name, c.pos(fn.Pos()), fmt.Sprintf("match=%v", want), fmt.Sprintf("the alpn matcher answers %v, exact comparison of the ids (what crypto/tls does with them) gives %v: routing on ALPN then disagrees with the protocol the terminating server negotiates", dedup(got), want))
	}
}
