package main

import (
	"fmt"
	"go/ast"
	"go/token"
	"go/types"
	"reflect"
	"regexp"
	"sort"
	"strconv"
	"strings"

	"golang.org/x/tools/go/packages"
	"golang.org/x/tools/go/ssa"
)

func init() {
	register(&property{
		ID:          "C15",
		Explanation: "Static decision of structural conditions of Caddyfile/JSON equivalence: (R1) documented grammar <-> parser: for every Caddyfile unmarshaller with a 'Syntax:' block, the option keywords documented at block depth 1 equal the labels its option switch / comparisons accept; (R2) custom JSON codecs (not, tls, http, quic matchers) marshal and unmarshal one and the same field; (R3) every exported field of every configuration struct has a JSON tag that is '-' or 'name,omitempty' with names unique per struct (re-serialising adds nothing); (R4) determinism: code reachable from Caddyfile parsing appends to no slice and writes no output inside a range over a map unless the result is sorted or itself a map; (R5) every module type is registered in an init() and imports.go blank-imports every module package; (R6) no clobbering: inside the option loop of an unmarshaller, a configuration sub-object held in a pointer field is replaced by a new object only on the edge where that field was found nil; (R7) servers merged from several global layer4 blocks get fresh keys (the counter starts at the number of existing servers). Added: (R8) a field assigned the result of append appends to that same field; (R9) keyword shortcuts are compared on the token after a one-character prefix was stripped.",
		NotDecided:  "Semantic equality of the adapted JSON with an abstract configuration for all generated Caddyfiles; that provisioning succeeds for every generated configuration; argument-level grammar (counts and value syntax of option arguments).",
		Run:         runC15,
	})
}

func runC15(c *Ctx, r *Report) {
	defer c12Provision(c, r, "C15.R18") // "that JSON loads and provisions", with placeholders: an allow entry of the proxy_protocol handler given as a placeholder for a range or a single address provisions
	c15R1(c, r, "C15.R1")
	c15R2(c, r, "C15.R2")
	c15R3(c, r, "C15.R3")
	c15R4(c, r, "C15.R4")
	c15R5(c, r, "C15.R5")
	c15R6(c, r, "C15.R6")
	c15R7(c, r, "C15.R7")
	c15MapsMade(c, r, "C15.R19")
	c15AsymmetricCodec(c, r, "C15.R20")
	c11Provision(c, r, "C15.R21") // "that JSON loads and provisions": the dial address is parsed as the replacer resolves it (placeholders known at load time may stand for the port or the whole address)
	c15R8(c, r, "C15.R8")
	c15R9(c, r, "C15.R9")
	c15R10(c, r, "C15.R10")
	c15R11(c, r, "C15.R11")
	c15R12(c, r, "C15.R12")
	c15R13(c, r, "C15.R13")
	c15R14(c, r, "C15.R14")
	c15R15(c, r, "C15.R15")
	c15Cursor(c, r, "C15.R16")
	c15OptionalModuleLoaded(c, r, "C15.R22")
	c15NumbersDecimal(c, r, "C15.R23")
	c15Tables(c, r, "C15.R17")
}

// docOptions extracts the option keywords at block depth 1 of a "Syntax:" doc block.
func docOptions(doc string) ([]string, bool) {
	i := strings.Index(doc, "Syntax:")
	if i < 0 {
		return nil, false
	}
	set := map[string]bool{}
	depth := 0
	sawBlock := false
	for _, line := range strings.Split(doc[i+len("Syntax:"):], "\n") {
		t := strings.TrimSpace(line)
		if t == "" {
			if sawBlock && depth == 0 {
				// blank line after a complete block: further blocks may follow (alternative forms)
			}
			continue
		}
		if strings.HasPrefix(t, "Note") {
			break
		}
		opens := strings.Count(t, "{")
		closes := strings.Count(t, "}")
		if depth == 1 && !strings.HasPrefix(t, "}") {
			tok := strings.Fields(t)[0]
			switch {
			case strings.HasPrefix(tok, "#"), tok == "...", strings.HasPrefix(tok, "@"):
			case strings.HasPrefix(tok, "<") && strings.HasSuffix(tok, ">") && strings.Contains(tok, "|"):
				for _, alt := range strings.Split(strings.Trim(tok, "<>"), "|") {
					set[alt] = true
				}
			case strings.HasPrefix(tok, "<") || strings.HasPrefix(tok, "["):
			default:
				set[tok] = true
			}
		}
		if opens > 0 {
			sawBlock = true
		}
		depth += opens - closes
		if depth < 0 {
			depth = 0
		}
	}
	var out []string
	for k := range set {
		out = append(out, k)
	}
	sort.Strings(out)
	return out, true
}

// parserOptions extracts the labels compared with the option-name variable of a NextBlock loop.
func parserOptions(fd *ast.FuncDecl) []string {
	optVars := map[string]bool{}
	ast.Inspect(fd.Body, func(n ast.Node) bool {
		fs, ok := n.(*ast.ForStmt)
		if !ok || fs.Cond == nil || !strings.Contains(exprText(fs.Cond), "NextBlock") {
			return true
		}
		for _, st := range fs.Body.List {
			as, ok := st.(*ast.AssignStmt)
			if !ok || len(as.Lhs) != len(as.Rhs) {
				continue
			}
			for i, rhs := range as.Rhs {
				if call, ok := rhs.(*ast.CallExpr); ok && strings.HasSuffix(exprText(call.Fun), ".Val") {
					if id, ok := as.Lhs[i].(*ast.Ident); ok {
						optVars[id.Name] = true
					}
				}
			}
		}
		return true
	})
	set := map[string]bool{}
	isOpt := func(e ast.Expr) bool {
		if id, ok := e.(*ast.Ident); ok {
			return optVars[id.Name]
		}
		return false
	}
	// option tables: a local map with string-literal keys that is indexed by the option name
	tables := map[string][]string{}
	ast.Inspect(fd.Body, func(n ast.Node) bool {
		as, ok := n.(*ast.AssignStmt)
		if !ok || len(as.Lhs) != 1 || len(as.Rhs) != 1 {
			return true
		}
		id, ok := as.Lhs[0].(*ast.Ident)
		cl, ok2 := as.Rhs[0].(*ast.CompositeLit)
		if !ok || !ok2 {
			return true
		}
		if _, isMap := cl.Type.(*ast.MapType); !isMap {
			return true
		}
		for _, el := range cl.Elts {
			if kv, ok := el.(*ast.KeyValueExpr); ok {
				if bl, ok := kv.Key.(*ast.BasicLit); ok && bl.Kind == token.STRING {
					k, _ := strconv.Unquote(bl.Value)
					tables[id.Name] = append(tables[id.Name], k)
				}
			}
		}
		return true
	})
	ast.Inspect(fd.Body, func(n ast.Node) bool {
		switch x := n.(type) {
		case *ast.IndexExpr:
			if id, ok := x.X.(*ast.Ident); ok && isOpt(x.Index) {
				for _, k := range tables[id.Name] {
					set[k] = true
				}
			}
		case *ast.SwitchStmt:
			if x.Tag != nil && isOpt(x.Tag) {
				for _, cl := range x.Body.List {
					for _, e := range cl.(*ast.CaseClause).List {
						if bl, ok := e.(*ast.BasicLit); ok && bl.Kind == token.STRING {
							s, _ := strconv.Unquote(bl.Value)
							set[s] = true
						}
					}
				}
			}
		case *ast.BinaryExpr:
			if x.Op == token.EQL && isOpt(x.X) {
				if bl, ok := x.Y.(*ast.BasicLit); ok && bl.Kind == token.STRING {
					s, _ := strconv.Unquote(bl.Value)
					set[s] = true
				}
			}
		}
		return true
	})
	var out []string
	for k := range set {
		out = append(out, k)
	}
	sort.Strings(out)
	return out
}

func exprText(e ast.Expr) string {
	switch x := e.(type) {
	case *ast.Ident:
		return x.Name
	case *ast.SelectorExpr:
		return exprText(x.X) + "." + x.Sel.Name
	case *ast.CallExpr:
		s := exprText(x.Fun) + "("
		for _, a := range x.Args {
			s += exprText(a) + ","
		}
		return s + ")"
	case *ast.UnaryExpr:
		return x.Op.String() + exprText(x.X)
	case *ast.BinaryExpr:
		return exprText(x.X) + x.Op.String() + exprText(x.Y)
	case *ast.ParenExpr:
		return "(" + exprText(x.X) + ")"
	case *ast.BasicLit:
		return x.Value
	}
	return fmt.Sprintf("%T", e)
}

func funcDeclName(p *packages.Package, fd *ast.FuncDecl) string {
	n := short(p.PkgPath) + "."
	if fd.Recv != nil && len(fd.Recv.List) > 0 {
		n += "(" + strings.ReplaceAll(exprText(fd.Recv.List[0].Type), "*", "*") + ")."
		if st, ok := fd.Recv.List[0].Type.(*ast.StarExpr); ok {
			n = short(p.PkgPath) + ".(*" + exprText(st.X) + ")."
		}
	}
	return n + fd.Name.Name
}

func c15R1(c *Ctx, r *Report, rule string) {
	r.rule(rule, "documented grammar <-> parser: option keywords at block depth 1 of the 'Syntax:' comment equal the string labels the function compares its option-name variable with", 14)
	for _, p := range c.Pkgs {
		for _, f := range p.Syntax {
			for _, d := range f.Decls {
				fd, ok := d.(*ast.FuncDecl)
				if !ok || fd.Doc == nil || fd.Body == nil {
					continue
				}
				doc, has := docOptions(fd.Doc.Text())
				if !has {
					continue
				}
				got := parserOptions(fd)
				if len(got) == 0 {
					// no option loop of its own: compare with the helper it delegates to, if that one has labels
					ast.Inspect(fd.Body, func(n ast.Node) bool {
						call, ok := n.(*ast.CallExpr)
						if !ok {
							return true
						}
						callee := exprText(call.Fun)
						callee = callee[strings.LastIndex(callee, ".")+1:]
						for _, p2 := range c.Pkgs {
							for _, f2 := range p2.Syntax {
								for _, d2 := range f2.Decls {
									if fd2, ok := d2.(*ast.FuncDecl); ok && fd2.Recv == nil && fd2.Name.Name == callee && strings.HasPrefix(callee, "ParseCaddyfile") && fd2.Body != nil {
										got = append(got, parserOptions(fd2)...)
									}
								}
							}
						}
						return true
					})
					sort.Strings(got)
					// a generic helper (nested modules named by the user) shares no keyword with the documentation: not comparable
					common := false
					for _, g := range got {
						for _, x := range doc {
							if g == x {
								common = true
							}
						}
					}
					if !common {
						got = nil
					}
				}
				if len(got) == 0 {
					continue // purely positional syntax or generic nested modules: nothing to compare
				}
				name := funcDeclName(p, fd)
				var missing, extra []string
				gs := map[string]bool{}
				for _, g := range got {
					gs[g] = true
				}
				ds := map[string]bool{}
				for _, x := range doc {
					ds[x] = true
					if !gs[x] {
						missing = append(missing, x)
					}
				}
				for _, g := range got {
					if !ds[g] {
						extra = append(extra, g)
					}
				}
				r.check(len(missing) == 0 && len(extra) == 0, rule, name, "options", c.pos(fd.Pos()), fmt.Sprintf("%d options: %s", len(doc), strings.Join(doc, " ")), fmt.Sprintf("documented but not accepted: %v; accepted but not documented: %v (a Caddyfile written to the documented syntax is rejected, or an undocumented option changes the configuration)", missing, extra))
			}
		}
	}
}

func c15R2(c *Ctx, r *Report, rule string) {
	r.rule(rule, "types with custom MarshalJSON and UnmarshalJSON operate on the same single field in both directions", 4)
	for _, p := range c.Pkgs {
		sc := p.Types.Scope()
		for _, n := range sc.Names() {
			tn, ok := sc.Lookup(n).(*types.TypeName)
			if !ok {
				continue
			}
			mj := c.Fn(fmt.Sprintf("%s.(*%s).MarshalJSON", short(p.PkgPath), tn.Name()))
			if mj == nil {
				mj = c.Fn(fmt.Sprintf("%s.(%s).MarshalJSON", short(p.PkgPath), tn.Name()))
			}
			uj := c.Fn(fmt.Sprintf("%s.(*%s).UnmarshalJSON", short(p.PkgPath), tn.Name()))
			if mj == nil || uj == nil {
				continue
			}
			fieldsOf := func(fn *ssa.Function, callee string) []string {
				set := map[string]bool{}
				for _, ci := range callsIn(fn) {
					if calleeID(ci) != callee {
						continue
					}
					arg := ci.Common().Args[len(ci.Common().Args)-1]
					if callee == "encoding/json.Marshal" {
						arg = ci.Common().Args[0]
					}
					for _, o := range origins(arg, sliceOpts{}) {
						if o.Kind == "field" || o.Kind == "fieldaddr" {
							set[o.Desc] = true
						}
					}
				}
				var out []string
				for k := range set {
					out = append(out, k)
				}
				sort.Strings(out)
				return out
			}
			m, u := fieldsOf(mj, "encoding/json.Marshal"), fieldsOf(uj, "encoding/json.Unmarshal")
			r.check(len(m) == 1 && reflect.DeepEqual(m, u), rule, short(p.PkgPath)+"."+tn.Name(), "same field", c.pos(tn.Pos()), "both directions use "+strings.Join(m, ","), fmt.Sprintf("MarshalJSON serialises %v but UnmarshalJSON fills %v: loading then re-serialising does not reproduce the configuration", m, u))
		}
	}
}

func c15R3(c *Ctx, r *Report, rule string) {
	r.rule(rule, "configuration structs (types with CaddyModule, and struct types reachable from their exported fields inside the module): every exported field has a json tag '-' or '<name>,omitempty', names unique", 30)
	seen := map[*types.Named]bool{}
	var visit func(n *types.Named)
	visit = func(n *types.Named) {
		if n == nil || seen[n] || n.Obj().Pkg() == nil || !strings.HasPrefix(n.Obj().Pkg().Path(), modPath) {
			return
		}
		st, ok := n.Underlying().(*types.Struct)
		if !ok {
			return
		}
		seen[n] = true
		names := map[string]bool{}
		var problems []string
		for i := 0; i < st.NumFields(); i++ {
			f := st.Field(i)
			if !f.Exported() {
				continue
			}
			tag, has := reflect.StructTag(st.Tag(i)).Lookup("json")
			switch {
			case f.Embedded() && !has:
				// embedded struct: flattened
			case !has:
				problems = append(problems, f.Name()+" has no json tag")
			case tag == "-":
			default:
				parts := strings.Split(tag, ",")
				if parts[0] == "" {
					problems = append(problems, f.Name()+" has an empty json name")
				}
				if names[parts[0]] {
					problems = append(problems, "duplicate json name "+parts[0])
				}
				names[parts[0]] = true
				omit := false
				for _, o := range parts[1:] {
					if o == "omitempty" {
						omit = true
					}
				}
				if !omit {
					problems = append(problems, f.Name()+" lacks omitempty")
				}
			}
			// recurse
			var under func(t types.Type)
			under = func(t types.Type) {
				switch u := t.(type) {
				case *types.Pointer:
					under(u.Elem())
				case *types.Slice:
					under(u.Elem())
				case *types.Map:
					under(u.Elem())
				case *types.Named:
					visit(u)
				}
			}
			if has && tag != "-" {
				under(f.Type())
			}
		}
		r.check(len(problems) == 0, rule, namedName(n), "json tags", c.pos(n.Obj().Pos()), "all exported fields tagged name,omitempty or -", strings.Join(problems, "; ")+": adapting/re-serialising emits zero values or loses the field")
	}
	for _, p := range c.Pkgs {
		sc := p.Types.Scope()
		for _, nm := range sc.Names() {
			tn, ok := sc.Lookup(nm).(*types.TypeName)
			if !ok {
				continue
			}
			n, ok := tn.Type().(*types.Named)
			if !ok {
				continue
			}
			if c.Fn(fmt.Sprintf("%s.(*%s).CaddyModule", short(p.PkgPath), tn.Name())) != nil || c.Fn(fmt.Sprintf("%s.(%s).CaddyModule", short(p.PkgPath), tn.Name())) != nil {
				visit(n)
			}
		}
	}
}

func c15R4(c *Ctx, r *Report, rule string) {
	r.rule(rule, "determinism of adapting: in functions reachable from the Caddyfile unmarshallers a range over a map does not append to a slice that outlives the loop (unless it is sorted afterwards in the same function) and does not write tokens/output", 1)
	var roots []*ssa.Function
	for _, fn := range c.Funcs {
		if fn.Name() == "UnmarshalCaddyfile" || strings.HasPrefix(fn.Name(), "ParseCaddyfile") || fn.Name() == "parseLayer4" {
			roots = append(roots, fn)
		}
	}
	reach := c.reach(roots)
	bad := 0
	for _, fn := range sortedFuncs(reach) {
		sorted := false
		for _, ci := range callsIn(fn) {
			if id := calleeID(ci); strings.HasPrefix(id, "sort.") || strings.HasPrefix(id, "slices.Sort") {
				sorted = true
			}
		}
		for _, b := range fn.Blocks {
			for _, in := range b.Instrs {
				nx, ok := in.(*ssa.Next)
				if !ok || nx.IsString {
					continue
				}
				rg, ok := nx.Iter.(*ssa.Range)
				if !ok {
					continue
				}
				if _, isMap := rg.X.Type().Underlying().(*types.Map); !isMap {
					continue
				}
				// appends in the loop body whose result flows to a phi at the loop head (outlives the loop)
				loop := reachableFrom(nx.Block(), true)
				for lb := range loop {
					if !nx.Block().Dominates(lb) || !reachableFrom(lb, true)[nx.Block()] {
						continue
					}
					for _, li := range lb.Instrs {
						call, ok := li.(*ssa.Call)
						if !ok || calleeID(call) != "builtin append" {
							continue
						}
						if _, isSlice := call.Type().Underlying().(*types.Slice); !isSlice {
							continue
						}
						outlives := false
						for _, ref := range *call.Referrers() {
							if ph, ok := ref.(*ssa.Phi); ok && ph.Block() == nx.Block() {
								outlives = true
							}
							if st, ok := ref.(*ssa.Store); ok {
								if _, isAlloc := st.Addr.(*ssa.Alloc); !isAlloc {
									outlives = true
								}
							}
						}
						if outlives && !sorted {
							bad++
							r.bad(rule, fname(fn), "append in map range", c.ipos(call), "a slice is built in map iteration order and not sorted: adapting the same Caddyfile twice can give differently ordered JSON")
						}
					}
				}
			}
		}
	}
	if bad == 0 {
		r.ok(rule, "module", "no order-dependent output from map iteration", "-", fmt.Sprintf("%d functions reachable from %d Caddyfile entry points scanned", len(reach), len(roots)))
	}
}

func c15R5(c *Ctx, r *Report, rule string) {
	r.rule(rule, "every type with a CaddyModule method is registered with caddy.RegisterModule in an init() of its package, and imports.go imports every package of the module that registers modules", 30)
	registered := map[string]bool{}
	regPkgs := map[string]bool{}
	for _, fn := range c.Funcs {
		if !strings.HasPrefix(fn.Name(), "init") {
			continue
		}
		for _, ci := range callsIn(fn) {
			if strings.HasSuffix(calleeID(ci), "caddy/v2.RegisterModule") {
				if mi, ok := ci.Common().Args[0].(*ssa.MakeInterface); ok {
					registered[namedName(deref(mi.X.Type()))] = true
					regPkgs[fn.Pkg.Pkg.Path()] = true
				}
			}
		}
	}
	for _, fn := range c.Funcs {
		if fn.Name() != "CaddyModule" || fn.Signature.Recv() == nil {
			continue
		}
		t := namedName(deref(fn.Signature.Recv().Type()))
		r.check(registered[t], rule, t, "registered", c.pos(fn.Pos()), "registered in init()", "module type "+t+" has CaddyModule() but is never registered: JSON/Caddyfile configurations naming it do not load")
	}
	root := c.ByPath[modPath]
	if root == nil {
		r.bad(rule, ".", "imports.go", "-", "root package not found")
		return
	}
	var missing []string
	for p := range regPkgs {
		if _, ok := root.Imports[p]; !ok {
			missing = append(missing, short(p))
		}
	}
	sort.Strings(missing)
	r.check(len(missing) == 0, rule, ".", "imports.go complete", "-", fmt.Sprintf("%d registering packages imported", len(regPkgs)), "packages registering modules but not imported by the root package: "+strings.Join(missing, ", "))
}

func c15R6(c *Ctx, r *Report, rule string) {
	r.rule(rule, "no clobbering in option loops: inside the NextBlock loop of an UnmarshalCaddyfile, a pointer-typed configuration field is assigned a newly allocated object only in a block dominated by the edge on which that same field was tested nil", 10)
	n := 0
	for _, fn := range c.Funcs {
		if fn.Name() != "UnmarshalCaddyfile" {
			continue
		}
		for _, b := range fn.Blocks {
			if !inLoop(b) {
				continue
			}
			for _, in := range b.Instrs {
				st, ok := in.(*ssa.Store)
				if !ok {
					continue
				}
				base, sn, f, ok := fieldAddr(st.Addr)
				if !ok {
					continue
				}
				if _, isPtr := st.Val.Type().Underlying().(*types.Pointer); !isPtr {
					continue
				}
				if _, isNew := st.Val.(*ssa.Alloc); !isNew {
					continue
				}
				if _, fresh := base.(*ssa.Alloc); fresh {
					continue // initialising a field of an object that is itself being created
				}
				n++
				// dominated by nil test of the same field of the same base
				guarded := false
				for _, cd := range edgeConds(b) {
					x, neq, ok := nilCheck(cd.V)
					if !ok {
						continue
					}
					isNilEdge := (neq && !cd.Truth) || (!neq && cd.Truth)
					if b2, ok2 := loadOfField(x, sn, f); ok2 && isNilEdge && sameBase(b2, base) {
						guarded = true
					}
				}
				r.check(guarded, rule, fname(fn), fmt.Sprintf("assign %s.%s", sn, f), c.ipos(st), "replaced only when nil", "the option handler replaces "+sn+"."+f+" with a new object without (only) having found it nil: settings made by options written earlier in the block are silently dropped from the adapted JSON")
			}
		}
	}
	_ = n
}

func sameBase(a, b ssa.Value) bool {
	if a == b {
		return true
	}
	return fmt.Sprint(addrRoots(a)) == fmt.Sprint(addrRoots(b))
}

func c15R7(c *Ctx, r *Report, rule string) {
	r.rule(rule, "parseLayer4: the key under which a parsed server is stored derives from a counter whose initial value is len(app.Servers) of the (possibly pre-populated) app", 1)
	fn := c.Fn("layer4.parseLayer4")
	if fn == nil {
		r.bad(rule, "layer4.parseLayer4", "exists", "-", "function not found")
		return
	}
	good, found := false, false
	for _, b := range fn.Blocks {
		for _, in := range b.Instrs {
			mu, ok := in.(*ssa.MapUpdate)
			if !ok {
				continue
			}
			found = true
			// find the phi counter in the key's slice
			seen := map[ssa.Value]bool{}
			var walk func(v ssa.Value, d int)
			walk = func(v ssa.Value, d int) {
				if v == nil || seen[v] || d > 20 {
					return
				}
				seen[v] = true
				switch x := v.(type) {
				case *ssa.Phi:
					for _, e := range x.Edges {
						if call, ok := e.(*ssa.Call); ok && calleeID(call) == "builtin len" {
							if _, isMap := call.Call.Args[0].Type().Underlying().(*types.Map); isMap && fmt.Sprint(addrRoots(call.Call.Args[0])) == fmt.Sprint(addrRoots(mu.Map)) {
								good = true
							}
						}
					}
				case *ssa.BinOp:
					walk(x.X, d+1)
					walk(x.Y, d+1)
				case *ssa.Call:
					for _, a := range x.Call.Args {
						walk(a, d+1)
					}
				case *ssa.Convert:
					walk(x.X, d+1)
				}
			}
			walk(mu.Key, 0)
		}
	}
	r.check(found && good, rule, fname(fn), "fresh server keys", c.pos(fn.Pos()), "server keys continue after the existing ones", "the server key counter does not start at len(app.Servers): servers of a second global layer4 block overwrite those merged from the first")
}

// c15R8: accumulate into the field you assign. In the Caddyfile unmarshalers a list option may be written on
// several lines; `x.F = append(x.G, args...)` with G != F silently replaces F by G's content plus the new
// arguments (a copy-paste slip that no golden file with a single line shows).
func c15R8(c *Ctx, r *Report, rule string) {
	r.rule(rule, "in every Caddyfile unmarshaler a configuration field that is assigned the result of append(...) appends to that same field (or to a fresh/local list): x.F = append(x.F, ...), never append(x.G, ...)", 20)
	for _, fn := range c.Funcs {
		if !(strings.Contains(fn.Name(), "Caddyfile") || strings.HasPrefix(fn.Name(), "parse")) || len(fn.Blocks) == 0 {
			continue
		}
		n := map[string]int{}
		for _, b := range fn.Blocks {
			for _, in := range b.Instrs {
				st, ok := in.(*ssa.Store)
				if !ok {
					continue
				}
				_, sn, f, ok := fieldAddr(st.Addr)
				if !ok {
					continue
				}
				call, ok := st.Val.(*ssa.Call)
				if !ok || calleeID(call) != "builtin append" || len(call.Call.Args) == 0 {
					continue
				}
				n[sn+"."+f]++
				k := fmt.Sprintf("%s.%s = append#%d", sn, f, n[sn+"."+f])
				src := call.Call.Args[0]
				good, detail := true, ""
				if ld, isLoad := src.(*ssa.UnOp); isLoad && ld.Op == token.MUL {
					if _, sn2, f2, ok2 := fieldAddr(ld.X); ok2 && (sn2 != sn || f2 != f) {
						good, detail = false, sn2+"."+f2
					}
				}
				r.check(good, rule, fname(fn), k, c.ipos(st), "appends to the field it assigns", "the option handler assigns "+sn+"."+f+" the result of appending to "+detail+": values given for "+sn+"."+f+" on an earlier line are dropped and the other list's values are mixed in - the adapted JSON differs from what the Caddyfile says")
			}
		}
	}
}

// c15R9: keyword shortcuts are recognised on the token after a prefix was stripped. Where an unmarshaler removes
// a one-character prefix from a token (v = v[1:], the '!' of negated ranges), every comparison of that token with
// a constant keyword is made on the stripped value.
func c15R9(c *Ctx, r *Report, rule string) {
	r.rule(rule, "where a Caddyfile unmarshaler strips a one-character prefix from a token (v = v[1:]), every comparison of that token with a constant keyword uses the stripped value ('!private_ranges' must expand like 'private_ranges')", 1)
	for _, fn := range c.Funcs {
		if !strings.Contains(fn.Name(), "Caddyfile") || len(fn.Blocks) == 0 {
			continue
		}
		for _, b := range fn.Blocks {
			for _, in := range b.Instrs {
				sl, ok := in.(*ssa.Slice)
				if !ok || sl.High != nil || sl.Low == nil {
					continue
				}
				if lo, isC := constInt(sl.Low); !isC || lo != 1 {
					continue
				}
				if bt, isStr := sl.X.Type().Underlying().(*types.Basic); !isStr || bt.Info()&types.IsString == 0 {
					continue
				}
				tok := sl.X
				n := 0
				for _, b2 := range fn.Blocks {
					for _, in2 := range b2.Instrs {
						bo, ok := in2.(*ssa.BinOp)
						if !ok || (bo.Op != token.EQL && bo.Op != token.NEQ) {
							continue
						}
						var x ssa.Value
						if s, isS := constString(bo.Y); isS && len(s) > 1 {
							x = bo.X
						} else if s, isS := constString(bo.X); isS && len(s) > 1 {
							x = bo.Y
						}
						if x == nil || !(x == tok || derivesFrom(x, tok)) {
							continue
						}
						n++
						kw, _ := constString(bo.Y)
						if kw == "" {
							kw, _ = constString(bo.X)
						}
						good := derivesFrom(x, sl)
						r.check(good, rule, fname(fn), fmt.Sprintf("keyword %q on the stripped token", kw), c.ipos(bo), "compared after the prefix is removed", fmt.Sprintf("the token is compared with %q before its prefix is stripped: the prefixed form (e.g. \"!%s\") is not recognised as the keyword and is taken literally", kw, kw))
					}
				}
			}
		}
	}
}

// c15R10: every option of a Caddyfile block guards against its own repetition: the flag tested by the case's
// "duplicate option" error is the flag the case sets. A case that sets a neighbour's flag makes adaptation depend
// on the order of options and lets its own repetition pass.
func c15R10(c *Ctx, r *Report, rule string) {
	r.rule(rule, "in every option switch of a Caddyfile unmarshaler, the has<Option> flags a case tests before reporting a duplicate are exactly the has<Option> flags it sets", 20)
	for _, p := range c.Pkgs {
		for _, f := range p.Syntax {
			for _, d := range f.Decls {
				fd, ok := d.(*ast.FuncDecl)
				if !ok || fd.Body == nil || !strings.Contains(fd.Name.Name, "Caddyfile") {
					continue
				}
				fnName := short(p.PkgPath) + "." + fd.Name.Name
				if fd.Recv != nil && len(fd.Recv.List) > 0 {
					fnName = short(p.PkgPath) + ".(" + exprName(fd.Recv.List[0].Type) + ")." + fd.Name.Name
				}
				ast.Inspect(fd.Body, func(n ast.Node) bool {
					cc, ok := n.(*ast.CaseClause)
					if !ok || len(cc.List) == 0 {
						return true
					}
					label := ""
					if bl, ok := cc.List[0].(*ast.BasicLit); ok {
						label = strings.Trim(bl.Value, "\"")
					}
					if label == "" {
						return true
					}
					tested, set := map[string]bool{}, map[string]bool{}
					for _, st := range cc.Body {
						ast.Inspect(st, func(m ast.Node) bool {
							switch x := m.(type) {
							case *ast.CaseClause:
								return false // a nested option switch is judged on its own
							case *ast.IfStmt:
								// if hasX { return d.Errf("duplicate ...") }
								dup := false
								ast.Inspect(x.Body, func(q ast.Node) bool {
									if bl, ok := q.(*ast.BasicLit); ok && strings.Contains(bl.Value, "duplicate") {
										dup = true
									}
									return true
								})
								if dup {
									ast.Inspect(x.Cond, func(q ast.Node) bool {
										if id, ok := q.(*ast.Ident); ok && strings.HasPrefix(id.Name, "has") {
											tested[id.Name] = true
										}
										return true
									})
								}
							case *ast.AssignStmt:
								for i, l := range x.Lhs {
									id, ok := l.(*ast.Ident)
									if !ok || !strings.HasPrefix(id.Name, "has") {
										continue
									}
									var rhs ast.Expr
									if len(x.Rhs) == len(x.Lhs) {
										rhs = x.Rhs[i]
									}
									if rid, ok := rhs.(*ast.Ident); ok && rid.Name == "true" {
										set[id.Name] = true
									}
								}
							}
							return true
						})
					}
					if len(tested) == 0 || len(set) == 0 {
						return true
					}
					same := len(tested) == len(set)
					for k := range tested {
						if !set[k] {
							same = false
						}
					}
					r.check(same, rule, fnName, "option "+label, c.pos(cc.Pos()), "tests and sets the same flag", fmt.Sprintf("option %q tests %v for duplicates but sets %v: a later, different option is refused as a duplicate (adaptation depends on option order) and a repetition of this one passes unnoticed", label, keysOf(tested), keysOf(set)))
					return true
				})
			}
		}
	}
}

func keysOf(m map[string]bool) []string {
	var out []string
	for k := range m {
		out = append(out, k)
	}
	sort.Strings(out)
	return out
}

// c15R11: an optional trailing argument that has a field of its own (`protocols <min> [<max>]`) sets that field only
// when it is present: the case that handles such an option assigns some field under a test of the argument count.
func c15R11(c *Ctx, r *Report, rule string) {
	r.rule(rule, "block options documented as `name <a> [<b>]` with distinct placeholders assign a field under a test on the presence of the optional argument (NextArg / CountRemainingArgs / len of the arguments)", 1)
	optRe := regexp.MustCompile(`^\s*([a-z_0-9]+)((?:\s+<[a-zA-Z_|:]+>)+)\s+\[<([a-zA-Z_:]+)>\]\s*$`)
	for _, p := range c.Pkgs {
		for _, f := range p.Syntax {
			for _, d := range f.Decls {
				fd, ok := d.(*ast.FuncDecl)
				if !ok || fd.Body == nil || fd.Doc == nil || !strings.Contains(fd.Name.Name, "Caddyfile") {
					continue
				}
				want := map[string]string{}
				for _, line := range strings.Split(fd.Doc.Text(), "\n") {
					if m := optRe.FindStringSubmatch(line); m != nil {
						opt := m[3]
						if strings.Contains(m[2], "<"+opt+">") {
							continue // repetition of the same placeholder
						}
						want[m[1]] = opt
					}
				}
				if len(want) == 0 {
					continue
				}
				fnName := short(p.PkgPath) + "." + fd.Name.Name
				ast.Inspect(fd.Body, func(n ast.Node) bool {
					cc, ok := n.(*ast.CaseClause)
					if !ok || len(cc.List) == 0 {
						return true
					}
					bl, ok := cc.List[0].(*ast.BasicLit)
					if !ok {
						return true
					}
					label := strings.Trim(bl.Value, "\"")
					opt, has := want[label]
					if !has {
						return true
					}
					guarded := false
					for _, st := range cc.Body {
						ast.Inspect(st, func(m ast.Node) bool {
							ifs, ok := m.(*ast.IfStmt)
							if !ok {
								return true
							}
							countTest := false
							ast.Inspect(ifs.Cond, func(q ast.Node) bool {
								if call, ok := q.(*ast.CallExpr); ok {
									switch nm := exprName(call.Fun); {
									case strings.HasSuffix(nm, ".NextArg"), strings.HasSuffix(nm, ".CountRemainingArgs"), nm == "len":
										countTest = true
									}
								}
								return true
							})
							if !countTest {
								return true
							}
							ast.Inspect(ifs.Body, func(q ast.Node) bool {
								if as, ok := q.(*ast.AssignStmt); ok {
									for _, l := range as.Lhs {
										if _, isSel := l.(*ast.SelectorExpr); isSel {
											guarded = true
										}
									}
								}
								return true
							})
							return true
						})
					}
					r.check(guarded, rule, fnName, "option "+label+" [<"+opt+">]", c.pos(cc.Pos()), "the optional argument's field is set only when the argument is there", fmt.Sprintf("option %q is documented with an optional <%s>, but no field is assigned under a test for its presence: with the argument left out the field gets a value anyway and the adapted JSON says more than the Caddyfile", label, opt))
					return true
				})
			}
		}
	}
}

func c15Roots(c *Ctx) map[*ssa.Function]bool {
	var roots []*ssa.Function
	for _, fn := range c.Funcs {
		if fn.Name() == "UnmarshalCaddyfile" || strings.HasPrefix(fn.Name(), "ParseCaddyfile") || fn.Name() == "parseLayer4" {
			roots = append(roots, fn)
		}
	}
	return c.reach(roots)
}

// c15R12: one duration grammar. JSON durations (caddy.Duration) are decoded by caddy.ParseDuration, which knows the
// day unit; a Caddyfile option parsed with time.ParseDuration rejects values ("1d") that the JSON form of the same
// option accepts.
func c15R12(c *Ctx, r *Report, rule string) {
	r.rule(rule, "duration grammar: functions reachable from the Caddyfile unmarshallers parse durations with caddy.ParseDuration only (never time.ParseDuration), so that the Caddyfile accepts what the JSON field of type caddy.Duration accepts", 5)
	n := 0
	for _, fn := range sortedFuncs(c15Roots(c)) {
		k := 0
		for _, ci := range callsIn(fn) {
			switch id := calleeID(ci); {
			case id == "time.ParseDuration":
				k++
				r.bad(rule, fname(fn), fmt.Sprintf("duration parse#%d", k), c.ipos(ci), "a Caddyfile duration is parsed with time.ParseDuration: values with the day unit, which the JSON form of the option accepts, fail to adapt")
			case strings.HasSuffix(id, "caddy/v2.ParseDuration"):
				k++
				n++
				r.ok(rule, fname(fn), fmt.Sprintf("duration parse#%d", k), c.ipos(ci), "caddy.ParseDuration")
			}
		}
	}
	if n == 0 {
		r.bad(rule, "unmarshallers", "durations are parsed", "-", "no caddy.ParseDuration call reachable from the unmarshallers")
	}
}

// c15R13: one object per block. A pointer appended to a configuration list inside a loop must point to an object
// allocated in that loop; a variable declared outside is one object, and every entry of the list ends up being the
// last block's values.
func c15R13(c *Ctx, r *Report, rule string) {
	r.rule(rule, "one object per block: in functions reachable from the Caddyfile unmarshallers, a pointer appended to a list inside a loop points to an object allocated inside that loop (never to a variable that lives across iterations)", 3)
	n := 0
	for _, fn := range sortedFuncs(c15Roots(c)) {
		k := 0
		for _, ci := range callsIn(fn) {
			call, ok := ci.(*ssa.Call)
			if !ok || calleeID(ci) != "builtin append" || len(call.Call.Args) != 2 || !inLoop(call.Block()) {
				continue
			}
			sl, ok := call.Call.Args[1].(*ssa.Slice)
			if !ok {
				continue
			}
			va, ok := sl.X.(*ssa.Alloc)
			if !ok {
				continue
			}
			for _, ref := range *va.Referrers() {
				ia, ok := ref.(*ssa.IndexAddr)
				if !ok {
					continue
				}
				for _, r2 := range *ia.Referrers() {
					st, ok := r2.(*ssa.Store)
					if !ok || st.Addr != ssa.Value(ia) {
						continue
					}
					if _, isPtr := st.Val.Type().Underlying().(*types.Pointer); !isPtr {
						continue
					}
					k++
					n++
					var stale []string
					for _, o := range origins(st.Val, sliceOpts{}) {
						al, isAlloc := o.V.(*ssa.Alloc)
						if o.Kind != "alloc" || !isAlloc {
							continue
						}
						if !canReach(call, al) {
							stale = append(stale, c.ipos(al))
						}
					}
					r.check(len(stale) == 0, rule, fname(fn), fmt.Sprintf("appended pointer#%d", k), c.ipos(call), "the appended object is allocated per iteration (or obtained from a call)", "the pointer appended in the loop points to a variable allocated outside it ("+strings.Join(stale, ", ")+"): every entry of the list is the same object and ends up with the last block's values - the adapted JSON repeats the last block")
				}
			}
		}
	}
	if n == 0 {
		r.bad(rule, "unmarshallers", "appended pointers", "-", "no pointer is appended in a loop of an unmarshaller (rule has no instance)")
	}
}

// c15R14: a Caddyfile option handler writes down what the tokens say. A value taken from the tokens that is stored
// into the configuration only under a test on that same value, with the other outcome silently going on to the next
// token (no error, nothing stored), makes the adapted JSON state less than the Caddyfile does - for the SOCKS5
// credentials it even turns "credentials configured" into "no credentials" and with it authentication off.
func c15R14(c *Ctx, r *Report, rule string) {
	r.rule(rule, "no silent filtering in Caddyfile option handlers: where a token value is stored into the configuration (field store, append, map entry) inside an argument loop under a test on that same value, the other outcome of the test ends in an error or stores something too - it never just moves on to the next token", 5)
	n := 0
	for _, fn := range sortedFuncs(c15Roots(c)) {
		if len(fn.Blocks) == 0 || fn.Pkg == nil || !strings.HasPrefix(fn.Pkg.Pkg.Path(), modPath) {
			continue
		}
		isConfigWrite := func(in ssa.Instruction) bool {
			switch x := in.(type) {
			case *ssa.Store:
				_, _, _, ok := fieldAddr(x.Addr)
				if ok {
					return true
				}
				// through a pointer parameter (helpers taking *[]T / *T)
				if _, isAlloc := x.Addr.(*ssa.Alloc); !isAlloc {
					for _, root := range addrRoots(x.Addr) {
						if _, isParam := root.(*ssa.Parameter); isParam {
							return true
						}
					}
				}
			case *ssa.MapUpdate:
				for _, root := range addrRoots(x.Map) {
					if _, isParam := root.(*ssa.Parameter); isParam {
						return true // a map of the configuration object (not a local work table)
					}
				}
			}
			return false
		}
		k := 0
		for _, b := range fn.Blocks {
			if !inLoop(b) {
				continue
			}
			for _, in := range b.Instrs {
				if !isConfigWrite(in) {
					continue
				}
				var srcs []ssa.Value
				switch x := in.(type) {
				case *ssa.MapUpdate:
					srcs = append(srcs, x.Key, x.Value)
				case *ssa.Store:
					srcs = append(srcs, x.Val)
					if call, ok := x.Val.(*ssa.Call); ok && calleeID(call) == "builtin append" && len(call.Call.Args) == 2 {
						if sl, ok := call.Call.Args[1].(*ssa.Slice); ok {
							if va, ok := sl.X.(*ssa.Alloc); ok {
								srcs = append(srcs, storesToDeep(va)...)
							}
						}
					}
				}
				var leaves []ssa.Value // the token values behind what is stored
				for _, sv := range srcs {
					for _, o := range origins(sv, sliceOpts{}) {
						if o.Kind == "call" && strings.HasSuffix(o.Desc, "Dispenser).Val") || o.Kind == "elem" {
							leaves = append(leaves, o.V)
						}
					}
				}
				if len(leaves) == 0 {
					continue
				}
				k++
				n++
				var dropped []string
				for _, cd := range edgeConds(b) {
					if cd.If == nil || !inLoop(cd.If.Block()) {
						continue
					}
					onToken := false
					for _, lf := range leaves {
						if derivesFrom(cd.V, lf) {
							onToken = true
						}
					}
					if !onToken {
						continue
					}
					// the other outcome
					other := cd.If.Block().Succs[1]
					if !cd.Truth {
						other = cd.If.Block().Succs[0]
					}
					// does it reach this If again (next token) without a return or a configuration write?
					seen := map[*ssa.BasicBlock]bool{other: true}
					work := []*ssa.BasicBlock{other}
					silent := false
					for len(work) > 0 && !silent {
						blk := work[len(work)-1]
						work = work[:len(work)-1]
						blocked := false
						for _, x := range blk.Instrs {
							if isReturn(x) || isConfigWrite(x) {
								blocked = true
								break
							}
							if _, isPanic := x.(*ssa.Panic); isPanic {
								blocked = true
								break
							}
						}
						if blocked {
							continue
						}
						for _, su := range blk.Succs {
							if su == cd.If.Block() || su.Dominates(cd.If.Block()) && inLoop(su) {
								silent = true
								break
							}
							if !seen[su] {
								seen[su] = true
								work = append(work, su)
							}
						}
					}
					if silent {
						dropped = append(dropped, c.ipos(cd.If))
					}
				}
				r.check(len(dropped) == 0, rule, fname(fn), fmt.Sprintf("token stored#%d", k), c.ipos(in), "stored unconditionally, or the other outcome fails / stores too", "the token value is stored only under a test on itself (at "+strings.Join(dropped, ", ")+") whose other outcome silently goes on to the next token: the adapted configuration states less than the Caddyfile (for socks5 credentials: an entry that is dropped here can leave the handler without credentials, i.e. without authentication)")
			}
		}
	}
	if n == 0 {
		r.bad(rule, "unmarshallers", "token stores", "-", "no token value stored in an argument loop was found (rule has no instance)")
	}
}

// c15R15: a configuration list that is filled from two places of one Caddyfile block (same-line arguments and block
// options, say) keeps the order in which the Caddyfile states its entries: if the tokens of one place are read
// before those of the other, its entries are appended before as well. (The order of upstreams decides which one
// `first` and `round_robin` pick; the adapted JSON must state them in the Caddyfile's order.)
func c15R15(c *Ctx, r *Report, rule string) {
	r.rule(rule, "textual order: where two append sites of a Caddyfile unmarshaller fill the same configuration list from tokens read at different places, the site whose tokens are read first also appends first", 1)
	n := 0
	for _, fn := range sortedFuncs(c15Roots(c)) {
		if len(fn.Blocks) == 0 || fn.Pkg == nil || !strings.HasPrefix(fn.Pkg.Pkg.Path(), modPath) {
			continue
		}
		type site struct {
			st    *ssa.Store
			reads []ssa.Instruction
		}
		byField := map[string][]site{}
		for _, b := range fn.Blocks {
			for _, in := range b.Instrs {
				st, ok := in.(*ssa.Store)
				if !ok {
					continue
				}
				_, sn, f, ok := fieldAddr(st.Addr)
				if !ok {
					continue
				}
				call, ok := st.Val.(*ssa.Call)
				if !ok || calleeID(call) != "builtin append" || len(call.Call.Args) != 2 {
					continue
				}
				var srcs []ssa.Value
				srcs = append(srcs, call.Call.Args[1])
				if sl, ok := call.Call.Args[1].(*ssa.Slice); ok {
					if va, ok := sl.X.(*ssa.Alloc); ok {
						srcs = append(srcs, storesToDeep(va)...)
					}
				}
				var reads []ssa.Instruction
				seen := map[ssa.Value]bool{}
				var collect func(v ssa.Value, d int)
				collect = func(v ssa.Value, d int) {
					if v == nil || seen[v] || d > 6 {
						return
					}
					seen[v] = true
					for _, o := range origins(v, sliceOpts{throughCalls: true}) {
						if o.Kind == "call" && strings.Contains(o.Desc, "caddyfile.Dispenser).") {
							if ci, ok := o.V.(ssa.Instruction); ok {
								reads = append(reads, ci)
							}
						}
						// the fields and elements of a freshly built element (&T{Dial: []string{tok}})
						if al, ok := o.V.(*ssa.Alloc); ok && al.Referrers() != nil {
							for _, sv := range storesToDeep(al) {
								collect(sv, d+1)
							}
							for _, ref := range *al.Referrers() {
								var addr ssa.Value
								switch x := ref.(type) {
								case *ssa.FieldAddr:
									addr = x
								case *ssa.IndexAddr:
									addr = x
								case ssa.CallInstruction:
									// filled by a call that is given the tokens (u.UnmarshalCaddyfile(d.NewFromNextSegment()))
									for _, a := range x.Common().Args {
										if a != ssa.Value(al) {
											collect(a, d+1)
										}
									}
								}
								if addr == nil || addr.Referrers() == nil {
									continue
								}
								for _, r2 := range *addr.Referrers() {
									if st2, ok := r2.(*ssa.Store); ok && st2.Addr == addr {
										collect(st2.Val, d+1)
									}
								}
							}
						}
					}
				}
				for _, sv := range srcs {
					collect(sv, 0)
				}
				if len(reads) > 0 {
					byField[sn+"."+f] = append(byField[sn+"."+f], site{st, reads})
				}
			}
		}
		var fields []string
		for f := range byField {
			fields = append(fields, f)
		}
		sort.Strings(fields)
		strictBefore := func(x, y ssa.Instruction) bool { return canReach(x, y) && !canReach(y, x) }
		for _, f := range fields {
			sites := byField[f]
			if len(sites) < 2 {
				continue
			}
			n++
			var bad []string
			for i, a := range sites {
				for j, b := range sites {
					if i == j {
						continue
					}
					readFirst := false
					for _, ra := range a.reads {
						for _, rb := range b.reads {
							if strictBefore(ra, rb) {
								readFirst = true
							}
						}
					}
					if readFirst && strictBefore(b.st, a.st) {
						bad = append(bad, fmt.Sprintf("the tokens behind the append at %s are read before those behind the append at %s, but appended after them", c.ipos(a.st), c.ipos(b.st)))
					}
				}
			}
			r.check(len(bad) == 0, rule, fname(fn), "order of "+f, c.pos(fn.Pos()), fmt.Sprintf("%d append sites in textual order", len(sites)), strings.Join(dedup(bad), "; ")+": the adapted JSON lists the entries in another order than the Caddyfile states them (for proxy upstreams the order decides which upstream `first` and `round_robin` pick)")
		}
	}
	if n == 0 {
		r.ok(rule, "unmarshallers", "lists filled from two places", "-", "no configuration list is filled from two places of one block")
	}
}
