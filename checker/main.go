package main

import (
	"encoding/json"
	"flag"
	"fmt"
	"golang.org/x/tools/go/ssa"
	"os"
	"path/filepath"
	"runtime/debug"
	"sort"
	"strconv"
	"strings"
	"time"
)

// property describes one claimed property: its rules, what it does not decide.
type property struct {
	ID          string
	Explanation string
	NotDecided  string
	NeedDeps    bool // needs dependency syntax even in the quick tier
	Run         func(c *Ctx, r *Report)
}

var registry = map[string]*property{}

// verifDir is the /verif directory (specification tables, evidence); set from the -verif flag.
var verifDir = "/verif"

func register(p *property) { registry[p.ID] = p }

func main() {
	prop := flag.String("prop", "", "property id (C01..C18) or 'all'")
	tier := flag.String("tier", "quick", "quick|thorough")
	repo := flag.String("repo", "/repo", "repository to analyse")
	verif := flag.String("verif", "/verif", "verif directory (evidence, specs, known findings)")
	overlay := flag.String("overlay", "", "JSON file {relative path: new content} applied as go/packages overlay (self-test)")
	child := flag.Bool("child", false, "self-test child: print failed obligation keys as JSON, write no evidence")
	list := flag.Bool("list", false, "list obligations")
	writeAnch := flag.Bool("write-anchors", false, "record the reference spelling of the module's identifiers in specs/anchors.json (run on the reference tree)")
	patch := flag.String("patch", "", "unified diff applied as overlay (development aid: prints failed obligations, writes no evidence)")
	flag.Parse()
	verifDir = *verif
	if *patch != "" {
		abs, _ := filepath.Abs(*patch)
		ov, skip := overlayFor("/", *repo, variant{Patch: abs})
		if skip != "" {
			fmt.Fprintln(os.Stderr, "patch:", skip)
			os.Exit(2)
		}
		tmp, _ := os.CreateTemp("", "l4v-ov-*.json")
		b, _ := json.Marshal(ov)
		_, _ = tmp.Write(b)
		_ = tmp.Close()
		defer os.Remove(tmp.Name())
		*overlay = tmp.Name()
		*child = true
	}

	if *writeAnch {
		c, err := load(*repo, "quick", "", false)
		if err != nil {
			fmt.Fprintln(os.Stderr, "load:", err)
			os.Exit(2)
		}
		if err := writeAnchors(c); err != nil {
			fmt.Fprintln(os.Stderr, "write anchors:", err)
			os.Exit(2)
		}
		fmt.Println("wrote", anchorsPath())
		return
	}
	if t := os.Getenv("VERIF_TIER"); t != "" && *tier == "" {
		*tier = t
	}
	seed := int64(0)
	if s := os.Getenv("VERIF_SEED"); s != "" {
		seed, _ = strconv.ParseInt(s, 10, 64)
	}
	ids := strings.Split(*prop, ",")
	if *prop == "all" {
		ids = nil
		for id := range registry {
			ids = append(ids, id)
		}
		sort.Strings(ids)
	}
	exit := 0
	var ctxCache = map[bool]*Ctx{}
	for _, id := range ids {
		p, ok := registry[id]
		if !ok {
			fmt.Fprintf(os.Stderr, "unknown property %q\n", id)
			os.Exit(2)
		}
		start := time.Now()
		rep := newReport(id)
		var c *Ctx
		func() {
			defer func() {
				if e := recover(); e != nil {
					rep.rule(id+".R0", "analysis completes without internal error (fail closed)", 0)
					rep.bad(id+".R0", "-", "analysis-panic", "-", fmt.Sprintf("analysis panicked: %v\n%s", e, debug.Stack()))
				}
			}()
			need := p.NeedDeps || *tier == "thorough"
			var err error
			c = ctxCache[need]
			if c == nil {
				c, err = load(*repo, *tier, *overlay, need)
				if err != nil {
					rep.rule(id+".R0", "the repository loads and type-checks completely (fail closed)", 0)
					rep.bad(id+".R0", "-", "load", "-", err.Error())
					c = nil
					return
				}
				resolveAliases(c)
				sort.Slice(c.Funcs, func(i, j int) bool { return fname(c.Funcs[i]) < fname(c.Funcs[j]) })
				ctxCache[need] = c
			}
			c.Tier = *tier
			// every property starts from the same state, whether it runs alone or after others: nothing
			// that an earlier property evaluated (concrete bounds verdicts, memoised explorations,
			// prover summaries) may discharge an obligation of this one
			boundsSeen = map[ssa.Instruction]*boundStat{}
			c.provers, c.retCases, c.retQs, c.retOK = nil, nil, nil, nil
			c.routerMemo = nil
			provMemo, provNote = map[string]map[string]SV{}, map[string]string{}
			for _, n := range aliasNotes {
				rep.Notes = append(rep.Notes, "renamed identifier resolved: "+n)
			}
			p.Run(c, rep)
		}()
		rep.finish()
		if *child {
			var keys []string
			for _, o := range rep.Obls {
				if !o.OK {
					keys = append(keys, o.Key+" :: "+o.Detail)
				}
			}
			out, _ := json.Marshal(keys)
			if *patch != "" {
				fmt.Printf("%s: %d failed obligation(s)\n", id, len(keys))
				for _, k := range keys {
					fmt.Println("  FAIL " + firstLine(k))
					if strings.Contains(k, "analysis-panic") && os.Getenv("L4V_DEBUG") != "" {
						fmt.Println(k)
					}
				}
				continue
			}
			fmt.Println("CHILD-RESULT " + string(out))
			continue
		}
		kf, err := loadKnown(filepath.Join(*verif, "known_findings.json"))
		if err != nil {
			fmt.Fprintln(os.Stderr, err)
			os.Exit(2)
		}
		var st map[string]interface{}
		if *tier == "thorough" && *overlay == "" {
			st = runSelfTests(*verif, *repo, id, rep)
		}
		rep.finish2()
		wall := time.Since(start).Seconds()
		nviol, known := rep.write(*verif, *tier, seed, wall, c, kf, p.Explanation, p.NotDecided, st)
		total, nok := 0, 0
		for _, o := range rep.Obls {
			total++
			if o.OK {
				nok++
			}
		}
		if *list {
			for _, o := range rep.Obls {
				s := "ok  "
				if !o.OK {
					s = "FAIL"
				}
				fmt.Printf("%s %s  [%s]  %s\n", s, o.Key, o.Pos, firstLine(o.Detail))
			}
		}
		for _, k := range known {
			fmt.Printf("KNOWN-FINDING: property=%s %s [%s]\n", id, k.What, k.Key)
		}
		fmt.Printf("%s %s: %d obligations, %d discharged, %d known finding(s), %d violation(s), %.1fs\n", id, *tier, total, nok, len(known), nviol, wall)
		if nviol > 0 {
			for _, o := range rep.Obls {
				if !o.OK && !isKnown(kf, id, o.Key) {
					fmt.Printf("  violated %s at %s: %s\n", o.Key, o.Pos, firstLine(o.Detail))
				}
			}
			fmt.Printf("VIOLATION property=%s replay=%s\n", id, filepath.Join(*verif, "evidence", id+".violations.json"))
			exit = 1
		}
	}
	if os.Getenv("L4DEBUG") == "steps" {
		fmt.Println("DBG max block entries in one evaluation:", symStepsSeen)
	}
	os.Exit(exit)
}

func isKnown(kf *knownFile, prop, key string) bool {
	for _, k := range kf.Known {
		if k.Property == prop && k.Key == key {
			return true
		}
	}
	return false
}

func firstLine(s string) string {
	if i := strings.IndexByte(s, '\n'); i >= 0 {
		return s[:i]
	}
	return s
}

// finish2 is a hook for post-selftest obligations (kept separate so floors are checked once).
func (r *Report) finish2() {}
