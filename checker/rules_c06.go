package main

import (
	"fmt"
	"go/token"
	"go/types"
	"sort"
	"strings"

	"golang.org/x/tools/go/ssa"
)

func init() {
	register(&property{
		ID:          "C06",
		Explanation: "Static decision of what makes matchers pure and fragmentation-insensitive: (R1) only Connection.Read and prefetch read the raw connection; matcher-reachable code touches cx.Conn only for address accessors; (R2) in matching mode Read never reaches the socket (path-evaluated scenario table); (R3) need-more propagation: in every function reachable from a ConnMatcher.Match, every call that reads from the connection (or a reader/framer built on it) and returns an error has that error tested, and every return reachable from the error edge returns an error that derives from it - a short read is never turned into a definite 'no' (reviewed exceptions: the DNS/RDP trailing-byte probes and the DNS UDP accumulation loop); (R4) the view returned by MatchingBytes() is never written, and a verdict that depends on how much is buffered answers need-more/buffer-full; (R5) matcher-reachable code stores to no Connection field and never calls Wrap; (R6) the freeze/unfreeze typestate of C01; (R7) memoised state is published only after the last read; (R8) the matcher combinators hand every error - in particular need-more - up unchanged (truth tables, the need-more sentinel included); (R9) the router never acts on a verdict that is stale for the stream as it is now (bounded exploration of the route loop).",
		NotDecided:  "Monotonicity of verdicts over growing prefixes and repeatability for each protocol (value-level); third-party parsers' own handling of short reads (http.ReadRequest, http2.Framer are trusted to return the reader's error).",
		Run:         runC06,
	})
}

func runC06(c *Ctx, r *Report) {
	c06R1(c, r, "C06.R1")
	c06R2(c, r, "C06.R2")
	c06R3(c, r, "C06.R3")
	c06R4(c, r, "C06.R4")
	c06R5(c, r, "C06.R5")
	c01R1(c, r, "C06.R6")
	c06R7(c, r, "C06.R7")
	c06R10(c, r, "C06.R10")
	c06R11(c, r, "C06.R11")
	c06Masked(c, r, "C06.R12")
	c06IsHTTP(c, r, "C06.R14")
	c06Memo(c, r, "C06.R15")
	// "on a proper prefix the matcher asks for more data": the verdict tables contain the proper prefixes of the
	// small protocols' first messages (a 12-byte signature delivered as 5..11 bytes, a banner without its end, ...)
	c14Tables(c, r, "C06.R13")
	c06Prefixes(c, r, "C06.R20")
	c06TLSPrefixes(c, r, "C06.R22")
	c04BoundedParsers(c, r, "C06.R23") // a prefix answers need-more, not an error: the HTTP/2 framer's limit does not depend on how much has arrived
	c01R2(c, r, "C06.R21")             // evaluating a matcher never changes what later matchers read: freeze and unfreeze are the only writers of the matching state, and unfreeze always puts the cursor back
	c08R6(c, r, "C06.R19")             // the same bytes give the same verdict: a new connection's matching buffer starts empty (a recycled slice keeps the length it was returned with)
	c01R4(c, r, "C06.R16")             // evaluating a matcher never changes what later matchers read: what prefetch appends is a copy of what it read (never a view of the pooled chunk it returns)
	c08R3(c, r, "C06.R17")             // ... and no view of a pooled buffer is retained by the connection
	c05R5(c, r, "C06.R18")             // a message below the limit is prefetched whole however it is fragmented: below the limit prefetch performs exactly one read, whatever the fill
	c02R1(c, r, "C06.R8")              // the combinators hand a "need more data" answer up unchanged (it is never overwritten by a later set's "no")
	c02Router(c, r, "C06.R9")          // the router never acts on a verdict that is stale for the stream as it is now (fragmented == whole delivery)
}

// R7: matcher side effects on per-connection state happen only after all reading is done.
func c06R7(c *Ctx, r *Report, rule string) {
	r.rule(rule, "in matcher-reachable code a value is published to the connection's variable table or replacer (SetVar / Replacer.Set) only after the last call that reads from the connection in that function: state memoised for later evaluations is never a half-parsed message", 8)
	mreach := c.matcherReach()
	for _, fn := range sortedFuncs(mreach) {
		name := fname(fn)
		if strings.HasPrefix(name, "layer4.") {
			continue
		}
		rcs := findReadingCalls(fn)
		n := 0
		for _, ci := range callsIn(fn) {
			id := calleeID(ci)
			if id != "layer4.(*Connection).SetVar" && id != "(*github.com/caddyserver/caddy/v2.Replacer).Set" {
				continue
			}
			n++
			keyDesc := ""
			args := ci.Common().Args
			if len(args) >= 2 {
				if sv, ok := constString(args[1]); ok {
					keyDesc = sv
				}
			}
			bad := ""
			for _, rc := range rcs {
				if canReach(ci, rc.call) && !dominates(rc.call, ci) {
					bad = calleeID(rc.call) + " at " + c.ipos(rc.call)
				} else if canReach(ci, rc.call) && inLoop(ci.Block()) && inLoop(rc.call.Block()) {
					bad = calleeID(rc.call) + " at " + c.ipos(rc.call)
				}
			}
			r.check(bad == "", rule, name, fmt.Sprintf("publish %q#%d", keyDesc, n), c.ipos(ci), "published after all reads of this function", "state is published to the connection before the function has finished reading ("+bad+" can still fail with need-more): the next evaluation on the same connection reuses a half-parsed value and gives a different verdict for the same bytes")
		}
	}
}

func hasReadMethod(t types.Type) bool {
	for _, tt := range []types.Type{t, types.NewPointer(t)} {
		ms := types.NewMethodSet(tt)
		for i := 0; i < ms.Len(); i++ {
			f := ms.At(i).Obj().(*types.Func)
			if f.Name() == "Read" {
				sig := f.Type().(*types.Signature)
				if sig.Params().Len() == 1 && sig.Results().Len() == 2 {
					return true
				}
			}
		}
	}
	return false
}

func isErrorType(t types.Type) bool {
	n, ok := t.(*types.Named)
	return ok && n.Obj().Pkg() == nil && n.Obj().Name() == "error"
}

func (c *Ctx) matcherReach() map[*ssa.Function]bool { return c.reach(c.matcherRoots()) }

func c06R1(c *Ctx, r *Report, rule string) {
	r.rule(rule, "the raw connection (field Conn of layer4.Connection) is read only in (*Connection).Read and prefetch; matcher-reachable code uses it for LocalAddr/RemoteAddr only", 3)
	allowedRead := map[string]bool{"layer4.(*Connection).Read": true, "layer4.(*Connection).prefetch": true}
	mreach := c.matcherReach()
	nReads := 0
	for _, fn := range c.Funcs {
		name := fname(fn)
		for _, b := range fn.Blocks {
			for _, in := range b.Instrs {
				// loads of the Conn field
				var v ssa.Value
				switch x := in.(type) {
				case *ssa.UnOp:
					if x.Op == token.MUL {
						if _, sn, f, ok := fieldAddr(x.X); ok && sn == connStruct && f == "Conn" {
							v = x
						}
					}
				case *ssa.Field:
					if _, sn, f, ok := fieldAddr(x); ok && sn == connStruct && f == "Conn" {
						v = x
					}
				}
				if v == nil {
					continue
				}
				for _, ref := range *v.Referrers() {
					ci, isCall := ref.(ssa.CallInstruction)
					if isCall && ci.Common().IsInvoke() && ci.Common().Value == v {
						m := ci.Common().Method.Name()
						if m == "Read" {
							nReads++
							allowed := false
							for _, h := range c.homeChain(fn) { // an unexported helper called only from Read/prefetch is part of that read path
								if allowedRead[fname(h)] {
									allowed = true
								}
							}
							r.check(allowed, rule, name, fmt.Sprintf("raw Read#%d", nReads), c.ipos(ref), "raw read inside the Connection's own read path", "the raw connection is read outside Connection.Read/prefetch: bytes bypass the matching buffer (lost for rewind, read from the network while matching)")
							continue
						}
						if mreach[fn] && m != "LocalAddr" && m != "RemoteAddr" && !strings.HasPrefix(name, "layer4.(*Connection)") {
							r.bad(rule, name, "cx.Conn."+m, c.ipos(ref), "matcher-reachable code calls "+m+" on the raw connection")
						}
						continue
					}
					if mreach[fn] && !strings.HasPrefix(name, "layer4.(*Connection)") && !strings.HasPrefix(name, "layer4.") {
						// any other use of the raw conn by a matcher (passing it on, asserting, storing)
						if _, isDbg := ref.(*ssa.DebugRef); !isDbg {
							r.bad(rule, name, "raw connection escapes", c.ipos(ref), fmt.Sprintf("matcher-reachable code uses the raw connection value (%T): reads through it bypass the matching buffer", ref))
						}
					}
				}
			}
		}
	}
	r.check(len(mreach) >= 40, rule, "module", "matcher-reachable functions", "-", fmt.Sprintf("%d functions reachable from %d ConnMatcher.Match implementations scanned", len(mreach), len(c.matcherRoots())), fmt.Sprintf("only %d matcher-reachable functions found", len(mreach)))
}

func c06R2(c *Ctx, r *Report, rule string) {
	r.rule(rule, "in matching mode Connection.Read never calls the underlying Conn.Read, for every ordering of len(buf) and offset (path-evaluated)", 4)
	fnName := "layer4.(*Connection).Read"
	fn := c.Fn(fnName)
	if fn == nil {
		r.bad(rule, fnName, "exists", "-", "function not found")
		return
	}
	for _, w := range readWitnesses {
		sc := &Scenario{
			Name:   fmt.Sprintf("matching,%s(len=%d,off=%d)", w.name, w.l, w.o),
			Heap:   map[string]SV{"recv.matching": symBool(true), "recv.buf": symSliceCap("recv.buf", w.l, 2048), "recv.offset": symInt(w.o)},
			Params: map[string]SV{"recv": symRef("recv", false), "p0": {K: "slice", Desc: "p"}},
		}
		paths, err := evalPaths(fn, sc)
		if err != nil || len(paths) == 0 {
			r.bad(rule, fnName, sc.Name, c.pos(fn.Pos()), fmt.Sprintf("undecided: %v", err))
			continue
		}
		bad := ""
		for _, p := range paths {
			if len(traceCalls(p, connReadIsRaw)) > 0 {
				bad = fmtTrace(p)
			}
			for _, e := range p.Trace {
				if e.Kind == "store" && e.What == "recv.buf" {
					bad = "buffer modified while matching: " + fmtTrace(p)
				}
			}
		}
		r.check(bad == "", rule, fnName, sc.Name, c.pos(fn.Pos()), "no socket access, buffer untouched", "while matching, Read reaches the socket or modifies the buffer: "+bad)
	}
}

// readingCall describes a call that reads from the connection and returns an error.
type readingCall struct {
	fn   *ssa.Function
	call *ssa.Call
	errV ssa.Value
	ord  int
}

func taintedRoots(fn *ssa.Function) []ssa.Value {
	var out []ssa.Value
	for _, p := range fn.Params {
		t := p.Type()
		if isConnPtr(t) {
			out = append(out, p)
			continue
		}
		if _, isIface := t.Underlying().(*types.Interface); isIface && hasReadMethod(t) {
			out = append(out, p)
			continue
		}
		if pt, ok := t.(*types.Pointer); ok {
			if n, ok := pt.Elem().(*types.Named); ok && n.Obj().Pkg() != nil {
				pp := n.Obj().Pkg().Path()
				if (pp == "bufio" && n.Obj().Name() == "Reader") || (pp == "golang.org/x/net/http2" && n.Obj().Name() == "Framer") {
					out = append(out, p)
				}
			}
		}
		// a small reader type of the module that keeps the connection (or a reader built on it) in a field
		st := t
		if pt, ok := st.(*types.Pointer); ok {
			st = pt.Elem()
		}
		if n, ok := st.(*types.Named); ok && n.Obj().Pkg() != nil && strings.HasPrefix(n.Obj().Pkg().Path(), modPath) {
			if sv, ok := n.Underlying().(*types.Struct); ok && !isConnPtr(t) {
				for i := 0; i < sv.NumFields(); i++ {
					ft := sv.Field(i).Type()
					_, isIface := ft.Underlying().(*types.Interface)
					if (isIface && hasReadMethod(ft) && sv.Field(i).Name() != "Conn") || isConnPtr(ft) {
						out = append(out, p)
						break
					}
				}
			}
		}
	}
	for _, fv := range fn.FreeVars {
		if pt, ok := fv.Type().(*types.Pointer); ok && isConnPtr(pt.Elem()) {
			out = append(out, fv)
		}
	}
	return out
}

func derivesFromAny(v ssa.Value, roots []ssa.Value) bool {
	for _, r := range roots {
		if derivesFrom(v, r) {
			return true
		}
	}
	return false
}

func findReadingCalls(fn *ssa.Function) []readingCall {
	roots := taintedRoots(fn)
	if len(roots) == 0 {
		return nil
	}
	var out []readingCall
	ord := map[string]int{}
	for _, ci := range callsIn(fn) {
		call, ok := ci.(*ssa.Call)
		if !ok {
			continue
		}
		sig := call.Call.Signature()
		res := sig.Results()
		if res.Len() == 0 || !isErrorType(res.At(res.Len()-1).Type()) {
			continue
		}
		id := calleeID(call)
		// accessors / non-reading calls on the connection
		if strings.HasSuffix(id, ".SetReadDeadline") || strings.HasSuffix(id, ".Close") || strings.HasSuffix(id, ".Write") {
			continue
		}
		tainted := false
		var ops []ssa.Value
		if call.Call.IsInvoke() {
			ops = append(ops, call.Call.Value)
		}
		ops = append(ops, call.Call.Args...)
		for _, a := range ops {
			t := a.Type()
			readerish := hasReadMethod(t) || isConnPtr(t)
			if pt, ok := t.(*types.Pointer); ok {
				if n, ok := pt.Elem().(*types.Named); ok && n.Obj().Pkg() != nil && n.Obj().Pkg().Path() == "golang.org/x/net/http2" {
					readerish = true
				}
			}
			if readerish && derivesFromAny(a, roots) {
				tainted = true
			}
		}
		if !tainted {
			continue
		}
		// a module function that only looks at the connection's addresses / variables does not read the stream
		if cal := call.Call.StaticCallee(); cal != nil && cal.Pkg != nil && strings.HasPrefix(cal.Pkg.Pkg.Path(), modPath) && len(cal.Blocks) > 0 && !mayReadStream(cal, map[*ssa.Function]bool{}) {
			continue
		}
		var errV ssa.Value
		if res.Len() == 1 {
			errV = call
		} else if e := extractOf(call, res.Len()-1); e != nil {
			errV = e
		}
		ord[id]++
		out = append(out, readingCall{fn: fn, call: call, errV: errV, ord: ord[id]})
	}
	return out
}

// aliasesOf returns the SSA values that carry exactly value e: e itself, phis with e as an edge,
// and loads of local cells into which e is stored.
func aliasesOf(e ssa.Value) map[ssa.Value]bool {
	out := map[ssa.Value]bool{e: true}
	changed := true
	for changed {
		changed = false
		for v := range out {
			refs := v.Referrers()
			if refs == nil {
				continue
			}
			for _, ref := range *refs {
				switch x := ref.(type) {
				case *ssa.Phi:
					if !out[x] {
						// the phi carries v only along edges on which v is not already known to be nil
						carries := false
						for i, e := range x.Edges {
							if e == v && !knownNil(x.Block().Preds[i], v, true) {
								carries = true
							}
						}
						if carries {
							out[x] = true
							changed = true
						}
					}
				case *ssa.Store:
					if x.Val == v {
						if a, ok := x.Addr.(*ssa.Alloc); ok {
							for _, r2 := range *a.Referrers() {
								if u, ok := r2.(*ssa.UnOp); ok && u.Op == token.MUL && !out[u] {
									out[u] = true
									changed = true
								}
							}
						}
					}
				}
			}
		}
	}
	return out
}

// reviewed exceptions to need-more propagation: function|callee#ordinal -> reason
var needMoreExceptions = map[string]string{
	"modules/l4dns.(*MatchDNS).Match|io.ReadFull#2":    "trailing-byte probe after the complete TCP message was read: 'no more bytes yet' is the expected case, an extra byte means not DNS",
	"modules/l4dns.(*MatchDNS).Match|io.ReadAtLeast#2": "UDP accumulation loop: reads until the datagram's buffered bytes are exhausted, the error only ends the loop",
	"modules/l4rdp.(*MatchRDP).Match|io.ReadFull#3":    "trailing-byte probe after the complete connection request was read: 'no more bytes yet' is the expected case",
}

func c06R3(c *Ctx, r *Report, rule string) {
	r.rule(rule, "need-more propagation: for every call in matcher-reachable code that reads from the connection (or a reader built on it) and returns error e: e is tested or returned, and every return reachable from an edge on which e != nil returns an error deriving from e", 30)
	mreach := c.matcherReach()
	usedExc := map[string]bool{}
	for _, fn := range sortedFuncs(mreach) {
		if len(fn.Blocks) == 0 {
			continue
		}
		name := fname(fn)
		if strings.HasPrefix(name, "layer4.(*Connection)") {
			continue
		}
		for _, rc := range findReadingCalls(fn) {
			id := calleeID(rc.call)
			k := fmt.Sprintf("%s#%d", id, rc.ord)
			pos := c.ipos(rc.call)
			exKey := name + "|" + k
			// a reviewed probe that was moved into a helper of the reviewed function keeps its review
			for _, h := range c.homeChain(fn) {
				if _, ok := needMoreExceptions[fname(h)+"|"+k]; ok {
					exKey = fname(h) + "|" + k
					break
				}
			}
			if rc.errV == nil {
				if why, ok := needMoreExceptions[exKey]; ok {
					usedExc[exKey] = true
					r.ok(rule, name, k, pos, "reviewed exception: "+why)
				} else {
					r.bad(rule, name, k, pos, "the error of a call reading from the connection is discarded: a short read cannot be reported as need-more")
				}
				continue
			}
			al := aliasesOf(rc.errV)
			// error edges
			type edge struct {
				ifi  *ssa.If
				succ *ssa.BasicBlock
			}
			var edges []edge
			for _, b := range fn.Blocks {
				ifi, ok := b.Instrs[len(b.Instrs)-1].(*ssa.If)
				if !ok {
					continue
				}
				x, neq, ok := nilCheck(ifi.Cond)
				if !ok || !al[x] {
					continue
				}
				// only tests executed after the call
				if !canReach(rc.call, ifi) {
					continue
				}
				if neq {
					edges = append(edges, edge{ifi, b.Succs[0]})
				} else {
					edges = append(edges, edge{ifi, b.Succs[1]})
				}
			}
			returnedDirectly := false
			for _, ret := range returnsOf(fn) {
				if len(ret.Results) > 0 && al[ret.Results[len(ret.Results)-1]] && canReach(rc.call, ret) {
					returnedDirectly = true
				}
			}
			var problems []string
			if len(edges) == 0 && !returnedDirectly {
				problems = append(problems, "the error is never tested nor returned")
			}
			for _, e := range edges {
				blocks := reachableKnowingNonNil(e.ifi, e.succ)
				for b := range blocks {
					ret, ok := b.Instrs[len(b.Instrs)-1].(*ssa.Return)
					if !ok {
						continue
					}
					if len(ret.Results) == 0 {
						problems = append(problems, "a return without error result is reachable from the error edge at "+c.ipos(e.ifi))
						continue
					}
					last := ret.Results[len(ret.Results)-1]
					if !isErrorType(last.Type()) {
						problems = append(problems, "return at "+c.ipos(ret)+" has no error result")
						continue
					}
					okd := false
					for a := range al {
						if derivesFromAvoiding(last, a, losesErrorIdentity) {
							okd = true
							break
						}
					}
					if !okd {
						problems = append(problems, fmt.Sprintf("from the edge where this error is non-nil (%s) the return at %s is reachable, whose error result {%s} does not derive from it: a short read becomes a definite verdict and the route is cached as not matched under that segmentation", c.ipos(e.ifi), c.ipos(ret), originKinds(origins(last, sliceOpts{}))))
					}
				}
			}
			if len(problems) == 0 {
				r.ok(rule, name, k, pos, "error tested; every return on its error edge returns it")
			} else if why, ok := needMoreExceptions[exKey]; ok {
				usedExc[exKey] = true
				r.ok(rule, name, k, pos, "reviewed exception: "+why)
			} else {
				sort.Strings(problems)
				r.bad(rule, name, k, pos, strings.Join(dedup(problems), "\n"))
			}
		}
	}
	for k := range needMoreExceptions {
		if !usedExc[k] {
			r.Notes = append(r.Notes, "need-more exception no longer needed/used: "+k)
		}
	}
}

func c06R4(c *Ctx, r *Report, rule string) {
	r.rule(rule, "the slice returned by MatchingBytes() is never written (no store through it, not a copy/append destination) and is obtained only in reviewed places; where the verdict depends on how much is buffered (http), 'need more' is answered with ErrConsumedAllPrefetchedBytes or ErrMatchingBufferFull", 2)
	reviewed := map[string]bool{"modules/l4http.(*MatchHTTP).Match": true}
	id := "layer4.(*Connection).MatchingBytes"
	n := 0
	for _, fn := range c.Funcs {
		name := fname(fn)
		for _, ci := range callsIn(fn) {
			if calleeID(ci) != id {
				continue
			}
			n++
			call := ci.(*ssa.Call)
			isReviewed := false
			for _, h := range c.homeChain(fn) { // a helper with one caller belongs to that caller
				if reviewed[fname(h)] {
					isReviewed = true
				}
			}
			r.check(isReviewed, rule, name, "uses MatchingBytes", c.ipos(ci), "reviewed use of the buffered-bytes view", "MatchingBytes() is used in a function that is not reviewed for it: a verdict derived from the amount of buffered data must answer need-more, never a definite 'no' (see C06.R3)")
			// writes through the view
			bad := ""
			var visit func(v ssa.Value, d int)
			seen := map[ssa.Value]bool{}
			visit = func(v ssa.Value, d int) {
				if seen[v] || d > 6 || v.Referrers() == nil {
					return
				}
				seen[v] = true
				for _, ref := range *v.Referrers() {
					switch x := ref.(type) {
					case *ssa.IndexAddr:
						for _, r2 := range *x.Referrers() {
							if st, ok := r2.(*ssa.Store); ok && st.Addr == ssa.Value(x) {
								bad = "store into the view at " + c.ipos(st)
							}
						}
					case *ssa.Slice:
						visit(x, d+1)
					case *ssa.Phi:
						visit(x, d+1)
					case *ssa.Call:
						cid := calleeID(x)
						if (cid == "builtin copy" || cid == "builtin append") && len(x.Call.Args) > 0 && x.Call.Args[0] == v {
							bad = cid + " with the view as destination at " + c.ipos(x)
						}
					}
				}
			}
			visit(call, 0)
			r.check(bad == "", rule, name, "view read-only", c.ipos(ci), "no write through the view", "the matching buffer is modified through MatchingBytes(): "+bad)
			// the view is a snapshot: a reader over it ends with io.EOF where the connection would say "need more".
			// No error coming out of a read from such a reader may become the matcher's answer.
			eofAsAnswer := ""
			for _, ci2 := range callsIn(fn) {
				call2, ok := ci2.(*ssa.Call)
				if !ok || call2 == call {
					continue
				}
				sig := call2.Call.Signature()
				if sig.Results().Len() == 0 || !isErrorType(sig.Results().At(sig.Results().Len()-1).Type()) {
					continue
				}
				fromView := false
				for _, a := range call2.Call.Args {
					if hasReadMethod(a.Type()) && derivesFromAvoiding(a, call, func(v ssa.Value) bool {
						// the size of the snapshot is not its content
						cl, ok := v.(*ssa.Call)
						return ok && (calleeID(cl) == "builtin len" || calleeID(cl) == "builtin cap")
					}) {
						fromView = true
					}
				}
				if !fromView {
					continue
				}
				var errV ssa.Value = call2
				if sig.Results().Len() > 1 {
					if e := extractOf(call2, sig.Results().Len()-1); e != nil {
						errV = e
					} else {
						continue
					}
				}
				for _, ret := range returnsOf(fn) {
					if n := len(ret.Results); n > 0 && derivesFrom(ret.Results[n-1], errV) {
						eofAsAnswer = calleeID(call2) + " at " + c.ipos(call2)
					}
				}
			}
			r.check(eofAsAnswer == "", rule, name, "view not parsed as the stream", c.ipos(ci), "errors of reads over the snapshot are not returned", "the matcher parses a reader built over the MatchingBytes() snapshot ("+eofAsAnswer+") and returns its error: at the end of the buffered bytes that is io.EOF/ErrUnexpectedEOF, not ErrConsumedAllPrefetchedBytes - the router treats it as a matcher failure and drops the connection instead of waiting for the rest of the message")
		}
	}
	// http need-more answer (in Match or the helper of it that calls isHttp)
	if matchFn := c.Fn("modules/l4http.(*MatchHTTP).Match"); matchFn != nil {
		fn := matchFn
		var needMore ssa.Value
		for _, g := range c.Funcs {
			inMatch := false
			for _, h := range c.homeChain(g) {
				if h == matchFn {
					inMatch = true
				}
			}
			if !inMatch {
				continue
			}
			for _, ci := range callsIn(g) {
				if strings.HasSuffix(calleeID(ci), ".isHttp") {
					if call, ok := ci.(*ssa.Call); ok {
						if e := extractOf(call, 0); e != nil {
							needMore, fn = e, g
						}
					}
				}
			}
		}
		good := needMore != nil
		detail := "isHttp's need-more result not found"
		if good {
			for _, b := range fn.Blocks {
				ifi, ok := b.Instrs[len(b.Instrs)-1].(*ssa.If)
				if !ok || ifi.Cond != needMore {
					continue
				}
				for blk := range reachableFrom(b.Succs[0], true) {
					if !b.Succs[0].Dominates(blk) && blk != b.Succs[0] {
						continue
					}
					if ret, ok := blk.Instrs[len(blk.Instrs)-1].(*ssa.Return); ok {
						os := c.originsIP(fn, ret.Results[len(ret.Results)-1], 2)
						if !(hasOrigin(os, "global", "layer4.ErrConsumedAllPrefetchedBytes") || hasOrigin(os, "global", "layer4.ErrMatchingBufferFull")) {
							good = false
							detail = "on the need-more edge the http matcher returns {" + originKinds(os) + "} instead of ErrConsumedAllPrefetchedBytes/ErrMatchingBufferFull at " + c.ipos(ret)
						}
					}
				}
			}
		}
		r.check(good, rule, fname(fn), "need-more answer", c.pos(fn.Pos()), "an undecidable request line answers ErrConsumedAllPrefetchedBytes or ErrMatchingBufferFull", detail)
	}
}

func c06R5(c *Ctx, r *Report, rule string) {
	r.rule(rule, "matcher-reachable code (outside package layer4's Connection methods) stores to no field of layer4.Connection and never calls Wrap, freeze, unfreeze or prefetch", 1)
	mreach := c.matcherReach()
	bad := 0
	for _, fn := range sortedFuncs(mreach) {
		name := fname(fn)
		exempt := false
		for _, h := range c.homeChain(fn) { // the bracket itself: MatcherSet.Match and helpers only it calls (C01.R1 decides the bracket)
			hn := fname(h)
			if strings.HasPrefix(hn, "layer4.(*Connection)") || strings.HasPrefix(hn, "layer4.(MatcherSet)") {
				exempt = true
			}
		}
		if exempt {
			continue
		}
		for _, b := range fn.Blocks {
			for _, in := range b.Instrs {
				if st, ok := in.(*ssa.Store); ok {
					if _, sn, f, ok := fieldAddr(st.Addr); ok && sn == connStruct {
						bad++
						r.bad(rule, name, "stores Connection."+f, c.ipos(st), "a matcher modifies the connection: later matchers/handlers read a different stream")
					}
				}
				if ci, ok := in.(ssa.CallInstruction); ok {
					switch calleeID(ci) {
					case "layer4.(*Connection).Wrap", "layer4.(*Connection).freeze", "layer4.(*Connection).unfreeze", "layer4.(*Connection).prefetch":
						bad++
						r.bad(rule, name, "calls "+calleeID(ci), c.ipos(ci), "a matcher manipulates the connection's buffer/cursor")
					}
				}
			}
		}
	}
	if bad == 0 {
		r.ok(rule, "module", "matchers leave the connection alone", "-", fmt.Sprintf("%d matcher-reachable functions scanned", len(mreach)))
	}
}

// losesErrorIdentity: a value built from an error in a way that errors.Is can no longer see through -
// fmt.Errorf without %w, errors.New / formatting of its text. The router recognises "need more data" with
// errors.Is, so such a value turns need-more into a hard matcher error (the connection is dropped).
func losesErrorIdentity(v ssa.Value) bool {
	call, ok := v.(*ssa.Call)
	if !ok {
		return false
	}
	switch id := calleeID(call); {
	case id == "fmt.Errorf":
		if f, isC := constString(call.Call.Args[0]); isC {
			return !strings.Contains(f, "%w")
		}
		return true
	case id == "errors.New", id == "fmt.Sprintf", id == "fmt.Sprint":
		return true
	case call.Call.IsInvoke() && call.Call.Method.Name() == "Error":
		return true
	}
	return false
}

// mayReadStream: fn (or a module function it calls) calls something outside the module - or Connection.Read /
// prefetch - with a reader-like argument, or dispatches dynamically with one. Accessors are not reads.
func mayReadStream(fn *ssa.Function, seen map[*ssa.Function]bool) bool {
	if seen[fn] {
		return false
	}
	seen[fn] = true
	nm := fname(fn)
	if nm == "layer4.(*Connection).Read" || nm == "layer4.(*Connection).prefetch" {
		return true
	}
	for _, ci := range callsIn(fn) {
		cc := ci.Common()
		name := ""
		if cc.IsInvoke() {
			name = cc.Method.Name()
		} else if cal := cc.StaticCallee(); cal != nil {
			name = cal.Name()
		}
		switch name {
		case "RemoteAddr", "LocalAddr", "SetReadDeadline", "SetDeadline", "SetWriteDeadline", "Close", "Write", "GetVar", "SetVar", "Value", "String", "Network":
			continue
		}
		readerArg := false
		var ops []ssa.Value
		if cc.IsInvoke() {
			ops = append(ops, cc.Value)
		}
		ops = append(ops, cc.Args...)
		for _, a := range ops {
			if hasReadMethod(a.Type()) || isConnPtr(a.Type()) {
				readerArg = true
			}
		}
		if !readerArg {
			continue
		}
		cal := cc.StaticCallee()
		if cal != nil && cal.Pkg != nil && strings.HasPrefix(cal.Pkg.Pkg.Path(), modPath) && len(cal.Blocks) > 0 {
			if mayReadStream(cal, seen) {
				return true
			}
			continue
		}
		return true
	}
	return false
}

// c06R10: a plain Read may deliver fewer bytes than the buffer holds without an error (the first TCP segment
// carried less). A matcher that calls Read directly must therefore look at the count; otherwise it decides on a
// half-filled buffer - a definite verdict on a proper prefix instead of "need more".
func c06R10(c *Ctx, r *Report, rule string) {
	r.rule(rule, "every call in matcher-reachable code that reads from the connection either reads exactly (io.ReadFull / io.ReadAtLeast / binary.Read / a parser that propagates short reads as errors) or, when it is a plain Read, its byte count is used afterwards", 30)
	mreach := c.matcherReach()
	for _, fn := range sortedFuncs(mreach) {
		if len(fn.Blocks) == 0 || strings.HasPrefix(fname(fn), "layer4.(*Connection)") {
			continue
		}
		for _, rc := range findReadingCalls(fn) {
			id := calleeID(rc.call)
			k := fmt.Sprintf("%s#%d", id, rc.ord)
			name := ""
			if rc.call.Call.IsInvoke() {
				name = rc.call.Call.Method.Name()
			} else if cal := rc.call.Call.StaticCallee(); cal != nil && cal.Signature.Recv() != nil {
				name = cal.Name() // methods only: encoding/binary.Read is an exact reader
			}
			if name != "Read" {
				r.ok(rule, fname(fn), k, c.ipos(rc.call), "not a plain Read (exact reader / parser)")
				continue
			}
			used := false
			if ex := extractOf(rc.call, 0); ex != nil && ex.Referrers() != nil {
				for _, ref := range *ex.Referrers() {
					if _, dbg := ref.(*ssa.DebugRef); !dbg {
						used = true
					}
				}
			}
			r.check(used, rule, fname(fn), k, c.ipos(rc.call), "the count returned by Read is used", "a plain Read on the connection ignores the returned count: when the first segment carries fewer bytes than the buffer, the rest of the buffer is stale/zero and the matcher gives a definite verdict on a proper prefix (io.ReadFull reports that as need-more)")
		}
	}
}

// c06R11: what a read put into a buffer is looked at only once the read is known to have succeeded. A buffer
// examined before the error of the read that fills it was tested contains zeros (or stale bytes) for the part that
// has not arrived: the matcher decides on bytes the client never sent instead of asking for more.
func c06R11(c *Ctx, r *Report, rule string) {
	r.rule(rule, "in matcher-reachable code, every use of the contents of a buffer filled by a call that reads from the connection (indexing, ranging, slicing for a parser, passing it on) that can execute after that call lies on the edge where the call's error is nil", 20)
	mreach := c.matcherReach()
	for _, fn := range sortedFuncs(mreach) {
		if len(fn.Blocks) == 0 || strings.HasPrefix(fname(fn), "layer4.(*Connection)") {
			continue
		}
		for _, rc := range findReadingCalls(fn) {
			if rc.errV == nil {
				continue
			}
			// the buffer argument: a []byte passed to the reading call
			var buf ssa.Value
			for _, a := range rc.call.Call.Args {
				if sl, ok := a.Type().Underlying().(*types.Slice); ok {
					if bt, ok := sl.Elem().Underlying().(*types.Basic); ok && bt.Kind() == types.Uint8 {
						buf = a
					}
				}
			}
			if buf == nil {
				continue
			}
			base := buf
			for {
				if s2, ok := base.(*ssa.Slice); ok {
					base = s2.X
					continue
				}
				break
			}
			id := calleeID(rc.call)
			k := fmt.Sprintf("%s#%d buffer", id, rc.ord)
			al := aliasesOf(rc.errV)
			// blocks entered over an edge on which the error is known to be nil
			nilEdges := map[*ssa.BasicBlock]bool{}
			for _, b := range fn.Blocks {
				ifi, ok := b.Instrs[len(b.Instrs)-1].(*ssa.If)
				if !ok {
					continue
				}
				if x, neq, ok := nilCheck(ifi.Cond); ok && al[x] {
					if neq {
						nilEdges[b.Succs[1]] = true
					} else {
						nilEdges[b.Succs[0]] = true
					}
				}
			}
			// a helper of the module that also reports success in a bool result: where that result is true on the
			// edge and every return of the helper that answers true returns a nil error, the error is nil there
			if g := rc.call.Call.StaticCallee(); g != nil && g.Pkg != nil && strings.HasPrefix(g.Pkg.Pkg.Path(), modPath) && len(g.Blocks) > 0 {
				res := g.Signature.Results()
				errIdx := -1
				for i := 0; i < res.Len(); i++ {
					if types.Identical(res.At(i).Type(), types.Universe.Lookup("error").Type()) {
						errIdx = i
					}
				}
				for bi := 0; bi < res.Len() && errIdx >= 0; bi++ {
					if bt, ok := res.At(bi).Type().Underlying().(*types.Basic); !ok || bt.Kind() != types.Bool {
						continue
					}
					implies := true
					for _, ret := range returnsOf(g) {
						if bi >= len(ret.Results) || errIdx >= len(ret.Results) {
							implies = false
							break
						}
						t, isC := constBool(ret.Results[bi])
						if !isC {
							implies = false
							break
						}
						if t {
							if k, isK := ret.Results[errIdx].(*ssa.Const); !isK || !k.IsNil() {
								implies = false
								break
							}
						}
					}
					okV := extractOf(rc.call, bi)
					if !implies || okV == nil {
						continue
					}
					for _, b := range fn.Blocks {
						if ifi, ok := b.Instrs[len(b.Instrs)-1].(*ssa.If); ok && ifi.Cond == ssa.Value(okV) {
							nilEdges[b.Succs[0]] = true
						}
					}
				}
			}
			var early []string
			seen := map[ssa.Value]bool{}
			var visit func(v ssa.Value, d int)
			visit = func(v ssa.Value, d int) {
				if v == nil || seen[v] || d > 6 || v.Referrers() == nil {
					return
				}
				seen[v] = true
				for _, ref := range *v.Referrers() {
					in := ref
					if in == ssa.Instruction(rc.call) {
						continue
					}
					isUse := false
					switch x := in.(type) {
					case *ssa.IndexAddr:
						// a load through the element address
						if x.Referrers() != nil {
							for _, r2 := range *x.Referrers() {
								if ld, ok := r2.(*ssa.UnOp); ok && ld.Op == token.MUL {
									isUse = true
								}
							}
						}
					case *ssa.Index, *ssa.Range, *ssa.Lookup:
						isUse = true
					case *ssa.Slice:
						// buf[:n] with the count the read returned covers exactly what arrived
						if cnt := extractOf(rc.call, 0); cnt != nil && x.High != nil && derivesFrom(x.High, cnt) {
							continue
						}
						visit(x, d+1)
					case *ssa.Convert, *ssa.ChangeType, *ssa.Phi:
						if vv, ok := in.(ssa.Value); ok {
							visit(vv, d+1)
						}
					case ssa.CallInstruction:
						cid := calleeID(x)
						if cid != "builtin len" && cid != "builtin cap" && !isReadingCallee(cid) {
							isUse = true
						}
					}
					if !isUse || !canReach(rc.call, in) {
						continue
					}
					// every way from the read to this use must pass an edge on which (an alias of) the error is nil
					if reachesAvoiding(rc.call, in, nilEdges) {
						early = append(early, c.ipos(in))
					}
				}
			}
			visit(base, 0)
			sort.Strings(early)
			r.check(len(early) == 0, rule, fname(fn), k, c.ipos(rc.call), "the buffer is examined only where the read is known to have succeeded", "the buffer filled by this read is examined at "+strings.Join(dedup(early), ", ")+" before (or regardless of) the test of the read's error: after a short read the missing part is zeros, so the matcher gives a definite verdict on bytes that have not arrived instead of need-more")
		}
	}
}

func isReadingCallee(id string) bool {
	return id == "io.ReadFull" || id == "io.ReadAtLeast" || strings.HasSuffix(id, ".Read") || id == "encoding/binary.Read"
}

// reachesAvoiding: instruction `to` can execute after `from` on a path that enters none of the blocks in avoid.
func reachesAvoiding(from, to ssa.Instruction, avoid map[*ssa.BasicBlock]bool) bool {
	if from.Block() == to.Block() && instrIndex(from) < instrIndex(to) {
		return true
	}
	seen := map[*ssa.BasicBlock]bool{}
	work := append([]*ssa.BasicBlock(nil), from.Block().Succs...)
	for len(work) > 0 {
		b := work[len(work)-1]
		work = work[:len(work)-1]
		if seen[b] || avoid[b] {
			continue
		}
		seen[b] = true
		if b == to.Block() {
			return true
		}
		work = append(work, b.Succs...)
	}
	return false
}

// reachableKnowingNonNil: the blocks reachable from succ, the successor of ifi on which the value ifi tests is not
// nil, along paths that are consistent with that knowledge: a later test of the same value, or of a phi that on this
// path holds that value, goes the way the knowledge says (if err == nil { err = g() }; if err != nil { return ... }
// - having come past the first test with a non-nil err, the second one cannot find it nil).
func reachableKnowingNonNil(ifi *ssa.If, succ *ssa.BasicBlock) map[*ssa.BasicBlock]bool {
	x0, _, ok := nilCheck(ifi.Cond)
	out := map[*ssa.BasicBlock]bool{}
	if !ok {
		out = reachableFrom(succ, true)
		out[succ] = true
		return out
	}
	type state struct {
		b, pred *ssa.BasicBlock
		known   string
	}
	seen := map[state]bool{}
	var visit func(b, pred *ssa.BasicBlock, known map[ssa.Value]bool)
	keyOf := func(known map[ssa.Value]bool) string {
		var ks []string
		for v := range known {
			ks = append(ks, v.Name())
		}
		sort.Strings(ks)
		return strings.Join(ks, ",")
	}
	visit = func(b, pred *ssa.BasicBlock, known map[ssa.Value]bool) {
		// phis of b take the value of the edge we came by
		k2 := map[ssa.Value]bool{}
		for v := range known {
			k2[v] = true
		}
		for _, in := range b.Instrs {
			phi, isPhi := in.(*ssa.Phi)
			if !isPhi {
				break
			}
			delete(k2, phi)
			for i, p := range b.Preds {
				if p == pred && i < len(phi.Edges) && known[phi.Edges[i]] {
					k2[phi] = true
				}
			}
		}
		st := state{b, pred, keyOf(k2)}
		if seen[st] || len(seen) > 4000 {
			return
		}
		seen[st] = true
		out[b] = true
		if last, isIf := b.Instrs[len(b.Instrs)-1].(*ssa.If); isIf {
			if x, neq, isNil := nilCheck(last.Cond); isNil && k2[x] {
				if neq {
					visit(b.Succs[0], b, k2)
				} else {
					visit(b.Succs[1], b, k2)
				}
				return
			}
		}
		for _, su := range b.Succs {
			visit(su, b, k2)
		}
	}
	visit(succ, ifi.Block(), map[ssa.Value]bool{x0: true})
	return out
}
