package main

import (
	"fmt"
	"go/types"
	"sort"
	"strconv"
	"strings"

	"golang.org/x/tools/go/ssa"
)

func init() {
	register(&property{
		ID:          "C16",
		Explanation: "Static decision of how the SOCKS5 handler configures the library, by path evaluation of Provision over command lists of 0..2 entries (each resolving to CONNECT, ASSOCIATE, BIND, the empty string or something unknown) and credential maps of 0 or 2 entries: (R1) the PermitCommand rule starts all-false, no commands configured enables exactly CONNECT and ASSOCIATE, otherwise exactly the configured commands are enabled and any other resolved value (including empty) fails provisioning; (R2) NoAuth is offered iff no credentials are configured, otherwise only user/password authentication backed by the resolved credential map; (R3) the server is built with both the rule and the authentication methods; (R4) package l4socks itself opens no connection or listener and Handle only delegates to the library's ServeConn on the layer4 connection. Added: (R5) every key of the credential map is the placeholder-resolved user name, stored only under a test that the resolved name is not empty.",
		NotDecided:  "The library's enforcement of the rule and of authentication, its refusal replies and its dialing (things-go/go-socks5 is trusted).",
		Run:         runC16,
	})
}

func runC16(c *Ctx, r *Report) {
	defer c16ConstructorsFresh(c, r, "C16.R10", "l4socks") // "the commands enabled in its configuration": a handler without commands gets the defaults, not what another handler's configuration left in a shared default list
	defer c16R5(c, r, "C16.R5")
	defer c16Store(c, r, "C16.R6")
	defer c16Resolve(c, r, "C16.R8")
	defer c15TablesFor(c, r, "C16.R9", "l4socks.(*Socks5Handler)") // "a configured username and password": the credentials line of the Caddyfile holds pairs - a name without a password is refused, not given one
	defer c15R14(c, r, "C16.R7")                                   // whether credentials are configured is decided from what the Caddyfile option stored: it must store every pair it was given
	r.rule("C16.R1", "permit rule per command-list scenario", 8)
	r.rule("C16.R2", "authentication methods per credential scenario", 8)
	r.rule("C16.R3", "NewServer receives WithRule(rule) and WithAuthMethods(methods)", 8)
	r.rule("C16.R4", "no dialing/listening in package l4socks; Handle delegates to ServeConn(cx)", 2)
	fnName := "modules/l4socks.(*Socks5Handler).Provision"
	fn := c.Fn(fnName)
	if fn == nil {
		r.bad("C16.R1", fnName, "exists", "-", "function not found")
		return
	}
	vals := []string{"CONNECT", "ASSOCIATE", "BIND", "", "FOO"}
	var lists [][]string
	lists = append(lists, nil)
	for _, a := range vals {
		lists = append(lists, []string{a})
	}
	for _, pair := range [][]string{{"CONNECT", "BIND"}, {"ASSOCIATE", ""}, {"BIND", "FOO"}, {"", ""}, {"CONNECT", "CONNECT"}, {"BIND", "BIND"}, {"CONNECT", "BIND", "CONNECT"}, {"ASSOCIATE", "CONNECT", "ASSOCIATE"}} {
		lists = append(lists, pair)
	}
	str := func(s string) SV {
		l := symInt(int64(len(s)))
		return SV{K: "str", Known: true, S: s, Len: &l, Desc: fmt.Sprintf("%q", s)}
	}
	for _, cmds := range lists {
		for _, ncred := range []int64{0, 1, 2} {
			name := fmt.Sprintf("commands=%q,credentials=%d", cmds, ncred)
			cl := symInt(ncred)
			sc := &Scenario{Name: name, MaxVisit: 6, MaxPaths: 20000,
				Params: map[string]SV{"recv": symRef("h", false), "p0": symOpaque("ctx")},
				Heap:   map[string]SV{"h.Commands": symSlice("cmds", int64(len(cmds))), "h.Credentials": {K: "ref", Known: true, Desc: "h.Credentials", Len: &cl}},
			}
			for i, v := range cmds {
				sc.Heap[fmt.Sprintf("cmds[%d]", i)] = SV{K: "str", Desc: fmt.Sprintf("raw%d:%s", i, v)}
			}
			sc.Call = func(callee string, args []SV, ev *symEval, st *symState) (SV, bool) {
				switch {
				case strings.HasSuffix(callee, "Replacer).ReplaceAll"), strings.HasSuffix(callee, "Replacer).ReplaceKnown"):
					if strings.HasPrefix(args[1].Desc, "raw") {
						return str(strings.SplitN(args[1].Desc, ":", 2)[1]), true
					}
					return SV{K: "str", Desc: "resolved(" + args[1].Desc + ")"}, true
				case callee == "strings.ToUpper":
					if args[0].Known {
						return str(strings.ToUpper(args[0].S)), true
					}
				case callee == "fmt.Errorf":
					return SV{K: "ref", Known: true, Desc: "provisionError"}, true
				case strings.HasSuffix(callee, "caddy/v2.NewReplacer"), strings.HasSuffix(callee, ".Logger"), callee == "net.ParseIP":
					return symOpaque(shortCallee(callee)), true
				case strings.HasPrefix(callee, "github.com/things-go/go-socks5.With"):
					d := shortCallee(callee) + "(" + args[0].Desc + ")"
					return SV{K: "ref", Known: true, Desc: d}, true
				}
				return SV{}, false
			}
			paths, err := evalPaths(fn, sc)
			if err != nil || len(paths) == 0 {
				r.bad("C16.R1", fnName, name, c.pos(fn.Pos()), fmt.Sprintf("undecided: %v", err))
				continue
			}
			// expectation
			wantErr := false
			want := map[string]bool{"EnableConnect": false, "EnableAssociate": false, "EnableBind": false}
			if len(cmds) == 0 {
				want["EnableConnect"], want["EnableAssociate"] = true, true
			}
			for _, v := range cmds {
				switch v {
				case "CONNECT":
					want["EnableConnect"] = true
				case "ASSOCIATE":
					want["EnableAssociate"] = true
				case "BIND":
					want["EnableBind"] = true
				default:
					wantErr = true
				}
			}
			var p1, p2, p3 []string
			for _, p := range paths {
				if p.Outcome != "return" || len(p.Ret) != 1 {
					continue
				}
				gotErr := !(p.Ret[0].Known && p.Ret[0].Nil)
				var newServer *Event
				ruleObj, authArr := "", ""
				for i, e := range p.Trace {
					if e.Kind != "call" {
						continue
					}
					if strings.HasSuffix(e.What, "go-socks5.NewServer") {
						newServer = &p.Trace[i]
					}
					if strings.HasSuffix(e.What, "go-socks5.WithRule") {
						ruleObj = e.Args[0]
					}
					if strings.HasSuffix(e.What, "go-socks5.WithAuthMethods") {
						authArr = e.Args[0]
					}
				}
				if wantErr {
					if !gotErr || newServer != nil {
						p1 = append(p1, fmt.Sprintf("a command resolving to something other than CONNECT/ASSOCIATE/BIND must fail provisioning, but the server is built (commands %q): nothing was enabled by the operator yet requests are served", cmds))
					}
					continue
				}
				if gotErr || newServer == nil {
					p1 = append(p1, "a valid configuration fails provisioning or builds no server")
					continue
				}
				// R1: rule fields
				for f, w := range want {
					v, ok := p.Heap[ruleObj+"."+f]
					if !ok && strings.HasPrefix(ruleObj, "new ") {
						v, ok = symBool(false), true // a field of the fresh rule object that was never assigned: still false
					}
					got := ok && v.Known && v.B
					if !ok || !v.Known {
						p1 = append(p1, "PermitCommand."+f+" is not set to a constant")
					} else if got != w {
						p1 = append(p1, fmt.Sprintf("PermitCommand.%s = %v, configuration %q requires %v", f, got, cmds, w))
					}
				}
				if !strings.Contains(ruleObj, "PermitCommand") {
					p1 = append(p1, "WithRule does not receive the PermitCommand rule ("+ruleObj+")")
				}
				// R2: auth
				var methods []string
				for i := 0; i < 3; i++ {
					if v, ok := p.Heap[fmt.Sprintf("%s[%d]", authArr, i)]; ok {
						methods = append(methods, v.Desc)
					}
				}
				sort.Strings(methods)
				if ncred == 0 {
					if len(methods) != 1 || !strings.Contains(methods[0], "NoAuthAuthenticator") {
						p2 = append(p2, fmt.Sprintf("without credentials exactly NoAuth must be offered, got %v", methods))
					}
				} else {
					okUP := len(methods) == 1
					if okUP {
						cred := p.Heap[methods[0]+".Credentials"]
						if !strings.HasPrefix(cred.Desc, "makemap#") {
							okUP = false
						}
					}
					for _, m := range methods {
						if strings.Contains(m, "NoAuthAuthenticator") {
							okUP = false
						}
					}
					if !okUP {
						p2 = append(p2, fmt.Sprintf("credentials are configured but the offered methods are %v (must be exactly user/password over the resolved credential map): unauthenticated clients are served", methods))
					}
				}
				// R3
				hasRule, hasAuth := false, false
				va := newServer.Args[len(newServer.Args)-1]
				for i := 0; i < 8; i++ {
					if v, ok := p.Heap[fmt.Sprintf("%s[%d]", va, i)]; ok {
						if strings.HasPrefix(v.Desc, "go-socks5.WithRule(") {
							hasRule = true
						}
						if strings.HasPrefix(v.Desc, "go-socks5.WithAuthMethods(") {
							hasAuth = true
						}
					}
				}
				if !hasRule || !hasAuth {
					p3 = append(p3, fmt.Sprintf("NewServer is not given both options (rule:%v auth:%v): the library's permissive defaults apply", hasRule, hasAuth))
				}
			}
			pos := c.pos(fn.Pos())
			r.check(len(p1) == 0, "C16.R1", fnName, name, pos, fmt.Sprintf("%d paths", len(paths)), strings.Join(dedup(p1), "\n"))
			r.check(len(p2) == 0, "C16.R2", fnName, name, pos, "as specified", strings.Join(dedup(p2), "\n"))
			r.check(len(p3) == 0, "C16.R3", fnName, name, pos, "both options passed", strings.Join(dedup(p3), "\n"))
		}
	}
	// R4
	bad := ""
	for _, fn := range c.Funcs {
		if fn.Pkg == nil || short(fn.Pkg.Pkg.Path()) != "modules/l4socks" {
			continue
		}
		for _, ci := range callsIn(fn) {
			id := calleeID(ci)
			if strings.HasPrefix(id, "net.Dial") || strings.HasPrefix(id, "net.Listen") || strings.HasPrefix(id, "(*net.Dialer)") || strings.HasPrefix(id, "(*net.ListenConfig)") || strings.HasPrefix(id, "crypto/tls.Dial") {
				bad = id + " in " + fname(fn) + " at " + c.ipos(ci)
			}
		}
	}
	r.check(bad == "", "C16.R4", "modules/l4socks", "no network origin", "-", "the module itself never dials or listens", "package l4socks opens a connection/listener itself: "+bad)
	if h := c.Fn("modules/l4socks.(*Socks5Handler).Handle"); h != nil {
		good := false
		n := 0
		for _, ci := range callsIn(h) {
			n++
			if strings.HasSuffix(calleeID(ci), "go-socks5.Server).ServeConn") {
				if mi, ok := ci.Common().Args[1].(*ssa.MakeInterface); ok && mi.X == ssa.Value(h.Params[1]) {
					good = true
				}
			}
		}
		r.check(good && n == 1, "C16.R4", fname(h), "delegates to ServeConn(cx)", c.pos(h.Pos()), "the library serves the layer4 connection", "Handle does something other than delegating to the configured server's ServeConn on its connection")
	}
}

// c16R5: only resolved, non-empty user names become accounts. Path evaluation of Provision with two credential
// entries: every key stored into the map handed to the user/password authenticator is the placeholder-resolved
// name, and it is stored only on paths on which that resolved name was tested to be non-empty.
func c16R5(c *Ctx, r *Report, rule string) {
	r.rule(rule, "accounts: every key put into the authenticator's credential map is the placeholder-resolved user name and is stored only under a test that this resolved name is not empty (an entry whose name resolves to nothing must not become the account \"\")", 1)
	fnName := "modules/l4socks.(*Socks5Handler).Provision"
	fn := c.Fn(fnName)
	if fn == nil {
		r.bad(rule, fnName, "exists", "-", "function not found")
		return
	}
	cl := symInt(2)
	sc := &Scenario{Name: "credentials=2", MaxVisit: 4, MaxPaths: 20000,
		Params: map[string]SV{"recv": symRef("h", false), "p0": symOpaque("ctx")},
		Heap:   map[string]SV{"h.Commands": symSlice("cmds", 0), "h.Credentials": {K: "ref", Known: true, Desc: "h.Credentials", Len: &cl}},
	}
	sc.Call = func(callee string, args []SV, ev *symEval, st *symState) (SV, bool) {
		switch {
		case strings.HasSuffix(callee, "Replacer).ReplaceAll"), strings.HasSuffix(callee, "Replacer).ReplaceKnown"):
			return SV{K: "str", Desc: "resolved(" + args[1].Desc + ")"}, true
		case callee == "fmt.Errorf":
			return SV{K: "ref", Known: true, Desc: "provisionError"}, true
		case strings.HasSuffix(callee, "caddy/v2.NewReplacer"), strings.HasSuffix(callee, ".Logger"), callee == "net.ParseIP":
			return symOpaque(shortCallee(callee)), true
		case strings.HasPrefix(callee, "github.com/things-go/go-socks5.With"):
			return SV{K: "ref", Known: true, Desc: shortCallee(callee) + "(" + args[0].Desc + ")"}, true
		}
		return SV{}, false
	}
	paths, err := evalPaths(fn, sc)
	if err != nil || len(paths) == 0 {
		r.bad(rule, fnName, sc.Name, c.pos(fn.Pos()), fmt.Sprintf("undecided: %v", err))
		return
	}
	var problems []string
	stores := 0
	for _, p := range paths {
		for _, e := range p.Trace {
			if e.Kind != "mapupdate" || !strings.HasPrefix(e.What, "makemap#") || len(e.Args) < 2 {
				continue
			}
			key := e.Args[0]
			if strings.HasPrefix(key, `"`) {
				continue // a literal key: an entry of a table in the program text (command names ...), not an account taken from the configuration
			}
			stores++
			if !strings.HasPrefix(key, "resolved(") {
				problems = append(problems, "the account name "+key+" is stored without resolving placeholders")
				continue
			}
			guarded := false
			for _, a := range p.Assume {
				// the same test written on the string itself
				if nn := strings.NewReplacer(" ", "").Replace(a); strings.Contains(a, key) && (strings.HasSuffix(nn, `!="")=true`) || strings.HasSuffix(nn, `=="")=false`) || strings.HasPrefix(nn, `(""!=`) && strings.HasSuffix(nn, ")=true") || strings.HasPrefix(nn, `(""==`) && strings.HasSuffix(nn, ")=false")) {
					guarded = true
				}
				if !strings.Contains(a, "len("+key+")") {
					continue
				}
				n := strings.NewReplacer(" ", "").Replace(a)
				if strings.Contains(n, ">0)=true") || strings.Contains(n, "==0)=false") || strings.Contains(n, "!=0)=true") || strings.Contains(n, ">=1)=true") || strings.Contains(n, "<1)=false") || strings.Contains(n, "<=0)=false") {
					guarded = true
				}
			}
			if !guarded {
				problems = append(problems, "the account "+key+" is created on a path that never tested the resolved name for emptiness (assumptions: "+strings.Join(p.Assume, ", ")+"): a name that resolves to nothing becomes the account \"\" and a client sending an empty user name and the resolved password is served")
			}
		}
	}
	if stores == 0 {
		problems = append(problems, "no account is ever stored")
	}
	r.check(len(problems) == 0, rule, fnName, "accounts", c.pos(fn.Pos()), fmt.Sprintf("%d paths, %d account stores, all resolved and guarded", len(paths), stores), strings.Join(dedup(problems), "\n"))
}

// c16Store: who decides whether a user name / password pair is valid. The library's StaticCredentials (exact pair
// lookup in the map it is built from) is trusted like the rest of the library. Any other store is a part of this
// module: its Valid method is evaluated on a table of accounts and presented pairs, and must accept exactly the
// configured pairs.
func c16Store(c *Ctx, r *Report, rule string) {
	r.rule(rule, "credential store: the value put into UserPassAuthenticator.Credentials is the library's StaticCredentials over the resolved map, or a module type whose Valid method - evaluated on the accounts {alice:pw1, bob:pw2, dave:\"\"} x 12 presented pairs - accepts exactly the configured pairs", 1)
	n := 0
	for _, fn := range c.Funcs {
		if !strings.HasPrefix(fname(fn), "modules/l4socks.") {
			continue
		}
		for _, b := range fn.Blocks {
			for _, in := range b.Instrs {
				st, ok := in.(*ssa.Store)
				if !ok {
					continue
				}
				fa, ok := st.Addr.(*ssa.FieldAddr)
				if !ok || !strings.HasSuffix(typeStr(deref(fa.X.Type())), "go-socks5.UserPassAuthenticator") || fieldName(deref(fa.X.Type()), fa.Field) != "Credentials" {
					continue
				}
				n++
				key := fmt.Sprintf("Credentials#%d", n)
				mi, ok := st.Val.(*ssa.MakeInterface)
				if !ok {
					r.bad(rule, fname(fn), key, c.ipos(st), "undecided: the credential store is not a value of a known concrete type")
					continue
				}
				t := mi.X.Type()
				ts := typeStr(t)
				if strings.HasSuffix(ts, "go-socks5.StaticCredentials") {
					r.ok(rule, fname(fn), key, c.ipos(st), "library store (exact pair lookup)")
					continue
				}
				valid := c.Prog.LookupMethod(t, nil, "Valid")
				if valid == nil {
					if nt, ok := t.(*types.Named); ok {
						valid = c.Prog.LookupMethod(t, nt.Obj().Pkg(), "Valid")
					}
				}
				if valid == nil || len(valid.Blocks) == 0 || valid.Pkg == nil || !strings.HasPrefix(valid.Pkg.Pkg.Path(), modPath) {
					r.bad(rule, fname(fn), key, c.ipos(st), "undecided: the credential store "+ts+" is neither the library's StaticCredentials nor a module type whose Valid method can be evaluated")
					continue
				}
				if _, isMap := t.Underlying().(*types.Map); !isMap {
					r.bad(rule, fname(fn), key, c.ipos(st), "undecided: the credential store "+ts+" is not a map type; its contents cannot be fixed for the evaluation")
					continue
				}
				accounts := map[string]string{"alice": "pw1", "bob": "pw2", "dave": ""}
				queries := [][2]string{{"alice", "pw1"}, {"bob", "pw2"}, {"dave", ""}, {"alice", "pw2"}, {"bob", "pw1"}, {"alice", ""}, {"carol", ""}, {"carol", "pw1"}, {"", ""}, {"", "pw1"}, {"alice", "pw1x"}, {"dave", "pw1"}}
				var problems []string
				for _, q := range queries {
					want := false
					if pw, ok := accounts[q[0]]; ok && pw == q[1] {
						want = true
					}
					ms := map[string]SV{}
					for u, p := range accounts {
						ms[u] = symStr(p)
					}
					ln := symInt(int64(len(accounts)))
					sc := &Scenario{Name: "valid", MaxVisit: 8,
						Params: map[string]SV{"recv": {K: "ref", Known: true, Desc: "store", Len: &ln}, "p0": symStr(q[0]), "p1": symStr(q[1]), "p2": symStr("10.0.0.1")},
						Heap:   map[string]SV{"smap:store": {K: "mapval", MS: ms}},
					}
					sc.Call = func(callee string, args []SV, ev *symEval, st *symState) (SV, bool) {
						if callee == "crypto/subtle.ConstantTimeCompare" && len(args) == 2 {
							a, e1 := strconv.Unquote(args[0].Desc)
							b, e2 := strconv.Unquote(args[1].Desc)
							if e1 == nil && e2 == nil {
								if a == b {
									return symInt(1), true
								}
								return symInt(0), true
							}
						}
						if callee == "crypto/subtle.ConstantTimeEq" && len(args) == 2 && args[0].Known && args[1].Known {
							if args[0].N == args[1].N {
								return symInt(1), true
							}
							return symInt(0), true
						}
						return SV{}, false
					}
					paths, err := evalPaths(valid, sc)
					if err != nil || len(paths) == 0 {
						problems = append(problems, fmt.Sprintf("undecided for (%q, %q): %v", q[0], q[1], err))
						continue
					}
					for _, p := range paths {
						if p.Outcome != "return" || len(p.Ret) != 1 || !p.Ret[0].Known {
							problems = append(problems, fmt.Sprintf("undecided for (%q, %q): %s", q[0], q[1], fmtTrace(p)))
							continue
						}
						if p.Ret[0].B != want {
							problems = append(problems, fmt.Sprintf("user %q with password %q is answered %v, the configured accounts say %v", q[0], q[1], p.Ret[0].B, want))
						}
					}
				}
				r.check(len(problems) == 0, rule, fname(fn), key, c.ipos(st), "module store "+ts+" accepts exactly the configured pairs", "the credential store "+ts+": "+strings.Join(dedup(problems), "; "))
			}
		}
	}
	if n == 0 {
		r.bad(rule, "modules/l4socks", "credential store installed", "-", "no store is assigned to UserPassAuthenticator.Credentials")
	}
}

// c16Resolve: which accounts exist. Provision is evaluated with a concrete credential table whose entries use
// placeholders - {"{env.U}": "{env.P}", "bob": "pw2", "{env.NONE}": "x"} with {env.U} -> alice, {env.P} -> pw1,
// {env.NONE} -> "" - and the map it hands to the authenticator must be exactly {alice: pw1, bob: pw2}: every
// account under its resolved name with the resolved password of the same entry, no account for a name that
// resolves to nothing.
func c16Resolve(c *Ctx, r *Report, rule string) {
	r.rule(rule, "accounts after placeholder resolution (evaluation of Provision on a concrete credential table with placeholders in names and passwords): the authenticator's map holds exactly resolved name -> resolved password of the same entry (environment and file placeholders alike: the global replacer, not one made WithoutFile()), and no account for a name resolving to the empty string; braces that are no placeholder stay part of the name or password (the replacer modelled as caddy implements it)", 1)
	fnName := "modules/l4socks.(*Socks5Handler).Provision"
	fn := c.Fn(fnName)
	if fn == nil {
		r.bad(rule, fnName, "exists", "-", "function not found")
		return
	}
	resolve := map[string]string{"{env.U}": "alice", "{env.P}": "pw1", "{env.NONE}": "", "{file./run/secrets/pw}": "pw3"}
	tables := []map[string]string{
		{"{env.U}": "{env.P}", "bob": "pw2", "{env.NONE}": "x"},
		{"{env.U}": "secret"},
		{"carol": "{env.P}"},
		{"dave": "{file./run/secrets/pw}"}, // a password kept in a file: resolved by the global replacer, empty for one made WithoutFile()
		{"erin": "a{b}c", "fr{an}k": "x", "gina": "pre-{env.P}-post{x}"}, // braces that are no placeholder are part of the name or password
	}
	lookupWith := func(withFile bool) func(string) (string, bool) {
		return func(key string) (string, bool) {
			if strings.HasPrefix(key, "file.") && !withFile {
				return "", false
			}
			x, ok := resolve["{"+key+"}"]
			return x, ok
		}
	}
	for ti, cfg := range tables {
		want := map[string]string{}
		for k, v := range cfg {
			// the configured text with the placeholders the replacer knows resolved; whatever else stands in braces is text
			rk, rv := caddyReplace(k, "", false, lookupWith(true)), caddyReplace(v, "", false, lookupWith(true))
			if rk != "" {
				want[rk] = rv
			}
		}
		name := fmt.Sprintf("table#%d %v", ti+1, cfg)
		ms := map[string]SV{}
		for k, v := range cfg {
			ms[k] = symStr(v)
		}
		ln := symInt(int64(len(cfg)))
		sc := &Scenario{Name: name, MaxVisit: 12, MaxPaths: 2000,
			Params: map[string]SV{"recv": symRef("h", false), "p0": symOpaque("ctx")},
			Heap: map[string]SV{"h.Commands": symSlice("cmds", 0), "h.Credentials": {K: "ref", Known: true, Desc: "h.Credentials", Len: &ln},
				"smap:h.Credentials": {K: "mapval", MS: ms}},
		}
		sc.Call = func(callee string, args []SV, ev *symEval, st *symState) (SV, bool) {
			switch {
			case strings.HasSuffix(callee, "Replacer).ReplaceAll"), strings.HasSuffix(callee, "Replacer).ReplaceKnown"):
				if args[1].K == "str" && args[1].Known {
					// the replacer as caddy implements it: ReplaceAll removes what stands in braces and is unknown to it
					return symStr(caddyReplace(args[1].S, "", strings.HasSuffix(callee, ".ReplaceAll"), lookupWith(args[0].Desc != "replacer without file"))), true
				}
			case callee == "fmt.Errorf":
				return SV{K: "ref", Known: true, Desc: "provisionError"}, true
			case strings.HasSuffix(callee, "caddy/v2.NewReplacer"):
				return SV{K: "ref", Known: true, Desc: "global replacer"}, true
			case strings.HasSuffix(callee, "Replacer).WithoutFile"):
				return SV{K: "ref", Known: true, Desc: "replacer without file"}, true
			case strings.HasSuffix(callee, ".Logger"), callee == "net.ParseIP":
				return symOpaque(shortCallee(callee)), true
			case strings.HasPrefix(callee, "github.com/things-go/go-socks5."):
				return SV{K: "ref", Known: true, Desc: shortCallee(callee)}, true
			}
			return SV{}, false
		}
		paths, err := evalPaths(fn, sc)
		if err != nil || len(paths) == 0 {
			r.bad(rule, fnName, name, c.pos(fn.Pos()), fmt.Sprintf("undecided: %v", err))
			continue
		}
		var problems []string
		for _, p := range paths {
			if p.Outcome != "return" || len(p.Ret) != 1 || !(p.Ret[0].Known && p.Ret[0].Nil) {
				problems = append(problems, "provisioning of a valid credential table does not succeed ("+p.Outcome+")")
				continue
			}
			var maps []string
			for k, v := range p.Heap {
				if strings.HasPrefix(k, "smap:") && k != "smap:h.Credentials" && v.MS != nil {
					accounts := true // a map of strings to strings (a local dispatch table of another type is not the account table)
					for _, mv := range v.MS {
						if mv.K != "str" {
							accounts = false
						}
					}
					if accounts {
						maps = append(maps, k)
					}
				}
			}
			sort.Strings(maps)
			if len(maps) != 1 {
				problems = append(problems, fmt.Sprintf("undecided: %d maps are built while provisioning, expected the one handed to the authenticator", len(maps)))
				continue
			}
			got := map[string]string{}
			undecided := false
			for k, v := range p.Heap[maps[0]].MS {
				if v.K != "str" || !v.Known {
					undecided = true
				}
				got[k] = v.S
			}
			if undecided {
				problems = append(problems, "undecided: a stored password is not a known string")
				continue
			}
			if fmt.Sprint(got) != fmt.Sprint(want) {
				problems = append(problems, fmt.Sprintf("the accounts are %v, the configuration resolves to %v", got, want))
			}
		}
		r.check(len(problems) == 0, rule, fnName, name, c.pos(fn.Pos()), fmt.Sprintf("accounts %v (%d path(s))", want, len(paths)), strings.Join(dedup(problems), "; "))
	}
}
