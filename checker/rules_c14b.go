package main

import (
	"fmt"
	"go/token"
	"go/types"
	"regexp"
	"strings"
	"time"

	"golang.org/x/tools/go/ssa"
)

// c14Replay: the OpenVPN replay timestamp window. The documentation of the matcher promises that a timestamp of up
// to 15 seconds behind or ahead of now is accepted; ValidateReplayTimestamp is evaluated (time values modelled as
// nanoseconds since the epoch: Unix, UTC, Add, After, Before, Sub, Unix() ...) for timestamps around both edges
// of the window and far outside, with the clock on a whole second and in the middle of one.
func c14Replay(c *Ctx, r *Report, rule string) {
	r.rule(rule, "OpenVPN replay window (evaluation of ValidateReplayTimestamp over timestamps at now-3600 .. now+3600 s around both edges of the window, clock on and between whole seconds): accepted exactly when the timestamp is less than 15 s from now, behind or ahead", 20)
	fnName := "modules/l4openvpn.(*MessageTraitReplay).ValidateReplayTimestamp"
	fn := c.Fn(fnName)
	if fn == nil {
		r.bad(rule, fnName, "exists", "-", "function not found")
		return
	}
	const t0 = int64(1_700_000_000)
	const sec = int64(1_000_000_000)
	for _, frac := range []int64{0, sec / 2} {
		for _, d := range []int64{-3600, -16, -15, -14, -1, 0, 1, 14, 15, 16, 3600} {
			now := t0*sec + frac
			ts := t0 + d
			dist := ts*sec - now
			if dist < 0 {
				dist = -dist
			}
			want := dist < 15*sec
			name := fmt.Sprintf("timestamp=now%+ds,clock+%dms", d, frac/1_000_000)
			base := msgScenario(c, msgMatcher{fn: fnName}, msgCase{})
			inner := base.Call
			sc := &Scenario{Name: name, MaxVisit: 50, MaxPaths: 200,
				Params: map[string]SV{"recv": symRef("msg", false), "p0": symInt(now)},
				Heap:   map[string]SV{"msg.ReplayTimestamp": symInt(ts)},
				Inline: base.Inline,
			}
			for k, v := range base.Heap {
				if strings.HasPrefix(k, "global:") {
					sc.Heap[k] = v
				}
			}
			sc.Call = func(callee string, args []SV, ev *symEval, st *symState) (SV, bool) {
				if v, ok := timeModel(callee, args); ok {
					return v, true
				}
				return inner(callee, args, ev, st)
			}
			paths, err := evalPaths(fn, sc)
			if err != nil || len(paths) == 0 {
				r.bad(rule, fnName, name, c.pos(fn.Pos()), fmt.Sprintf("undecided: %v", err))
				continue
			}
			var got []string
			good := true
			for _, p := range paths {
				if p.Outcome != "return" || len(p.Ret) != 1 || !p.Ret[0].Known {
					good = false
					got = append(got, "undecided ("+p.Outcome+")")
					continue
				}
				got = append(got, fmt.Sprint(p.Ret[0].B))
				if p.Ret[0].B != want {
					good = false
				}
			}
			r.check(good, rule, fnName, name, c.pos(fn.Pos()), fmt.Sprintf("accepted=%v", want), fmt.Sprintf("a timestamp %d s from now (clock %d ms into the second) is judged %v, the documented window (less than 15 s behind or ahead) says %v", d, frac/1_000_000, dedup(got), want))
		}
	}
}

// timeModel: package time on values modelled as nanoseconds since the epoch (durations are nanoseconds as in Go).
func timeModel(callee string, args []SV) (SV, bool) {
	known := func(i int) bool { return i < len(args) && args[i].K == "int" && args[i].Known }
	const sec = int64(1_000_000_000)
	switch callee {
	case "time.Unix":
		if known(0) && known(1) {
			return symInt(args[0].N*sec + args[1].N), true
		}
	case "time.UnixMilli":
		if known(0) {
			return symInt(args[0].N * 1_000_000), true
		}
	case "(time.Time).UTC", "(time.Time).Local", "(time.Time).In":
		if known(0) {
			return args[0], true
		}
	case "(time.Time).Add":
		if known(0) && known(1) {
			return symInt(args[0].N + args[1].N), true
		}
	case "(time.Time).Sub":
		if known(0) && known(1) {
			return symInt(args[0].N - args[1].N), true
		}
	case "(time.Time).After":
		if known(0) && known(1) {
			return symBool(args[0].N > args[1].N), true
		}
	case "(time.Time).Before":
		if known(0) && known(1) {
			return symBool(args[0].N < args[1].N), true
		}
	case "(time.Time).Equal":
		if known(0) && known(1) {
			return symBool(args[0].N == args[1].N), true
		}
	case "(time.Time).Compare":
		if known(0) && known(1) {
			switch {
			case args[0].N < args[1].N:
				return symInt(-1), true
			case args[0].N > args[1].N:
				return symInt(1), true
			}
			return symInt(0), true
		}
	case "(time.Time).Unix":
		if known(0) {
			s := args[0].N / sec
			if args[0].N%sec < 0 {
				s--
			}
			return symInt(s), true
		}
	case "time.Parse":
		if len(args) == 2 && args[0].K == "str" && args[0].Known && args[1].K == "str" && args[1].Known {
			t, err := time.Parse(args[0].S, args[1].S)
			if err != nil {
				return symTuple(symInt(0), SV{K: "ref", Known: true, Desc: "errTimeParse"}), true
			}
			// layouts without a date give year 0: keep the value as nanoseconds since 0000-01-01 so that Clock() works
			base := time.Date(0, 1, 1, 0, 0, 0, 0, time.UTC)
			_, off := t.Zone()
			st := symInt(int64(t.Sub(base)))
			st.Desc = fmt.Sprintf("time(%s,zone%+d)", args[1].S, off)
			return symTuple(st, symNil()), true
		}
	case "(time.Time).Clock":
		if known(0) {
			secs := args[0].N / sec
			secs = ((secs % 86400) + 86400) % 86400
			return symTuple(symInt(secs/3600), symInt(secs%3600/60), symInt(secs%60)), true
		}
	case "(time.Time).Zone":
		if known(0) {
			off := int64(0)
			if i := strings.Index(args[0].Desc, ",zone"); i >= 0 {
				fmt.Sscanf(args[0].Desc[i+5:], "%d", &off)
			}
			return symTuple(symStr(""), symInt(off)), true
		}
	case "time.FixedZone":
		if len(args) == 2 && args[1].K == "int" && args[1].Known {
			return SV{K: "ref", Known: true, Desc: fmt.Sprintf("fixedzone(%d)", args[1].N)}, true
		}
	case "time.LoadLocation":
		if len(args) == 1 && args[0].K == "str" && args[0].Known {
			if _, err := time.LoadLocation(args[0].S); err != nil {
				return symTuple(symNil(), SV{K: "ref", Known: true, Desc: "errLoadLocation"}), true
			}
			return symTuple(SV{K: "ref", Known: true, Desc: "location(" + args[0].S + ")"}, symNil()), true
		}
	case "(time.Time).UnixNano":
		if known(0) {
			return args[0], true
		}
	case "(time.Time).UnixMilli":
		if known(0) {
			return symInt(args[0].N / 1_000_000), true
		}
	case "(time.Duration).Seconds":
		// float: not modelled
	case "(time.Duration).Abs":
		if known(0) {
			if args[0].N < 0 {
				return symInt(-args[0].N), true
			}
			return args[0], true
		}
	case "(time.Time).Truncate", "(time.Time).Round":
		if known(0) && known(1) && args[1].N > 0 {
			return symInt(args[0].N - args[0].N%args[1].N), true
		}
	}
	return SV{}, false
}

// c14DNSRule: one allow/deny rule of the DNS matcher. Each of class, type and name has a plain filter and a regular
// expression; the documented meaning is a conjunction - a question is hit by the rule when, for every field,
// the plain filter (if set) equals the value and the expression (if set) matches it.
func c14DNSRule(c *Ctx, r *Report, rule string) {
	r.rule(rule, "DNS rule (evaluation of MatchDNSRule.Match over rules with no filter, one plain filter, one expression, both on one field, filters on several fields x questions that satisfy all, one or none of them): hit exactly when every configured filter of every field accepts the question", 30)
	fnName := "modules/l4dns.(*MatchDNSRule).Match"
	fn := c.Fn(fnName)
	if fn == nil {
		r.bad(rule, fnName, "exists", "-", "function not found")
		return
	}
	type cfg struct{ class, classRe, typ, typRe, name, nameRe string }
	cfgs := []cfg{
		{},
		{class: "IN"},
		{classRe: "^(IN|CH)$"},
		{typ: "A"},
		{typRe: "^(MX|NS)$"},
		{name: "example.com."},
		{nameRe: `\.org\.$`},
		{typ: "A", typRe: "^(MX|NS)$"},
		{typ: "MX", typRe: "^(MX|NS)$"},
		{name: "example.com.", nameRe: `\.org\.$`},
		{name: "example.org.", nameRe: `\.org\.$`},
		{class: "IN", classRe: "^CH$"},
		{class: "IN", typ: "A", name: "example.com."},
		{classRe: "^IN$", typRe: "^A+$", nameRe: "^example"},
		{class: "IN", typRe: "^(A|AAAA)$", nameRe: `\.com\.$`},
		{typ: "A"}, {typRe: "X"}, {classRe: "H"}, {nameRe: "z"}, {class: "X"}, {name: "."},
	}
	type q struct{ class, typ, name string }
	qs := []q{{"IN", "A", "example.com."}, {"IN", "MX", "example.org."}, {"CH", "TXT", "version.bind."}, {"IN", "AAAA", "www.example.com."}, {"IN", "A", "example.org."}}
	for _, cf := range cfgs {
		for _, qu := range qs {
			okField := func(plain, re, v string) bool {
				if plain != "" && plain != v {
					return false
				}
				if re != "" {
					if m, err := regexp.MatchString(re, v); err != nil || !m {
						return false
					}
				}
				return true
			}
			want := okField(cf.class, cf.classRe, qu.class) && okField(cf.typ, cf.typRe, qu.typ) && okField(cf.name, cf.nameRe, qu.name)
			name := fmt.Sprintf("rule{class=%q/%q type=%q/%q name=%q/%q} question{%s %s %s}", cf.class, cf.classRe, cf.typ, cf.typRe, cf.name, cf.nameRe, qu.class, qu.typ, qu.name)
			cf := cf
			base := msgScenario(c, msgMatcher{fn: fnName, heap: func(h map[string]SV) {
				h["m.Class"], h["m.ClassRegexp"] = symStr(cf.class), symStr(cf.classRe)
				h["m.Type"], h["m.TypeRegexp"] = symStr(cf.typ), symStr(cf.typRe)
				h["m.Name"], h["m.NameRegexp"] = symStr(cf.name), symStr(cf.nameRe)
				for f, pat := range map[string]string{"classRegexp": cf.classRe, "typeRegexp": cf.typRe, "nameRegexp": cf.nameRe} {
					h["m."+f], h["regexp:m."+f] = symRef("m."+f, false), symStr(pat)
				}
			}}, msgCase{})
			base.Name = name
			base.Params = map[string]SV{"recv": symRef("m", false), "p0": symRef("ctx", false), "p1": symStr(qu.class), "p2": symStr(qu.typ), "p3": symStr(qu.name)}
			paths, err := evalPaths(fn, base)
			if err != nil || len(paths) == 0 {
				r.bad(rule, fnName, name, c.pos(fn.Pos()), fmt.Sprintf("undecided: %v", err))
				continue
			}
			var got []string
			good := true
			for _, p := range paths {
				if p.Outcome != "return" || len(p.Ret) != 1 || !p.Ret[0].Known {
					good = false
					got = append(got, "undecided ("+p.Outcome+")")
					continue
				}
				got = append(got, fmt.Sprint(p.Ret[0].B))
				if p.Ret[0].B != want {
					good = false
				}
			}
			r.check(good, rule, fnName, name, c.pos(fn.Pos()), fmt.Sprintf("hit=%v", want), fmt.Sprintf("the rule answers %v, the conjunction of its filters says %v", dedup(got), want))
		}
	}
}

// c14ClockWindow: the clock matcher end to end. Provision is evaluated on configured time points (empty, 00:00:00,
// ordinary, reversed, malformed) and must leave the window the documentation describes - after defaults to
// 00:00:00, before 00:00:00 or empty means 24:00:00, a reversed pair is swapped -; Match is then evaluated in the
// provisioned state on times around both edges: it matches exactly when after <= now < before.
func c14ClockWindow(c *Ctx, r *Report, rule string) {
	r.rule(rule, "clock window (evaluation of Provision on 12 configurations, then of Match in the provisioned state on times around the edges): the window is [after, before) with before = 00:00:00 or empty meaning 24:00:00 and a reversed pair swapped; malformed time points fail provisioning", 12)
	prov := c.Fn("modules/l4clock.(*MatchClock).Provision")
	match := c.Fn("modules/l4clock.(*MatchClock).Match")
	if prov == nil || match == nil {
		r.bad(rule, "modules/l4clock.(*MatchClock)", "exists", "-", "Provision or Match not found")
		return
	}
	secs := func(s string) (int64, bool) {
		if s == "" {
			return 0, true
		}
		t, err := time.Parse("15:04:05", s)
		if err != nil {
			return 0, false
		}
		return int64(t.Hour()*3600 + t.Minute()*60 + t.Second()), true
	}
	cfgs := [][2]string{{"", ""}, {"10:00:00", ""}, {"10:00:00", "00:00:00"}, {"00:00:00", "00:00:00"}, {"08:00:00", "17:00:00"}, {"17:00:00", "08:00:00"}, {"", "06:00:00"}, {"23:59:59", "00:00:00"}, {"00:00:01", "00:00:02"}, {"25:00:00", ""}, {"8:00", "09:00:00"}, {"08:00:00", "soon"}}
	for _, cf := range cfgs {
		a, okA := secs(cf[0])
		b, okB := secs(cf[1])
		if b == 0 {
			b = 86400
		}
		if b < a {
			a, b = b, a
		}
		wantErr := !okA || !okB
		name := fmt.Sprintf("after=%q before=%q", cf[0], cf[1])
		base := msgScenario(c, msgMatcher{fn: "modules/l4clock.(*MatchClock).Provision"}, msgCase{})
		inner := base.Call
		sc := &Scenario{Name: name, MaxVisit: 12, MaxPaths: 200, Inline: base.Inline,
			Params: map[string]SV{"recv": symRef("m", false), "p0": symOpaque("ctx")},
			Heap:   map[string]SV{"m.After": symStr(cf[0]), "m.Before": symStr(cf[1]), "m.Timezone": symStr(""), "m.location": symNil(), "m.secondsAfter": symInt(0), "m.secondsBefore": symInt(0)},
		}
		for k, v := range base.Heap {
			if strings.HasPrefix(k, "global:") {
				sc.Heap[k] = v
			}
		}
		sc.Call = func(callee string, args []SV, ev *symEval, st *symState) (SV, bool) {
			if v, ok := timeModel(callee, args); ok {
				return v, true
			}
			if strings.HasSuffix(callee, "caddy/v2.NewReplacer") {
				return symRef("repl", false), true
			}
			return inner(callee, args, ev, st)
		}
		paths, err := evalPaths(prov, sc)
		if err != nil || len(paths) == 0 {
			r.bad(rule, fname(prov), name, c.pos(prov.Pos()), fmt.Sprintf("undecided: %v", err))
			continue
		}
		var problems []string
		var state map[string]SV
		for _, p := range paths {
			if p.Outcome != "return" || len(p.Ret) != 1 || !p.Ret[0].Known {
				problems = append(problems, "undecided path: "+p.Outcome)
				continue
			}
			failed := !p.Ret[0].Nil
			if failed != wantErr {
				problems = append(problems, fmt.Sprintf("provisioning fails=%v, expected %v", failed, wantErr))
				continue
			}
			if failed {
				continue
			}
			sa, sb := p.Heap["m.secondsAfter"], p.Heap["m.secondsBefore"]
			if !(sa.Known && sb.Known && sa.N == a && sb.N == b) {
				problems = append(problems, fmt.Sprintf("the window is [%s, %s) seconds, the documentation says [%d, %d)", sa.Desc, sb.Desc, a, b))
				continue
			}
			state = p.Heap
		}
		r.check(len(problems) == 0, rule, fname(prov), name, c.pos(prov.Pos()), fmt.Sprintf("window [%d, %d) s, error=%v", a, b, wantErr), strings.Join(dedup(problems), "; "))
		if state == nil || len(problems) > 0 {
			continue
		}
		// Match in the provisioned state
		var mprob []string
		for _, now := range []int64{a - 1, a, a + 1, (a + b) / 2, b - 1, b, b + 1} {
			if now < 0 || now >= 86400 {
				continue
			}
			want := now >= a && now < b
			ms := &Scenario{Name: name, MaxVisit: 12, MaxPaths: 200, Inline: base.Inline,
				Params: map[string]SV{"recv": symRef("m", false), "p0": symRef("cx", false)},
				Heap:   map[string]SV{},
			}
			for k, v := range state {
				if strings.HasPrefix(k, "m.") || strings.HasPrefix(k, "global:") {
					ms.Heap[k] = v
				}
			}
			nowV := symInt(now * 1_000_000_000)
			ms.Call = func(callee string, args []SV, ev *symEval, st *symState) (SV, bool) {
				switch {
				case strings.HasSuffix(callee, "Replacer).Get"):
					return symTuple(nowV, symBool(true)), true
				case strings.HasSuffix(callee, "Replacer).Set"):
					return symOpaque("set"), true
				}
				if v, ok := timeModel(callee, args); ok {
					return v, true
				}
				return inner(callee, args, ev, st)
			}
			mp, err := evalPaths(match, ms)
			if err != nil || len(mp) == 0 {
				mprob = append(mprob, fmt.Sprintf("undecided at %d s: %v", now, err))
				continue
			}
			for _, p := range mp {
				if p.Outcome != "return" || len(p.Ret) != 2 || !p.Ret[0].Known {
					mprob = append(mprob, fmt.Sprintf("undecided at %d s", now))
				} else if p.Ret[0].B != want {
					mprob = append(mprob, fmt.Sprintf("at %02d:%02d:%02d the matcher answers %v, the window [%d, %d) says %v", now/3600, now%3600/60, now%60, p.Ret[0].B, a, b, want))
				}
			}
		}
		r.check(len(mprob) == 0, rule, fname(match), name+" times around the edges", c.pos(match.Pos()), "matches exactly inside the window", strings.Join(dedup(mprob), "; "))
	}
}

// c14SeparateObjects: what provisioning prepares per purpose stays per purpose. Where a matcher's Provision stores
// pointers into two different fields of the matcher (the OpenVPN group key for the auth mode, which carries the
// configured key direction, and the one for the crypt mode, whose direction is fixed), the two fields never receive
// the same object: a later write through one (direction flags) would silently change the other.
func c14SeparateObjects(c *Ctx, r *Report, rule string) {
	r.rule(rule, "objects prepared per purpose are separate: in a matcher's provisioning code two different pointer fields of the matcher never receive the same freshly made object (a flag set through one would change the other)", 1)
	cm := c.iface("layer4", "ConnMatcher")
	if cm == nil {
		r.bad(rule, "layer4.ConnMatcher", "exists", "-", "interface not found")
		return
	}
	n := 0
	for _, match := range c.implementors(cm, "Match") {
		recvT := match.Signature.Recv().Type()
		prov := methodOf(c, types.NewPointer(deref(recvT)), "Provision")
		if prov == nil || len(prov.Blocks) == 0 {
			continue
		}
		sn := namedName(deref(recvT))
		type fstore struct {
			field string
			st    *ssa.Store
			fn    *ssa.Function
		}
		var stores []fstore
		for _, h := range sortedFuncs(c.reachSync(prov)) {
			if h.Pkg != prov.Pkg {
				continue
			}
			for _, b := range h.Blocks {
				for _, in := range b.Instrs {
					st, ok := in.(*ssa.Store)
					if !ok {
						continue
					}
					_, ssn, f, ok := fieldAddr(st.Addr)
					if !ok || ssn != sn || token.IsExported(f) {
						continue
					}
					if _, isPtr := st.Val.Type().Underlying().(*types.Pointer); !isPtr {
						continue
					}
					stores = append(stores, fstore{f, st, h})
				}
			}
		}
		allocs := func(v ssa.Value) map[ssa.Value]bool {
			out := map[ssa.Value]bool{}
			for _, o := range origins(v, sliceOpts{}) {
				if o.Kind == "alloc" && o.V != nil {
					out[o.V] = true
				}
			}
			return out
		}
		for i := 0; i < len(stores); i++ {
			for j := i + 1; j < len(stores); j++ {
				a, b := stores[i], stores[j]
				if a.field == b.field || a.fn != b.fn || !types.Identical(a.st.Val.Type(), b.st.Val.Type()) {
					continue
				}
				n++
				shared := false
				bs := allocs(b.st.Val)
				for v := range allocs(a.st.Val) {
					if bs[v] {
						shared = true
					}
				}
				k := fmt.Sprintf("%s.%s / %s.%s #%d", sn, a.field, sn, b.field, n)
				r.check(!shared, rule, fname(a.fn), k, c.ipos(a.st), "distinct objects", "the fields "+a.field+" and "+b.field+" receive the same object: what is set through one (e.g. the key direction of the auth mode) also changes what the other purpose uses")
			}
		}
	}
	if n == 0 {
		r.bad(rule, "matchers", "pointer fields prepared in pairs", "-", "no pair of provisioned pointer fields found (rule has no instance)")
	}
}
