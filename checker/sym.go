package main

// E4: finite-predicate path evaluator.
//
// A small abstract interpreter over go/ssa for short functions whose branches compare a fixed
// set of atoms (named fields, len() of them, nil-ness, constants, results of a few calls). A
// *scenario* fixes the atoms to representative witnesses; everything else is symbolic. The
// evaluator enumerates every CFG path that is feasible under the scenario (forking where a
// condition is not determined), and yields for each path the ordered effect trace (calls,
// stores to non-local memory, go/defer, returned values as provenance expressions).
// Nothing of the analysed program is executed; this is predicate abstraction with an explicitly
// enumerated valuation.

import (
	"fmt"
	"go/constant"
	"go/token"
	"go/types"
	"regexp"
	"sort"
	"strconv"
	"strings"

	"golang.org/x/tools/go/ssa"
)

var absSliceRe = regexp.MustCompile(`^(src[\w.]*)\[(\d+):(\d+)\]$`)

type SV struct {
	K     string // int, bool, ref, slice, addr, tuple, opaque, str
	Known bool   // concrete value known (int N, bool B, ref Nil, str S)
	N     int64
	B     bool
	Nil   bool
	S     string
	Len   *SV           // for slice/str: length (may be nil = unknown)
	Cap   *SV           // slices
	Desc  string        // provenance expression
	Elems []SV          // tuple
	M     map[int64]SV  // concrete map content (immutable, copy on write)
	MS    map[string]SV // concrete content of a map with string keys
	Fn    *ssa.Function // closure target
	Bind  []SV          // closure bindings
	Dyn   string        // dynamic type of an interface value, when known
	DynT  types.Type    // the same as a type
}

func symInt(n int64) SV     { return SV{K: "int", Known: true, N: n, Desc: fmt.Sprint(n)} }
func symBool(b bool) SV     { return SV{K: "bool", Known: true, B: b, Desc: fmt.Sprint(b)} }
func symOpaque(d string) SV { return SV{K: "opaque", Desc: d} }
func symNil() SV            { return SV{K: "ref", Known: true, Nil: true, Desc: "nil"} }
func symUnknownInt(d string) SV {
	return SV{K: "int", Desc: d}
}
func symSlice(desc string, n int64) SV {
	l := symInt(n)
	return SV{K: "slice", Desc: desc, Len: &l}
}
func symSliceCap(desc string, n, c int64) SV {
	l, cp := symInt(n), symInt(c)
	return SV{K: "slice", Desc: desc, Len: &l, Cap: &cp}
}
func symRef(desc string, isNil bool) SV { return SV{K: "ref", Known: true, Nil: isNil, Desc: desc} }

// boundStat counts, per index/slice instruction, how often the evaluator met it with concrete operands and
// how often it was out of range. C04 discharges a site from it: evaluated in the scenario tables, never out of range.
type boundStat struct{ ok, oob int }

var boundsSeen = map[ssa.Instruction]*boundStat{}

func noteBound(in ssa.Instruction, oob bool) {
	bs := boundsSeen[in]
	if bs == nil {
		bs = &boundStat{}
		boundsSeen[in] = bs
	}
	if oob {
		bs.oob++
	} else {
		bs.ok++
	}
}

// Event is one observable step of a path.
type Event struct {
	Kind string   // call, store, go, defer, send, recv, mapupdate, panic, select
	What string   // callee id / address description
	Args []string // argument / value provenance expressions
	In   string   // function in which it happened (for inlined callees)
	Note string   // for modelled calls: which alternative the path took
}

// CallAlt is one modelled outcome of a call (the evaluator forks over the alternatives).
type CallAlt struct {
	Ret    SV
	Note   string
	Effect func(ev *symEval, st *symState)
}

func (e Event) String() string {
	s := e.Kind + " " + e.What + "(" + strings.Join(e.Args, ", ") + ")"
	if e.Note != "" {
		s += "->" + e.Note
	}
	return s
}

// Path is one explored path with its outcome.
type Path struct {
	Heap    map[string]SV // memory at the end of the path
	Trace   []Event
	Ret     []SV
	Outcome string // return, panic, cutoff
	Assume  []string
}

func (p Path) retDesc() string {
	var s []string
	for _, r := range p.Ret {
		s = append(s, r.Desc)
	}
	return strings.Join(s, ", ")
}

// Scenario fixes the atoms.
type Scenario struct {
	Name string
	// MaxDepth: how deep calls are evaluated in place (default 6).
	MaxDepth int
	// FreshBase: first number for the names the evaluator makes up (objects, cells); a scenario whose end state is
	// fed into another evaluation uses a base of its own so that the names do not collide.
	FreshBase int
	// Redirect resolves a call to a function of the program that is evaluated in place with the given arguments.
	Redirect func(callee string, args []SV, ev *symEval, st *symState) (*ssa.Function, []SV, func([]SV, *symState) []SV, bool)
	// Heap gives initial values for memory addressed by description ("recv.buf", "recv.matching",
	// "global:layer4.MaxMatchingBytes", "p0[0]" ...). Unlisted memory is symbolic.
	Heap map[string]SV
	// Params gives values for parameters by name-independent id: recv, p0, p1, ...
	Params map[string]SV
	// Recv says what a receive from the given channel delivers (nil/false: a symbolic value).
	Recv func(ch SV) (SV, bool)
	// ByType gives values for parameters by (a suffix of) their type; used where the order is not fixed by an interface.
	ByType map[string]SV
	// Call models a call: given the callee id and argument values, optionally return a result.
	Call func(callee string, args []SV, ev *symEval, st *symState) (SV, bool)
	// Alts models a call with several possible outcomes (explored exhaustively).
	Alts func(callee string, args []SV, ev *symEval, st *symState) []CallAlt
	// Inline says whether a static module callee should be evaluated in place.
	Inline func(f *ssa.Function) bool
	// Assume fixes undetermined conditions by their description (true/false); unlisted ones fork.
	Assume map[string]bool
	// ZeroRecv: slice fields of the receiver that the scenario does not define are empty (fresh object).
	ZeroRecv bool
	// ConcreteCopy: builtin copy between slices of known length moves the known element values.
	ConcreteCopy bool
	// NoDefaultInline switches off the default (unexported helpers of the root function's package are evaluated in place).
	NoDefaultInline bool
	// InlineGo evaluates the body of `go f()` in place when f is inlinable.
	InlineGo bool
	// MaxVisit bounds how often one block may be entered on a path (loop unrolling bound; default 3).
	MaxVisit int
	// NoFork lists condition-description prefixes that must never fork (evaluation error instead).
	MaxPaths int
}

type symState struct {
	dead   bool // an out-of-range access happened: the real execution panics here
	heap   map[string]SV
	assume map[string]bool
	trace  []Event
	order  []string
}

func (s *symState) clone() *symState {
	n := &symState{heap: make(map[string]SV, len(s.heap)), assume: make(map[string]bool, len(s.assume)), dead: s.dead}
	for k, v := range s.heap {
		n.heap[k] = v
	}
	for k, v := range s.assume {
		n.assume[k] = v
	}
	n.trace = append([]Event(nil), s.trace...)
	n.order = append([]string(nil), s.order...)
	return n
}

type symFrame struct {
	fn     *ssa.Function
	env    map[ssa.Value]SV
	visits map[*ssa.BasicBlock]int
	prev   *ssa.BasicBlock
	depth  int
	defers []deferredCall
}

type deferredCall struct {
	ev     Event
	callee SV
	args   []SV
	static *ssa.Function
}

func (f *symFrame) clone() *symFrame {
	n := &symFrame{fn: f.fn, env: make(map[ssa.Value]SV, len(f.env)),
		visits: make(map[*ssa.BasicBlock]int, len(f.visits)), prev: f.prev, depth: f.depth}
	for k, v := range f.env {
		n.env[k] = v
	}
	for k, v := range f.visits {
		n.visits[k] = v
	}
	n.defers = append([]deferredCall(nil), f.defers...)
	return n
}

type symEval struct {
	root     *ssa.Function // the function under evaluation
	curCall  *ssa.Call     // the call being modelled (for models that need static types)
	closures map[string]SV
	sc       *Scenario
	counter  int
	maxVisit int
	maxPaths int
	steps    int64
	paths    int
	err      error
}

// evalPaths enumerates the paths of fn under the scenario.
func evalPaths(fn *ssa.Function, sc *Scenario) ([]Path, error) {
	ev := &symEval{sc: sc, maxVisit: 3, maxPaths: 4000, counter: sc.FreshBase}
	if sc.MaxVisit > 0 {
		ev.maxVisit = sc.MaxVisit
	}
	if sc.MaxPaths > 0 {
		ev.maxPaths = sc.MaxPaths
	}
	st := &symState{heap: map[string]SV{}, assume: map[string]bool{}}
	for k, v := range sc.Heap {
		st.heap[k] = v
	}
	for k, v := range sc.Assume {
		st.assume[k] = v
	}
	args := make([]SV, len(fn.Params))
	for i, p := range fn.Params {
		id := paramID(fn, i)
		if v, ok := sc.Params[id]; ok {
			args[i] = v
		} else {
			args[i] = defaultFor(p.Type(), id)
			// parameters given by their type (unexported helpers may have their parameters reordered)
			for suffix, v := range sc.ByType {
				if strings.HasSuffix(typeStr(p.Type()), suffix) {
					args[i] = v
				}
			}
		}
	}
	ev.root = fn
	outs := ev.call(fn, args, nil, st, 0)
	var res []Path
	for _, o := range outs {
		var as []string
		for _, k := range o.st.order {
			as = append(as, fmt.Sprintf("%s=%v", k, o.st.assume[k]))
		}
		res = append(res, Path{Trace: o.st.trace, Ret: o.ret, Outcome: o.kind, Assume: as, Heap: o.st.heap})
	}
	return res, ev.err
}

func paramID(fn *ssa.Function, i int) string {
	if fn.Signature.Recv() != nil {
		if i == 0 {
			return "recv"
		}
		return fmt.Sprintf("p%d", i-1)
	}
	return fmt.Sprintf("p%d", i)
}

func defaultFor(t types.Type, desc string) SV {
	switch u := t.Underlying().(type) {
	case *types.Basic:
		switch {
		case u.Info()&types.IsBoolean != 0:
			return SV{K: "bool", Desc: desc}
		case u.Info()&types.IsInteger != 0:
			return SV{K: "int", Desc: desc}
		case u.Info()&types.IsString != 0:
			return SV{K: "str", Desc: desc}
		}
	case *types.Slice:
		return SV{K: "slice", Desc: desc}
	case *types.Pointer, *types.Interface, *types.Map, *types.Chan, *types.Signature:
		return SV{K: "ref", Desc: desc}
	}
	return SV{K: "opaque", Desc: desc}
}

type outcome struct {
	st   *symState
	ret  []SV
	kind string
}

func (ev *symEval) maxDepth() int {
	if ev.sc.MaxDepth > 0 {
		return ev.sc.MaxDepth
	}
	return 6
}

func (ev *symEval) fresh(prefix string) string {
	ev.counter++
	return fmt.Sprintf("%s#%d", prefix, ev.counter)
}

func (ev *symEval) call(fn *ssa.Function, args []SV, bindings []SV, st *symState, depth int) []outcome {
	if len(fn.Blocks) == 0 {
		return []outcome{{st: st, kind: "return", ret: []SV{symOpaque("extern " + extName(fn))}}}
	}
	fr := &symFrame{fn: fn, env: map[ssa.Value]SV{}, visits: map[*ssa.BasicBlock]int{}, depth: depth}
	for i, p := range fn.Params {
		fr.env[p] = args[i]
	}
	for i, fv := range fn.FreeVars {
		if i < len(bindings) {
			fr.env[fv] = bindings[i]
		} else {
			fr.env[fv] = SV{K: "addr", Desc: "freevar:" + fv.Name()}
		}
	}
	return ev.runBlock(fr, fn.Blocks[0], 0, st)
}

// inline decides whether a static callee is evaluated in place. A scenario may say so explicitly; by
// default the unexported helpers of the package of the function under evaluation are (a helper extracted
// from the function is still part of what the rule is about), everything else is a modelled/opaque call.
func (ev *symEval) inline(f *ssa.Function) bool {
	if ev.sc.Inline != nil && ev.sc.Inline(f) {
		return true
	}
	if ev.sc.NoDefaultInline {
		return false
	}
	if ev.root == nil || f.Pkg == nil || ev.root.Pkg == nil || f.Pkg != ev.root.Pkg || f == ev.root {
		return false
	}
	if f.Parent() != nil {
		return false // closures are evaluated where they are called through their value
	}
	return !token.IsExported(f.Name())
}

func (ev *symEval) val(fr *symFrame, v ssa.Value) SV {
	if sv, ok := fr.env[v]; ok {
		return sv
	}
	switch x := v.(type) {
	case *ssa.Const:
		return constSV(x)
	case *ssa.Global:
		return SV{K: "addr", Desc: "global:" + globalName(x)}
	case *ssa.Function:
		return SV{K: "ref", Known: true, Nil: false, Desc: "func " + extName(x), Fn: x} // (a plain function or a method expression used as a value)
	case *ssa.Builtin:
		return symOpaque("builtin " + x.Name())
	}
	return symOpaque("?" + v.Name())
}

func constSV(c *ssa.Const) SV {
	if c.Value == nil {
		switch c.Type().Underlying().(type) {
		case *types.Slice:
			z := symInt(0)
			return SV{K: "slice", Known: true, Nil: true, Len: &z, Cap: &z, Desc: "nil"}
		case *types.Basic:
			return symOpaque("zero")
		case *types.Struct, *types.Array:
			return symOpaque("zero:" + typeStr(c.Type()))
		}
		return symNil()
	}
	switch c.Value.Kind() {
	case constant.Bool:
		return symBool(constant.BoolVal(c.Value))
	case constant.Int:
		if i, ok := constant.Int64Val(c.Value); ok {
			return symInt(i)
		}
		if u, ok := constant.Uint64Val(c.Value); ok {
			return SV{K: "int", Desc: fmt.Sprint(u)}
		}
	case constant.Float:
		if iv := constant.ToInt(c.Value); iv.Kind() == constant.Int {
			if i, ok := constant.Int64Val(iv); ok {
				return symInt(i)
			}
		}
	case constant.String:
		s := constant.StringVal(c.Value)
		l := symInt(int64(len(s)))
		return SV{K: "str", Known: true, S: s, Len: &l, Desc: fmt.Sprintf("%q", s)}
	}
	return symOpaque(c.Value.ExactString())
}

var elemOfSliceRe = regexp.MustCompile(`^(.*\[\d*:\d*\])\[(\d+)\]$`)

// lookupElem finds element i of the slice described by desc: under the description itself, or under any of the
// objects it was cut from (x[a:b][c:d] -> x[a:b] -> x), adding the lower bounds on the way.
func lookupElem(st *symState, desc string, i int64) (SV, bool) {
	for k := 0; k < 8; k++ {
		if v, ok := st.heap[fmt.Sprintf("%s[%d]", desc, i)]; ok {
			return v, true
		}
		m := anySliceRe.FindStringSubmatch(desc)
		if m == nil {
			return SV{}, false
		}
		var lo int64
		if m[2] != "" {
			fmt.Sscan(m[2], &lo)
		}
		desc, i = m[1], i+lo
	}
	return SV{}, false
}

func isCellAddr(d string) bool { return strings.HasPrefix(d, "cell:") || strings.HasPrefix(d, "new ") }

func (ev *symEval) load(fr *symFrame, st *symState, addr SV, t types.Type) SV {
	if v, ok := st.heap[addr.Desc]; ok {
		if _, isStruct := t.Underlying().(*types.Struct); isStruct && v.K == "struct" && v.Desc != addr.Desc && v.Desc != "" {
			// a struct variable that was assigned as a whole and had fields modified since: the value loaded now
			// is a snapshot of the variable, not the object it was copied from
			pre, modified := addr.Desc+".", false
			for k, fv := range st.heap {
				if strings.HasPrefix(k, pre) {
					if ov, ok := st.heap[v.Desc+"."+strings.TrimPrefix(k, pre)]; !ok || ov.Desc != fv.Desc {
						modified = true
					}
				}
			}
			if modified {
				snap := ev.fresh("snapshot of " + strings.TrimPrefix(addr.Desc, "cell:"))
				for k, fv := range st.heap {
					if strings.HasPrefix(k, pre) {
						st.heap[snap+"."+strings.TrimPrefix(k, pre)] = fv
					}
				}
				st.heap[snap] = v
				return SV{K: "struct", Desc: snap}
			}
		}
		return v
	}
	if m := elemOfSliceRe.FindStringSubmatch(addr.Desc); m != nil {
		// an element of a sub-slice x[a:b][k]: the element a+k of the object it was cut from
		var k int64
		fmt.Sscan(m[2], &k)
		if v, ok := lookupElem(st, m[1], k); ok {
			return v
		}
	}
	if i := strings.LastIndex(addr.Desc, "."); i > 0 {
		// field of a struct variable that was assigned as a whole: what the source object holds
		base, f := addr.Desc[:i], addr.Desc[i:]
		if bv, ok := st.heap[base]; ok && bv.K == "struct" && bv.Desc != base && bv.Desc != "" && !strings.HasPrefix(bv.Desc, "zero") {
			return ev.load(fr, st, SV{K: "addr", Known: true, Desc: bv.Desc + f}, t)
		}
	}
	if strings.HasPrefix(addr.Desc, "make#") {
		base := addr.Desc
		if j := strings.Index(base, ")"); j > 0 {
			base = base[:j+1]
		}
		if _, written := st.heap["written:"+base]; !written {
			return zeroFor(t)
		}
		return defaultFor(t, addr.Desc)
	}
	if ev.sc.ZeroRecv && strings.HasPrefix(addr.Desc, "recv.") {
		if _, isSlice := t.Underlying().(*types.Slice); isSlice {
			return zeroFor(t)
		}
	}
	if isCellAddr(addr.Desc) {
		z := zeroFor(t)
		if z.K == "opaque" {
			z.Desc = addr.Desc
			if _, isStruct := t.Underlying().(*types.Struct); isStruct {
				z.K = "struct"
			}
		}
		return z
	}
	d := addr.Desc
	if _, isStruct := t.Underlying().(*types.Struct); isStruct {
		return SV{K: "struct", Desc: strings.TrimPrefix(d, "&")}
	}
	if strings.HasPrefix(d, "global:") && typeStr(t) == "error" {
		// a package-level error variable (context.Canceled, io.EOF, ErrX of the module): a sentinel, never nil
		if nm := d[strings.LastIndex(d, ".")+1:]; !strings.HasPrefix(d, "global:"+"layer4.") && !strings.HasPrefix(d, "global:modules/") || strings.HasPrefix(nm, "Err") || strings.HasPrefix(nm, "err") {
			return SV{K: "ref", Known: true, Desc: d}
		}
	}
	return defaultFor(t, strings.TrimPrefix(d, "&"))
}

func zeroFor(t types.Type) SV {
	switch u := t.Underlying().(type) {
	case *types.Basic:
		switch {
		case u.Info()&types.IsBoolean != 0:
			return symBool(false)
		case u.Info()&types.IsInteger != 0:
			return symInt(0)
		case u.Info()&types.IsString != 0:
			l := symInt(0)
			return SV{K: "str", Known: true, S: "", Len: &l, Desc: `""`}
		}
	case *types.Slice:
		z := symInt(0)
		return SV{K: "slice", Known: true, Nil: true, Len: &z, Cap: &z, Desc: "nil"}
	case *types.Pointer, *types.Interface, *types.Map, *types.Chan, *types.Signature:
		return symNil()
	}
	return symOpaque("zero:" + typeStr(t))
}

var symMaxSteps, symStepsSeen int64 = 300000, 0

func (ev *symEval) runBlock(fr *symFrame, b *ssa.BasicBlock, idx int, st *symState) []outcome {
	if ev.err != nil {
		return nil
	}
	// a budget of block entries per evaluation: a program that makes the evaluation fork without end (state taken
	// from a pool, say) ends as "undecided" instead of exhausting the machine
	ev.steps++
	if ev.steps > symStepsSeen {
		symStepsSeen = ev.steps
	}
	if ev.steps > symMaxSteps {
		ev.err = fmt.Errorf("evaluation budget exhausted (%d block entries) in %s", symMaxSteps, fname(fr.fn))
		return nil
	}
	if idx == 0 {
		fr.visits[b]++
		if fr.visits[b] > ev.maxVisit {
			return []outcome{{st: st, kind: "cutoff"}}
		}
	}
	for k := idx; k < len(b.Instrs); k++ {
		in := b.Instrs[k]
		switch x := in.(type) {
		case *ssa.Phi:
			chosen := false
			for i, p := range b.Preds {
				if p == fr.prev {
					fr.env[x] = ev.val(fr, x.Edges[i])
					chosen = true
					break
				}
			}
			if !chosen {
				fr.env[x] = symOpaque("phi?" + x.Name())
			}
		case *ssa.If:
			c := ev.val(fr, x.Cond)
			if c.K == "bool" && c.Known {
				s := b.Succs[1]
				if c.B {
					s = b.Succs[0]
				}
				fr.prev = b
				return ev.runBlock(fr, s, 0, st)
			}
			if a, ok := st.assume[c.Desc]; ok {
				s := b.Succs[1]
				if a {
					s = b.Succs[0]
				}
				fr.prev = b
				return ev.runBlock(fr, s, 0, st)
			}
			// negated description known?
			if strings.HasPrefix(c.Desc, "!(") {
				if a, ok := st.assume[strings.TrimSuffix(strings.TrimPrefix(c.Desc, "!("), ")")]; ok {
					s := b.Succs[0]
					if a {
						s = b.Succs[1]
					}
					fr.prev = b
					return ev.runBlock(fr, s, 0, st)
				}
			}
			ev.paths++
			if ev.paths > ev.maxPaths {
				ev.err = fmt.Errorf("path explosion in %s", fname(fr.fn))
				return nil
			}
			var outs []outcome
			for bi, truth := range []bool{true, false} {
				fr2, st2 := fr.clone(), st.clone()
				st2.assume[c.Desc] = truth
				st2.order = append(st2.order, c.Desc)
				fr2.prev = b
				outs = append(outs, ev.runBlock(fr2, b.Succs[bi], 0, st2)...)
			}
			return outs
		case *ssa.Jump:
			fr.prev = b
			return ev.runBlock(fr, b.Succs[0], 0, st)
		case *ssa.Return:
			var rs []SV
			for _, r := range x.Results {
				rs = append(rs, ev.val(fr, r))
			}
			return []outcome{{st: st, ret: rs, kind: "return"}}
		case *ssa.Panic:
			st.trace = append(st.trace, Event{Kind: "panic", What: ev.val(fr, x.X).Desc, In: fname(fr.fn)})
			return []outcome{{st: st, kind: "panic"}}
		case *ssa.RunDefers:
			states := []*symState{st}
			for i := len(fr.defers) - 1; i >= 0; i-- {
				d := fr.defers[i]
				var target *ssa.Function
				var bind []SV
				if d.static != nil {
					target = d.static
				} else if d.callee.Fn != nil {
					target, bind = d.callee.Fn, d.callee.Bind
				}
				var next []*symState
				for _, s := range states {
					e := d.ev
					e.Kind = "rundefer"
					s.trace = append(s.trace, e)
					if target != nil && ev.sc.Inline != nil && ev.sc.Inline(target) && len(target.Blocks) > 0 && fr.depth < 6 {
						for _, o := range ev.call(target, d.args, bind, s, fr.depth+1) {
							next = append(next, o.st)
						}
					} else {
						next = append(next, s)
					}
				}
				states = next
			}
			fr.defers = nil
			if len(states) == 1 {
				st = states[0]
			} else {
				var res []outcome
				for i, s := range states {
					f2 := fr
					if i < len(states)-1 {
						f2 = fr.clone()
					}
					res = append(res, ev.runBlock(f2, b, k+1, s)...)
				}
				return res
			}
		case *ssa.Store:
			addr := ev.val(fr, x.Addr)
			v := ev.val(fr, x.Val)
			st.heap[addr.Desc] = v
			_, valIsStruct := x.Val.Type().Underlying().(*types.Struct)
			if (v.K == "struct" || (v.K == "opaque" && valIsStruct)) && v.Desc != addr.Desc {
				// struct assignment: copy the fields known for the source object
				pre := v.Desc + "."
				for k, fv := range st.heap {
					if strings.HasPrefix(k, pre) {
						st.heap[addr.Desc+"."+strings.TrimPrefix(k, pre)] = fv
					}
				}
			}
			if _, valIsArray := x.Val.Type().Underlying().(*types.Array); valIsArray && v.Desc != addr.Desc && v.Desc != "" {
				// array assignment (also the copy a range statement makes): the known elements go along
				pre := v.Desc + "["
				for k, fv := range st.heap {
					if strings.HasPrefix(k, pre) {
						st.heap[addr.Desc+"["+strings.TrimPrefix(k, pre)] = fv
					}
				}
			}
			if !strings.HasPrefix(addr.Desc, "cell:") {
				st.trace = append(st.trace, Event{Kind: "store", What: addr.Desc, Args: []string{v.Desc}, In: fname(fr.fn)})
			}
		case *ssa.Send:
			st.trace = append(st.trace, Event{Kind: "send", What: ev.val(fr, x.Chan).Desc, Args: []string{ev.val(fr, x.X).Desc}, In: fname(fr.fn)})
		case *ssa.MapUpdate:
			mv, kv, vv := ev.val(fr, x.Map), ev.val(fr, x.Key), ev.val(fr, x.Value)
			if cur, ok := st.heap["map:"+mv.Desc]; ok && kv.K == "int" && kv.Known {
				nm := make(map[int64]SV, len(cur.M)+1)
				for k, v := range cur.M {
					nm[k] = v
				}
				nm[kv.N] = vv
				st.heap["map:"+mv.Desc] = SV{K: "mapval", M: nm}
			} else {
				if cur, ok := st.heap["smap:"+mv.Desc]; ok {
					if kv.K == "str" && kv.Known {
						nm := make(map[string]SV, len(cur.MS)+1)
						for k, v := range cur.MS {
							nm[k] = v
						}
						nm[kv.S] = vv
						st.heap["smap:"+mv.Desc] = SV{K: "mapval", MS: nm}
					} else {
						delete(st.heap, "smap:"+mv.Desc) // an entry under an unknown key: the content is no longer known
					}
				}
				st.trace = append(st.trace, Event{Kind: "mapupdate", What: mv.Desc, Args: []string{kv.Desc, vv.Desc}, In: fname(fr.fn)})
			}
		case *ssa.Go:
			st.trace = append(st.trace, ev.callEvent(fr, "go", x))
			if ev.sc.InlineGo && !x.Call.IsInvoke() {
				// sequentialise: evaluate the goroutine's body in place (only the set and order of its own effects matter to the rules using this)
				cv := ev.val(fr, x.Call.Value)
				target, bind := x.Call.StaticCallee(), []SV(nil)
				if cv.Fn != nil {
					target, bind = cv.Fn, cv.Bind
				}
				if target != nil && ev.sc.Inline != nil && ev.sc.Inline(target) && len(target.Blocks) > 0 && fr.depth < 6 {
					var args []SV
					for _, a := range x.Call.Args {
						args = append(args, ev.val(fr, a))
					}
					outs := ev.call(target, args, bind, st, fr.depth+1)
					var res []outcome
					for i, o := range outs {
						f2 := fr
						if i < len(outs)-1 {
							f2 = fr.clone()
						}
						res = append(res, ev.runBlock(f2, b, k+1, o.st)...)
					}
					return res
				}
			}
		case *ssa.Defer:
			e := ev.callEvent(fr, "defer", x)
			st.trace = append(st.trace, e)
			dc := deferredCall{ev: e, static: x.Call.StaticCallee()}
			if !x.Call.IsInvoke() {
				dc.callee = ev.val(fr, x.Call.Value)
			}
			for _, a := range x.Call.Args {
				dc.args = append(dc.args, ev.val(fr, a))
			}
			if _, isClosure := x.Call.Value.(*ssa.MakeClosure); isClosure {
				dc.static = nil
			}
			fr.defers = append(fr.defers, dc)
		case *ssa.DebugRef:
		case *ssa.Call:
			outs, handled := ev.doCall(fr, st, x)
			if handled {
				// inlined with possibly several outcomes
				var res []outcome
				for i, o := range outs {
					f2 := fr
					if i < len(outs)-1 {
						f2 = fr.clone()
					}
					if o.kind != "return" {
						res = append(res, o)
						continue
					}
					var rv SV
					if len(o.ret) == 1 {
						rv = o.ret[0]
					} else {
						rv = SV{K: "tuple", Elems: o.ret, Desc: "tuple"}
					}
					f2.env[x] = rv
					res = append(res, ev.runBlock(f2, b, k+1, o.st)...)
				}
				return res
			}
		case ssa.Value:
			fr.env[x] = ev.evalValue(fr, st, x)
			if st.dead {
				return []outcome{{st: st, kind: "panic"}}
			}
		default:
			ev.err = fmt.Errorf("unsupported instruction %T in %s", in, fname(fr.fn))
			return nil
		}
	}
	return []outcome{{st: st, kind: "fallthrough"}}
}

func (ev *symEval) callEvent(fr *symFrame, kind string, ci ssa.CallInstruction) Event {
	cc := ci.Common()
	var args []string
	if cc.IsInvoke() {
		args = append(args, ev.val(fr, cc.Value).Desc)
	}
	for _, a := range cc.Args {
		args = append(args, ev.val(fr, a).Desc)
	}
	what := calleeID(ci)
	if what == "dynamic" {
		what = "dynamic " + ev.val(fr, cc.Value).Desc
	}
	return Event{Kind: kind, What: what, Args: args, In: fname(fr.fn)}
}

// doCall handles a Call; returns (outcomes, true) if the callee was inlined (caller continues per
// outcome), or (nil,false) after binding the result in fr.env.
func (ev *symEval) doCall(fr *symFrame, st *symState, x *ssa.Call) ([]outcome, bool) {
	cc := x.Common()
	var args []SV
	if cc.IsInvoke() {
		args = append(args, ev.val(fr, cc.Value))
	}
	for _, a := range cc.Args {
		args = append(args, ev.val(fr, a))
	}
	id := calleeID(x)
	ev.curCall = x
	// a slice handed to a callee (or the destination of copy) may be overwritten: its elements are no longer the zero values of make
	inlinable := false
	if f := cc.StaticCallee(); f != nil && ev.inline(f) && len(f.Blocks) > 0 {
		inlinable = true
	}
	if id != "builtin len" && id != "builtin cap" && id != "builtin append" && !inlinable {
		for i, a := range args {
			if id == "builtin copy" && i != 0 {
				continue
			}
			if strings.HasPrefix(a.Desc, "make#") {
				base := a.Desc
				if j := strings.Index(base, ")"); j > 0 {
					base = base[:j+1]
				}
				st.heap["written:"+base] = symBool(true)
			}
			if strings.HasPrefix(a.Desc, "cell:makeslice#") && ev.sc.Call != nil {
				// (callees the scenario models write what they write themselves; an unmodelled callee may write anything)
				if _, modelled := ev.sc.Call(id, args, ev, st.clone()); !modelled {
					base, _ := sliceBase(a.Desc)
					st.heap["written:"+base] = symBool(true)
				}
			}
		}
	}
	// builtins
	if bi, ok := cc.Value.(*ssa.Builtin); ok {
		switch bi.Name() {
		case "len":
			if cur, ok := st.heap["smap:"+args[0].Desc]; ok && args[0].Len == nil {
				fr.env[x] = symInt(int64(len(cur.MS)))
				return nil, false
			}
			if args[0].Len != nil {
				fr.env[x] = *args[0].Len
			} else {
				fr.env[x] = SV{K: "int", Desc: "len(" + args[0].Desc + ")"}
			}
			return nil, false
		case "cap":
			if args[0].Cap != nil {
				fr.env[x] = *args[0].Cap
			} else {
				fr.env[x] = SV{K: "int", Desc: "cap(" + args[0].Desc + ")"}
			}
			return nil, false
		case "min", "max":
			allKnown := true
			for _, a := range args {
				if !(a.K == "int" && a.Known) {
					allKnown = false
				}
			}
			if allKnown {
				r := args[0].N
				for _, a := range args[1:] {
					if (bi.Name() == "min" && a.N < r) || (bi.Name() == "max" && a.N > r) {
						r = a.N
					}
				}
				fr.env[x] = symInt(r)
				return nil, false
			}
		}
	}
	if f := cc.StaticCallee(); f != nil && f.Signature.Recv() != nil && len(args) > 0 && args[0].K == "ref" && args[0].Known && args[0].Nil {
		if _, isPtr := f.Signature.Recv().Type().(*types.Pointer); isPtr {
			st.trace = append(st.trace, Event{Kind: "nilderef", What: id, Args: []string{args[0].Desc}, In: fname(fr.fn)})
		}
	}
	if ev.sc.Alts != nil {
		if alts := ev.sc.Alts(id, args, ev, st); len(alts) > 0 {
			var outs []outcome
			for i, a := range alts {
				s2 := st
				if i < len(alts)-1 {
					s2 = st.clone()
				}
				e := ev.callEvent(fr, "call", x)
				e.Note = a.Note
				s2.trace = append(s2.trace, e)
				if a.Effect != nil {
					a.Effect(ev, s2)
				}
				outs = append(outs, outcome{st: s2, ret: []SV{a.Ret}, kind: "return"})
				ev.paths++
			}
			if ev.paths > ev.maxPaths {
				ev.err = fmt.Errorf("path explosion in %s", fname(fr.fn))
				return nil, true
			}
			return outs, true
		}
	}
	if (id == "slices.Contains" || id == "slices.Index" || strings.HasPrefix(id, "slices.Contains[") || strings.HasPrefix(id, "slices.Index[")) && len(args) == 2 && args[0].Len != nil && args[0].Len.Known && args[0].Len.N <= 64 &&
		args[1].Known && (args[1].K == "str" || args[1].K == "int") {
		// the library loop on a list whose elements are all known: the first position of the value
		idx, all := int64(-1), true
		for i := int64(0); i < args[0].Len.N; i++ {
			e, ok := lookupElem(st, args[0].Desc, i)
			if !ok || e.K != args[1].K || !e.Known {
				all = false
				break
			}
			if idx < 0 && (e.K == "str" && e.S == args[1].S || e.K == "int" && e.N == args[1].N) {
				idx = i
			}
		}
		if all {
			st.trace = append(st.trace, ev.callEvent(fr, "call", x))
			if strings.HasPrefix(id, "slices.Contains") {
				return []outcome{{st: st, ret: []SV{symBool(idx >= 0)}, kind: "return"}}, true
			}
			return []outcome{{st: st, ret: []SV{symInt(idx)}, kind: "return"}}, true
		}
	}
	if (strings.HasPrefix(id, "slices.ContainsFunc") || strings.HasPrefix(id, "slices.IndexFunc")) && len(args) == 2 && args[0].Len != nil && args[0].Len.Known && args[0].Len.N <= 8 && args[1].Fn != nil && len(args[1].Fn.Blocks) > 0 && fr.depth < 6 {
		// the library loop written out: the predicate is evaluated in place on the elements in order until it says yes
		st.trace = append(st.trace, ev.callEvent(fr, "call", x))
		wantIndex := strings.HasPrefix(id, "slices.IndexFunc")
		var elems []SV
		for i := int64(0); i < args[0].Len.N; i++ {
			e, ok := lookupElem(st, args[0].Desc, i)
			if !ok {
				e = symOpaque(fmt.Sprintf("%s[%d]", args[0].Desc, i))
			}
			elems = append(elems, e)
		}
		var step func(i int, s2 *symState) []outcome
		step = func(i int, s2 *symState) []outcome {
			if i >= len(elems) {
				if wantIndex {
					return []outcome{{st: s2, ret: []SV{symInt(-1)}, kind: "return"}}
				}
				return []outcome{{st: s2, ret: []SV{symBool(false)}, kind: "return"}}
			}
			var res []outcome
			for _, o := range ev.call(args[1].Fn, []SV{elems[i]}, args[1].Bind, s2, fr.depth+1) {
				if o.kind != "return" || len(o.ret) != 1 {
					res = append(res, o)
					continue
				}
				switch {
				case o.ret[0].K == "bool" && o.ret[0].Known && o.ret[0].B:
					if wantIndex {
						res = append(res, outcome{st: o.st, ret: []SV{symInt(int64(i))}, kind: "return"})
					} else {
						res = append(res, outcome{st: o.st, ret: []SV{symBool(true)}, kind: "return"})
					}
				case o.ret[0].K == "bool" && o.ret[0].Known:
					res = append(res, step(i+1, o.st)...)
				default:
					// undetermined predicate: both continuations
					s3 := o.st.clone()
					if wantIndex {
						res = append(res, outcome{st: s3, ret: []SV{symInt(int64(i))}, kind: "return"})
					} else {
						res = append(res, outcome{st: s3, ret: []SV{symBool(true)}, kind: "return"})
					}
					res = append(res, step(i+1, o.st)...)
				}
			}
			return res
		}
		return step(0, st), true
	}
	if ev.sc.Redirect != nil && fr.depth < ev.maxDepth()+6 {
		// the scenario resolves this call to a function of the program evaluated in place (e.g. a module looked
		// up in a registry by name), with its own arguments; wrap turns the function's results into the call's
		if f, fargs, wrap, ok := ev.sc.Redirect(id, args, ev, st); ok && f != nil && len(f.Blocks) > 0 {
			e := ev.callEvent(fr, "call", x)
			e.Note = "resolved to " + fname(f)
			st.trace = append(st.trace, e)
			outs := ev.call(f, fargs, nil, st, fr.depth+1)
			for i := range outs {
				if outs[i].kind == "return" && wrap != nil {
					outs[i].ret = wrap(outs[i].ret, outs[i].st)
				}
			}
			return outs, true
		}
	}
	if ev.sc.Call != nil {
		if r, ok := ev.sc.Call(id, args, ev, st); ok {
			st.trace = append(st.trace, ev.callEvent(fr, "call", x))
			fr.env[x] = r
			return nil, false
		}
	}
	if (id == "bytes.IndexByte" || id == "strings.IndexByte") && len(args) == 2 && args[0].Len != nil && args[0].Len.Known && args[0].Len.N <= 64 {
		// a search in symbolic content of known length: every answer -1, 0 .. len-1 is explored
		var outs []outcome
		for i := int64(-1); i < args[0].Len.N; i++ {
			s2 := st.clone()
			e := ev.callEvent(fr, "call", x)
			e.Note = fmt.Sprintf("at %d", i)
			s2.trace = append(s2.trace, e)
			outs = append(outs, outcome{st: s2, ret: []SV{symInt(i)}, kind: "return"})
			ev.paths++
		}
		if ev.paths > ev.maxPaths {
			ev.err = fmt.Errorf("path explosion in %s", fname(fr.fn))
			return nil, true
		}
		return outs, true
	}
	if f := cc.StaticCallee(); f != nil && ev.inline(f) && fr.depth < ev.maxDepth() && len(f.Blocks) > 0 {
		var bind []SV
		if mc, ok := cc.Value.(*ssa.MakeClosure); ok {
			for _, b := range mc.Bindings {
				bind = append(bind, ev.val(fr, b))
			}
		}
		if ev.sc.Inline == nil || !ev.sc.Inline(f) {
			// a helper evaluated in place by default still shows as a call (rules that look for it by name keep working)
			e := ev.callEvent(fr, "call", x)
			e.Note = "inlined"
			st.trace = append(st.trace, e)
		}
		outs := ev.call(f, args, bind, st, fr.depth+1)
		return outs, true
	}
	if !cc.IsInvoke() && cc.StaticCallee() == nil {
		if cv := ev.val(fr, cc.Value); cv.Fn != nil && ev.sc.Inline != nil && ev.sc.Inline(cv.Fn) && fr.depth < 6 {
			outs := ev.call(cv.Fn, args, cv.Bind, st, fr.depth+1)
			return outs, true
		}
	}
	if id == "builtin copy" && len(args) == 2 && args[0].Len != nil && args[0].Len.Known && args[1].Len != nil && args[1].Len.Known && ev.sc.Call == nil {
		_ = 0
	}
	if id == "builtin copy" && len(args) == 2 && args[0].Len != nil && args[0].Len.Known && args[1].Len != nil && args[1].Len.Known && ev.sc.ConcreteCopy {
		// concrete copy: the known elements of the source become elements of the destination's object
		st.trace = append(st.trace, ev.callEvent(fr, "call", x))
		n := args[0].Len.N
		if args[1].Len.N < n {
			n = args[1].Len.N
		}
		dbase, doff := sliceBase(args[0].Desc)
		for i := int64(0); i < n; i++ {
			v, ok := lookupElem(st, args[1].Desc, i)
			if !ok && args[1].K == "str" && args[1].Known && i < int64(len(args[1].S)) {
				v, ok = symInt(int64(args[1].S[i])), true
			}
			if ok {
				st.heap[fmt.Sprintf("%s[%d]", dbase, doff+i)] = v
			} else {
				delete(st.heap, fmt.Sprintf("%s[%d]", dbase, doff+i))
			}
		}
		fr.env[x] = symInt(n)
		return nil, false
	}
	if id == "builtin append" && len(args) == 2 && args[0].Len != nil && args[0].Len.Known && args[1].Len != nil && args[1].Len.Known {
		// concrete append: the result is a fresh slice whose elements are tracked in the heap
		e := ev.callEvent(fr, "call", x)
		st.trace = append(st.trace, e)
		n0, n1 := args[0].Len.N, args[1].Len.N
		name := ev.fresh("append")
		// an element of a (sub-)slice: under the slice's own description, or in the object it was cut from
		elem := func(a SV, i int64) (SV, string) {
			src := fmt.Sprintf("%s[%d]", a.Desc, i)
			if v, ok := lookupElem(st, a.Desc, i); ok {
				return v, src
			}
			if a.K == "str" && a.Known && i < int64(len(a.S)) {
				return symInt(int64(a.S[i])), src
			}
			return symOpaque(src), src
		}
		for i := int64(0); i < n0; i++ {
			v, _ := elem(args[0], i)
			st.heap[fmt.Sprintf("%s[%d]", name, i)] = v
		}
		for i := int64(0); i < n1; i++ {
			v, _ := elem(args[1], i)
			st.heap[fmt.Sprintf("%s[%d]", name, i+n0)] = v
		}
		l := symInt(n0 + n1)
		fr.env[x] = SV{K: "slice", Desc: name, Len: &l, Known: true}
		return nil, false
	}
	if id == "errors.Is" && len(args) == 2 {
		// decided where the arguments allow: nil is nothing; an error is itself; the distinct errors a scenario
		// hands out ("err...") wrap no sentinel; anything else stays undetermined (the evaluator forks)
		a, b := args[0], args[1]
		sentinel := func(d string) bool { return strings.HasPrefix(d, "global:") }
		switch {
		case a.K == "ref" && a.Known && a.Nil:
			st.trace = append(st.trace, ev.callEvent(fr, "call", x))
			fr.env[x] = symBool(false)
			return nil, false
		case a.Desc == b.Desc:
			st.trace = append(st.trace, ev.callEvent(fr, "call", x))
			fr.env[x] = symBool(true)
			return nil, false
		case (strings.HasPrefix(a.Desc, "err") || sentinel(a.Desc)) && sentinel(b.Desc):
			st.trace = append(st.trace, ev.callEvent(fr, "call", x))
			fr.env[x] = symBool(false)
			return nil, false
		}
	}
	e := ev.callEvent(fr, "call", x)
	st.trace = append(st.trace, e)
	// result
	res := x.Type()
	name := ev.fresh(shortCallee(id))
	if tup, ok := res.(*types.Tuple); ok {
		var el []SV
		for i := 0; i < tup.Len(); i++ {
			el = append(el, defaultFor(tup.At(i).Type(), fmt.Sprintf("%s.%d", name, i)))
		}
		fr.env[x] = SV{K: "tuple", Elems: el, Desc: name}
	} else {
		v := defaultFor(res, name)
		if id == "builtin append" && len(args) > 0 {
			v.Desc = "append(" + args[0].Desc
			for _, a := range args[1:] {
				v.Desc += ", " + a.Desc
			}
			v.Desc += ")"
		}
		fr.env[x] = v
	}
	return nil, false
}

func shortCallee(id string) string {
	id = strings.TrimPrefix(id, "builtin ")
	if i := strings.LastIndex(id, "."); i >= 0 && strings.HasPrefix(id, "invoke ") {
		return "invoke." + id[i+1:]
	}
	if i := strings.LastIndex(id, "/"); i >= 0 {
		id = id[i+1:]
	}
	return id
}

func (ev *symEval) evalValue(fr *symFrame, st *symState, v ssa.Value) SV {
	switch x := v.(type) {
	case *ssa.Alloc:
		if x.Heap && (strings.Contains(x.Comment, "complit") || x.Comment == "new") {
			// heap object: address it symbolically so that field stores are visible
			return SV{K: "addr", Known: true, Desc: ev.fresh("new " + typeStr(deref(x.Type())))}
		}
		return SV{K: "addr", Known: true, Desc: ev.fresh("cell:" + x.Comment)}
	case *ssa.FieldAddr:
		base := ev.val(fr, x.X)
		return SV{K: "addr", Known: true, Desc: base.Desc + "." + fieldName(deref(x.X.Type()), x.Field)}
	case *ssa.Field:
		base := ev.val(fr, x.X)
		d := base.Desc + "." + fieldName(x.X.Type(), x.Field)
		if hv, ok := st.heap[d]; ok {
			return hv
		}
		return defaultFor(x.Type(), d)
	case *ssa.IndexAddr:
		base := ev.val(fr, x.X)
		i := ev.val(fr, x.Index)
		if base.Len != nil && base.Len.Known && i.K == "int" && i.Known {
			noteBound(x, i.N < 0 || i.N >= base.Len.N)
		}
		if base.Len != nil && base.Len.Known && i.K == "int" && i.Known && (i.N < 0 || i.N >= base.Len.N) {
			st.dead = true
			st.trace = append(st.trace, Event{Kind: "oob", What: "index", Args: []string{fmt.Sprintf("%s[%d] with len %d", base.Desc, i.N, base.Len.N)}, In: fname(fr.fn)})
		}
		return SV{K: "addr", Known: true, Desc: base.Desc + "[" + i.Desc + "]"}
	case *ssa.Index:
		base := ev.val(fr, x.X)
		i := ev.val(fr, x.Index)
		if i.K == "int" && i.Known {
			if base.K == "str" && base.Known && i.N >= 0 && i.N < int64(len(base.S)) {
				return symInt(int64(base.S[i.N]))
			}
			if v, ok := lookupElem(st, base.Desc, i.N); ok { // an element of an array value whose elements are known
				return v
			}
		}
		return defaultFor(x.Type(), base.Desc+"["+i.Desc+"]")
	case *ssa.Lookup:
		base := ev.val(fr, x.X)
		i := ev.val(fr, x.Index)
		if cur, ok := st.heap["map:"+base.Desc]; ok && i.K == "int" && i.Known {
			v, found := cur.M[i.N]
			var vt types.Type = x.Type()
			if x.CommaOk {
				vt = x.Type().(*types.Tuple).At(0).Type()
			}
			if !found {
				v = zeroFor(vt)
			}
			if x.CommaOk {
				return SV{K: "tuple", Desc: "lookup", Elems: []SV{v, symBool(found)}}
			}
			return v
		}
		if cur, ok := st.heap["smap:"+base.Desc]; ok && i.K == "str" && i.Known {
			v, found := cur.MS[i.S]
			var vt types.Type = x.Type()
			if x.CommaOk {
				vt = x.Type().(*types.Tuple).At(0).Type()
			}
			if !found {
				v = zeroFor(vt)
			}
			if x.CommaOk {
				return SV{K: "tuple", Desc: "lookup", Elems: []SV{v, symBool(found)}}
			}
			return v
		}
		d := base.Desc + "[" + i.Desc + "]"
		if x.CommaOk {
			return SV{K: "tuple", Desc: d, Elems: []SV{defaultFor(x.Type().(*types.Tuple).At(0).Type(), d), {K: "bool", Desc: "ok(" + d + ")"}}}
		}
		return defaultFor(x.Type(), d)
	case *ssa.UnOp:
		a := ev.val(fr, x.X)
		switch x.Op {
		case token.MUL:
			return ev.load(fr, st, a, x.Type())
		case token.NOT:
			if a.K == "bool" && a.Known {
				return symBool(!a.B)
			}
			return SV{K: "bool", Desc: "!(" + a.Desc + ")"}
		case token.SUB:
			if a.K == "int" && a.Known {
				return symInt(-a.N)
			}
			return SV{K: "int", Desc: "-" + a.Desc}
		case token.ARROW:
			st.trace = append(st.trace, Event{Kind: "recv", What: a.Desc, In: fname(fr.fn)})
			if ev.sc.Recv != nil {
				if v, ok := ev.sc.Recv(a); ok {
					if x.CommaOk {
						return SV{K: "tuple", Desc: "<-" + a.Desc, Elems: []SV{v, symBool(true)}}
					}
					return v
				}
			}
			if x.CommaOk {
				return SV{K: "tuple", Desc: "<-" + a.Desc, Elems: []SV{defaultFor(x.Type().(*types.Tuple).At(0).Type(), "<-"+a.Desc), {K: "bool", Desc: "ok(<-" + a.Desc + ")"}}}
			}
			return defaultFor(x.Type(), "<-"+a.Desc)
		}
		return symOpaque(x.Op.String() + a.Desc)
	case *ssa.BinOp:
		if x.Op == token.QUO || x.Op == token.REM {
			if d := ev.val(fr, x.Y); d.K == "int" && d.Known {
				noteBound(x, d.N == 0) // a division evaluated with a concrete divisor
			}
		}
		return evalBinTyped(x.Op, ev.val(fr, x.X), ev.val(fr, x.Y), x.X.Type(), x.Type())
	case *ssa.Convert:
		a := ev.val(fr, x.X)
		if tb, ok := x.Type().Underlying().(*types.Basic); ok && a.Known {
			switch {
			case a.K == "float" && tb.Info()&types.IsInteger != 0:
				if f, ok := floatOf(a); ok {
					return symInt(int64(f)) // truncation toward zero
				}
			case a.K == "int" && tb.Info()&types.IsFloat != 0:
				return symFloat(float64(a.N))
			}
		}
		if a.K == "int" {
			return a
		}
		if tb, ok := x.Type().Underlying().(*types.Basic); ok && tb.Info()&types.IsString != 0 {
			if _, fromSlice := x.X.Type().Underlying().(*types.Slice); fromSlice {
				if bs, ok := concreteBytes(st, a); ok {
					return symStr(string(bs)) // every byte of the slice is known
				}
			}
		}
		if ts, ok := x.Type().Underlying().(*types.Slice); ok && a.K == "str" && a.Known {
			if eb, ok := ts.Elem().Underlying().(*types.Basic); ok && eb.Kind() == types.Uint8 {
				// []byte("known"): a fresh slice holding the string's bytes
				name := ev.fresh("bytes")
				for i := 0; i < len(a.S); i++ {
					st.heap[fmt.Sprintf("%s[%d]", name, i)] = symInt(int64(a.S[i]))
				}
				l := symInt(int64(len(a.S)))
				return SV{K: "slice", Desc: name, Len: &l, Cap: &l, Known: true}
			}
		}
		r := defaultFor(x.Type(), a.Desc)
		r.Len = a.Len
		return r
	case *ssa.ChangeType:
		return ev.val(fr, x.X)
	case *ssa.ChangeInterface:
		return ev.val(fr, x.X)
	case *ssa.MakeInterface:
		a := ev.val(fr, x.X)
		if a.K == "ref" || a.K == "addr" {
			if !(a.K == "ref" && a.Known && a.Nil) {
				a.Dyn = typeStr(x.X.Type())
				a.DynT = x.X.Type()
			}
			return a
		}
		// a non-pointer value in an interface is a non-nil interface
		r := a
		r.K = "ref"
		r.Known = true
		r.Nil = false
		r.Dyn = typeStr(x.X.Type())
		r.DynT = x.X.Type()
		return r
	case *ssa.Slice:
		base := ev.val(fr, x.X)
		lo, hi := "", ""
		var lov, hiv *SV
		if x.Low != nil {
			l := ev.val(fr, x.Low)
			lo, lov = l.Desc, &l
		}
		if x.High != nil {
			h := ev.val(fr, x.High)
			hi, hiv = h.Desc, &h
		}
		if base.K == "str" && base.Known && (lov == nil || (lov.K == "int" && lov.Known)) && (hiv == nil || (hiv.K == "int" && hiv.Known)) {
			// a known string cut at known positions is a known string
			l2, h2 := int64(0), int64(len(base.S))
			if lov != nil {
				l2 = lov.N
			}
			if hiv != nil {
				h2 = hiv.N
			}
			if 0 <= l2 && l2 <= h2 && h2 <= int64(len(base.S)) {
				return symStr(base.S[l2:h2])
			}
		}
		r := SV{K: "slice", Desc: base.Desc + "[" + lo + ":" + hi + "]"}
		if base.K == "str" {
			r.K = "str"
		}
		// re-base a slice of a numerically bounded slice: X[a:b][c:d] = X[a+c:a+d]
		if m := absSliceRe.FindStringSubmatch(base.Desc); m != nil && (lov == nil || (lov.K == "int" && lov.Known)) && (hiv == nil || (hiv.K == "int" && hiv.Known)) {
			var a, b2 int64
			fmt.Sscan(m[2], &a)
			fmt.Sscan(m[3], &b2)
			l2, h2 := a, b2
			if lov != nil {
				l2 = a + lov.N
			}
			if hiv != nil {
				h2 = a + hiv.N
			}
			r.Desc = fmt.Sprintf("%s[%d:%d]", m[1], l2, h2)
		} else if base.Len != nil && base.Len.Known && !strings.Contains(base.Desc, "[") && (lov == nil || (lov.K == "int" && lov.Known)) && (hiv == nil || (hiv.K == "int" && hiv.Known)) && base.K == "slice" && strings.HasPrefix(base.Desc, "src") {
			l2, h2 := int64(0), base.Len.N
			if lov != nil {
				l2 = lov.N
			}
			if hiv != nil {
				h2 = hiv.N
			}
			r.Desc = fmt.Sprintf("%s[%d:%d]", base.Desc, l2, h2)
		}
		if pt, ok := x.X.Type().Underlying().(*types.Pointer); ok && x.Low == nil && x.High == nil {
			if at, ok := pt.Elem().Underlying().(*types.Array); ok {
				// full slice of an array: same elements, known length
				l := symInt(at.Len())
				return SV{K: "slice", Desc: base.Desc, Len: &l, Cap: &l, Known: true}
			}
		}
		// bounds, when everything is concrete
		if base.Len != nil && base.Len.Known {
			limit := base.Len.N
			if base.Cap != nil && base.Cap.Known && base.Cap.N > limit && base.K != "str" {
				limit = base.Cap.N
			}
			lo0, hi0 := int64(0), base.Len.N
			loK, hiK := true, true
			if lov != nil {
				lo0, loK = lov.N, lov.K == "int" && lov.Known
			}
			if hiv != nil {
				hi0, hiK = hiv.N, hiv.K == "int" && hiv.Known
			}
			if loK && hiK {
				noteBound(x, lo0 < 0 || lo0 > hi0 || hi0 > limit)
			}
			if loK && hiK && (lo0 < 0 || lo0 > hi0 || hi0 > limit) {
				st.dead = true
				st.trace = append(st.trace, Event{Kind: "oob", What: "slice", Args: []string{fmt.Sprintf("%s[%d:%d] with len %d", base.Desc, lo0, hi0, base.Len.N)}, In: fname(fr.fn)})
			} else if loK && !hiK && hiv == nil && lo0 > base.Len.N {
				st.dead = true
				st.trace = append(st.trace, Event{Kind: "oob", What: "slice", Args: []string{fmt.Sprintf("%s[%d:] with len %d", base.Desc, lo0, base.Len.N)}, In: fname(fr.fn)})
			}
		}
		// length
		var lowN int64
		lowKnown := true
		if lov != nil {
			if lov.K == "int" && lov.Known {
				lowN = lov.N
			} else {
				lowKnown = false
			}
		}
		var highV *SV
		if hiv != nil {
			highV = hiv
		} else if base.Len != nil {
			highV = base.Len
		}
		if lowKnown && highV != nil && highV.K == "int" && highV.Known {
			l := symInt(highV.N - lowN)
			r.Len = &l
		} else if lowKnown && lowN == 0 && highV != nil {
			h := *highV
			r.Len = &h
		}
		if base.Cap != nil && lowKnown && base.Cap.Known {
			c := symInt(base.Cap.N - lowN)
			r.Cap = &c
		}
		return r
	case *ssa.Extract:
		t := ev.val(fr, x.Tuple)
		if t.K == "tuple" && x.Index < len(t.Elems) {
			return t.Elems[x.Index]
		}
		return defaultFor(x.Type(), fmt.Sprintf("%s.%d", t.Desc, x.Index))
	case *ssa.TypeAssert:
		a := ev.val(fr, x.X)
		d := a.Desc + ".(" + typeStr(x.AssertedType) + ")"
		if x.CommaOk {
			r := defaultFor(x.AssertedType, d)
			okv := SV{K: "bool", Desc: "ok(" + d + ")"}
			switch {
			case a.K == "ref" && a.Known && a.Nil:
				okv = symBool(false)
			case a.DynT != nil:
				// the dynamic type is known: the assertion is decided
				if iface, isI := x.AssertedType.Underlying().(*types.Interface); isI {
					okv = symBool(types.Implements(a.DynT, iface))
				} else {
					okv = symBool(types.Identical(a.DynT, x.AssertedType))
				}
				if okv.B {
					r = a
					r.Desc = a.Desc
				}
			}
			return SV{K: "tuple", Desc: d, Elems: []SV{r, okv}}
		}
		if _, isIface := x.AssertedType.Underlying().(*types.Interface); !isIface {
			switch {
			case a.Dyn != "" && a.Dyn != typeStr(x.AssertedType):
				// the real execution panics here: interface conversion
				st.dead = true
				st.trace = append(st.trace, Event{Kind: "panic", What: "type assertion", Args: []string{fmt.Sprintf("%s holds %s, asserted %s", a.Desc, a.Dyn, typeStr(x.AssertedType))}, In: fname(fr.fn)})
			case a.Dyn == "":
				st.trace = append(st.trace, Event{Kind: "assert-unknown", What: typeStr(x.AssertedType), Args: []string{a.Desc}, In: fname(fr.fn)})
			default:
				st.trace = append(st.trace, Event{Kind: "assert-ok", What: typeStr(x.AssertedType), Args: []string{a.Desc}, In: fname(fr.fn)})
				if (a.K == "addr" || a.K == "ref" && a.Known && !a.Nil) && !strings.HasPrefix(a.Desc, "known(") {
					return a // the boxed value itself
				}
			}
		}
		if (a.K == "int" || a.K == "str" || a.K == "bool") && a.Known {
			return a // a known value kept in an interface (handed in by the scenario): the assertion yields it
		}
		r := defaultFor(x.AssertedType, d)
		if a.K == "slice" || a.Len != nil {
			r.Len, r.Cap = a.Len, a.Cap
		}
		return r
	case *ssa.MakeClosure:
		var bs []string
		for _, b := range x.Bindings {
			bs = append(bs, ev.val(fr, b).Desc)
		}
		var bind []SV
		for _, b := range x.Bindings {
			bind = append(bind, ev.val(fr, b))
		}
		cl := SV{K: "ref", Known: true, Desc: "closure " + extName(x.Fn.(*ssa.Function)) + "[" + strings.Join(bs, ",") + "]", Fn: x.Fn.(*ssa.Function), Bind: bind}
		if ev.closures == nil {
			ev.closures = map[string]SV{}
		}
		st.heap["closure:"+extName(cl.Fn)] = cl
		return cl
	case *ssa.MakeSlice:
		l := ev.val(fr, x.Len)
		c := ev.val(fr, x.Cap)
		return SV{K: "slice", Desc: ev.fresh("make") + "(" + l.Desc + ")", Len: &l, Cap: &c}
	case *ssa.MakeMap:
		id := ev.fresh("makemap")
		st.heap["map:"+id] = SV{K: "mapval", M: map[int64]SV{}}
		if mt, ok := x.Type().Underlying().(*types.Map); ok {
			if kb, ok := mt.Key().Underlying().(*types.Basic); ok && kb.Info()&types.IsString != 0 {
				delete(st.heap, "map:"+id)
				st.heap["smap:"+id] = SV{K: "mapval", MS: map[string]SV{}}
			}
		}
		return SV{K: "ref", Known: true, Desc: id}
	case *ssa.MakeChan:
		return SV{K: "ref", Known: true, Desc: ev.fresh("makechan") + "(cap=" + ev.val(fr, x.Size).Desc + ")"}
	case *ssa.Range:
		rv := ev.val(fr, x.X)
		if cur, ok := st.heap["map:"+rv.Desc]; ok {
			id := ev.fresh("iter")
			var keys []int64
			for k := range cur.M {
				keys = append(keys, k)
			}
			sort.Slice(keys, func(i, j int) bool { return keys[i] < keys[j] })
			var el []SV
			for _, k := range keys {
				el = append(el, symInt(k))
			}
			st.heap["iter:"+id] = SV{K: "iterstate", N: 0, Elems: el, Desc: rv.Desc}
			return SV{K: "iter", Desc: id}
		}
		if cur, ok := st.heap["smap:"+rv.Desc]; ok {
			id := ev.fresh("iter")
			var keys []string
			for k := range cur.MS {
				keys = append(keys, k)
			}
			sort.Strings(keys)
			var el []SV
			for _, k := range keys {
				el = append(el, symStr(k))
			}
			st.heap["iter:"+id] = SV{K: "iterstate", N: 0, Elems: el, Desc: rv.Desc, S: "smap"}
			return SV{K: "iter", Desc: id}
		}
		return symOpaque("range(" + rv.Desc + ")")
	case *ssa.Next:
		it := ev.val(fr, x.Iter)
		if is, ok := st.heap["iter:"+it.Desc]; ok {
			tup := x.Type().(*types.Tuple)
			if int(is.N) >= len(is.Elems) {
				return SV{K: "tuple", Desc: "next", Elems: []SV{symBool(false), zeroFor(tup.At(1).Type()), zeroFor(tup.At(2).Type())}}
			}
			k := is.Elems[is.N]
			var v SV
			if is.S == "smap" {
				v = st.heap["smap:"+is.Desc].MS[k.S]
			} else {
				cur := st.heap["map:"+is.Desc]
				v = cur.M[k.N]
			}
			is.N++
			st.heap["iter:"+it.Desc] = is
			return SV{K: "tuple", Desc: "next", Elems: []SV{symBool(true), k, v}}
		}
		n := ev.fresh("next")
		tup := x.Type().(*types.Tuple)
		return SV{K: "tuple", Desc: n, Elems: []SV{{K: "bool", Desc: "more(" + it.Desc + ")@" + n}, defaultFor(tup.At(1).Type(), n+".k"), defaultFor(tup.At(2).Type(), n+".v")}}
	case *ssa.Select:
		var ds []string
		for _, s := range x.States {
			dir := "recv "
			if s.Dir == types.SendOnly {
				dir = "send "
			}
			ds = append(ds, dir+ev.val(fr, s.Chan).Desc)
		}
		n := ev.fresh("select")
		st.trace = append(st.trace, Event{Kind: "select", What: strings.Join(ds, " | "), In: fname(fr.fn), Note: n})
		tup := x.Type().(*types.Tuple)
		el := []SV{{K: "int", Desc: n + ".idx"}, {K: "bool", Desc: n + ".ok"}}
		slot := 2
		for _, s := range x.States {
			if s.Dir != types.RecvOnly || slot >= tup.Len() {
				continue
			}
			v := defaultFor(tup.At(slot).Type(), fmt.Sprintf("%s.%d", n, slot))
			if ev.sc.Recv != nil {
				if rv, ok := ev.sc.Recv(ev.val(fr, s.Chan)); ok {
					v = rv
				}
			}
			el = append(el, v)
			slot++
		}
		for i := slot; i < tup.Len(); i++ {
			el = append(el, defaultFor(tup.At(i).Type(), fmt.Sprintf("%s.%d", n, i)))
		}
		return SV{K: "tuple", Desc: n, Elems: el}
	case *ssa.SliceToArrayPointer:
		return ev.val(fr, x.X)
	}
	return symOpaque(fmt.Sprintf("?%T", v))
}

// evalBinTyped is evalBin with Go's integer semantics for the operand type: 64-bit unsigned operands are
// compared, divided and shifted as unsigned, and a known result wraps to the width of the result type.
func evalBinTyped(op token.Token, a, b SV, operand, result types.Type) SV {
	if a.K == "int" && b.K == "int" && a.Known && b.Known {
		if bt, ok := operand.Underlying().(*types.Basic); ok && bt.Info()&types.IsUnsigned != 0 {
			switch bt.Kind() {
			case types.Uint64, types.Uint, types.Uintptr:
				ua, ub := uint64(a.N), uint64(b.N)
				switch op {
				case token.LSS:
					return symBool(ua < ub)
				case token.LEQ:
					return symBool(ua <= ub)
				case token.GTR:
					return symBool(ua > ub)
				case token.GEQ:
					return symBool(ua >= ub)
				case token.QUO:
					if ub != 0 {
						return symInt(int64(ua / ub))
					}
				case token.REM:
					if ub != 0 {
						return symInt(int64(ua % ub))
					}
				case token.SHR:
					return symInt(int64(ua >> ub))
				}
			}
		}
	}
	r := evalBin(op, a, b)
	if r.K == "int" && r.Known {
		if bt, ok := result.Underlying().(*types.Basic); ok && bt.Info()&types.IsInteger != 0 {
			switch bt.Kind() {
			case types.Uint8:
				r.N = int64(uint8(r.N))
			case types.Uint16:
				r.N = int64(uint16(r.N))
			case types.Uint32:
				r.N = int64(uint32(r.N))
			case types.Int8:
				r.N = int64(int8(r.N))
			case types.Int16:
				r.N = int64(int16(r.N))
			case types.Int32:
				r.N = int64(int32(r.N))
			}
			r.Desc = fmt.Sprint(r.N)
		}
	}
	return r
}

// floatOf: a known number as float64 (values of kind "float" keep their text in Desc).
func floatOf(v SV) (float64, bool) {
	switch {
	case v.K == "int" && v.Known:
		return float64(v.N), true
	case v.K == "float" && v.Known:
		f, err := strconv.ParseFloat(v.Desc, 64)
		return f, err == nil
	}
	return 0, false
}

func symFloat(f float64) SV {
	return SV{K: "float", Known: true, Desc: strconv.FormatFloat(f, 'g', -1, 64)}
}

func evalBin(op token.Token, a, b SV) SV {
	if (a.K == "float" || b.K == "float") && a.Known && b.Known {
		if x, ok1 := floatOf(a); ok1 {
			if y, ok2 := floatOf(b); ok2 {
				switch op {
				case token.ADD:
					return symFloat(x + y)
				case token.SUB:
					return symFloat(x - y)
				case token.MUL:
					return symFloat(x * y)
				case token.QUO:
					if y != 0 {
						return symFloat(x / y)
					}
				case token.EQL:
					return symBool(x == y)
				case token.NEQ:
					return symBool(x != y)
				case token.LSS:
					return symBool(x < y)
				case token.LEQ:
					return symBool(x <= y)
				case token.GTR:
					return symBool(x > y)
				case token.GEQ:
					return symBool(x >= y)
				}
			}
		}
	}
	if a.K == "int" && b.K == "int" && a.Known && b.Known {
		switch op {
		case token.ADD:
			return symInt(a.N + b.N)
		case token.SUB:
			return symInt(a.N - b.N)
		case token.MUL:
			return symInt(a.N * b.N)
		case token.QUO:
			if b.N != 0 {
				return symInt(a.N / b.N)
			}
		case token.REM:
			if b.N != 0 {
				return symInt(a.N % b.N)
			}
		case token.AND:
			return symInt(a.N & b.N)
		case token.OR:
			return symInt(a.N | b.N)
		case token.SHL:
			return symInt(a.N << uint(b.N))
		case token.SHR:
			return symInt(a.N >> uint(b.N))
		case token.EQL:
			return symBool(a.N == b.N)
		case token.NEQ:
			return symBool(a.N != b.N)
		case token.LSS:
			return symBool(a.N < b.N)
		case token.LEQ:
			return symBool(a.N <= b.N)
		case token.GTR:
			return symBool(a.N > b.N)
		case token.GEQ:
			return symBool(a.N >= b.N)
		}
	}
	if op == token.ADD && a.K == "str" && b.K == "str" && a.Known && b.Known {
		return symStr(a.S + b.S)
	}
	if op == token.REM && b.K == "int" && b.Known && (b.N == 1 || b.N == -1) {
		return symInt(0)
	}
	if a.K == "bool" && b.K == "bool" && a.Known && b.Known {
		switch op {
		case token.EQL:
			return symBool(a.B == b.B)
		case token.NEQ:
			return symBool(a.B != b.B)
		}
	}
	// nil comparisons
	if op == token.EQL || op == token.NEQ {
		nilA := (a.K == "ref" || a.K == "slice" || a.K == "addr") && a.Known
		nilB := (b.K == "ref" || b.K == "slice" || b.K == "addr") && b.Known
		if nilA && nilB && (a.Nil || b.Nil) {
			an := a.Nil && a.K != "addr"
			bn := b.Nil && b.K != "addr"
			eq := an == bn
			if op == token.NEQ {
				eq = !eq
			}
			return symBool(eq)
		}
		// two package-level sentinels (error variables): equal exactly when they are the same variable
		if a.K == "ref" && b.K == "ref" && a.Known && b.Known && !a.Nil && !b.Nil && strings.HasPrefix(a.Desc, "global:") && strings.HasPrefix(b.Desc, "global:") {
			eq := a.Desc == b.Desc
			if op == token.NEQ {
				eq = !eq
			}
			return symBool(eq)
		}
		if (a.K == "str" || b.K == "str") && a.Len != nil && b.Len != nil && a.Len.Known && b.Len.Known && a.Len.N != b.Len.N {
			return symBool(op == token.NEQ)
		}
		if a.K == "str" && b.K == "str" && a.Known && b.Known {
			eq := a.S == b.S
			if op == token.NEQ {
				eq = !eq
			}
			return symBool(eq)
		}
	}
	k := "int"
	switch op {
	case token.EQL, token.NEQ, token.LSS, token.LEQ, token.GTR, token.GEQ:
		k = "bool"
	}
	// canonical description for comparisons so that repeated tests agree
	d := "(" + a.Desc + " " + op.String() + " " + b.Desc + ")"
	return SV{K: k, Desc: d}
}

// ---- helpers for specs over paths ----

func traceCalls(p Path, pred func(Event) bool) []Event {
	var out []Event
	for _, e := range p.Trace {
		if pred(e) {
			out = append(out, e)
		}
	}
	return out
}

func fmtTrace(p Path) string {
	var s []string
	for _, e := range p.Trace {
		s = append(s, e.String())
	}
	return strings.Join(s, " ; ") + " => " + p.Outcome + "(" + p.retDesc() + ")"
}

// selectFired tells, for every select a path passed, which communication was chosen on that path (as written in
// the select event: "recv <chan>" / "send <chan>"), decided from the path's assumptions about the select's index
// - independent of the textual order of the cases.
func selectFired(p Path) []string {
	var out []string
	for _, e := range p.Trace {
		if e.Kind != "select" || e.Note == "" {
			continue
		}
		cases := strings.Split(e.What, " | ")
		fired := -1
		excluded := map[int]bool{}
		for _, a := range p.Assume {
			pre := "(" + e.Note + ".idx == "
			if !strings.HasPrefix(a, pre) {
				continue
			}
			rest := strings.TrimPrefix(a, pre)
			var k int
			var truth string
			if i := strings.Index(rest, ")="); i > 0 {
				fmt.Sscan(rest[:i], &k)
				truth = rest[i+2:]
			}
			if truth == "true" {
				fired = k
			} else {
				excluded[k] = true
			}
		}
		if fired < 0 {
			var left []int
			for i := range cases {
				if !excluded[i] {
					left = append(left, i)
				}
			}
			if len(left) == 1 {
				fired = left[0]
			}
		}
		if fired >= 0 && fired < len(cases) {
			out = append(out, cases[fired])
		} else {
			out = append(out, "?")
		}
	}
	return out
}

func symStr(x string) SV {
	l := symInt(int64(len(x)))
	return SV{K: "str", Known: true, S: x, Len: &l, Desc: fmt.Sprintf("%q", x)}
}

func symTuple(elems ...SV) SV { return SV{K: "tuple", Desc: "t", Elems: elems} }
