package main

import "strings"

// caddyReplace models caddy.Replacer.ReplaceAll / ReplaceKnown (caddy v2.8.4 replacer.go, replace()) for inputs
// whose placeholders are not known to the global replacer unless lookup says so: {key} is replaced by lookup(key) if
// that reports it as known; an unknown placeholder is removed by ReplaceAll (treatUnknownAsEmpty, empty value "") and
// left as it is by ReplaceKnown. Escaped braces (\{ and \}) lose their backslash. A regular expression's counted
// repetition - \d{3}, x{2,3} - is an unknown placeholder to the replacer.
func caddyReplace(input, empty string, treatUnknownAsEmpty bool, lookup func(key string) (string, bool)) string {
	if !strings.Contains(input, "{") && !strings.Contains(input, "}") {
		return input
	}
	var sb strings.Builder
	last := 0
scan:
	for i := 0; i < len(input); i++ {
		if i > 0 && input[i-1] == '\\' && (input[i] == '}' || input[i] == '{') {
			sb.WriteString(input[last : i-1])
			last = i
			continue
		}
		if input[i] != '{' {
			continue
		}
		end := strings.Index(input[i:], "}") + i
		if end < i {
			continue
		}
		for end > 0 && end < len(input)-1 && input[end-1] == '\\' {
			next := strings.Index(input[end+1:], "}")
			if next < 0 {
				continue scan
			}
			end += next + 1
		}
		sb.WriteString(input[last:i])
		key := input[i+1 : end]
		val, found := "", false
		if lookup != nil {
			val, found = lookup(key)
		}
		if !found && !treatUnknownAsEmpty {
			last = i
			continue
		}
		if val == "" {
			sb.WriteString(empty)
		} else {
			sb.WriteString(val)
		}
		i = end
		last = i + 1
	}
	sb.WriteString(input[last:])
	return sb.String()
}
