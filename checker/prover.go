package main

// E7b: a small bounds prover over go/ssa.
//
// Every integer value is normalised to a linear form  c + (atom) - (atom)  (difference logic);
// facts come from (a) the types of atoms (uint8 <= 255, len >= 0, ...), (b) definitional
// equalities (len(make([]T, n)) = n, len(s[a:b]) = b-a), (c) documented contracts of library
// calls (0 <= n <= len(buf) for io.ReadFull/ReadAtLeast/Read, copy, bytes.IndexByte, min/max),
// (d) simple loop-index induction (phi of a constant and itself +/- a positive constant) and
// (e) the branch conditions on the edges that dominate the program point. An obligation
// x - y <= c is discharged when it follows from these facts by shortest-path reasoning over the
// difference-constraint graph. Anything not of this form is "not proven" (never "violated").

import (
	"fmt"
	"go/constant"
	"go/token"
	"go/types"
	"math"
	"strings"

	"golang.org/x/tools/go/ssa"
)

type atom string // identity of a symbolic integer quantity ("" = the constant zero)

type lin struct {
	c        int64
	pos, neg atom // at most one positive and one negative atom
	ok       bool
}

func (l lin) String() string {
	s := fmt.Sprint(l.c)
	if l.pos != "" {
		s += "+" + string(l.pos)
	}
	if l.neg != "" {
		s += "-" + string(l.neg)
	}
	return s
}

type dfact struct { // x - y <= c
	x, y atom
	c    int64
	why  string
}

type prover struct {
	byKey     map[string]atom
	stored    map[string]bool
	keyDepth  int
	inWrap    map[*ssa.BinOp]bool
	c         *Ctx
	phis      map[atom]*ssa.Phi
	fn        *ssa.Function
	names     map[ssa.Value]atom
	global    []dfact // facts that hold wherever the atoms are defined
	memo      map[ssa.Value]lin
	depth     int
	ipDone    bool
	cbDone    bool
	inConv    map[*ssa.Convert]bool
	splitDone map[*ssa.Call]bool
}

func newProver(c *Ctx, fn *ssa.Function) *prover {
	return &prover{c: c, fn: fn, names: map[ssa.Value]atom{}, memo: map[ssa.Value]lin{}, phis: map[atom]*ssa.Phi{}, inWrap: map[*ssa.BinOp]bool{}, byKey: map[string]atom{}, stored: map[string]bool{}}
}

// globalConst resolves a load of a module package variable that is never reassigned to the constant
// (or constant length) its initialiser gives.
func (p *prover) globalConst(g *ssa.Global, wantLen bool) (int64, bool) {
	if p.c == nil || g.Pkg == nil || !strings.HasPrefix(g.Pkg.Pkg.Path(), modPath) {
		return 0, false
	}
	name := globalName(g)
	if _, ok := p.c.valueLikeGlobal(name); !ok {
		return 0, false
	}
	// reassigned anywhere?
	for _, fn := range p.c.Funcs {
		if strings.HasPrefix(fn.Name(), "init") {
			continue
		}
		for _, b := range fn.Blocks {
			for _, in := range b.Instrs {
				if st, ok := in.(*ssa.Store); ok && st.Addr == ssa.Value(g) {
					return 0, false
				}
			}
		}
	}
	pk := short(g.Pkg.Pkg.Path())
	if wantLen {
		if bs := varInitBytes(p.c, pk, g.Name()); bs != nil {
			return int64(len(bs)), true
		}
		if s, ok := varInitString(p.c, pk, g.Name()).(string); ok {
			return int64(len(s)), true
		}
		return 0, false
	}
	e, info := findVarInit(p.c, pk, g.Name())
	if e == nil {
		return 0, false
	}
	if tv, ok := info.Types[e]; ok && tv.Value != nil && tv.Value.Kind() == constant.Int {
		return constant.Int64Val(tv.Value)
	}
	return 0, false
}

// structKey gives structurally equal pure expressions the same key (local value numbering): binary
// operations and conversions over equal operands, and loads of a field of the same base object when the
// function never stores to that field.
func (p *prover) structKey(v ssa.Value) string {
	switch x := v.(type) {
	case *ssa.BinOp:
		switch x.Op {
		case token.ADD, token.SUB, token.MUL, token.QUO, token.REM, token.AND, token.OR, token.XOR, token.SHL, token.SHR:
			lx, ly := p.lin(x.X), p.lin(x.Y)
			if lx.ok && ly.ok {
				return fmt.Sprintf("(%s %s %s):%s", lx, x.Op, ly, x.Type())
			}
		}
	case *ssa.Convert:
		if l := p.lin(x.X); l.ok {
			return fmt.Sprintf("conv(%s):%s", l, x.Type())
		}
	case *ssa.UnOp:
		if x.Op == token.MUL {
			// a captured variable that is assigned exactly once (a parameter of the enclosing function, a value
			// computed before the closure is made): every load sees the same value
			if fv, ok := x.X.(*ssa.FreeVar); ok {
				if al, ok := freeVarBinding(fv).(*ssa.Alloc); ok && len(storesToDeep(al)) == 1 {
					return "load(captured " + fv.Name() + ")"
				}
			}
			if fa, ok := x.X.(*ssa.FieldAddr); ok {
				_, sn, f, _ := fieldAddr(fa)
				if !p.fieldStored(sn, f) {
					return fmt.Sprintf("load(%s.%s of %s)", sn, f, p.atomOf(fa.X))
				}
				if al, ok := fa.X.(*ssa.Alloc); ok && p.settled(al, x) {
					return fmt.Sprintf("settled-load(%s.%s of %s)", sn, f, p.atomOf(al))
				}
			}
		}
	}
	return ""
}

// settled: the object allocated by al (once per activation: not in a loop) is referred to only through
// field addresses and as an argument of calls, and none of the instructions that may write it (stores
// through its field addresses, calls that receive it or one of its field addresses) can execute after
// the load ld. Every such load of one field then sees the same, final value.
func (p *prover) settled(al *ssa.Alloc, ld ssa.Instruction) bool {
	if al.Block() == nil || inLoop(al.Block()) || al.Referrers() == nil {
		return false
	}
	var writers []ssa.Instruction
	for _, r := range *al.Referrers() {
		switch y := r.(type) {
		case *ssa.FieldAddr:
			if y.Referrers() == nil {
				return false
			}
			for _, r2 := range *y.Referrers() {
				switch z := r2.(type) {
				case *ssa.UnOp:
					if z.Op != token.MUL {
						return false
					}
				case *ssa.Store:
					if z.Addr != ssa.Value(y) {
						return false // the address itself is stored somewhere
					}
					writers = append(writers, z)
				case ssa.CallInstruction:
					writers = append(writers, z)
				case *ssa.IndexAddr, *ssa.Slice:
					// array field: element reads; writes through it are not tracked -> not settled
					return false
				case *ssa.DebugRef:
				default:
					return false
				}
			}
		case *ssa.Call:
			writers = append(writers, y)
		case *ssa.Store:
			if y.Addr != ssa.Value(al) {
				return false // the pointer escapes into memory
			}
			writers = append(writers, y)
		case *ssa.DebugRef:
		default:
			return false // go/defer, phi, closure capture, conversion ...: may be written later
		}
	}
	for _, w := range writers {
		if w == ld || canReach(ld, w) {
			return false
		}
	}
	return true
}

// reachingStore: the variable cell al (a local captured by closures, hence a cell) is written only by
// direct stores in this function (closures only read it); it returns the store whose value the load ld
// sees on every path: the last of the stores dominating ld, provided no other store can run in between.
func (p *prover) reachingStore(al *ssa.Alloc, ld ssa.Instruction) *ssa.Store {
	if al.Referrers() == nil {
		return nil
	}
	var stores []*ssa.Store
	for _, r := range *al.Referrers() {
		switch y := r.(type) {
		case *ssa.Store:
			if y.Addr != ssa.Value(al) {
				return nil
			}
			stores = append(stores, y)
		case *ssa.UnOp:
			if y.Op != token.MUL {
				return nil
			}
		case *ssa.MakeClosure:
			// the closure must not write the variable
			f, _ := y.Fn.(*ssa.Function)
			if f == nil {
				return nil
			}
			for i, b := range y.Bindings {
				if b != ssa.Value(al) || i >= len(f.FreeVars) {
					continue
				}
				if fr := f.FreeVars[i].Referrers(); fr != nil {
					for _, u := range *fr {
						if ld2, ok := u.(*ssa.UnOp); !ok || ld2.Op != token.MUL {
							if _, isDbg := u.(*ssa.DebugRef); !isDbg {
								return nil
							}
						}
					}
				}
			}
		case *ssa.DebugRef:
		default:
			return nil
		}
	}
	var best *ssa.Store
	for _, s := range stores {
		if dominates(s, ld) && (best == nil || dominates(best, s)) {
			best = s
		}
	}
	if best == nil {
		return nil
	}
	for _, s := range stores {
		if s == best || dominates(s, best) && !canReach(best, s) {
			continue
		}
		if canReach(s, ld) {
			return nil
		}
	}
	return best
}

// uniqueStore returns the only store in the function to the field addressed by fa, if it goes through
// the same base value (then every load it dominates sees the value it stored).
func (p *prover) uniqueStore(fa *ssa.FieldAddr) *ssa.Store {
	_, sn, f, ok := fieldAddr(fa)
	if !ok {
		return nil
	}
	var only *ssa.Store
	n := 0
	for _, b := range p.fn.Blocks {
		for _, in := range b.Instrs {
			if st, ok := in.(*ssa.Store); ok {
				if base, s2, f2, ok := fieldAddr(st.Addr); ok && s2 == sn && f2 == f {
					n++
					if base == fa.X {
						only = st
					}
				}
			}
		}
	}
	if n == 1 {
		return only
	}
	return nil
}

func (p *prover) fieldStored(sn, f string) bool {
	k := sn + "." + f
	if v, ok := p.stored[k]; ok {
		return v
	}
	res := false
	for _, b := range p.fn.Blocks {
		for _, in := range b.Instrs {
			switch x := in.(type) {
			case *ssa.Store:
				if _, s2, f2, ok := fieldAddr(x.Addr); ok && s2 == sn && f2 == f {
					res = true
				}
			case ssa.CallInstruction:
				// a callee of the module that receives an object of that struct type may store the field
				if callee := x.Common().StaticCallee(); callee != nil && callee.Pkg != nil && strings.HasPrefix(callee.Pkg.Pkg.Path(), modPath) {
					for _, a := range x.Common().Args {
						if namedName(deref(a.Type())) == sn {
							res = true
						}
					}
				}
			}
		}
	}
	p.stored[k] = res
	return res
}

func (p *prover) atomOf(v ssa.Value) atom {
	if a, ok := p.names[v]; ok {
		return a
	}
	if p.keyDepth < 8 {
		p.keyDepth++
		k := p.structKey(v)
		p.keyDepth--
		if a, ok := p.names[v]; ok {
			return a // named while computing the key (cycle)
		}
		if k != "" {
			if a, ok := p.byKey[k]; ok {
				p.names[v] = a
				return a
			}
			a := atom(fmt.Sprintf("%s@%d", v.Name(), len(p.names)))
			p.byKey[k] = a
			p.names[v] = a
			p.typeFacts(a, v.Type())
			return a
		}
	}
	a := atom(fmt.Sprintf("%s@%d", v.Name(), len(p.names)))
	p.names[v] = a
	p.typeFacts(a, v.Type())
	return a
}

func (p *prover) lenAtom(s ssa.Value) atom {
	k := p.atomOf(s)
	a := atom("len(" + string(k) + ")")
	if _, seen := p.names[lenKey{s}]; !seen {
		p.names[lenKey{s}] = a
		p.add(dfact{"", a, 0, "len >= 0"})
	}
	return a
}

type lenKey struct{ ssa.Value }

func (lenKey) Name() string                    { return "len" }
func (lenKey) String() string                  { return "len" }
func (k lenKey) Type() types.Type              { return types.Typ[types.Int] }
func (k lenKey) Parent() *ssa.Function         { return nil }
func (k lenKey) Referrers() *[]ssa.Instruction { return nil }
func (k lenKey) Pos() token.Pos                { return token.NoPos }

func (p *prover) add(f dfact) { p.global = append(p.global, f) }

func (p *prover) typeFacts(a atom, t types.Type) {
	b, ok := t.Underlying().(*types.Basic)
	if !ok {
		return
	}
	switch b.Kind() {
	case types.Uint8:
		p.add(dfact{a, "", 255, "uint8"})
		p.add(dfact{"", a, 0, "unsigned"})
	case types.Uint16:
		p.add(dfact{a, "", 65535, "uint16"})
		p.add(dfact{"", a, 0, "unsigned"})
	case types.Uint32:
		p.add(dfact{a, "", math.MaxUint32, "uint32"})
		p.add(dfact{"", a, 0, "unsigned"})
	case types.Uint, types.Uint64, types.Uintptr:
		p.add(dfact{"", a, 0, "unsigned"})
	case types.Int8:
		p.add(dfact{a, "", 127, "int8"})
		p.add(dfact{"", a, 128, "int8"})
	case types.Int16:
		p.add(dfact{a, "", 32767, "int16"})
	case types.Int32:
		p.add(dfact{a, "", math.MaxInt32, "int32"})
	}
}

func constLin(c int64) lin { return lin{c: c, ok: true} }
func atomLin(a atom) lin   { return lin{pos: a, ok: true} }

func addLin(a, b lin) lin {
	if !a.ok || !b.ok {
		return lin{}
	}
	r := lin{c: a.c + b.c, ok: true}
	pos := []atom{}
	neg := []atom{}
	for _, x := range []atom{a.pos, b.pos} {
		if x != "" {
			pos = append(pos, x)
		}
	}
	for _, x := range []atom{a.neg, b.neg} {
		if x != "" {
			neg = append(neg, x)
		}
	}
	// cancel
	for i := 0; i < len(pos); i++ {
		for j := 0; j < len(neg); j++ {
			if pos[i] != "" && pos[i] == neg[j] {
				pos[i], neg[j] = "", ""
			}
		}
	}
	var p2, n2 []atom
	for _, x := range pos {
		if x != "" {
			p2 = append(p2, x)
		}
	}
	for _, x := range neg {
		if x != "" {
			n2 = append(n2, x)
		}
	}
	if len(p2) > 1 || len(n2) > 1 {
		return lin{}
	}
	if len(p2) == 1 {
		r.pos = p2[0]
	}
	if len(n2) == 1 {
		r.neg = n2[0]
	}
	return r
}

func negLin(a lin) lin {
	if !a.ok {
		return a
	}
	return lin{c: -a.c, pos: a.neg, neg: a.pos, ok: true}
}

// lenOf gives the length of a slice/string/array value as a linear form.
func (p *prover) lenOf(s ssa.Value) lin {
	switch t := s.Type().Underlying().(type) {
	case *types.Array:
		return constLin(t.Len())
	case *types.Pointer:
		if at, ok := t.Elem().Underlying().(*types.Array); ok {
			return constLin(at.Len())
		}
	}
	switch x := s.(type) {
	case *ssa.UnOp:
		if g, ok := x.X.(*ssa.Global); ok && x.Op == token.MUL {
			if n, ok := p.globalConst(g, true); ok {
				return constLin(n)
			}
		}
		if al, ok := x.X.(*ssa.Alloc); ok && x.Op == token.MUL {
			if st := p.reachingStore(al, x); st != nil {
				return p.lenOf(st.Val)
			}
		}
	case *ssa.MakeSlice:
		return p.lin(x.Len)
	case *ssa.Slice:
		hi := lin{}
		if x.High != nil {
			hi = p.lin(x.High)
		} else if pt, ok := x.X.Type().Underlying().(*types.Pointer); ok {
			if at, ok := pt.Elem().Underlying().(*types.Array); ok {
				hi = constLin(at.Len()) // slicing an array: its length is part of the type
			} else {
				hi = p.lenOf(x.X)
			}
		} else {
			hi = p.lenOf(x.X)
		}
		lo := constLin(0)
		if x.Low != nil {
			lo = p.lin(x.Low)
		}
		if r := addLin(hi, negLin(lo)); r.ok {
			return r
		}
	case *ssa.Const:
		if x.Value != nil && x.Value.Kind() == constant.String {
			return constLin(int64(len(constant.StringVal(x.Value))))
		}
		if x.Value == nil {
			return constLin(0)
		}
	case *ssa.Convert: // string <-> []byte
		if _, ok := x.X.Type().Underlying().(*types.Basic); ok {
			return p.lenOf(x.X)
		}
		if _, ok := x.X.Type().Underlying().(*types.Slice); ok {
			return p.lenOf(x.X)
		}
	case *ssa.ChangeType:
		return p.lenOf(x.X)
	case *ssa.Call:
		if calleeID(x) == "builtin append" && len(x.Call.Args) == 2 {
			// len(append(a, b...)) = len(a)+len(b): only when it stays in difference form
			a, b := p.lenOf(x.Call.Args[0]), p.lenOf(x.Call.Args[1])
			if r := addLin(a, b); r.ok && a.ok && b.ok {
				return r
			}
		}
		switch calleeID(x) {
		case "bytes.TrimSuffix", "bytes.TrimPrefix", "strings.TrimSuffix", "strings.TrimPrefix":
			// the argument, or the argument without the given affix: len(s)-len(affix) <= len(result) <= len(s)
			if len(x.Call.Args) == 2 {
				a := p.lenAtom(s)
				if l := p.lenOf(x.Call.Args[0]); l.ok && l.neg == "" {
					p.add(dfact{a, l.pos, l.c, "Trim: len(result) <= len(s)"})
					if af := p.lenOf(x.Call.Args[1]); af.ok && af.pos == "" && af.neg == "" {
						p.add(dfact{l.pos, a, af.c - l.c, "Trim: len(result) >= len(s) - len(affix)"})
					}
				}
				return atomLin(a)
			}
		}
	}
	return atomLin(p.lenAtom(s))
}

// lin normalises an integer value.
func (p *prover) lin(v ssa.Value) lin {
	if l, ok := p.memo[v]; ok {
		return l
	}
	p.depth++
	defer func() { p.depth-- }()
	if p.depth > 50 {
		return atomLin(p.atomOf(v))
	}
	p.memo[v] = atomLin(p.atomOf(v)) // cycle breaker
	r := p.lin0(v)
	if !r.ok {
		r = atomLin(p.atomOf(v))
	}
	p.memo[v] = r
	return r
}

func typeWidthOK(from, to types.Type) bool {
	fb, ok1 := from.Underlying().(*types.Basic)
	tb, ok2 := to.Underlying().(*types.Basic)
	if !ok1 || !ok2 {
		return false
	}
	rank := func(k types.BasicKind) (bits int, signed bool) {
		switch k {
		case types.Uint8:
			return 8, false
		case types.Uint16:
			return 16, false
		case types.Uint32:
			return 32, false
		case types.Uint64, types.Uint, types.Uintptr:
			return 64, false
		case types.Int8:
			return 8, true
		case types.Int16:
			return 16, true
		case types.Int32:
			return 32, true
		case types.Int64, types.Int:
			return 64, true
		}
		return 0, false
	}
	fbits, fs := rank(fb.Kind())
	tbits, ts := rank(tb.Kind())
	if fbits == 0 || tbits == 0 {
		return false
	}
	if !fs && ts {
		return tbits > fbits // unsigned -> wider signed keeps the value
	}
	if fs == ts {
		return tbits >= fbits
	}
	return false
}

func (p *prover) lin0(v ssa.Value) lin {
	switch x := v.(type) {
	case *ssa.Const:
		if i, ok := constInt(x); ok {
			return constLin(i)
		}
	case *ssa.UnOp:
		if g, ok := x.X.(*ssa.Global); ok && x.Op == token.MUL {
			if n, ok := p.globalConst(g, false); ok {
				return constLin(n)
			}
		}
		if fa, ok := x.X.(*ssa.FieldAddr); ok && x.Op == token.MUL {
			if st := p.uniqueStore(fa); st != nil && dominates(st, x) {
				return p.lin(st.Val)
			}
		}
	case *ssa.Call:
		id := calleeID(x)
		a := p.atomOf(x)
		switch id {
		case "builtin len":
			return p.lenOf(x.Call.Args[0])
		case "builtin cap":
			// cap >= len
			l := p.lenOf(x.Call.Args[0])
			if l.ok && l.neg == "" {
				p.add(dfact{l.pos, a, -l.c, "cap >= len"})
			}
		case "builtin min":
			for _, arg := range x.Call.Args {
				l := p.lin(arg)
				if l.ok && l.neg == "" {
					p.add(dfact{a, l.pos, l.c, "min <= arg"})
				}
			}
			// min >= every lower bound is not expressible; but min >= 0 if all args >= 0 is derived lazily in entail
			p.minArgs(a, x.Call.Args)
		case "builtin copy":
			for _, arg := range x.Call.Args {
				l := p.lenOf(arg)
				if l.ok && l.neg == "" {
					p.add(dfact{a, l.pos, l.c, "copy <= len"})
				}
			}
			p.add(dfact{"", a, 0, "copy >= 0"})
		case "math/rand.Intn", "math/rand/v2.IntN":
			l := p.lin(x.Call.Args[0])
			if l.ok && l.neg == "" {
				p.add(dfact{a, l.pos, l.c - 1, "Intn(n) < n"})
			}
			p.add(dfact{"", a, 0, "Intn >= 0"})
		case "bytes.IndexByte", "bytes.Index", "strings.Index", "strings.IndexByte":
			l := p.lenOf(x.Call.Args[0])
			if l.ok && l.neg == "" {
				p.add(dfact{a, l.pos, l.c - 1, "Index < len"})
				if id == "bytes.Index" || id == "strings.Index" {
					// a match of sep at i lies inside s: i + len(sep) <= len(s)
					if sl := p.lenOf(x.Call.Args[1]); sl.ok && sl.pos == "" && sl.neg == "" && sl.c >= 1 {
						p.add(dfact{a, l.pos, l.c - sl.c, "Index + len(sep) <= len"})
					}
				}
			}
			p.add(dfact{"", a, 1, "Index >= -1"})
		case "slices.Index", "slices.IndexFunc":
			if l := p.lenOf(x.Call.Args[0]); l.ok && l.neg == "" {
				p.add(dfact{a, l.pos, l.c - 1, "Index < len"})
			}
			p.add(dfact{"", a, 1, "Index >= -1"})
		}
		return atomLin(a)
	case *ssa.Extract:
		a := p.atomOf(x)
		if call, ok := x.Tuple.(*ssa.Call); ok && x.Index == 0 {
			id := calleeID(call)
			var buf ssa.Value
			switch {
			case id == "io.ReadFull" || id == "io.ReadAtLeast":
				buf = call.Call.Args[1]
			case call.Call.IsInvoke() && (call.Call.Method.Name() == "Read" || call.Call.Method.Name() == "ReadFrom") && len(call.Call.Args) >= 1:
				buf = call.Call.Args[0]
			case strings.HasSuffix(id, ").Read") && len(call.Call.Args) == 2:
				buf = call.Call.Args[1]
			}
			if buf != nil {
				l := p.lenOf(buf)
				if l.ok && l.neg == "" {
					p.add(dfact{a, l.pos, l.c, "contract: n <= len(buf)"})
				}
				p.add(dfact{"", a, 0, "contract: n >= 0"})
			}
		}
		return atomLin(a)
	case *ssa.BinOp:
		switch x.Op {
		case token.ADD:
			lx, ly := p.lin(x.X), p.lin(x.Y)
			if r := addLin(lx, ly); r.ok && !p.mayWrap(x) {
				return r
			}
			if lx.ok && ly.ok && !p.mayWrap(x) {
				// not a difference form: a fresh (value-numbered) atom, related to its operands when the other one is non-negative
				a := p.atomOf(x)
				nonNeg := func(l lin) bool {
					if l.neg != "" {
						return false
					}
					lo, ok := p.shortest(p.global, "", l.pos) // 0 - pos <= lo
					return ok && l.c-lo >= 0
				}
				if nonNeg(ly) && lx.neg == "" {
					p.add(dfact{lx.pos, a, -lx.c, "sum >= first operand (second is non-negative)"})
				}
				if nonNeg(lx) && ly.neg == "" {
					p.add(dfact{ly.pos, a, -ly.c, "sum >= second operand (first is non-negative)"})
				}
				return atomLin(a)
			}
		case token.SUB:
			if r := addLin(p.lin(x.X), negLin(p.lin(x.Y))); r.ok && !p.mayWrap(x) {
				return r
			}
		case token.MUL:
			a := p.atomOf(x)
			for _, pr := range [][2]ssa.Value{{x.X, x.Y}, {x.Y, x.X}} {
				if k, ok := constInt(pr[1]); ok && k > 0 {
					o := p.lin(pr[0])
					if o.ok && o.neg == "" {
						if lo, ok := p.shortest(p.global, "", o.pos); ok && lo-o.c <= 0 { // 0 - o.pos <= lo  => o.pos >= -lo
							p.add(dfact{"", a, 0, "product of a non-negative value and a positive constant"})
						}
					}
				}
			}
			return atomLin(a)
		case token.AND:
			a := p.atomOf(x)
			for _, o := range []ssa.Value{x.X, x.Y} {
				if c, ok := constInt(o); ok && c >= 0 {
					p.add(dfact{a, "", c, "x & mask <= mask"})
					p.add(dfact{"", a, 0, "x & mask >= 0"})
				}
			}
			return atomLin(a)
		case token.REM:
			a := p.atomOf(x)
			if isUnsignedOrNonNeg(x.X.Type()) {
				d := p.lin(x.Y)
				if d.ok && d.neg == "" {
					p.add(dfact{a, d.pos, d.c - 1, "x % n < n"})
				}
				p.add(dfact{"", a, 0, "x % n >= 0 (unsigned)"})
			}
			return atomLin(a)
		case token.SHL:
			a := p.atomOf(x)
			if k, ok := constInt(x.Y); ok && k >= 0 && k < 31 {
				if lo, hi, ok := p.globalRange(p.lin(x.X)); ok && lo >= 0 && hi < 1<<31 && fitsType(hi<<uint(k), x.Type()) {
					p.add(dfact{a, "", hi << uint(k), "x << k with x in a known range"})
					p.add(dfact{"", a, 0, "x << k >= 0"})
				}
			}
			return atomLin(a)
		case token.OR, token.XOR:
			a := p.atomOf(x)
			lx, hx, okx := p.globalRange(p.lin(x.X))
			ly, hy, oky := p.globalRange(p.lin(x.Y))
			if okx && oky && lx >= 0 && ly >= 0 && hx < 1<<40 && hy < 1<<40 {
				p.add(dfact{a, "", hx + hy, "x | y <= x + y for non-negative operands"})
				p.add(dfact{"", a, 0, "x | y >= 0"})
			}
			return atomLin(a)
		case token.SHR:
			a := p.atomOf(x)
			if k, ok := constInt(x.Y); ok && k >= 0 && k < 63 {
				if tb, ok := x.X.Type().Underlying().(*types.Basic); ok {
					max := int64(-1)
					switch tb.Kind() {
					case types.Uint8:
						max = 255
					case types.Uint16:
						max = 65535
					case types.Uint32:
						max = math.MaxUint32
					}
					if max >= 0 {
						p.add(dfact{a, "", max >> uint(k), "x >> k"})
					}
				}
			}
			return atomLin(a)
		case token.QUO:
			a := p.atomOf(x)
			if c, ok := constInt(x.Y); ok && c > 0 {
				n := p.lin(x.X)
				if n.ok && n.neg == "" && n.c == 0 && c >= 1 {
					// x / c <= x for x >= 0
					p.add(dfact{a, n.pos, 0, "x/c <= x"})
				}
				p.add(dfact{"", a, 0, "quotient >= 0 when dividend >= 0 (checked at use)"})
			}
			return atomLin(a)
		}
	case *ssa.Convert:
		if typeWidthOK(x.X.Type(), x.Type()) {
			return p.lin(x.X)
		}
		// narrowing/sign change: value preserved only if in range - keep a fresh atom but relate it when the source is provably within range at use sites
		a := p.atomOf(x)
		src := p.lin(x.X)
		nonNeg := isUnsignedOrNonNeg(x.X.Type()) || strings.HasPrefix(string(src.pos), "len(") || (src.pos == "" && src.c >= 0)
		if !nonNeg && src.ok && src.neg == "" && src.pos != "" {
			// a lower bound known from function-wide facts (loop-index induction, contracts)
			if lo, ok := p.shortest(p.global, "", src.pos); ok && src.c-lo >= 0 {
				nonNeg = true
			}
		}
		if !nonNeg && src.ok && x.Block() != nil && !p.inConv[x] {
			// non-negative where the conversion executes (a dominating test such as `if i >= 0`): the value of the
			// conversion exists only there, so the relation holds wherever it is used
			if p.inConv == nil {
				p.inConv = map[*ssa.Convert]bool{}
			}
			p.inConv[x] = true
			if p.entails0(x.Block(), negLin(src), 0, nil) {
				nonNeg = true
			}
			delete(p.inConv, x)
		}
		if src.ok && src.neg == "" && nonNeg {
			// a narrowing conversion of a non-negative value never yields more than the value
			p.add(dfact{a, src.pos, src.c, "convert: result <= non-negative source"})
		}
		return atomLin(a)
	case *ssa.ChangeType:
		return p.lin(x.X)
	case *ssa.Phi:
		a := p.atomOf(x)
		p.phis[a] = x
		// loop induction: phi(c, self + k)
		var init *int64
		step := int64(0)
		simple := true
		var initLin *lin
		// selfStep: the edge value is the phi itself plus a constant (x+k, x-k, (x+a)+b, ...)
		selfStep := func(e ssa.Value) (int64, bool) {
			if bo, ok := e.(*ssa.BinOp); ok && (bo.Op == token.ADD || bo.Op == token.SUB) {
				if l := p.lin(e); l.ok && l.pos == a && l.neg == "" && l.c != 0 {
					return l.c, true
				}
			}
			return 0, false
		}
		nonSelf := 0
		for _, e := range x.Edges {
			if _, isStep := selfStep(e); !isStep && e != ssa.Value(x) {
				nonSelf++
			}
		}
		for _, e := range x.Edges {
			if c, ok := constInt(e); ok {
				if init == nil || c < *init && step >= 0 || c > *init && step < 0 {
					cc := c
					init = &cc
				}
				continue
			}
			if _, isStep := selfStep(e); !isStep && e != ssa.Value(x) && nonSelf == 1 {
				// a single non-constant initial value
				il := p.lin(e)
				if il.ok && il.neg == "" {
					initLin = &il
					continue
				}
			}
			if k, isStep := selfStep(e); isStep {
				if step == 0 || (step > 0) == (k > 0) {
					step = k
					continue
				}
			}
			if e == ssa.Value(x) {
				continue
			}
			simple = false
		}
		if simple && init == nil && initLin != nil && step != 0 {
			if step > 0 {
				p.add(dfact{initLin.pos, a, -initLin.c, "loop index only grows from its initial value"})
			} else {
				p.add(dfact{a, initLin.pos, initLin.c, "loop index only shrinks from its initial value"})
			}
		} else if simple && init != nil && initLin == nil {
			if step >= 0 {
				p.add(dfact{"", a, -*init, "loop index only grows from its initial value"})
			} else {
				p.add(dfact{a, "", *init, "loop index only shrinks from its initial value"})
			}
		} else {
			// general phi: common constant bounds of all edges
			allLo, allHi := true, true
			lo, hi := int64(math.MaxInt64), int64(math.MinInt64)
			for _, e := range x.Edges {
				if e == ssa.Value(x) {
					continue
				}
				l := p.lin(e)
				if l.ok && l.pos == "" && l.neg == "" {
					if l.c < lo {
						lo = l.c
					}
					if l.c > hi {
						hi = l.c
					}
				} else {
					allLo, allHi = false, false
				}
			}
			if !allHi || !allLo {
				// bounds that every incoming edge establishes in its own predecessor (constants, guarded values)
				hiAll, loAll := true, true
				var hiMax, loMin int64 = math.MinInt64, math.MaxInt64
				for i, e := range x.Edges {
					if e == ssa.Value(x) || i >= len(x.Block().Preds) {
						hiAll, loAll = false, false
						break
					}
					pr := x.Block().Preds[i]
					le := p.lin(e)
					if !le.ok || le.pos == a || le.neg == a {
						hiAll, loAll = false, false
						break
					}
					facts := append(append(append([]dfact(nil), p.global...), p.edgeFacts(pr)...), p.branchInto(pr, x.Block())...)
					if d, ok := p.shortest(facts, le.pos, le.neg); ok && d > -(1<<50) {
						if d+le.c > hiMax {
							hiMax = d + le.c
						}
					} else {
						hiAll = false
					}
					if d, ok := p.shortest(facts, le.neg, le.pos); ok && d > -(1<<50) {
						if le.c-d < loMin {
							loMin = le.c - d
						}
					} else {
						loAll = false
					}
				}
				if hiAll && hiMax != math.MinInt64 {
					p.add(dfact{a, "", hiMax, "phi: every incoming edge is bounded above"})
				}
				if loAll && loMin != math.MaxInt64 {
					p.add(dfact{"", a, -loMin, "phi: every incoming edge is bounded below"})
				}
			}
			if allLo && lo != math.MaxInt64 {
				p.add(dfact{"", a, -lo, "phi of constants"})
			}
			if allHi && hi != math.MinInt64 {
				p.add(dfact{a, "", hi, "phi of constants"})
			}
		}
		return atomLin(a)
	}
	return lin{}
}

// globalRange: constant bounds of a linear form from the function-wide facts (types, contracts, induction).
func (p *prover) globalRange(l lin) (lo, hi int64, ok bool) {
	if !l.ok || l.neg != "" {
		return 0, 0, false
	}
	if l.pos == "" {
		return l.c, l.c, true
	}
	dh, ok1 := p.shortest(p.global, l.pos, "")
	dl, ok2 := p.shortest(p.global, "", l.pos)
	if !ok1 || !ok2 || dh > 1<<50 || dl > 1<<50 {
		return 0, 0, false
	}
	return -dl + l.c, dh + l.c, true
}

// fitsType: the non-negative value v is representable in the integer type t (the operation did not wrap).
func fitsType(v int64, t types.Type) bool {
	b, ok := t.Underlying().(*types.Basic)
	if !ok || v < 0 {
		return false
	}
	switch b.Kind() {
	case types.Uint8:
		return v <= 255
	case types.Int8:
		return v <= 127
	case types.Uint16:
		return v <= 65535
	case types.Int16:
		return v <= 32767
	case types.Int32:
		return v <= math.MaxInt32
	case types.Uint32:
		return v <= math.MaxUint32
	case types.Int, types.Int64, types.Uint, types.Uint64, types.Uintptr:
		return true
	}
	return false
}

func isUnsignedOrNonNeg(t types.Type) bool {
	b, ok := t.Underlying().(*types.Basic)
	return ok && b.Info()&types.IsUnsigned != 0
}

// mayWrap: arithmetic on narrow unsigned types can wrap around; only trust int/int64/uint/uint64-wide arithmetic
// (wrapping there needs astronomically large operands) and narrow types when both operands are small constants.
func (p *prover) mayWrap(x *ssa.BinOp) bool {
	b, ok := x.Type().Underlying().(*types.Basic)
	if !ok {
		return true
	}
	unsigned := b.Info()&types.IsUnsigned != 0
	wide := false
	switch b.Kind() {
	case types.Int, types.Int64, types.Uint64, types.Uint, types.UntypedInt:
		wide = true
	}
	if wide && !(unsigned && x.Op == token.SUB) {
		return false
	}
	if p.inWrap[x] {
		return true
	}
	p.inWrap[x] = true
	defer delete(p.inWrap, x)
	lx, ly := p.lin(x.X), p.lin(x.Y)
	if !lx.ok || !ly.ok || x.Block() == nil {
		return true
	}
	max := int64(0)
	switch b.Kind() {
	case types.Uint8:
		max = 255
	case types.Uint16:
		max = 65535
	case types.Uint32:
		max = math.MaxUint32
	case types.Int32:
		max = math.MaxInt32
	case types.Int16:
		max = 32767
	case types.Uint, types.Uint64:
		max = math.MaxInt64
	default:
		return true
	}
	if x.Op == token.SUB {
		// no wrap below zero: y <= x at the operation's own block (its dominating facts hold at every use)
		d := addLin(ly, negLin(lx))
		lower := d.ok && p.entails(x.Block(), d, 0)
		if !unsigned {
			return true
		}
		return !lower
	}
	// ADD: x + y <= max
	d := addLin(lx, ly)
	return !(d.ok && p.entails(x.Block(), d, max))
}

func (p *prover) minArgs(a atom, args []ssa.Value) {
	// min(a,b) >= c if both >= c: recorded lazily as facts "0 - min <= -c" for c = 0 when all args are lengths/unsigned
	all := true
	for _, arg := range args {
		l := p.lin(arg)
		if !(l.ok && l.neg == "") {
			all = false
			continue
		}
		if l.pos == "" {
			if l.c < 0 {
				all = false
			}
			continue
		}
		if !strings.HasPrefix(string(l.pos), "len(") && !isUnsignedOrNonNeg(arg.Type()) {
			if lo, ok := p.shortest(p.global, "", l.pos); !(ok && l.c-lo >= 0) {
				all = false
			}
		}
	}
	if all {
		p.add(dfact{"", a, 0, "min of non-negative values"})
	}
}

// edgeFacts turns the branch conditions dominating block b into difference facts.
func (p *prover) edgeFacts(b *ssa.BasicBlock) []dfact { return p.condFacts(edgeConds(b)) }

// expandBoolPhis: a condition that is the value of `a && b` (or `a || b`) kept in a variable is a phi whose other
// edges are the constant false (true). When it is true (false), the one non-constant edge was taken: its value is
// true (false) and the conditions under which its block runs hold as well.
func expandBoolPhis(conds []Cond, depth int) []Cond {
	if depth > 3 {
		return conds
	}
	out := append([]Cond(nil), conds...)
	for _, cd := range conds {
		ph, ok := cd.V.(*ssa.Phi)
		if !ok {
			continue
		}
		var rest []int
		for i, e := range ph.Edges {
			if b, isC := constBool(e); isC && b == !cd.Truth {
				continue
			}
			rest = append(rest, i)
		}
		if len(rest) != 1 {
			continue
		}
		i := rest[0]
		pred := ph.Block().Preds[i]
		extra := []Cond{{V: ph.Edges[i], Truth: cd.Truth}}
		if len(pred.Succs) == 1 { // the edge's block is left unconditionally: what guards it guards the edge
			extra = append(extra, edgeConds(pred)...)
		}
		out = append(out, expandBoolPhis(extra, depth+1)...)
	}
	return out
}

func (p *prover) condFacts(conds []Cond) []dfact {
	var out []dfact
	conds = expandBoolPhis(conds, 0)
	for _, cd := range conds {
		if ex, isEx := cd.V.(*ssa.Extract); isEx {
			out = append(out, p.boolResultFacts(ex, cd.Truth)...)
			continue
		}
		bo, ok := cd.V.(*ssa.BinOp)
		if !ok {
			continue
		}
		if fs := p.nilErrorFacts(bo, cd.Truth); len(fs) > 0 {
			out = append(out, fs...)
			continue
		}
		if _, isInt := bo.X.Type().Underlying().(*types.Basic); !isInt {
			continue
		}
		if bb := bo.X.Type().Underlying().(*types.Basic); bb.Info()&types.IsInteger == 0 {
			continue
		}
		op := bo.Op
		if !cd.Truth {
			switch op {
			case token.LSS:
				op = token.GEQ
			case token.LEQ:
				op = token.GTR
			case token.GTR:
				op = token.LEQ
			case token.GEQ:
				op = token.LSS
			case token.EQL:
				op = token.NEQ
			case token.NEQ:
				op = token.EQL
			default:
				continue
			}
		}
		l, r := p.lin(bo.X), p.lin(bo.Y)
		d := addLin(l, negLin(r)) // l - r
		if !d.ok {
			continue
		}
		why := fmt.Sprintf("branch %s %s %s", bo.X.Name(), op, bo.Y.Name())
		le := func(d lin, c int64) { // d <= c
			out = append(out, dfact{d.pos, d.neg, c - d.c, why})
		}
		switch op {
		case token.LSS:
			le(d, -1)
		case token.LEQ:
			le(d, 0)
		case token.GTR:
			le(negLin(d), -1)
		case token.GEQ:
			le(negLin(d), 0)
		case token.EQL:
			le(d, 0)
			le(negLin(d), 0)
		case token.NEQ:
			out = append(out, dfact{d.pos, d.neg, math.MinInt64, fmt.Sprintf("NEQ:%d:%s", -d.c, why)}) // marker: pos-neg != -d.c
		}
	}
	return out
}

// entails decides whether l <= c at block b, case-splitting over the incoming edges of a (non-loop) phi block when needed.
func (p *prover) entails(b *ssa.BasicBlock, l lin, c int64) bool {
	return p.entailsSplit(b, l, c, nil, map[*ssa.BasicBlock]bool{}, 0)
}

func (p *prover) entailsSplit(b *ssa.BasicBlock, l lin, c int64, given []dfact, done map[*ssa.BasicBlock]bool, depth int) bool {
	p.paramFacts()
	p.callbackFacts()
	if p.entails0(b, l, c, given) {
		return true
	}
	if !l.ok || depth > 2 {
		return false
	}
	// results of module calls that dominate b: split over the callee's return statements
	if depth == 0 {
		for _, blk := range p.fn.Blocks {
			if !(blk == b || blk.Dominates(b)) {
				continue
			}
			for _, in := range blk.Instrs {
				call, ok := in.(*ssa.Call)
				if !ok || p.splitDone[call] {
					continue
				}
				cases := p.callCases(call)
				if len(cases) == 0 {
					continue
				}
				if p.splitDone == nil {
					p.splitDone = map[*ssa.Call]bool{}
				}
				p.splitDone[call] = true
				all := true
				for _, fs := range cases {
					if !p.entailsSplit(b, l, c, append(append([]dfact(nil), given...), fs...), done, depth+1) {
						all = false
						break
					}
				}
				delete(p.splitDone, call)
				if all {
					return true
				}
			}
		}
	}
	// candidate phi blocks: every block with integer/slice phis that dominates b
	seen := map[*ssa.BasicBlock]bool{}
	var cands []*ssa.BasicBlock
	for _, ph := range p.phis {
		if !seen[ph.Block()] && !done[ph.Block()] {
			seen[ph.Block()] = true
			cands = append(cands, ph.Block())
		}
	}
	for _, blk := range p.fn.Blocks {
		if seen[blk] || done[blk] || len(blk.Instrs) == 0 {
			continue
		}
		if ph, ok := blk.Instrs[0].(*ssa.Phi); ok {
			if _, isSl := ph.Type().Underlying().(*types.Slice); isSl {
				seen[blk] = true
				cands = append(cands, blk)
			}
		}
	}
	for _, pb := range cands {
		if !(pb == b || pb.Dominates(b)) {
			continue
		}
		// not a loop header: no predecessor is reachable from the block itself
		loopHead := false
		r := reachableFrom(pb, false)
		for _, pr := range pb.Preds {
			if r[pr] || pr == pb {
				loopHead = true
			}
		}
		if loopHead {
			continue
		}
		all := true
		for i, pr := range pb.Preds {
			var extra []dfact
			for _, in := range pb.Instrs {
				ph, ok := in.(*ssa.Phi)
				if !ok {
					break
				}
				e := ph.Edges[i]
				if _, isInt := ph.Type().Underlying().(*types.Basic); isInt {
					pl, el := p.lin(ph), p.lin(e)
					if d := addLin(pl, negLin(el)); d.ok {
						extra = append(extra, dfact{d.pos, d.neg, -d.c, "phi = edge"})
						extra = append(extra, dfact{d.neg, d.pos, d.c, "phi = edge"})
					}
				} else if _, isSl := ph.Type().Underlying().(*types.Slice); isSl {
					pl, el := p.lenOf(ph), p.lenOf(e)
					if d := addLin(pl, negLin(el)); d.ok {
						extra = append(extra, dfact{d.pos, d.neg, -d.c, "len(phi) = len(edge)"})
						extra = append(extra, dfact{d.neg, d.pos, d.c, "len(phi) = len(edge)"})
					}
				}
			}
			extra = append(extra, p.edgeFacts(pr)...)
			extra = append(extra, p.branchInto(pr, pb)...)
			extra = append(extra, given...)
			d2 := map[*ssa.BasicBlock]bool{pb: true}
			for k := range done {
				d2[k] = true
			}
			if !p.entailsSplit(b, l, c, extra, d2, depth+1) {
				all = false
				break
			}
		}
		if all {
			return true
		}
	}
	return false
}

// branchInto returns the fact established by the branch from block pr into its successor succ.
func (p *prover) branchInto(pr, succ *ssa.BasicBlock) []dfact {
	ifi, ok := pr.Instrs[len(pr.Instrs)-1].(*ssa.If)
	if !ok || pr.Succs[0] == pr.Succs[1] {
		return nil
	}
	// reuse edgeFacts machinery through a synthetic condition list
	truth := pr.Succs[0] == succ
	return p.condFacts([]Cond{{V: ifi.Cond, Truth: truth, If: ifi}})
}

func (p *prover) entails0(b *ssa.BasicBlock, l lin, c int64, extra []dfact) bool {
	// obligation: l <= c  i.e. pos - neg <= c - l.c
	if !l.ok {
		return false
	}
	bound := c - l.c
	facts := append(append([]dfact(nil), p.global...), p.edgeFacts(b)...)
	facts = append(facts, extra...)
	// strengthen with disequalities: x - y != k together with x - y >= k gives x - y >= k+1
	for iter := 0; iter < 2; iter++ {
		for _, f := range facts {
			if f.c != math.MinInt64 || !strings.HasPrefix(f.why, "NEQ:") {
				continue
			}
			var k int64
			fmt.Sscanf(f.why, "NEQ:%d:", &k)
			// lower bound of x - y
			if lo, ok := p.shortest(facts, f.y, f.x); ok && -lo == k { // y - x <= lo  => x - y >= -lo
				facts = append(facts, dfact{f.y, f.x, lo - 1, "from disequality"})
			}
			if hi, ok := p.shortest(facts, f.x, f.y); ok && hi == k {
				facts = append(facts, dfact{f.x, f.y, hi - 1, "from disequality"})
			}
		}
	}
	d, ok := p.shortest(facts, l.pos, l.neg)
	return ok && d <= bound
}

// shortest computes the tightest c with x - y <= c derivable (Bellman-Ford from y to x).
func (p *prover) shortest(facts []dfact, x, y atom) (int64, bool) {
	if x == y {
		return 0, true
	}
	dist := map[atom]int64{y: 0}
	for i := 0; i < 40; i++ {
		changed := false
		if i == 39 {
			// still improving after this many rounds: a negative cycle - the facts contradict each other, the
			// program point is unreachable under them and every bound holds vacuously
			return -(1 << 60), true
		}
		for _, f := range facts {
			if f.c == math.MinInt64 {
				continue
			}
			// f: fx - fy <= c  => dist[fx] <= dist[fy] + c
			dy, ok := dist[f.y]
			if !ok {
				continue
			}
			nd := dy + f.c
			if od, ok := dist[f.x]; !ok || nd < od {
				dist[f.x] = nd
				changed = true
			}
		}
		if !changed {
			break
		}
	}
	d, ok := dist[x]
	return d, ok
}

// upperConst returns a constant upper bound of v at block b if one is derivable.
func (p *prover) upperConst(b *ssa.BasicBlock, v ssa.Value) (int64, bool) {
	l := p.lin(v)
	if !l.ok {
		return 0, false
	}
	facts := append(append([]dfact(nil), p.global...), p.edgeFacts(b)...)
	d, ok := p.shortest(facts, l.pos, l.neg)
	if !ok {
		return 0, false
	}
	return d + l.c, true
}
