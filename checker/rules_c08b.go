package main

import (
	"fmt"
	"go/token"
	"go/types"
	"strings"

	"golang.org/x/tools/go/ssa"
)

// c08SharedAppend: append(s, x) writes x into the backing array of s whenever s has spare capacity. Per-connection
// code that appends to a slice it took from the shared module instance (the matcher or handler that all connections
// of a route use) therefore writes memory that other connections read or append to at the same time, even though no
// field of the instance is assigned: a data race and, worse, one connection's values showing up in another's slice.
// For every append in per-connection code the slice appended to is traced back - through local struct fields, joins,
// reslicing and earlier appends - and none of its sources may be a field of the shared instance.
func c08SharedAppend(c *Ctx, r *Report, rule string) {
	r.rule(rule, "no append in per-connection code appends to a slice taken from the shared module instance (append writes into the spare capacity of the backing array, which all connections using the instance share): the slice is traced back through local struct fields, joins, reslicing and earlier appends", 10)
	reach := c.perConnReach()
	for _, fn := range sortedFuncs(reach) {
		if len(fn.Blocks) == 0 {
			continue
		}
		n := 0
		for _, ci := range callsIn(fn) {
			call, ok := ci.(*ssa.Call)
			if !ok || calleeID(call) != "builtin append" || len(call.Call.Args) == 0 {
				continue
			}
			n++
			var shared []string
			for _, src := range sliceSources(call.Call.Args[0]) {
				ld, ok := src.(*ssa.UnOp)
				if !ok || ld.Op != token.MUL {
					continue
				}
				for _, root := range addrRoots(ld.X) {
					if why := sharedInstance(c, root); why != "" {
						_, sn, f, _ := fieldAddr(ld.X)
						shared = append(shared, fmt.Sprintf("%s.%s of the %s (read at %s)", sn, f, why, c.ipos(ld)))
					}
				}
			}
			r.check(len(shared) == 0, rule, fname(fn), fmt.Sprintf("append#%d", n), c.ipos(call),
				"the slice appended to is the connection's own (fresh, local or built by earlier appends to such)",
				"appends to "+strings.Join(dedup(shared), ", ")+": with spare capacity the element is written into the backing array that every connection using this instance shares (data race; one connection's value appears in another's list)")
		}
	}
}

// sharedInstance: root is the receiver of a method of a caddy module type (it has CaddyModule), or a package-level
// variable.
func sharedInstance(c *Ctx, root ssa.Value) string {
	if g, ok := root.(*ssa.Global); ok {
		return "package variable " + globalName(g)
	}
	if p, ok := root.(*ssa.Parameter); ok && p.Parent().Signature.Recv() != nil && p == p.Parent().Params[0] {
		nm := namedName(deref(p.Type()))
		switch nm {
		case connStruct, "layer4.packetConn", "layer4.tlsConnection", "modules/l4throttle.throttledConn", "modules/l4tee.teeConn", "modules/l4tee.nextConn":
			return ""
		}
		if !strings.Contains(nm, ".") || methodOf(c, p.Type(), "CaddyModule") == nil {
			return "" // only module instances (what caddy loads once and every connection of the route uses) are shared; message objects are made per match
		}
		return "shared instance " + nm
	}
	if fv, ok := root.(*ssa.FreeVar); ok {
		if b := freeVarBinding(fv); b != nil {
			for _, r2 := range addrRoots(b) {
				if r2 != root {
					if why := sharedInstance(c, r2); why != "" {
						return why
					}
				}
			}
		}
	}
	return ""
}

// sliceSources lists where the slice value v may come from: the leaves are loads of fields of objects other than
// local ones, parameters, fresh slices (make, nil, literals, call results).
func sliceSources(v ssa.Value) []ssa.Value {
	seen := map[ssa.Value]bool{}
	var out []ssa.Value
	var walk func(v ssa.Value, d int)
	walk = func(v ssa.Value, d int) {
		if v == nil || seen[v] || d > 40 {
			return
		}
		seen[v] = true
		switch x := v.(type) {
		case *ssa.Phi:
			for _, e := range x.Edges {
				walk(e, d+1)
			}
		case *ssa.Slice:
			walk(x.X, d+1)
		case *ssa.ChangeType:
			walk(x.X, d+1)
		case *ssa.Call:
			if calleeID(x) == "builtin append" && len(x.Call.Args) > 0 {
				walk(x.Call.Args[0], d+1) // the result may be the first argument's array
				return
			}
			out = append(out, x)
		case *ssa.UnOp:
			if x.Op != token.MUL {
				out = append(out, x)
				return
			}
			switch a := x.X.(type) {
			case *ssa.Alloc: // a local variable
				for _, s := range storesToDeep(a) {
					walk(s, d+1)
				}
			case *ssa.FieldAddr:
				if al, ok := a.X.(*ssa.Alloc); ok { // a field of a local object: what is stored into that field
					found := false
					for _, ref := range *al.Referrers() {
						fa, ok := ref.(*ssa.FieldAddr)
						if !ok || fa.Field != a.Field || fa.Referrers() == nil {
							continue
						}
						for _, r2 := range *fa.Referrers() {
							if st, ok := r2.(*ssa.Store); ok && st.Addr == ssa.Value(fa) {
								found = true
								walk(st.Val, d+1)
							}
						}
					}
					_ = found
					return
				}
				out = append(out, x)
			default:
				out = append(out, x)
			}
		default:
			out = append(out, v)
		}
	}
	walk(v, 0)
	return out
}

// c08WrapStorage: the matching buffer of a connection the server accepted is a pooled array that goes back to the pool
// when the handler chain returns. A Connection made by Wrap can live longer than that (the branch of a tee keeps
// matching and reading after the main chain has returned; the connection handed to a wrapped listener) and two
// Connections wrapped from one (tee's next and branch) would prefetch into one array: Wrap therefore gives the new
// Connection no storage of the receiver's buffer, drained or not. Evaluated over the same buffer states as C01.R5.
func c08WrapStorage(c *Ctx, r *Report, rule string) {
	r.rule(rule, "Wrap, evaluated over the receiver's buffer states (empty, drained, partly read, unread): the new connection's buffer is never a slice of the receiver's buffer - that array is the server's pooled one, which goes back to the pool when the chain returns while a wrapped connection (a tee branch) may still be matching on it, and two connections wrapped from one would prefetch into the same array", 4)
	wrapName := "layer4.(*Connection).Wrap"
	fn := c.Fn(wrapName)
	if fn == nil {
		r.bad(rule, wrapName, "exists", "-", "function not found")
		return
	}
	for _, w := range readWitnesses {
		sc := &Scenario{
			Name:   fmt.Sprintf("Wrap:%s(len=%d,off=%d)", w.name, w.l, w.o),
			Heap:   map[string]SV{"recv.matching": symBool(false), "recv.buf": symSliceCap("recv.buf", w.l, 2048), "recv.offset": symInt(w.o)},
			Params: map[string]SV{"recv": symRef("recv", false), "p0": symRef("conn", false)},
			Call: func(callee string, args []SV, ev *symEval, st *symState) (SV, bool) {
				if strings.HasPrefix(callee, "(*sync/atomic.") {
					return symOpaque("atomic"), true
				}
				return SV{}, false
			},
		}
		paths, err := evalPaths(fn, sc)
		if err != nil || len(paths) == 0 {
			r.bad(rule, wrapName, sc.Name, c.pos(fn.Pos()), fmt.Sprintf("undecided: %v", err))
			continue
		}
		var problems []string
		for _, p := range paths {
			for k, hv := range p.Heap {
				if !strings.HasSuffix(k, ".buf") || !strings.HasPrefix(k, "new ") {
					continue
				}
				if base, _ := sliceBase(hv.Desc); base == "recv.buf" && !(hv.Known && hv.Nil) {
					problems = append(problems, "the new connection's buffer is "+hv.Desc+", a slice of the receiver's (pooled) buffer: a tee branch still matching on it after the main chain returned reads what the next connection prefetched into the recycled array; tee's two wrapped connections prefetch into one array")
				}
			}
		}
		r.check(len(problems) == 0, rule, wrapName, sc.Name, c.pos(fn.Pos()), fmt.Sprintf("%d path(s): the new connection has storage of its own", len(paths)), strings.Join(dedup(problems), "; "))
	}
}

// c08PoolReset: a sync.Pool is safe for concurrent use, but what it hands out is whatever an earlier user left in
// it. A container taken from a pool by per-connection code therefore starts empty for the new user: a map is cleared
// (the builtin clear, before anything reads it), a slice is cut to length 0 or to explicit bounds before its elements
// are read (decided for the matching buffers by C08.R6 and C08.R3). Without that, one connection's state - the status
// of its routes, say - decides another connection's routing.
func c08PoolReset(c *Ctx, r *Report, rule string) {
	r.rule(rule, "containers that per-connection code takes from a sync.Pool start empty: a map is cleared (builtin clear) before any lookup, range or len on it; slices are covered by C08.R6/C08.R3 (counted here so that the rule cannot pass vacuously)", 3)
	reach := c.perConnReach()
	for _, fn := range sortedFuncs(reach) {
		n := 0
		for _, ci := range callsIn(fn) {
			kind, pool, _ := poolOp(ci)
			call, isCall := ci.(*ssa.Call)
			if kind != "get" || !isCall {
				continue
			}
			n++
			construct := fmt.Sprintf("%s.Get#%d", globalName(pool), n)
			// the typed value(s) the result is asserted to
			var maps []ssa.Value
			other := ""
			var walk func(v ssa.Value, d int)
			walk = func(v ssa.Value, d int) {
				if d > 4 || v.Referrers() == nil {
					return
				}
				for _, ref := range *v.Referrers() {
					switch x := ref.(type) {
					case *ssa.TypeAssert:
						if _, isMap := x.AssertedType.Underlying().(*types.Map); isMap {
							if x.CommaOk {
								for _, r2 := range *x.Referrers() {
									if ex, ok := r2.(*ssa.Extract); ok && ex.Index == 0 {
										maps = append(maps, ex)
									}
								}
							} else {
								maps = append(maps, x)
							}
						} else {
							other = typeStr(x.AssertedType)
						}
					case *ssa.ChangeInterface, *ssa.MakeInterface:
						walk(x.(ssa.Value), d+1)
					}
				}
			}
			walk(call, 0)
			if len(maps) == 0 {
				r.ok(rule, fname(fn), construct, c.ipos(call), "not a map ("+other+"): emptiness of pooled buffers is decided by C08.R6 / C08.R3")
				continue
			}
			bad := ""
			for _, m := range maps {
				var clears []ssa.Instruction
				for _, ref := range *m.Referrers() {
					if cl, ok := ref.(*ssa.Call); ok && calleeID(cl) == "builtin clear" {
						clears = append(clears, cl)
					}
				}
				for _, ref := range *m.Referrers() {
					isRead := false
					switch x := ref.(type) {
					case *ssa.Lookup:
						isRead = x.X == m
					case *ssa.Range:
						isRead = x.X == m
					case *ssa.Call:
						isRead = calleeID(x) == "builtin len" && len(x.Call.Args) == 1 && x.Call.Args[0] == m
					case *ssa.MakeClosure:
						// captured by a closure that runs later (deferred Put) - reads inside are not followed
					}
					if !isRead {
						continue
					}
					dominated := false
					for _, cl := range clears {
						if dominates(cl, ref) {
							dominated = true
						}
					}
					if !dominated && bad == "" {
						bad = "the map taken from the pool is read at " + c.ipos(ref) + " without having been cleared first"
					}
				}
			}
			r.check(bad == "", rule, fname(fn), construct, c.ipos(call), "the pooled map is cleared before it is read",
				bad+": it still holds what the connection that used it before left in it, so one connection's state (the status of its routes, its variables ...) decides what happens to another")
		}
	}
}

// c08SharedReplacer: a caddy.Replacer is a mutable object (Set stores a value, Map and caddyhttp.PrepareRequest append a
// provider bound to one request). The replacer of a connection lives in the connection's context; a replacer kept in
// the shared module instance and handed to one of these per connection accumulates the state of every connection that
// came by - later connections are matched with an earlier connection's request - and is written without a lock.
func c08SharedReplacer(c *Ctx, r *Report, rule string) {
	r.rule(rule, "no per-connection code hands a *caddy.Replacer held by the shared module instance (or a package variable) to an operation that modifies it (Replacer.Set, Replacer.Map, caddyhttp.PrepareRequest): the replacer it modifies is the connection's own or a fresh one", 3)
	mutating := func(ci ssa.CallInstruction) int { // index of the replacer argument, -1 if the call does not modify one
		id := calleeID(ci)
		switch {
		case strings.HasSuffix(id, "caddy/v2.Replacer).Set"), strings.HasSuffix(id, "caddy/v2.Replacer).Map"), strings.HasSuffix(id, "caddy/v2.Replacer).Delete"):
			return 0
		case strings.HasSuffix(id, "caddyhttp.PrepareRequest"):
			return 1
		}
		return -1
	}
	n := 0
	for _, fn := range sortedFuncs(c.perConnReach()) {
		k := 0
		for _, ci := range callsIn(fn) {
			idx := mutating(ci)
			if idx < 0 || idx >= len(ci.Common().Args) {
				continue
			}
			n++
			k++
			shared := ""
			for _, o := range origins(ci.Common().Args[idx], sliceOpts{}) {
				if o.Kind != "field" {
					if o.Kind == "global" {
						shared = "package variable " + o.Desc
					}
					continue
				}
				ld, ok := o.V.(*ssa.UnOp)
				if !ok {
					continue
				}
				for _, root := range addrRoots(ld.X) {
					if why := sharedInstance(c, root); why != "" {
						shared = o.Desc + " of the " + why
					}
				}
			}
			r.check(shared == "", rule, fname(fn), fmt.Sprintf("%s#%d", shortCallee(calleeID(ci)), k), c.ipos(ci), "the replacer modified here is the connection's own or a fresh one",
				"the replacer modified here is "+shared+": every connection through this instance adds to it - later connections are matched with placeholders bound to an earlier connection's request, and the additions race")
		}
	}
	if n == 0 {
		r.bad(rule, "module", "replacer modifications", "-", "no modification of a replacer found in per-connection code")
	}
}
