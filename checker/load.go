package main

import (
	"encoding/json"
	"fmt"
	"go/ast"
	"go/token"
	"go/types"
	"os"
	"path/filepath"
	"sort"
	"strings"

	"golang.org/x/tools/go/packages"
	"golang.org/x/tools/go/ssa"
	"golang.org/x/tools/go/ssa/ssautil"
)

const modPath = "github.com/mholt/caddy-l4"

// Ctx is the loaded, type-checked and SSA-converted program.
type Ctx struct {
	provers      map[*ssa.Function]*prover
	routerMemo   map[[2]int][]rPath
	ipDepth      int
	retCases     map[*ssa.Function][]retCase
	retQs        map[*ssa.Function][]quantity
	retOK        map[*ssa.Function]bool
	callSites    map[*ssa.Function][]ssa.CallInstruction
	fnEscapes    map[*ssa.Function]bool
	atomicParams map[*ssa.Function]map[int][]string
	Repo         string
	Tier         string
	Fset         *token.FileSet
	Pkgs         []*packages.Package // module packages (non-test files)
	ByPath       map[string]*packages.Package
	Prog         *ssa.Program
	SSA          map[string]*ssa.Package // by import path (module packages only)
	Funcs        []*ssa.Function         // every source function of the module incl. closures
	AllDeps      bool                    // dependencies loaded with syntax (thorough)

	perConn map[*ssa.Function]bool // lazily computed
}

// short returns the path of a module package relative to the module root
// ("layer4", "modules/l4tls", "." for the root).
func short(path string) string {
	if path == modPath {
		return "."
	}
	return strings.TrimPrefix(path, modPath+"/")
}

func load(repo, tier string, overlayFile string, allSyntax bool) (*Ctx, error) {
	mode := packages.NeedName | packages.NeedFiles | packages.NeedCompiledGoFiles |
		packages.NeedImports | packages.NeedTypes | packages.NeedSyntax |
		packages.NeedTypesInfo | packages.NeedTypesSizes | packages.NeedModule
	if allSyntax {
		mode |= packages.NeedDeps
	}
	env := append(os.Environ(), "GOFLAGS=-mod=mod", "GOPROXY=off", "GOSUMDB=off", "GOTOOLCHAIN=local", "GOWORK=off", "CGO_ENABLED=0")
	cfg := &packages.Config{Mode: mode, Dir: repo, Env: env, Tests: false, Fset: token.NewFileSet()}
	if overlayFile != "" {
		raw, err := os.ReadFile(overlayFile)
		if err != nil {
			return nil, err
		}
		var ov map[string]string
		if err := json.Unmarshal(raw, &ov); err != nil {
			return nil, fmt.Errorf("overlay %s: %v", overlayFile, err)
		}
		cfg.Overlay = map[string][]byte{}
		for f, c := range ov {
			if !filepath.IsAbs(f) {
				f = filepath.Join(repo, f)
			}
			cfg.Overlay[f] = []byte(c)
		}
	}
	pkgs, err := packages.Load(cfg, "./...")
	if err != nil {
		return nil, fmt.Errorf("go/packages: %v", err)
	}
	if len(pkgs) == 0 {
		return nil, fmt.Errorf("no packages loaded from %s", repo)
	}
	var errs []string
	packages.Visit(pkgs, nil, func(p *packages.Package) {
		if !strings.HasPrefix(p.PkgPath, modPath) {
			return
		}
		for _, e := range p.Errors {
			errs = append(errs, e.Error())
		}
		if len(p.IgnoredFiles) > 0 {
			// build-tagged files would not be covered
			for _, f := range p.IgnoredFiles {
				if strings.HasSuffix(f, ".go") {
					errs = append(errs, "ignored (build-constrained) Go file not analysed: "+f)
				}
			}
		}
	})
	if len(errs) > 0 {
		return nil, fmt.Errorf("load/type errors:\n  %s", strings.Join(errs, "\n  "))
	}
	c := &Ctx{Repo: repo, Tier: tier, Fset: cfg.Fset, ByPath: map[string]*packages.Package{}, SSA: map[string]*ssa.Package{}, AllDeps: allSyntax}
	for _, p := range pkgs {
		if strings.HasPrefix(p.PkgPath, modPath) && len(p.CompiledGoFiles) > 0 {
			c.Pkgs = append(c.Pkgs, p)
			c.ByPath[p.PkgPath] = p
		}
	}
	sort.Slice(c.Pkgs, func(i, j int) bool { return c.Pkgs[i].PkgPath < c.Pkgs[j].PkgPath })
	if len(c.Pkgs) < 20 {
		return nil, fmt.Errorf("only %d module packages with Go files loaded (expected >= 20)", len(c.Pkgs))
	}
	var prog *ssa.Program
	var spkgs []*ssa.Package
	bmode := ssa.InstantiateGenerics
	if allSyntax {
		prog, spkgs = ssautil.AllPackages(pkgs, bmode)
	} else {
		prog, spkgs = ssautil.Packages(pkgs, bmode)
	}
	prog.Build()
	c.Prog = prog
	for i, sp := range spkgs {
		if sp == nil {
			return nil, fmt.Errorf("no SSA for package %s", pkgs[i].PkgPath)
		}
	}
	for _, p := range c.Pkgs {
		sp := prog.Package(p.Types)
		if sp == nil {
			return nil, fmt.Errorf("no SSA package for %s", p.PkgPath)
		}
		c.SSA[p.PkgPath] = sp
	}
	// collect source functions
	seen := map[*ssa.Function]bool{}
	var add func(f *ssa.Function)
	add = func(f *ssa.Function) {
		if f == nil || seen[f] {
			return
		}
		seen[f] = true
		if f.Synthetic == "" || strings.HasPrefix(f.Synthetic, "package init") {
			c.Funcs = append(c.Funcs, f)
		}
		for _, a := range f.AnonFuncs {
			add(a)
		}
	}
	for _, p := range c.Pkgs {
		sp := c.SSA[p.PkgPath]
		for _, m := range sp.Members {
			switch m := m.(type) {
			case *ssa.Function:
				add(m)
			case *ssa.Type:
				for _, t := range []types.Type{m.Type(), types.NewPointer(m.Type())} {
					ms := prog.MethodSets.MethodSet(t)
					for i := 0; i < ms.Len(); i++ {
						fn := prog.MethodValue(ms.At(i))
						if fn != nil && fn.Synthetic == "" && fn.Pkg == sp {
							add(fn)
						}
					}
				}
			}
		}
	}
	sort.Slice(c.Funcs, func(i, j int) bool { return fname(c.Funcs[i]) < fname(c.Funcs[j]) })
	return c, nil
}

// fname gives the position-free name of a function: "layer4.(*Connection).Read",
// closures as "layer4.(RouteList).Compile$1$1".
func fname(f *ssa.Function) string {
	if f == nil {
		return "<nil>"
	}
	if f.Parent() != nil {
		// name of anon is like "Compile$1"; build from parent chain
		return fname(f.Parent()) + "$" + anonIndex(f)
	}
	pk := ""
	if f.Pkg != nil {
		pk = short(f.Pkg.Pkg.Path())
	} else if f.Object() != nil && f.Object().Pkg() != nil {
		pk = f.Object().Pkg().Path()
	}
	if recv := f.Signature.Recv(); recv != nil {
		rs := types.TypeString(recv.Type(), func(*types.Package) string { return "" })
		if len(aliasType) > 0 && f.Pkg != nil {
			rs = strings.ReplaceAll(typeStr(recv.Type()), pk+".", "")
		}
		return pk + ".(" + rs + ")." + canonFuncName(f)
	}
	return pk + "." + canonFuncName(f)
}

func anonIndex(f *ssa.Function) string {
	for i, a := range f.Parent().AnonFuncs {
		if a == f {
			return fmt.Sprint(i + 1)
		}
	}
	return "?"
}

// Fn looks a module function up by its position-free name (see fname).
func (c *Ctx) Fn(name string) *ssa.Function {
	for _, f := range c.Funcs {
		if fname(f) == name {
			return f
		}
	}
	return nil
}

func (c *Ctx) pos(p token.Pos) string {
	if !p.IsValid() {
		return "-"
	}
	pp := c.Fset.Position(p)
	rel, err := filepath.Rel(c.Repo, pp.Filename)
	if err != nil {
		rel = pp.Filename
	}
	return fmt.Sprintf("%s:%d", rel, pp.Line)
}

// instrPos finds a usable position for an instruction (falling back to operands / block neighbours).
func (c *Ctx) ipos(i ssa.Instruction) string {
	if i == nil {
		return "-"
	}
	if i.Pos().IsValid() {
		return c.pos(i.Pos())
	}
	if v, ok := i.(ssa.Value); ok {
		_ = v
	}
	// search neighbours in block
	b := i.Block()
	if b != nil {
		idx := -1
		for k, in := range b.Instrs {
			if in == i {
				idx = k
			}
		}
		for d := 1; d < len(b.Instrs); d++ {
			for _, k := range []int{idx - d, idx + d} {
				if k >= 0 && k < len(b.Instrs) && b.Instrs[k].Pos().IsValid() {
					return c.pos(b.Instrs[k].Pos())
				}
			}
		}
		if b.Parent() != nil {
			return c.pos(b.Parent().Pos())
		}
	}
	return "-"
}

// fileOf returns the syntax file containing pos in the module packages.
func (c *Ctx) fileOf(p token.Pos) (*packages.Package, *ast.File) {
	for _, pk := range c.Pkgs {
		for _, f := range pk.Syntax {
			if f.Pos() <= p && p <= f.End() {
				return pk, f
			}
		}
	}
	return nil, nil
}

// namedType finds a named type in a module package given the short path.
func (c *Ctx) namedType(pkgShort, name string) *types.Named {
	for _, p := range c.Pkgs {
		if short(p.PkgPath) == pkgShort {
			if o := p.Types.Scope().Lookup(name); o != nil {
				if n, ok := o.Type().(*types.Named); ok {
					return n
				}
			}
		}
	}
	return nil
}

func (c *Ctx) iface(pkgShort, name string) *types.Interface {
	n := c.namedType(pkgShort, name)
	if n == nil {
		return nil
	}
	i, _ := n.Underlying().(*types.Interface)
	return i
}

// implementors returns the module's methods named meth on types implementing iface.
func (c *Ctx) implementors(iface *types.Interface, meth string) []*ssa.Function {
	var out []*ssa.Function
	seen := map[*ssa.Function]bool{}
	for _, p := range c.Pkgs {
		sc := p.Types.Scope()
		for _, n := range sc.Names() {
			tn, ok := sc.Lookup(n).(*types.TypeName)
			if !ok || tn.IsAlias() {
				continue
			}
			if _, isIface := tn.Type().Underlying().(*types.Interface); isIface {
				continue
			}
			for _, t := range []types.Type{tn.Type(), types.NewPointer(tn.Type())} {
				if !types.Implements(t, iface) {
					continue
				}
				sel := c.Prog.MethodSets.MethodSet(t).Lookup(p.Types, meth)
				if sel == nil {
					continue
				}
				fn := c.Prog.MethodValue(sel)
				if fn == nil {
					continue
				}
				// unwrap promoted-method wrappers: only source functions of the module
				if fn.Synthetic != "" {
					continue
				}
				if !seen[fn] {
					seen[fn] = true
					out = append(out, fn)
				}
				break
			}
		}
	}
	sort.Slice(out, func(i, j int) bool { return fname(out[i]) < fname(out[j]) })
	return out
}
