package main

import (
	"fmt"
	"go/constant"
	"go/token"
	"go/types"
	"sort"
	"strings"

	"golang.org/x/tools/go/ssa"
)

// c18Tiling: a parser that cuts a reassembled buffer at a delimiter found in the data has no fixed layout, but it
// still must account for every byte: the sub-ranges of the buffer that become fields of the message, together
// with the single positions it inspects or stores (the delimiter, a trailing byte), must tile [0, len(buffer)) -
// adjacent ends are proven equal by the bounds prover under the conditions of the block that fills the fields.
// A gap means bytes of an accepted input are dropped: serialising the parsed message cannot reproduce the input
// ("parse rejects rather than truncates").
func c18Tiling(c *Ctx, r *Report, rule string) {
	r.rule(rule, "delimiter-cut messages (Winbox auth): the ranges of the reassembled buffer stored into message fields and the single bytes inspected or stored tile the whole buffer, proven end-to-start with the bounds prover", 1)
	for _, fnName := range []string{"modules/l4winbox.(*MessageAuth).FromChunks"} {
		fn := c.Fn(fnName)
		if fn == nil {
			r.bad(rule, fnName, "exists", "-", "function not found")
			continue
		}
		type piece struct {
			lo, hi lin
			what   string
			field  bool
			blk    *ssa.BasicBlock
			pos    string
		}
		p := c.proverFor(fn)
		p.paramFacts()
		storedToField := func(v ssa.Value) (string, bool) {
			seen := map[ssa.Value]bool{}
			var walk func(v ssa.Value) (string, bool)
			walk = func(v ssa.Value) (string, bool) {
				if v == nil || seen[v] || v.Referrers() == nil {
					return "", false
				}
				seen[v] = true
				for _, ref := range *v.Referrers() {
					switch x := ref.(type) {
					case *ssa.Store:
						if x.Val == v {
							if _, _, f, ok := fieldAddr(x.Addr); ok {
								return f, true
							}
						}
					case *ssa.Convert:
						if f, ok := walk(x); ok {
							return f, true
						}
					case *ssa.ChangeType:
						if f, ok := walk(x); ok {
							return f, true
						}
					}
				}
				return "", false
			}
			return walk(v)
		}
		comparedWithConst := func(v ssa.Value) bool {
			if v.Referrers() == nil {
				return false
			}
			for _, ref := range *v.Referrers() {
				if b, ok := ref.(*ssa.BinOp); ok && (b.Op == token.EQL || b.Op == token.NEQ) {
					if _, ok := b.X.(*ssa.Const); ok {
						return true
					}
					if _, ok := b.Y.(*ssa.Const); ok {
						return true
					}
				}
			}
			return false
		}
		isBytes := func(t types.Type) bool {
			if s, ok := t.Underlying().(*types.Slice); ok {
				if b, ok := s.Elem().Underlying().(*types.Basic); ok && b.Kind() == types.Uint8 {
					return true
				}
			}
			return false
		}
		groups := map[ssa.Value][]piece{}
		for _, b := range fn.Blocks {
			for _, in := range b.Instrs {
				switch x := in.(type) {
				case *ssa.Slice:
					if !isBytes(x.X.Type()) {
						continue
					}
					f, ok := storedToField(x)
					if !ok {
						continue
					}
					lo, hi := constLin(0), p.lenOf(x.X)
					if x.Low != nil {
						lo = p.lin(x.Low)
					}
					if x.High != nil {
						hi = p.lin(x.High)
					}
					groups[x.X] = append(groups[x.X], piece{lo, hi, "field " + f, true, b, c.ipos(x)})
				case *ssa.Call:
					// a delimiter located by a search: the byte at the returned position is the delimiter
					if id := calleeID(x); (id == "bytes.IndexByte" || id == "slices.Index") && len(x.Call.Args) == 2 && isBytes(x.Call.Args[0].Type()) {
						if _, isConst := x.Call.Args[1].(*ssa.Const); isConst {
							lo := p.lin(x)
							groups[x.Call.Args[0]] = append(groups[x.Call.Args[0]], piece{lo, addLin(lo, constLin(1)), "byte located by a search for a constant", false, b, c.ipos(x)})
						}
					}
				case *ssa.IndexAddr:
					if !isBytes(x.X.Type()) || x.Referrers() == nil {
						continue
					}
					for _, ref := range *x.Referrers() {
						ld, ok := ref.(*ssa.UnOp)
						if !ok || ld.Op != token.MUL {
							continue
						}
						f, isField := storedToField(ld)
						if !isField && !comparedWithConst(ld) {
							continue
						}
						lo := p.lin(x.Index)
						what := "byte compared with a constant"
						if isField {
							what = "field " + f
						}
						groups[x.X] = append(groups[x.X], piece{lo, addLin(lo, constLin(1)), what, isField, b, c.ipos(x)})
					}
				}
			}
		}
		// the buffer: the value with the most pieces that became fields
		var buf ssa.Value
		best := 0
		for v, ps := range groups {
			k := 0
			for _, q := range ps {
				if q.field {
					k++
				}
			}
			if k > best || (k == best && k > 0 && buf != nil && v.Pos() < buf.Pos()) {
				buf, best = v, k
			}
		}
		if buf == nil || best < 2 {
			r.bad(rule, fnName, "buffer tiling", c.pos(fn.Pos()), "undecided: no buffer found of which at least two ranges become message fields")
			continue
		}
		ps := groups[buf]
		// the block in which the fields are filled: the last field piece's block
		var at *ssa.BasicBlock
		for _, q := range ps {
			if q.field {
				at = q.blk
			}
		}
		eq := func(a, b lin) bool {
			if !a.ok || !b.ok {
				return false
			}
			d1, d2 := addLin(a, negLin(b)), addLin(b, negLin(a))
			return d1.ok && d2.ok && p.entails(at, d1, 0) && p.entails(at, d2, 0)
		}
		sort.SliceStable(ps, func(i, j int) bool { return ps[i].pos < ps[j].pos })
		cur, end := constLin(0), p.lenOf(buf)
		used := make([]bool, len(ps))
		var chain []string
		okTiling := false
		for steps := 0; steps <= len(ps); steps++ {
			if eq(cur, end) {
				okTiling = true
				break
			}
			advanced := false
			for i, q := range ps {
				if !used[i] && eq(q.lo, cur) {
					used[i] = true
					chain = append(chain, fmt.Sprintf("[%s, %s) %s", q.lo, q.hi, q.what))
					cur = q.hi
					advanced = true
					break
				}
			}
			if !advanced {
				break
			}
		}
		var rest []string
		for i, q := range ps {
			if !used[i] {
				rest = append(rest, fmt.Sprintf("[%s, %s) %s", q.lo, q.hi, q.what))
			}
		}
		r.check(okTiling, rule, fnName, "buffer tiling", c.ipos(at.Instrs[0]), fmt.Sprintf("%d pieces tile the buffer: %s", len(chain), strings.Join(chain, " ")),
			fmt.Sprintf("the parsed fields do not cover the reassembled buffer: covered up to %s by %s; the rest (%s) does not continue there up to %s - bytes of an accepted message are dropped, serialising it cannot reproduce the input", cur, strings.Join(chain, " "), strings.Join(rest, " "), end))
	}
}

// c18Chunks: Winbox messages travel in chunks [length, type, bytes...] of at most 255 bytes, every chunk but the
// last one full. The parser's chunk arithmetic is evaluated on chunk sequences written from that definition (payload
// sizes around the chunk boundaries; only the length and type bytes are fixed, the content is symbolic), the
// serialiser's on messages of the same payload sizes: both must produce the reference splitting.
func c18Chunks(c *Ctx, r *Report, rule string) {
	r.rule(rule, "Winbox chunking (evaluation of MessageAuth.FromBytes on well-formed chunk sequences for payloads of 35..766 bytes around the chunk boundaries, and of ToChunks for the same payload sizes): the parser accepts every well-formed sequence that is no longer than the longest auth message (MessageAuthBytesMax) and hands on chunks that tile the payload, and rejects the longer ones; sequences with a short inner chunk, a wrong chunk type, a missing tail or bytes behind the last chunk are rejected; the serialiser splits a payload into the same chunks", 2)
	const max = 255
	split := func(n int) []int {
		var out []int
		for n > 0 {
			k := n
			if k > max {
				k = max
			}
			out = append(out, k)
			n -= k
		}
		return out
	}
	sizes := []int{35, 36, 100, 254, 255, 256, 257, 300, 509, 510, 511, 512, 700, 765, 766}
	// ---- parser
	fnName := "modules/l4winbox.(*MessageAuth).FromBytes"
	fn := c.Fn(fnName)
	if fn == nil {
		r.bad(rule, fnName, "exists", "-", "function not found")
	} else {
		type tcase struct {
			name   string
			chunks []int
			types  []int64
			cut    int // bytes removed from the end
			accept bool
		}
		var cases []tcase
		// no auth message is longer than the package's MessageAuthBytesMax: a longer chunk sequence is well formed
		// as chunks go, but it is no auth message, and the parser of auth messages rejects it
		// (the format's own figure: a user name of at most 255 bytes, the delimiter, 32 key bytes and the parity byte
		// make 289 payload bytes at most, which take two chunks of two header bytes each - 293 bytes)
		const payloadMax = 255 + 1 + 32 + 1
		maxTotal := int64(payloadMax + 2*((payloadMax+max-1)/max))
		for _, p := range c.Pkgs {
			if short(p.PkgPath) == "modules/l4winbox" {
				if cst, ok := scopeLookup(p.Types, "MessageAuthBytesMax").(*types.Const); ok {
					if v, ok := constant.Int64Val(constant.ToInt(cst.Val())); ok {
						r.check(v == maxTotal, rule, "modules/l4winbox.MessageAuthBytesMax", "the longest auth message", "-", fmt.Sprintf("%d", maxTotal),
							fmt.Sprintf("the package states MessageAuthBytesMax = %d; the longest auth message (a user name of 255 bytes, the delimiter, 32 key bytes and the parity byte, in two chunks) has %d bytes: with a smaller figure the parser rejects what the serialiser produces for the longest names, with a larger one it accepts what is no auth message", v, maxTotal))
					}
				}
			}
		}
		for _, n := range append(append([]int(nil), sizes...), 289, 290) {
			cs := split(n)
			ts := make([]int64, len(cs))
			for i := range ts {
				ts[i] = 0xFF
			}
			ts[0] = 0x06
			cases = append(cases, tcase{fmt.Sprintf("payload=%d", n), cs, ts, 0, int64(n+2*len(cs)) <= maxTotal})
		}
		cases = append(cases,
			tcase{"short inner chunk", []int{200, 100}, []int64{0x06, 0xFF}, 0, false},
			tcase{"second chunk of type auth", []int{255, 40}, []int64{0x06, 0x06}, 0, false},
			tcase{"first chunk of type prev", []int{60}, []int64{0xFF}, 0, false},
			tcase{"tail missing", []int{255, 40}, []int64{0x06, 0xFF}, 10, false},
			tcase{"second chunk header only", []int{255, 0}, []int64{0x06, 0xFF}, 0, false},
			// bytes behind the last chunk are not part of the message: accepting them means dropping them
			// (parse then serialise gives fewer bytes back)
			tcase{"one byte behind a short chunk", []int{60}, []int64{0x06}, -1, false},
			tcase{"five bytes behind a short chunk", []int{60}, []int64{0x06}, -5, false},
			tcase{"one byte behind the second chunk", []int{255, 40}, []int64{0x06, 0xFF}, -1, false},
			tcase{"twenty bytes behind the second chunk", []int{255, 40}, []int64{0x06, 0xFF}, -20, false},
		)
		var problems []string
		for _, t := range cases {
			total := 0
			heap := map[string]SV{}
			pos := 0
			for i, k := range t.chunks {
				heap[fmt.Sprintf("src[%d]", pos)] = symInt(int64(k))
				heap[fmt.Sprintf("src[%d]", pos+1)] = symInt(t.types[i])
				pos += 2 + k
			}
			total = pos - t.cut
			sc := &Scenario{Name: t.name, MaxVisit: 8, MaxPaths: 2000, NoDefaultInline: true,
				// the package's own small helpers (length checks, the chunk type of a position) are evaluated in place
				Inline: func(f *ssa.Function) bool {
					return f.Pkg == fn.Pkg && f.Signature.Recv() == nil && len(f.Blocks) > 0 && len(f.Blocks) <= 12
				},
				Params: map[string]SV{"recv": symRef("msg", false), "p0": symSlice("src", int64(total))}, Heap: heap}
			var got [][2]int64 // (offset, length) of the chunks handed on
			reached := false
			sc.Call = func(callee string, args []SV, ev *symEval, st *symState) (SV, bool) {
				if strings.HasSuffix(callee, "(*MessageAuth).FromChunks") {
					reached = true
					got = nil
					cl := args[1]
					if cl.Len != nil && cl.Len.Known {
						for i := int64(0); i < cl.Len.N; i++ {
							ch := st.heap[fmt.Sprintf("%s[%d]", cl.Desc, i)]
							b := st.heap[ch.Desc+".Bytes"]
							base, lo := sliceBase(b.Desc)
							ln := int64(-1)
							if b.Len != nil && b.Len.Known {
								ln = b.Len.N
							}
							if base != "src" {
								lo = -1
							}
							got = append(got, [2]int64{lo, ln})
						}
					}
					return SV{K: "ref", Known: true, Nil: true, Desc: "nil"}, true
				}
				return SV{}, false
			}
			paths, err := evalPaths(fn, sc)
			if err != nil || len(paths) != 1 {
				problems = append(problems, fmt.Sprintf("%s: undecided (%d paths, %v)", t.name, len(paths), err))
				continue
			}
			p := paths[0]
			accepted := reached && p.Outcome == "return" && len(p.Ret) == 1 && p.Ret[0].Known && p.Ret[0].Nil
			if accepted != t.accept {
				problems = append(problems, fmt.Sprintf("%s (%d bytes, chunks %v): accepted=%v, the chunk format says %v (%s)", t.name, total, t.chunks, accepted, t.accept, p.retDesc()))
				continue
			}
			if t.accept {
				off := int64(2)
				okTiles := len(got) == len(t.chunks)
				for i := 0; okTiles && i < len(got); i++ {
					if got[i][0] != off || got[i][1] != int64(t.chunks[i]) {
						okTiles = false
					}
					off += int64(t.chunks[i]) + 2
				}
				if !okTiles {
					problems = append(problems, fmt.Sprintf("%s: the chunks handed on are %v (offset, length), expected the payload ranges of %v", t.name, got, t.chunks))
				}
			}
		}
		r.check(len(problems) == 0, rule, fnName, "chunk sequences", c.pos(fn.Pos()), fmt.Sprintf("%d sequences", len(cases)), strings.Join(problems, "; "))
	}
	// ---- serialiser
	toName := "modules/l4winbox.(*MessageAuth).ToChunks"
	tf := c.Fn(toName)
	if tf == nil {
		r.bad(rule, toName, "exists", "-", "function not found")
		return
	}
	var problems []string
	for _, n := range sizes {
		u := int64(n - 34)
		ul := symInt(u)
		sc := &Scenario{Name: fmt.Sprintf("payload=%d", n), MaxVisit: 8, MaxPaths: 2000,
			Params: map[string]SV{"recv": symRef("msg", false)},
			Heap:   map[string]SV{"msg.Username": {K: "str", Desc: "user", Len: &ul}, "msg.PublicKeyBytes": symSlice("key", 32), "msg.PublicKeyParity": {K: "int", Desc: "parity"}}}
		paths, err := evalPaths(tf, sc)
		if err != nil || len(paths) != 1 || len(paths[0].Ret) != 1 {
			problems = append(problems, fmt.Sprintf("payload=%d: undecided (%d paths, %v)", n, len(paths), err))
			continue
		}
		p := paths[0]
		ret := p.Ret[0]
		var got []int64
		if ret.Len != nil && ret.Len.Known {
			for i := int64(0); i < ret.Len.N; i++ {
				ch := p.Heap[fmt.Sprintf("%s[%d]", ret.Desc, i)]
				l := p.Heap[ch.Desc+".Length"]
				b := p.Heap[ch.Desc+".Bytes"]
				if l.Known && b.Len != nil && b.Len.Known && b.Len.N == l.N {
					got = append(got, l.N)
				} else {
					got = append(got, -1)
				}
				wantT := int64(0xFF)
				if i == 0 {
					wantT = 0x06
				}
				if t := p.Heap[ch.Desc+".Type"]; !(t.Known && t.N == wantT) {
					problems = append(problems, fmt.Sprintf("payload=%d: chunk %d is serialised with type %s, the chunk format says %#x", n, i, t.Desc, wantT))
				}
			}
		}
		want := split(n)
		same := len(got) == len(want)
		for i := 0; same && i < len(got); i++ {
			if got[i] != int64(want[i]) {
				same = false
			}
		}
		if !same {
			problems = append(problems, fmt.Sprintf("payload=%d: serialised as chunks of %v bytes, the chunk format says %v", n, got, want))
		}
	}
	r.check(len(problems) == 0, rule, toName, "chunk splitting", c.pos(tf.Pos()), fmt.Sprintf("%d payload sizes", len(sizes)), strings.Join(problems, "; "))
}

// c18NarrowLen: a length guard decides on the real length. A `len(x)` converted to a narrower integer type before
// it is compared wraps at 2^width: an input of size+k*2^width bytes passes an exact-size guard and is then parsed
// from its first bytes only - the parser truncates instead of rejecting. Every comparison in the module whose
// operand is such a converted length must have the length proven to fit the narrower type where it is converted.
func c18NarrowLen(c *Ctx, r *Report, rule string) {
	r.rule(rule, "no comparison on a truncated length: a len() converted to an 8- or 16-bit integer type and then compared (size guards of the parsers) has the length proven below 2^width at the conversion; otherwise inputs of size+k*2^width pass the guard and are parsed from a prefix", 0)
	n := 0
	for _, fn := range c.Funcs {
		if len(fn.Blocks) == 0 {
			continue
		}
		var p *prover
		for _, b := range fn.Blocks {
			for _, in := range b.Instrs {
				cv, ok := in.(*ssa.Convert)
				if !ok {
					continue
				}
				call, ok := cv.X.(*ssa.Call)
				if !ok || calleeID(call) != "builtin len" {
					continue
				}
				bt, ok := cv.Type().Underlying().(*types.Basic)
				if !ok || bt.Info()&types.IsInteger == 0 {
					continue
				}
				var limit int64
				switch bt.Kind() {
				case types.Uint8:
					limit = 1<<8 - 1
				case types.Int8:
					limit = 1<<7 - 1
				case types.Uint16:
					limit = 1<<16 - 1
				case types.Int16:
					limit = 1<<15 - 1
				default: // 32-bit and wider: no buffer of this program comes near 2^31 bytes (C04.R2 bounds every per-connection allocation by 65 KiB)
					continue
				}
				compared := false
				if cv.Referrers() != nil {
					for _, u := range *cv.Referrers() {
						if bo, ok := u.(*ssa.BinOp); ok {
							switch bo.Op {
							case token.EQL, token.NEQ, token.LSS, token.LEQ, token.GTR, token.GEQ:
								compared = true
							}
						}
					}
				}
				if !compared {
					continue
				}
				n++
				if p == nil {
					p = newProver(c, fn)
				}
				l := p.lin(cv.X)
				ok = l.ok && p.entails(b, l, limit)
				r.check(ok, rule, fname(fn), fmt.Sprintf("%s #%d", c.exprAt(fn, cv.Pos()), n), c.ipos(cv), "the length is proven to fit the narrower type", fmt.Sprintf("a length is converted to %s and then compared: lengths that differ by a multiple of %d are indistinguishable for the guard (an over-long input is accepted and parsed from its first bytes)", bt.Name(), limit+1))
			}
		}
	}
	if n == 0 {
		r.ok(rule, "module", "no comparison on a converted length", "-", fmt.Sprintf("%d functions scanned: no len() is narrowed before a comparison", len(c.Funcs)))
	}
}
