package main

import (
	"fmt"
	"go/token"
	"go/types"
	"sort"
	"strings"

	"golang.org/x/tools/go/ssa"
)

// c18Tiling: a parser that cuts a reassembled buffer at a delimiter found in the data has no fixed layout, but it
// still must account for every byte: the sub-ranges of the buffer that become fields of the message, together
// with the single positions it inspects or stores (the delimiter, a trailing byte), must tile [0, len(buffer)) -
// adjacent ends are proven equal by the bounds prover under the conditions of the block that fills the fields.
// A gap means bytes of an accepted input are dropped: serialising the parsed message cannot reproduce the input
// ("parse rejects rather than truncates").
func c18Tiling(c *Ctx, r *Report, rule string) {
	r.rule(rule, "delimiter-cut messages (Winbox auth): the ranges of the reassembled buffer stored into message fields and the single bytes inspected or stored tile the whole buffer, proven end-to-start with the bounds prover", 1)
	for _, fnName := range []string{"modules/l4winbox.(*MessageAuth).FromChunks"} {
		fn := c.Fn(fnName)
		if fn == nil {
			r.bad(rule, fnName, "exists", "-", "function not found")
			continue
		}
		type piece struct {
			lo, hi lin
			what   string
			field  bool
			blk    *ssa.BasicBlock
			pos    string
		}
		p := c.proverFor(fn)
		p.paramFacts()
		storedToField := func(v ssa.Value) (string, bool) {
			seen := map[ssa.Value]bool{}
			var walk func(v ssa.Value) (string, bool)
			walk = func(v ssa.Value) (string, bool) {
				if v == nil || seen[v] || v.Referrers() == nil {
					return "", false
				}
				seen[v] = true
				for _, ref := range *v.Referrers() {
					switch x := ref.(type) {
					case *ssa.Store:
						if x.Val == v {
							if _, _, f, ok := fieldAddr(x.Addr); ok {
								return f, true
							}
						}
					case *ssa.Convert:
						if f, ok := walk(x); ok {
							return f, true
						}
					case *ssa.ChangeType:
						if f, ok := walk(x); ok {
							return f, true
						}
					}
				}
				return "", false
			}
			return walk(v)
		}
		comparedWithConst := func(v ssa.Value) bool {
			if v.Referrers() == nil {
				return false
			}
			for _, ref := range *v.Referrers() {
				if b, ok := ref.(*ssa.BinOp); ok && (b.Op == token.EQL || b.Op == token.NEQ) {
					if _, ok := b.X.(*ssa.Const); ok {
						return true
					}
					if _, ok := b.Y.(*ssa.Const); ok {
						return true
					}
				}
			}
			return false
		}
		isBytes := func(t types.Type) bool {
			if s, ok := t.Underlying().(*types.Slice); ok {
				if b, ok := s.Elem().Underlying().(*types.Basic); ok && b.Kind() == types.Uint8 {
					return true
				}
			}
			return false
		}
		groups := map[ssa.Value][]piece{}
		for _, b := range fn.Blocks {
			for _, in := range b.Instrs {
				switch x := in.(type) {
				case *ssa.Slice:
					if !isBytes(x.X.Type()) {
						continue
					}
					f, ok := storedToField(x)
					if !ok {
						continue
					}
					lo, hi := constLin(0), p.lenOf(x.X)
					if x.Low != nil {
						lo = p.lin(x.Low)
					}
					if x.High != nil {
						hi = p.lin(x.High)
					}
					groups[x.X] = append(groups[x.X], piece{lo, hi, "field " + f, true, b, c.ipos(x)})
				case *ssa.IndexAddr:
					if !isBytes(x.X.Type()) || x.Referrers() == nil {
						continue
					}
					for _, ref := range *x.Referrers() {
						ld, ok := ref.(*ssa.UnOp)
						if !ok || ld.Op != token.MUL {
							continue
						}
						f, isField := storedToField(ld)
						if !isField && !comparedWithConst(ld) {
							continue
						}
						lo := p.lin(x.Index)
						what := "byte compared with a constant"
						if isField {
							what = "field " + f
						}
						groups[x.X] = append(groups[x.X], piece{lo, addLin(lo, constLin(1)), what, isField, b, c.ipos(x)})
					}
				}
			}
		}
		// the buffer: the value with the most pieces that became fields
		var buf ssa.Value
		best := 0
		for v, ps := range groups {
			k := 0
			for _, q := range ps {
				if q.field {
					k++
				}
			}
			if k > best || (k == best && k > 0 && buf != nil && v.Pos() < buf.Pos()) {
				buf, best = v, k
			}
		}
		if buf == nil || best < 2 {
			r.bad(rule, fnName, "buffer tiling", c.pos(fn.Pos()), "undecided: no buffer found of which at least two ranges become message fields")
			continue
		}
		ps := groups[buf]
		// the block in which the fields are filled: the last field piece's block
		var at *ssa.BasicBlock
		for _, q := range ps {
			if q.field {
				at = q.blk
			}
		}
		eq := func(a, b lin) bool {
			if !a.ok || !b.ok {
				return false
			}
			d1, d2 := addLin(a, negLin(b)), addLin(b, negLin(a))
			return d1.ok && d2.ok && p.entails(at, d1, 0) && p.entails(at, d2, 0)
		}
		sort.SliceStable(ps, func(i, j int) bool { return ps[i].pos < ps[j].pos })
		cur, end := constLin(0), p.lenOf(buf)
		used := make([]bool, len(ps))
		var chain []string
		okTiling := false
		for steps := 0; steps <= len(ps); steps++ {
			if eq(cur, end) {
				okTiling = true
				break
			}
			advanced := false
			for i, q := range ps {
				if !used[i] && eq(q.lo, cur) {
					used[i] = true
					chain = append(chain, fmt.Sprintf("[%s, %s) %s", q.lo, q.hi, q.what))
					cur = q.hi
					advanced = true
					break
				}
			}
			if !advanced {
				break
			}
		}
		var rest []string
		for i, q := range ps {
			if !used[i] {
				rest = append(rest, fmt.Sprintf("[%s, %s) %s", q.lo, q.hi, q.what))
			}
		}
		r.check(okTiling, rule, fnName, "buffer tiling", c.ipos(at.Instrs[0]), fmt.Sprintf("%d pieces tile the buffer: %s", len(chain), strings.Join(chain, " ")),
			fmt.Sprintf("the parsed fields do not cover the reassembled buffer: covered up to %s by %s; the rest (%s) does not continue there up to %s - bytes of an accepted message are dropped, serialising it cannot reproduce the input", cur, strings.Join(chain, " "), strings.Join(rest, " "), end))
	}
}
