package main

import (
	"bytes"
	"fmt"
	"go/ast"
	"go/constant"
	"go/types"
	"net"
	"net/netip"
	"os"
	"regexp"
	"sort"
	"strconv"
	"strings"

	"golang.org/x/tools/go/ssa"
)

// Verdict tables of the small protocol matchers (C14.R8). The Match method is evaluated path by path with the
// evaluator on a first message whose bytes the scenario fixes (reads from the connection deliver these bytes;
// a read beyond the message answers "need more"), for matcher configurations given as provisioned state. The
// verdict must equal the reference predicate written here from the protocol definition - independent of how
// the matcher is coded (which comparisons, helpers, loops it uses).

type msgCase struct {
	name string
	msg  []byte
	want string // "yes", "no", "more"
}

type msgMatcher struct {
	fn      string
	cfgName string
	heap    func(h map[string]SV) // provisioned configuration
	local   string                // "tcp" / "udp": the dynamic type of the connection's local address ("" = unknown)
	cfg     func(h map[string]SV) // the configuration as written (exported fields): Provision is evaluated on it and Match runs in the state it leaves; heap is then only the fallback where Provision cannot be evaluated
	cases   []msgCase
	source  string
}

func byteSliceSV(h map[string]SV, desc string, b []byte) SV {
	for i, x := range b {
		h[fmt.Sprintf("%s[%d]", desc, i)] = symInt(int64(x))
	}
	l := symInt(int64(len(b)))
	return SV{K: "slice", Desc: desc, Len: &l, Cap: &l, Known: true}
}

func u16SliceSV(h map[string]SV, desc string, b []uint16) SV {
	for i, x := range b {
		h[fmt.Sprintf("%s[%d]", desc, i)] = symInt(int64(x))
	}
	l := symInt(int64(len(b)))
	return SV{K: "slice", Desc: desc, Len: &l, Cap: &l, Known: true}
}

// concreteBytes returns the bytes of a slice/string value whose length and elements are known in st.
func concreteBytes(st *symState, v SV) ([]byte, bool) {
	if v.K == "str" && v.Known {
		return []byte(v.S), true
	}
	if v.Len == nil || !v.Len.Known {
		return nil, false
	}
	// the evaluator names the elements of a slice value by its own description; a sub-slice x[a:b] of a
	// buffer is looked up in the buffer it was cut from
	try := func(base string, lo int64) ([]byte, bool) {
		out := make([]byte, v.Len.N)
		_, dirty := st.heap["written:"+base]
		zeroed := strings.HasPrefix(base, "cell:makeslice#") && !strings.Contains(base, "[") && !dirty // a make([]T, const) nothing unknown wrote to
		for i := int64(0); i < v.Len.N; i++ {
			e, ok := st.heap[fmt.Sprintf("%s[%d]", base, lo+i)]
			if !ok && zeroed {
				continue // still the zero value
			}
			if !ok || !(e.K == "int" && e.Known) {
				return nil, false
			}
			out[i] = byte(e.N)
		}
		return out, true
	}
	if b, ok := try(v.Desc, 0); ok {
		return b, true
	}
	desc, off := v.Desc, int64(0)
	for {
		m := anySliceRe.FindStringSubmatch(desc)
		if m == nil {
			return nil, false
		}
		var lo int64
		if m[2] != "" {
			fmt.Sscan(m[2], &lo)
		}
		off += lo
		desc = m[1]
		if b, ok := try(desc, off); ok {
			return b, true
		}
	}
}

// concreteInts returns the elements of a slice whose length and integer elements are known in st.
func concreteInts(st *symState, v SV) ([]int64, bool) {
	if v.Len == nil || !v.Len.Known {
		return nil, false
	}
	out := make([]int64, v.Len.N)
	for i := int64(0); i < v.Len.N; i++ {
		e, ok := st.heap[fmt.Sprintf("%s[%d]", v.Desc, i)]
		if !ok || !(e.K == "int" && e.Known) {
			return nil, false
		}
		out[i] = e.N
	}
	return out, true
}

func msgScenario(c *Ctx, mm msgMatcher, mc msgCase) *Scenario {
	sc := &Scenario{Name: mm.cfgName + "," + mc.name, MaxVisit: 400, MaxPaths: 4000, ConcreteCopy: true,
		Params: map[string]SV{"recv": symRef("m", false), "p0": symRef("cx", false)},
		Heap:   map[string]SV{"msg.pos": symInt(0)},
	}
	if st := provisionedState(c, mm); st != nil {
		for k, v := range st {
			sc.Heap[k] = v
		}
	} else if mm.heap != nil {
		msgCtx = c
		mm.heap(sc.Heap)
	}
	if root := c.Fn(mm.fn); root != nil {
		// parsers of the same package (FromBytes ...) are evaluated in place
		sc.Inline = func(f *ssa.Function) bool { return f.Pkg != nil && f.Pkg == root.Pkg && f != root && f.Parent() == nil }
	}
	// package-level byte/string variables with constant initialisers are part of the program text
	if fn := c.Fn(mm.fn); fn != nil && fn.Pkg != nil {
		pk := short(fn.Pkg.Pkg.Path())
		for name, mem := range fn.Pkg.Members {
			g, ok := mem.(*ssa.Global)
			if !ok {
				continue
			}
			key := "global:" + globalName(g)
			if bs := varInitBytes(c, pk, name); bs != nil {
				sc.Heap[key] = byteSliceSV(sc.Heap, key, bs)
			} else if xs, ok := varInitInts(c, pk, name); ok {
				l := symInt(int64(len(xs)))
				for i, x := range xs {
					sc.Heap[fmt.Sprintf("%s[%d]", key, i)] = symInt(x)
				}
				sc.Heap[key] = SV{K: "slice", Desc: key, Len: &l, Cap: &l, Known: true}
			} else if ss, ok := varInitStrings(c, pk, name); ok {
				l := symInt(int64(len(ss)))
				for i, x := range ss {
					sc.Heap[fmt.Sprintf("%s[%d]", key, i)] = symStr(x)
				}
				sc.Heap[key] = SV{K: "slice", Desc: key, Len: &l, Cap: &l, Known: true}
			} else if s, ok := varInitString(c, pk, name).(string); ok {
				l := symInt(int64(len(s)))
				sc.Heap[key] = SV{K: "str", Known: true, S: s, Len: &l, Desc: fmt.Sprintf("%q", s)}
			} else if varInitIsNewError(c, pk, name) {
				sc.Heap[key] = SV{K: "ref", Known: true, Desc: key} // errors.New(...): a non-nil sentinel
			} else if pat, ok := varInitRegexp(c, pk, name); ok {
				sc.Heap[key] = symRef(key, false)
				sc.Heap["regexp:"+key] = symStr(pat)
			} else if e, info := findVarInit(c, pk, name); e != nil {
				if tv, ok := info.Types[e]; ok && tv.Value != nil {
					if _, isInt := tv.Type.Underlying().(*types.Basic); isInt {
						if cv := constOfTV(tv); cv != nil {
							sc.Heap[key] = *cv
						}
					}
				}
			}
		}
	}
	msg := mc.msg
	read := func(st *symState, buf SV, atLeast int64) (SV, bool) {
		if buf.Len == nil || !buf.Len.Known {
			return SV{}, false
		}
		pos := st.heap["msg.pos"].N
		want := buf.Len.N
		avail := int64(len(msg)) - pos
		tup := func(n int64, e SV) SV { return SV{K: "tuple", Desc: "rd", Elems: []SV{symInt(n), e}} }
		needMore := SV{K: "ref", Known: true, Desc: "global:layer4.ErrConsumedAllPrefetchedBytes"}
		n := want
		if avail < want {
			n = avail
		}
		base, off := sliceBase(buf.Desc)
		for i := int64(0); i < n; i++ {
			st.heap[fmt.Sprintf("%s[%d]", buf.Desc, i)] = symInt(int64(msg[pos+i]))
			st.heap[fmt.Sprintf("%s[%d]", base, off+i)] = symInt(int64(msg[pos+i])) // the object the destination was cut from
		}
		st.heap["msg.pos"] = symInt(pos + n)
		if n < atLeast {
			return tup(n, needMore), true
		}
		return tup(n, symNil()), true
	}
	sc.Call = func(callee string, args []SV, ev *symEval, st *symState) (SV, bool) {
		switch {
		case callee == "io.ReadFull" && len(args) == 2:
			if args[1].Len != nil && args[1].Len.Known {
				return read(st, args[1], args[1].Len.N)
			}
		case callee == "io.ReadAtLeast" && len(args) == 3 && args[2].K == "int" && args[2].Known:
			return read(st, args[1], args[2].N)
		case callee == "layer4.(*Connection).Read" && len(args) == 2:
			return read(st, args[1], 1)
		case strings.HasSuffix(callee, ".LocalAddr") && mm.local != "":
			if np := c.Prog.ImportedPackage("net"); np != nil {
				name := map[string]string{"tcp": "TCPAddr", "udp": "UDPAddr"}[mm.local]
				if t := np.Type(name); t != nil {
					return SV{K: "ref", Known: true, Desc: "localaddr", DynT: types.NewPointer(t.Type()), Dyn: typeStr(types.NewPointer(t.Type()))}, true
				}
			}
		case strings.HasPrefix(callee, "slices.Contains") && len(args) == 2 && args[1].K == "int" && args[1].Known:
			if xs, ok := concreteInts(st, args[0]); ok {
				for _, x := range xs {
					if x == args[1].N {
						return symBool(true), true
					}
				}
				return symBool(false), true
			}
		case callee == "bytes.NewBuffer" && len(args) == 1:
			id := ev.fresh("cbuf")
			st.heap[id+".data"] = args[0]
			st.heap[id+".pos"] = symInt(0)
			return symRef(id, false), true
		case callee == "(*bytes.Buffer).Len" && len(args) == 1:
			if d, ok := st.heap[args[0].Desc+".data"]; ok && d.Len != nil && d.Len.Known {
				return symInt(d.Len.N - st.heap[args[0].Desc+".pos"].N), true
			}
		case callee == "(*bytes.Buffer).Bytes" && len(args) == 1:
			if d, ok := st.heap[args[0].Desc+".data"]; ok && d.Len != nil && d.Len.Known {
				pos := st.heap[args[0].Desc+".pos"].N
				l := symInt(d.Len.N - pos)
				return SV{K: "slice", Desc: fmt.Sprintf("%s[%d:]", d.Desc, pos), Len: &l, Cap: &l}, true
			}
		case callee == "encoding/binary.Read" && len(args) == 3:
			d, ok := st.heap[args[0].Desc+".data"]
			if !ok {
				break
			}
			all, okb := concreteBytes(st, d)
			if !okb {
				break
			}
			pos := st.heap[args[0].Desc+".pos"].N
			little := false
			if mi, ok := ev.curCall.Call.Args[1].(*ssa.MakeInterface); ok {
				little = byteOrderOf(mi.X.Type()) == "LE"
			}
			var pt types.Type
			if mi, ok := ev.curCall.Call.Args[2].(*ssa.MakeInterface); ok {
				pt = mi.X.Type()
			} else if args[2].DynT != nil {
				pt = args[2].DynT
			}
			ptr, isPtr := pt.(*types.Pointer)
			if !isPtr {
				break
			}
			failed := false
			var put func(t types.Type, addr string)
			put = func(t types.Type, addr string) {
				switch u := t.Underlying().(type) {
				case *types.Struct:
					for i := 0; i < u.NumFields(); i++ {
						put(u.Field(i).Type(), addr+"."+canonFieldName(u.Field(i)))
					}
				case *types.Array:
					for i := int64(0); i < u.Len(); i++ {
						put(u.Elem(), fmt.Sprintf("%s[%d]", addr, i))
					}
				case *types.Slice:
					// a slice target is filled up to its length (binary.Read reads len(slice) elements)
					tv, ok := st.heap[addr]
					if !ok || tv.Len == nil || !tv.Len.Known {
						failed = true
						return
					}
					for i := int64(0); i < tv.Len.N; i++ {
						put(u.Elem(), fmt.Sprintf("%s[%d]", tv.Desc, i))
					}
				case *types.Basic:
					n, okSz := sizeOfFixed(t)
					if !okSz || pos+n > int64(len(all)) {
						failed = true
						return
					}
					var v int64
					for i := int64(0); i < n; i++ {
						if little {
							v |= int64(all[pos+i]) << (8 * uint(i))
						} else {
							v = v<<8 | int64(all[pos+i])
						}
					}
					st.heap[addr] = symInt(v)
					pos += n
				default:
					failed = true
				}
			}
			put(ptr.Elem(), args[2].Desc)
			if os.Getenv("L4DEBUG") == "tbl" {
				fmt.Println("DBGBR", args[2].Desc, typeStr(ptr.Elem()), "failed", failed, "pos", pos, "len", len(all))
			}
			if failed {
				return SV{K: "ref", Known: true, Desc: "io.ErrUnexpectedEOF"}, true
			}
			st.heap[args[0].Desc+".pos"] = symInt(pos)
			return symNil(), true
		case (callee == "bytes.IndexByte" || callee == "strings.IndexByte") && len(args) == 2 && args[1].K == "int" && args[1].Known:
			if a, ok := concreteBytes(st, args[0]); ok {
				return symInt(int64(bytes.IndexByte(a, byte(args[1].N)))), true
			}
		case (callee == "bytes.Index" || callee == "strings.Index") && len(args) == 2:
			a, ok1 := concreteBytes(st, args[0])
			b, ok2 := concreteBytes(st, args[1])
			if ok1 && ok2 {
				return symInt(int64(bytes.Index(a, b))), true
			}
		case (strings.HasPrefix(callee, "slices.Contains") || strings.HasPrefix(callee, "slices.Index")) && len(args) == 2 && args[1].K == "int" && args[1].Known:
			if xs, ok := concreteInts(st, args[0]); ok {
				idx := int64(-1)
				for i, x := range xs {
					if x == args[1].N {
						idx = int64(i)
						break
					}
				}
				if strings.HasPrefix(callee, "slices.Contains") {
					return symBool(idx >= 0), true
				}
				return symInt(idx), true
			}
		case callee == "strings.EqualFold" && len(args) == 2 && args[0].K == "str" && args[0].Known && args[1].K == "str" && args[1].Known:
			return symBool(strings.EqualFold(args[0].S, args[1].S)), true
		case callee == "bytes.Compare" && len(args) == 2:
			a, ok1 := concreteBytes(st, args[0])
			b, ok2 := concreteBytes(st, args[1])
			if ok1 && ok2 {
				return symInt(int64(bytes.Compare(a, b))), true
			}
		case callee == "bytes.Equal" && len(args) == 2:
			a, ok1 := concreteBytes(st, args[0])
			b, ok2 := concreteBytes(st, args[1])
			if ok1 && ok2 {
				return symBool(bytes.Equal(a, b)), true
			}
		case (callee == "bytes.TrimSuffix" || callee == "bytes.TrimPrefix") && len(args) == 2 && args[0].K == "slice":
			// a sub-slice of the first argument (or the argument itself)
			a, ok1 := concreteBytes(st, args[0])
			b, ok2 := concreteBytes(st, args[1])
			if ok1 && ok2 {
				lo, hi := int64(0), int64(len(a))
				if callee == "bytes.TrimSuffix" && bytes.HasSuffix(a, b) {
					hi -= int64(len(b))
				} else if callee == "bytes.TrimPrefix" && bytes.HasPrefix(a, b) {
					lo += int64(len(b))
				} else {
					return args[0], true
				}
				l := symInt(hi - lo)
				res := SV{K: "slice", Desc: fmt.Sprintf("%s[%d:%d]", args[0].Desc, lo, hi), Len: &l}
				if args[0].Cap != nil && args[0].Cap.Known {
					cp := symInt(args[0].Cap.N - lo)
					res.Cap = &cp
				}
				return res, true
			}
		case callee == "bytes.HasPrefix" && len(args) == 2:
			a, ok1 := concreteBytes(st, args[0])
			b, ok2 := concreteBytes(st, args[1])
			if ok1 && ok2 {
				return symBool(bytes.HasPrefix(a, b)), true
			}
		case (callee == "strings.Contains" || callee == "bytes.Contains") && len(args) == 2:
			a, ok1 := concreteBytes(st, args[0])
			b, ok2 := concreteBytes(st, args[1])
			if ok1 && ok2 {
				return symBool(bytes.Contains(a, b)), true
			}
		case callee == "strings.HasSuffix" && len(args) == 2:
			a, ok1 := concreteBytes(st, args[0])
			b, ok2 := concreteBytes(st, args[1])
			if ok1 && ok2 {
				return symBool(bytes.HasSuffix(a, b)), true
			}
		case (callee == "(*regexp.Regexp).MatchString" || callee == "(*regexp.Regexp).Match") && len(args) == 2:
			// a regular expression compiled from a constant of the program (or given by the scenario) applied to a
			// known string is computed
			if os.Getenv("L4DEBUG") == "tbl" {
				_, has := st.heap["regexp:"+args[0].Desc]
				sb, okb := concreteBytes(st, args[1])
				fmt.Println("DBGRE", args[0].Desc, has, args[1].K, args[1].Desc, string(sb), okb)
			}
			if pat, ok := st.heap["regexp:"+args[0].Desc]; ok && pat.K == "str" && pat.Known {
				if subj, ok := concreteBytes(st, args[1]); ok {
					if re, err := regexp.Compile(pat.S); err == nil {
						return symBool(re.Match(subj)), true
					}
				}
			}
		case callee == "strings.Split" && len(args) == 2:
			a, ok1 := concreteBytes(st, args[0])
			b, ok2 := concreteBytes(st, args[1])
			if ok1 && ok2 {
				parts := strings.Split(string(a), string(b))
				id := ev.fresh("split")
				for i, p := range parts {
					st.heap[fmt.Sprintf("%s[%d]", id, i)] = symStr(p)
				}
				l := symInt(int64(len(parts)))
				return SV{K: "slice", Desc: id, Len: &l, Cap: &l, Known: true}, true
			}
		case callee == "strconv.ParseUint" && len(args) == 3 && args[1].K == "int" && args[1].Known && args[2].K == "int" && args[2].Known:
			if a, ok := concreteBytes(st, args[0]); ok {
				v, err := strconv.ParseUint(string(a), int(args[1].N), int(args[2].N))
				if err != nil {
					return symTuple(symInt(0), SV{K: "ref", Known: true, Desc: "errParseUint"}), true
				}
				return symTuple(symInt(int64(v)), symNil()), true
			}
		case callee == "strconv.Itoa":
			return SV{K: "str", Desc: "itoa(" + args[0].Desc + ")"}, true
		case (strings.HasPrefix(callee, "(encoding/binary.littleEndian).PutUint") || strings.HasPrefix(callee, "(encoding/binary.bigEndian).PutUint")) && len(args) >= 2:
			buf, v := args[len(args)-2], args[len(args)-1]
			bits := 16
			fmt.Sscan(callee[strings.LastIndex(callee, "PutUint")+7:], &bits)
			if v.K == "int" && v.Known && buf.Len != nil && buf.Len.Known && buf.Len.N >= int64(bits/8) {
				base, off := sliceBase(buf.Desc)
				for i := 0; i < bits/8; i++ {
					shift := uint(8 * i)
					if strings.Contains(callee, "bigEndian") {
						shift = uint(bits - 8 - 8*i)
					}
					b := symInt(int64(byte(uint64(v.N) >> shift)))
					st.heap[fmt.Sprintf("%s[%d]", buf.Desc, i)] = b
					st.heap[fmt.Sprintf("%s[%d]", base, off+int64(i))] = b
				}
				return symOpaque("put"), true
			}
		case callee == "(net.IP).String":
			return SV{K: "str", Desc: "ip(" + args[0].Desc + ")"}, true
		case callee == "(*encoding/base64.Encoding).EncodeToString":
			return SV{K: "str", Desc: "base64"}, true
		case (strings.HasSuffix(callee, "Replacer).ReplaceAll") || strings.HasSuffix(callee, "Replacer).ReplaceKnown")) && len(args) == 3:
			// the replacer as caddy implements it: what is in braces and not known to it is removed by ReplaceAll
			// and kept by ReplaceKnown (the tables use no known placeholders)
			if args[1].K == "str" && args[1].Known && args[2].K == "str" && args[2].Known {
				return symStr(caddyReplace(args[1].S, args[2].S, strings.HasSuffix(callee, ".ReplaceAll"), nil)), true
			}
			return args[1], true
		case strings.Contains(callee, "context.Context.Value"), strings.HasSuffix(callee, "Replacer).Set"):
			return symRef("repl", false), true
		case (callee == "strings.HasPrefix") && len(args) == 2:
			a, ok1 := concreteBytes(st, args[0])
			b, ok2 := concreteBytes(st, args[1])
			if ok1 && ok2 {
				return symBool(bytes.HasPrefix(a, b)), true
			}
		case strings.HasPrefix(callee, "(encoding/binary.bigEndian).Uint") || strings.HasPrefix(callee, "(encoding/binary.littleEndian).Uint"):
			if b, ok := concreteBytes(st, args[len(args)-1]); ok {
				bits := 16
				fmt.Sscan(callee[strings.LastIndex(callee, "Uint")+4:], &bits)
				if len(b) >= bits/8 {
					var v int64
					for i := 0; i < bits/8; i++ {
						if strings.Contains(callee, "bigEndian") {
							v = v<<8 | int64(b[i])
						} else {
							v |= int64(b[i]) << (8 * uint(i))
						}
					}
					return symInt(v), true
				}
			}
		case strings.HasPrefix(callee, "go.uber.org/zap"), strings.HasPrefix(callee, "(*go.uber.org/zap"), strings.HasPrefix(callee, "invoke net."), strings.HasSuffix(callee, ".RemoteAddr"), strings.HasSuffix(callee, ".String"):
			return symOpaque(shortCallee(callee)), true
		}
		return SV{}, false
	}
	return sc
}

var anySliceRe = regexp.MustCompile(`^(.*)\[(\d*):(\d*)\]$`)

// sliceBase resolves nested constant slicings x[a:b][c:d]... to the underlying object and the offset into it.
func sliceBase(desc string) (string, int64) {
	off := int64(0)
	for {
		m := anySliceRe.FindStringSubmatch(desc)
		if m == nil {
			return desc, off
		}
		var lo int64
		if m[2] != "" {
			fmt.Sscan(m[2], &lo)
		}
		off += lo
		desc = m[1]
	}
}

func constOfTV(tv types.TypeAndValue) *SV {
	if tv.Value == nil {
		return nil
	}
	c := ssa.NewConst(tv.Value, tv.Type)
	sv := constSV(c)
	return &sv
}

func wgMsg(n int, typ byte, reserved byte) []byte {
	b := make([]byte, n)
	if n > 0 {
		b[0] = typ
	}
	if n > 1 {
		b[1] = reserved
	}
	for i := 4; i < n; i++ {
		b[i] = byte(i)
	}
	return b
}

// varInitRegexp: the pattern of a package variable initialised with regexp.MustCompile(<constant>).
func varInitRegexp(c *Ctx, pkgShort, name string) (string, bool) {
	e, info := findVarInit(c, pkgShort, name)
	call, ok := e.(*ast.CallExpr)
	if !ok || len(call.Args) != 1 {
		return "", false
	}
	if se, ok := call.Fun.(*ast.SelectorExpr); !ok || se.Sel.Name != "MustCompile" {
		return "", false
	}
	if tv, ok := info.Types[call.Args[0]]; ok && tv.Value != nil && tv.Value.Kind() == constant.String {
		return constant.StringVal(tv.Value), true
	}
	return "", false
}

// varInitIsNewError: a package variable initialised with errors.New / fmt.Errorf.
func varInitIsNewError(c *Ctx, pkgShort, name string) bool {
	e, _ := findVarInit(c, pkgShort, name)
	call, ok := e.(*ast.CallExpr)
	if !ok {
		return false
	}
	se, ok := call.Fun.(*ast.SelectorExpr)
	if !ok {
		return false
	}
	pk, _ := se.X.(*ast.Ident)
	return pk != nil && (pk.Name == "errors" && se.Sel.Name == "New" || pk.Name == "fmt" && se.Sel.Name == "Errorf")
}

// rdpCR: an X.224 Connection Request TPDU in a TPKT: header fields can be overridden.
type rdpHdr struct {
	ver, rsv byte
	lenDelta int
	liDelta  int
	typ      byte
	dst, src uint16
	class    byte
	trailing int
}

func rdpCR(h rdpHdr, payload []byte) []byte {
	total := 4 + 7 + len(payload) + h.lenDelta
	li := 6 + len(payload) + h.liDelta
	ver, typ := byte(3), byte(0xE0)
	if h.ver != 0 {
		ver = h.ver
	}
	if h.typ != 0 {
		typ = h.typ
	}
	out := []byte{ver, h.rsv, byte(total >> 8), byte(total), byte(li), typ, byte(h.dst >> 8), byte(h.dst), byte(h.src >> 8), byte(h.src), h.class}
	out = append(out, payload...)
	for i := 0; i < h.trailing; i++ {
		out = append(out, 0x41)
	}
	return out
}

func rdpNegReq(typ, flags byte, length uint16, protocols uint32) []byte {
	return []byte{typ, flags, byte(length), byte(length >> 8), byte(protocols), byte(protocols >> 8), byte(protocols >> 16), byte(protocols >> 24)}
}

func rdpCorr(typ, flags byte, length uint16, id0 byte, crAt, reservedNonZeroAt int) []byte {
	out := []byte{typ, flags, byte(length), byte(length >> 8)}
	for i := 0; i < 16; i++ {
		b := byte(0x61 + i)
		if i == 0 {
			b = id0
		}
		if i == crAt {
			b = 0x0D
		}
		out = append(out, b)
	}
	for i := 0; i < 16; i++ {
		b := byte(0)
		if i == reservedNonZeroAt {
			b = 1
		}
		out = append(out, b)
	}
	return out
}

func cat(parts ...[]byte) []byte {
	var out []byte
	for _, p := range parts {
		out = append(out, p...)
	}
	return out
}

// rdpToken: a routing token as the matcher's RDPToken type lays it out (TPKT-like prefix, X.224 fields, then the
// cookie text and CR LF); fields can be skewed.
func rdpToken(cookie string, verDelta, lenDelta, liDelta int) []byte {
	opt := append([]byte(cookie), 0x0D, 0x0A)
	total := 11 + len(opt)
	out := []byte{byte(3 + verDelta), 0, byte((total + lenDelta) >> 8), byte(total + lenDelta), byte(total - 5 + liDelta), 0xE0, 0, 0, 0, 0, 0}
	return append(out, opt...)
}

func rdpCfgPorts(ports ...int64) func(h map[string]SV) {
	base := rdpCfg("", "", "", "")
	return func(h map[string]SV) {
		base(h)
		h["m.CookiePorts"] = symSlice("m.CookiePorts", int64(len(ports)))
		for i, p := range ports {
			h[fmt.Sprintf("m.CookiePorts[%d]", i)] = symInt(p)
		}
	}
}

func rdpCfg(hash, hashRe, info, infoRe string) func(h map[string]SV) {
	return func(h map[string]SV) {
		h["m.CookieHash"], h["m.CookieHashRegexp"] = symStr(hash), symStr(hashRe)
		h["m.CustomInfo"], h["m.CustomInfoRegexp"] = symStr(info), symStr(infoRe)
		h["m.cookieHashRegexp"], h["regexp:m.cookieHashRegexp"] = symRef("m.cookieHashRegexp", false), symStr(hashRe)
		h["m.customInfoRegexp"], h["regexp:m.customInfoRegexp"] = symRef("m.customInfoRegexp", false), symStr(infoRe)
		h["m.cookieIPs"], h["m.CookiePorts"] = symSlice("m.cookieIPs", 0), symSlice("m.CookiePorts", 0)
	}
}

var (
	rdpNeg     = rdpNegReq(1, 0, 8, 3)
	rdpCookie  = []byte("Cookie: mstshash=user\r\n")
	rdpCookie2 = []byte("Cookie: mstshash=other\r\n")
	rdpCustom  = []byte("tsv://MS Terminal Services Plugin.1.Farm\r\n")
)

func winboxMsg(user string, keyLen int, parity byte, typ byte, extra int) []byte {
	payload := append([]byte(user), 0)
	for i := 0; i < keyLen; i++ {
		payload = append(payload, byte(0x40+i))
	}
	payload = append(payload, parity)
	out := append([]byte{byte(len(payload)), typ}, payload...)
	for i := 0; i < extra; i++ {
		out = append(out, 0x55)
	}
	return out
}

// winboxLong: an auth message whose payload is split into chunks of at most 255 bytes.
func winboxLong(userLen int, keyZeroAt int) []byte {
	var payload []byte
	for i := 0; i < userLen; i++ {
		payload = append(payload, byte('a'+i%26))
	}
	payload = append(payload, 0)
	for i := 0; i < 32; i++ {
		b := byte(0x40 + i)
		if i == keyZeroAt {
			b = 0
		}
		payload = append(payload, b)
	}
	payload = append(payload, 1)
	var out []byte
	typ := byte(6)
	for len(payload) > 0 {
		k := len(payload)
		if k > 255 {
			k = 255
		}
		out = append(out, byte(k), typ)
		out = append(out, payload[:k]...)
		payload = payload[k:]
		typ = 0xff
	}
	return out
}

func winboxCfg(std, romon bool, user, re string) func(h map[string]SV) {
	return func(h map[string]SV) {
		h["m.acceptStandard"], h["m.acceptRoMON"] = symBool(std), symBool(romon)
		h["m.Username"], h["m.UsernameRegexp"] = symStr(user), symStr(re)
		h["m.usernameRegexp"] = symRef("m.usernameRegexp", false)
		h["regexp:m.usernameRegexp"] = symStr(re)
	}
}

// configurations as written (exported fields): Provision is evaluated on them
func strListSV(h map[string]SV, desc string, xs []string) SV {
	for i, x := range xs {
		h[fmt.Sprintf("%s[%d]", desc, i)] = symStr(x)
	}
	l := symInt(int64(len(xs)))
	if len(xs) == 0 {
		return SV{K: "slice", Desc: desc, Len: &l, Cap: &l, Known: true, Nil: true}
	}
	return SV{K: "slice", Desc: desc, Len: &l, Cap: &l, Known: true}
}

func winboxJSON(modes []string, user, re string) func(h map[string]SV) {
	return func(h map[string]SV) {
		h["m.Modes"] = strListSV(h, "cfgmodes", modes)
		h["m.Username"], h["m.UsernameRegexp"] = symStr(user), symStr(re)
	}
}

func rdpJSON(hash, hashRe, info, infoRe string, ports ...int64) func(h map[string]SV) {
	return func(h map[string]SV) {
		h["m.CookieHash"], h["m.CookieHashRegexp"] = symStr(hash), symStr(hashRe)
		h["m.CustomInfo"], h["m.CustomInfoRegexp"] = symStr(info), symStr(infoRe)
		if len(ports) > 0 {
			h["m.CookiePorts"] = symSlice("m.CookiePorts", int64(len(ports)))
			for i, p := range ports {
				h[fmt.Sprintf("m.CookiePorts[%d]", i)] = symInt(p)
			}
		}
	}
}

func ovpnJSON(modes string, ignoreTS bool) func(h map[string]SV) {
	return func(h map[string]SV) {
		h["m.Modes"] = strListSV(h, "cfgmodes", strings.Split(modes, ","))
		h["m.IgnoreTimestamp"] = symBool(ignoreTS)
		if sizes := digestSizes(msgCtx); sizes != nil {
			key := "global:modules/l4openvpn.AuthDigestSizes"
			h[key] = symSlice(key, int64(len(sizes)))
			for i, v := range sizes {
				h[fmt.Sprintf("%s[%d]", key, i)] = symInt(v)
			}
		}
	}
}

func regexpJSON(pattern string, count int64) func(h map[string]SV) {
	return func(h map[string]SV) { h["m.Pattern"], h["m.Count"] = symStr(pattern), symInt(count) }
}

func pgMsg(code uint32, body []byte) []byte {
	l := uint32(8 + len(body))
	out := []byte{byte(l >> 24), byte(l >> 16), byte(l >> 8), byte(l), byte(code >> 24), byte(code >> 16), byte(code >> 8), byte(code)}
	return append(out, body...)
}

// msgCtx is the program the configuration builders may consult (tables of the program text).
var msgCtx *Ctx

// digestSizes: the distinct Size values of the entries of the openvpn module's AuthDigests table, ascending
// (what its AuthDigestSizes initialiser computes), read from the composite literal.
func digestSizes(c *Ctx) []int64 {
	e, info := findVarInit(c, "modules/l4openvpn", "AuthDigests")
	cl, ok := e.(*ast.CompositeLit)
	if !ok {
		return nil
	}
	seen := map[int64]bool{}
	for _, el := range cl.Elts {
		ecl, ok := el.(*ast.CompositeLit)
		if !ok {
			return nil
		}
		for _, f := range ecl.Elts {
			kv, ok := f.(*ast.KeyValueExpr)
			if !ok {
				continue
			}
			if id, ok := kv.Key.(*ast.Ident); ok && id.Name == "Size" {
				tv, ok := info.Types[kv.Value]
				if !ok || tv.Value == nil {
					return nil
				}
				v, _ := constant.Int64Val(constant.ToInt(tv.Value))
				seen[v] = true
			}
		}
	}
	var out []int64
	for v := range seen {
		out = append(out, v)
	}
	sort.Slice(out, func(i, j int) bool { return out[i] < out[j] })
	return out
}

// ovpnCfg: a provisioned openvpn matcher accepting the given modes, without keys (nothing to decrypt or
// authenticate with), timestamps ignored or not; digest = the size of the configured auth digest (0: none).
func ovpnCfg(modes string, ignoreTS bool, digest int64) func(h map[string]SV) {
	return func(h map[string]SV) {
		h["m.acceptPlain"] = symBool(strings.Contains(modes, "plain"))
		h["m.acceptAuth"] = symBool(strings.Contains(modes, "auth"))
		h["m.acceptCrypt"] = symBool(strings.Contains(modes, "crypt,") || strings.HasSuffix(modes, "crypt"))
		h["m.acceptCrypt2"] = symBool(strings.Contains(modes, "crypt2"))
		h["m.IgnoreCrypto"], h["m.IgnoreTimestamp"] = symBool(false), symBool(ignoreTS)
		h["m.groupKeyAuth"], h["m.groupKeyCrypt"], h["m.serverKey"] = symNil(), symNil(), symNil()
		h["m.clientKeys"] = symSlice("m.clientKeys", 0)
		if digest == 0 {
			h["m.authDigest"] = symNil()
		} else {
			h["m.authDigest"] = symRef("ad", false)
			h["ad.Size"] = symInt(digest)
		}
		if sizes := digestSizes(msgCtx); sizes != nil {
			key := "global:modules/l4openvpn.AuthDigestSizes"
			h[key] = symSlice(key, int64(len(sizes)))
			for i, v := range sizes {
				h[fmt.Sprintf("%s[%d]", key, i)] = symInt(v)
			}
		}
	}
}

func be32(v uint32) []byte { return []byte{byte(v >> 24), byte(v >> 16), byte(v >> 8), byte(v)} }
func be16(v int) []byte    { return []byte{byte(v >> 8), byte(v)} }

var ovpnSID = []byte{1, 2, 3, 4, 5, 6, 7, 8}

// ovpnPlain / ovpnAuth / ovpnCrypt: the client hard reset messages without the opcode byte.
func ovpnPlain(sid []byte, count byte, pid uint32) []byte { return cat(sid, []byte{count}, be32(pid)) }
func ovpnAuth(sid []byte, hmacLen int, rpid, ts uint32, count byte, pid uint32) []byte {
	h := make([]byte, hmacLen)
	for i := range h {
		h[i] = byte(0xa0 + i%16)
	}
	return cat(sid, h, be32(rpid), be32(ts), []byte{count}, be32(pid))
}
func ovpnCrypt(sid []byte, rpid, ts uint32, total int) []byte {
	out := cat(sid, be32(rpid), be32(ts))
	for len(out) < total {
		out = append(out, byte(0xc0+len(out)%16))
	}
	return out
}

// ovpnCrypt2: a tls-crypt-v2 client reset without the opcode byte: the tls-crypt part (53 bytes) and a wrapped
// client key of wk bytes whose last two bytes state its length (declared = -1: the true length).
func ovpnCrypt2(sid []byte, rpid uint32, wk int, declared int) []byte {
	out := ovpnCrypt(sid, rpid, 0, 53)
	for i := 0; i < wk-2; i++ {
		out = append(out, byte(0x30+i%10))
	}
	if declared < 0 {
		declared = wk
	}
	return cat(out, be16(declared))
}

// ovpnUDP / ovpnTCP: a datagram, and the same message behind its two length bytes (declared = -1: the true length).
func ovpnUDP(op byte, body []byte) []byte { return cat([]byte{op}, body) }
func ovpnTCP(op byte, body []byte, declared int) []byte {
	if declared < 0 {
		declared = 1 + len(body)
	}
	return cat(be16(declared), []byte{op}, body)
}

const ovpnV2, ovpnV3 = 7 << 3, 10 << 3

func regexpCfg(pattern string, count int64) func(h map[string]SV) {
	return func(h map[string]SV) {
		h["m.Count"], h["m.Pattern"] = symInt(count), symStr(pattern)
		h["m.compiled"], h["regexp:m.compiled"] = symRef("m.compiled", false), symStr(pattern)
	}
}

var msgMatchers = []msgMatcher{
	{
		fn: "modules/l4openvpn.(*MatchOpenVPN).Match", cfgName: "openvpn plain udp", heap: ovpnCfg("plain", true, 0), cfg: ovpnJSON("plain", true), local: "udp",
		cases: []msgCase{
			{"hard reset v2", ovpnUDP(ovpnV2, ovpnPlain(ovpnSID, 0, 0)), "yes"},
			{"session id of one bit", ovpnUDP(ovpnV2, ovpnPlain([]byte{0, 0, 0, 0, 0, 0, 0, 1}, 0, 0)), "yes"},
			{"session id high bit only", ovpnUDP(ovpnV2, ovpnPlain([]byte{0x80, 0, 0, 0, 0, 0, 0, 0}, 0, 0)), "yes"},
			{"zero session id", ovpnUDP(ovpnV2, ovpnPlain(make([]byte, 8), 0, 0)), "no"},
			{"one acknowledged packet id", ovpnUDP(ovpnV2, ovpnPlain(ovpnSID, 1, 0)), "no"},
			{"packet id 1", ovpnUDP(ovpnV2, ovpnPlain(ovpnSID, 0, 1)), "no"},
			{"packet id 1<<24", ovpnUDP(ovpnV2, ovpnPlain(ovpnSID, 0, 1<<24)), "no"},
			{"key id 1", ovpnUDP(ovpnV2|1, ovpnPlain(ovpnSID, 0, 0)), "no"},
			{"key id 4", ovpnUDP(ovpnV2|4, ovpnPlain(ovpnSID, 0, 0)), "no"},
			{"hard reset v3 opcode", ovpnUDP(ovpnV3, ovpnPlain(ovpnSID, 0, 0)), "no"},
			{"hard reset v1 opcode", ovpnUDP(1<<3, ovpnPlain(ovpnSID, 0, 0)), "no"},
			{"server hard reset v2 opcode", ovpnUDP(8<<3, ovpnPlain(ovpnSID, 0, 0)), "no"},
			{"one byte short", ovpnUDP(ovpnV2, ovpnPlain(ovpnSID, 0, 0)[:12]), "no"},
			{"one byte long", ovpnUDP(ovpnV2, cat(ovpnPlain(ovpnSID, 0, 0), []byte{0})), "no"},
			{"auth-sized message", ovpnUDP(ovpnV2, ovpnAuth(ovpnSID, 20, 1, 0, 0, 0)), "no"},
			{"opcode byte only", []byte{ovpnV2}, "more"},
			{"nothing", []byte{}, "more"},
		},
		source: "OpenVPN P_CONTROL_HARD_RESET_CLIENT_V2 without tls-auth: opcode 7, key id 0, 8-byte non-zero session id, no acks, packet id 0 (14 bytes)",
	},
	{
		fn: "modules/l4openvpn.(*MatchOpenVPN).Match", cfgName: "openvpn plain tcp", heap: ovpnCfg("plain", true, 0), cfg: ovpnJSON("plain", true), local: "tcp",
		cases: []msgCase{
			{"hard reset v2", ovpnTCP(ovpnV2, ovpnPlain(ovpnSID, 0, 0), -1), "yes"},
			{"zero session id", ovpnTCP(ovpnV2, ovpnPlain(make([]byte, 8), 0, 0), -1), "no"},
			{"packet id 1", ovpnTCP(ovpnV2, ovpnPlain(ovpnSID, 0, 1), -1), "no"},
			{"key id 1", ovpnTCP(ovpnV2|1, ovpnPlain(ovpnSID, 0, 0), -1), "no"},
			{"declared length 13", ovpnTCP(ovpnV2, ovpnPlain(ovpnSID, 0, 0), 13), "no"},
			{"declared length 0", ovpnTCP(ovpnV2, ovpnPlain(ovpnSID, 0, 0), 0), "no"},
			{"declared length 15, 14 bytes", ovpnTCP(ovpnV2, ovpnPlain(ovpnSID, 0, 0), 15), "more"},
			{"declared length 15, 15 bytes", ovpnTCP(ovpnV2, cat(ovpnPlain(ovpnSID, 0, 0), []byte{0}), 15), "no"},
			{"declared 14, one byte follows", ovpnTCP(ovpnV2, cat(ovpnPlain(ovpnSID, 0, 0), []byte{0}), 14), "no"},
			{"declared length 0xffff", cat([]byte{0xff, 0xff, ovpnV2}, ovpnPlain(ovpnSID, 0, 0)), "no"},
			{"declared length 1079", cat(be16(1079), []byte{ovpnV2}, ovpnPlain(ovpnSID, 0, 0)), "no"},
			{"length bytes only", []byte{0, 14}, "more"},
			{"one length byte", []byte{0}, "more"},
			{"cut after the session id", ovpnTCP(ovpnV2, ovpnPlain(ovpnSID, 0, 0), -1)[:11], "more"},
			{"one byte missing", ovpnTCP(ovpnV2, ovpnPlain(ovpnSID, 0, 0), -1)[:15], "more"},
		},
		source: "the same message behind a 16-bit length (TCP framing); a byte beyond the declared length means another protocol",
	},
	{
		fn: "modules/l4openvpn.(*MatchOpenVPN).Match", cfgName: "openvpn auth udp", heap: ovpnCfg("auth", true, 0), cfg: ovpnJSON("auth", true), local: "udp",
		cases: []msgCase{
			{"sha1 hmac", ovpnUDP(ovpnV2, ovpnAuth(ovpnSID, 20, 1, 0, 0, 0)), "yes"},
			{"md5 hmac (shortest)", ovpnUDP(ovpnV2, ovpnAuth(ovpnSID, 16, 1, 0, 0, 0)), "yes"},
			{"sha512 hmac (longest)", ovpnUDP(ovpnV2, ovpnAuth(ovpnSID, 64, 1, 0, 0, 0)), "yes"},
			{"md5+sha1 hmac (36)", ovpnUDP(ovpnV2, ovpnAuth(ovpnSID, 36, 1, 0, 0, 0)), "yes"},
			{"hmac of 17 bytes", ovpnUDP(ovpnV2, ovpnAuth(ovpnSID, 17, 1, 0, 0, 0)), "no"},
			{"hmac of 15 bytes", ovpnUDP(ovpnV2, ovpnAuth(ovpnSID, 15, 1, 0, 0, 0)), "no"},
			{"hmac of 65 bytes", ovpnUDP(ovpnV2, ovpnAuth(ovpnSID, 65, 1, 0, 0, 0)), "no"},
			{"hmac of 63 bytes", ovpnUDP(ovpnV2, ovpnAuth(ovpnSID, 63, 1, 0, 0, 0)), "no"},
			{"replay packet id 0", ovpnUDP(ovpnV2, ovpnAuth(ovpnSID, 20, 0, 0, 0, 0)), "no"},
			{"replay packet id 2", ovpnUDP(ovpnV2, ovpnAuth(ovpnSID, 20, 2, 0, 0, 0)), "no"},
			{"replay packet id 1<<24", ovpnUDP(ovpnV2, ovpnAuth(ovpnSID, 20, 1<<24, 0, 0, 0)), "no"},
			{"zero session id", ovpnUDP(ovpnV2, ovpnAuth(make([]byte, 8), 20, 1, 0, 0, 0)), "no"},
			{"one acknowledged packet id", ovpnUDP(ovpnV2, ovpnAuth(ovpnSID, 20, 1, 0, 1, 0)), "no"},
			{"packet id 1", ovpnUDP(ovpnV2, ovpnAuth(ovpnSID, 20, 1, 0, 0, 1)), "no"},
			{"key id 1", ovpnUDP(ovpnV2|1, ovpnAuth(ovpnSID, 20, 1, 0, 0, 0)), "no"},
			{"plain message", ovpnUDP(ovpnV2, ovpnPlain(ovpnSID, 0, 0)), "no"},
			{"hard reset v3 opcode", ovpnUDP(ovpnV3, ovpnAuth(ovpnSID, 20, 1, 0, 0, 0)), "no"},
		},
		source: "hard reset v2 with tls-auth: session id, HMAC of a supported digest size, replay packet id 1, timestamp, no acks, packet id 0",
	},
	{
		fn: "modules/l4openvpn.(*MatchOpenVPN).Match", cfgName: "openvpn auth tcp", heap: ovpnCfg("auth", true, 0), cfg: ovpnJSON("auth", true), local: "tcp",
		cases: []msgCase{
			{"sha1 hmac", ovpnTCP(ovpnV2, ovpnAuth(ovpnSID, 20, 1, 0, 0, 0), -1), "yes"},
			{"sha512 hmac (longest)", ovpnTCP(ovpnV2, ovpnAuth(ovpnSID, 64, 1, 0, 0, 0), -1), "yes"},
			{"md5 hmac (shortest)", ovpnTCP(ovpnV2, ovpnAuth(ovpnSID, 16, 1, 0, 0, 0), -1), "yes"},
			{"hmac of 65 bytes", ovpnTCP(ovpnV2, ovpnAuth(ovpnSID, 65, 1, 0, 0, 0), -1), "no"},
			{"replay packet id 2", ovpnTCP(ovpnV2, ovpnAuth(ovpnSID, 20, 2, 0, 0, 0), -1), "no"},
			{"one byte follows", ovpnTCP(ovpnV2, cat(ovpnAuth(ovpnSID, 20, 1, 0, 0, 0), []byte{0}), 42), "no"},
			{"one byte missing", ovpnTCP(ovpnV2, ovpnAuth(ovpnSID, 20, 1, 0, 0, 0), -1)[:43], "more"},
		},
		source: "the same behind the TCP length",
	},
	{
		fn: "modules/l4openvpn.(*MatchOpenVPN).Match", cfgName: "openvpn auth udp digest sha256", heap: ovpnCfg("auth", true, 32), local: "udp",
		cases: []msgCase{
			{"32-byte hmac", ovpnUDP(ovpnV2, ovpnAuth(ovpnSID, 32, 1, 0, 0, 0)), "yes"},
			{"20-byte hmac", ovpnUDP(ovpnV2, ovpnAuth(ovpnSID, 20, 1, 0, 0, 0)), "no"},
			{"64-byte hmac", ovpnUDP(ovpnV2, ovpnAuth(ovpnSID, 64, 1, 0, 0, 0)), "no"},
		},
		source: "auth_digest configured: the HMAC must have that digest's size",
	},
	{
		fn: "modules/l4openvpn.(*MatchOpenVPN).Match", cfgName: "openvpn crypt udp", heap: ovpnCfg("crypt", true, 0), cfg: ovpnJSON("crypt", true), local: "udp",
		cases: []msgCase{
			{"tls-crypt hard reset", ovpnUDP(ovpnV2, ovpnCrypt(ovpnSID, 1, 0, 53)), "yes"},
			{"replay packet id 0", ovpnUDP(ovpnV2, ovpnCrypt(ovpnSID, 0, 0, 53)), "no"},
			{"replay packet id 2", ovpnUDP(ovpnV2, ovpnCrypt(ovpnSID, 2, 0, 53)), "no"},
			{"zero session id", ovpnUDP(ovpnV2, ovpnCrypt(make([]byte, 8), 1, 0, 53)), "no"},
			{"52 bytes", ovpnUDP(ovpnV2, ovpnCrypt(ovpnSID, 1, 0, 52)), "no"},
			{"54 bytes", ovpnUDP(ovpnV2, ovpnCrypt(ovpnSID, 1, 0, 54)), "no"},
			{"key id 1", ovpnUDP(ovpnV2|1, ovpnCrypt(ovpnSID, 1, 0, 53)), "no"},
			{"hard reset v3 opcode", ovpnUDP(ovpnV3, ovpnCrypt(ovpnSID, 1, 0, 53)), "no"},
			{"plain message", ovpnUDP(ovpnV2, ovpnPlain(ovpnSID, 0, 0)), "no"},
		},
		source: "hard reset v2 with tls-crypt: session id, replay packet id 1, timestamp, 32-byte HMAC, 5 encrypted bytes (54 bytes)",
	},
	{
		fn: "modules/l4openvpn.(*MatchOpenVPN).Match", cfgName: "openvpn crypt tcp", heap: ovpnCfg("crypt", true, 0), cfg: ovpnJSON("crypt", true), local: "tcp",
		cases: []msgCase{
			{"tls-crypt hard reset", ovpnTCP(ovpnV2, ovpnCrypt(ovpnSID, 1, 0, 53), -1), "yes"},
			{"replay packet id 2", ovpnTCP(ovpnV2, ovpnCrypt(ovpnSID, 2, 0, 53), -1), "no"},
			{"54 bytes", ovpnTCP(ovpnV2, ovpnCrypt(ovpnSID, 1, 0, 54), -1), "no"},
			{"one byte missing", ovpnTCP(ovpnV2, ovpnCrypt(ovpnSID, 1, 0, 53), -1)[:55], "more"},
		},
		source: "the same behind the TCP length",
	},
	{
		fn: "modules/l4openvpn.(*MatchOpenVPN).Match", cfgName: "openvpn plain+auth+crypt udp", heap: ovpnCfg("plain,auth,crypt", true, 0), cfg: ovpnJSON("plain,auth,crypt", true), local: "udp",
		cases: []msgCase{
			{"plain", ovpnUDP(ovpnV2, ovpnPlain(ovpnSID, 0, 0)), "yes"},
			{"auth sha1", ovpnUDP(ovpnV2, ovpnAuth(ovpnSID, 20, 1, 0, 0, 0)), "yes"},
			{"crypt", ovpnUDP(ovpnV2, ovpnCrypt(ovpnSID, 1, 0, 53)), "yes"},
			{"auth with replay id 2, 53 bytes", ovpnUDP(ovpnV2, ovpnCrypt(ovpnSID, 2, 0, 53)), "no"},
			{"hard reset v3", ovpnUDP(ovpnV3, ovpnCrypt(ovpnSID, 1, 0, 53)), "no"},
		},
		source: "all three v2 modes accepted: each message is taken by its own mode",
	},
	{
		fn: "modules/l4openvpn.(*MatchOpenVPN).Match", cfgName: "openvpn crypt2 tcp", heap: ovpnCfg("crypt2", true, 0), cfg: ovpnJSON("crypt2", true), local: "tcp",
		cases: []msgCase{
			{"smallest wrapped key", ovpnTCP(ovpnV3, ovpnCrypt2(ovpnSID, 1, 290, -1), -1), "yes"},
			{"largest wrapped key", ovpnTCP(ovpnV3, ovpnCrypt2(ovpnSID, 1, 1024, -1), -1), "yes"},
			{"declared length one below the minimum", ovpnTCP(ovpnV3, ovpnCrypt2(ovpnSID, 1, 289, -1), -1), "no"},
			{"declared length above the maximum", cat(be16(1079), []byte{ovpnV3}, ovpnCrypt2(ovpnSID, 1, 1024, -1)), "no"},
			{"one byte follows", ovpnTCP(ovpnV3, cat(ovpnCrypt2(ovpnSID, 1, 290, -1), []byte{0}), 344), "no"},
			{"one byte missing", ovpnTCP(ovpnV3, ovpnCrypt2(ovpnSID, 1, 290, -1), -1)[:345], "more"},
			{"replay packet id 2", ovpnTCP(ovpnV3, ovpnCrypt2(ovpnSID, 2, 290, -1), -1), "no"},
			{"hard reset v2 with a crypt2-sized body", ovpnTCP(ovpnV2, ovpnCrypt2(ovpnSID, 1, 290, -1), -1), "no"},
		},
		source: "tls-crypt-v2 over TCP: the frame length lies between the smallest and the largest reset",
	},
	{
		fn: "modules/l4openvpn.(*MatchOpenVPN).Match", cfgName: "openvpn crypt2 udp", heap: ovpnCfg("crypt2", true, 0), cfg: ovpnJSON("crypt2", true), local: "udp",
		cases: []msgCase{
			{"hard reset v2 plain", ovpnUDP(ovpnV2, ovpnPlain(ovpnSID, 0, 0)), "no"},
			{"hard reset v2 crypt", ovpnUDP(ovpnV2, ovpnCrypt(ovpnSID, 1, 0, 53)), "no"},
			{"hard reset v3, 53 bytes (below the minimum)", ovpnUDP(ovpnV3, ovpnCrypt(ovpnSID, 1, 0, 53)), "no"},
			{"hard reset v3, 342 bytes (one below the minimum)", ovpnUDP(ovpnV3, ovpnCrypt(ovpnSID, 1, 0, 342)), "no"},
			{"smallest wrapped key (290 bytes)", ovpnUDP(ovpnV3, ovpnCrypt2(ovpnSID, 1, 290, -1)), "yes"},
			{"wrapped key of 291 bytes", ovpnUDP(ovpnV3, ovpnCrypt2(ovpnSID, 1, 291, -1)), "yes"},
			{"largest wrapped key (1024 bytes)", ovpnUDP(ovpnV3, ovpnCrypt2(ovpnSID, 1, 1024, -1)), "yes"},
			{"wrapped key of 1025 bytes", ovpnUDP(ovpnV3, ovpnCrypt2(ovpnSID, 1, 1025, -1)), "no"},
			{"wrapped key of 289 bytes", ovpnUDP(ovpnV3, ovpnCrypt2(ovpnSID, 1, 289, -1)), "no"},
			{"early negotiation packet id 0x0f000001", ovpnUDP(ovpnV3, ovpnCrypt2(ovpnSID, 0x0f000001, 290, -1)), "yes"},
			{"replay packet id 2", ovpnUDP(ovpnV3, ovpnCrypt2(ovpnSID, 2, 290, -1)), "no"},
			{"replay packet id 0", ovpnUDP(ovpnV3, ovpnCrypt2(ovpnSID, 0, 290, -1)), "no"},
			{"zero session id", ovpnUDP(ovpnV3, ovpnCrypt2(make([]byte, 8), 1, 290, -1)), "no"},
			{"wrapped key states one byte more", ovpnUDP(ovpnV3, ovpnCrypt2(ovpnSID, 1, 290, 291)), "no"},
			{"wrapped key states one byte less", ovpnUDP(ovpnV3, ovpnCrypt2(ovpnSID, 1, 290, 289)), "no"},
			{"key id 1", ovpnUDP(ovpnV3|1, ovpnCrypt2(ovpnSID, 1, 290, -1)), "no"},
		},
		source: "only tls-crypt-v2 accepted: v2 resets and too short v3 resets are refused",
	},
	{
		fn: "modules/l4regexp.(*MatchRegexp).Match", cfgName: "regexp ^GET count=4", heap: regexpCfg("^GET ", 4), cfg: regexpJSON("^GET ", 4),
		cases: []msgCase{
			{"exactly the four bytes", []byte("GET "), "yes"},
			{"more than count bytes", []byte("GET / HTTP/1.1\r\n"), "yes"},
			{"other four bytes", []byte("POST"), "no"},
			{"three bytes", []byte("GET"), "more"},
			{"one byte", []byte("G"), "more"},
			{"nothing", []byte{}, "more"},
		},
		source: "the regexp matcher reads exactly count bytes and applies the expression to them",
	},
	{
		fn: "modules/l4regexp.(*MatchRegexp).Match", cfgName: "regexp ab$ count=3", heap: regexpCfg("ab$", 3), cfg: regexpJSON("ab$", 3),
		cases: []msgCase{
			{"suffix within count", []byte("xab"), "yes"},
			{"suffix within count, more follows", []byte("xabab"), "yes"},
			{"suffix only beyond count", []byte("xxxab"), "no"},
			{"two bytes", []byte("ab"), "more"},
		},
		source: "only the first count bytes are looked at",
	},
	{
		fn: "modules/l4regexp.(*MatchRegexp).Match", cfgName: `regexp ^\d{3}x{2,3}$ count=6`, heap: regexpCfg(`^\d{3}x{2,3}$`, 6), cfg: regexpJSON(`^\d{3}x{2,3}$`, 6),
		cases: []msgCase{
			{"three digits and three x", []byte("123xxx"), "yes"},
			{"one digit and one x, padded", []byte("1x\n\n\n\n"), "no"},
			{"two digits", []byte("12xxxx"), "no"},
		},
		source: "counted repetitions are part of the expression (to the replacer that resolves placeholders in the pattern, {3} and {2,3} are unknown placeholders)",
	},
	{
		fn: "modules/l4regexp.(*MatchRegexp).Match", cfgName: "regexp . count=1", heap: regexpCfg(".", 1), cfg: regexpJSON(".", 1),
		cases: []msgCase{
			{"one byte", []byte("a"), "yes"},
			{"line feed", []byte("\n"), "no"},
			{"nothing", []byte{}, "more"},
		},
		source: "count = 1",
	},
	{
		fn: "modules/l4rdp.(*MatchRDP).Match", cfgName: "rdp no filters", heap: rdpCfg("", "", "", ""), cfg: rdpJSON("", "", "", ""),
		cases: []msgCase{
			{"negotiation request only", rdpCR(rdpHdr{}, rdpNeg), "yes"},
			{"cookie and negotiation request", rdpCR(rdpHdr{}, cat(rdpCookie, rdpNeg)), "yes"},
			{"cookie only", rdpCR(rdpHdr{}, rdpCookie), "yes"},
			{"custom routing info and negotiation request", rdpCR(rdpHdr{}, cat(rdpCustom, rdpNeg)), "yes"},
			{"negotiation request with correlation info", rdpCR(rdpHdr{}, cat(rdpNegReq(1, 8, 8, 3), rdpCorr(6, 0, 36, 0x61, -1, -1))), "yes"},
			{"cookie, negotiation request, correlation info", rdpCR(rdpHdr{}, cat(rdpCookie, rdpNegReq(1, 8, 8, 11), rdpCorr(6, 0, 36, 0x61, -1, -1))), "yes"},
			{"all protocols and flags", rdpCR(rdpHdr{}, cat(rdpNegReq(1, 0x0b, 8, 0x1f), rdpCorr(6, 0, 36, 0x61, -1, -1))), "yes"},
			{"standard security (protocols 0)", rdpCR(rdpHdr{}, rdpNegReq(1, 0, 8, 0)), "yes"},
			{"headers only", rdpCR(rdpHdr{}, nil), "no"},
			{"correlation info announced but missing", rdpCR(rdpHdr{}, rdpNegReq(1, 8, 8, 3)), "no"},
			{"correlation info without the flag", rdpCR(rdpHdr{}, cat(rdpNeg, rdpCorr(6, 0, 36, 0x61, -1, -1))), "no"},
			{"correlation identity starting with 0x00", rdpCR(rdpHdr{}, cat(rdpNegReq(1, 8, 8, 3), rdpCorr(6, 0, 36, 0, -1, -1))), "no"},
			{"correlation identity starting with 0xF4", rdpCR(rdpHdr{}, cat(rdpNegReq(1, 8, 8, 3), rdpCorr(6, 0, 36, 0xF4, -1, -1))), "no"},
			{"correlation identity containing CR", rdpCR(rdpHdr{}, cat(rdpNegReq(1, 8, 8, 3), rdpCorr(6, 0, 36, 0x61, 9, -1))), "no"},
			{"correlation reserved byte set", rdpCR(rdpHdr{}, cat(rdpNegReq(1, 8, 8, 3), rdpCorr(6, 0, 36, 0x61, -1, 5))), "no"},
			{"correlation info of type 5", rdpCR(rdpHdr{}, cat(rdpNegReq(1, 8, 8, 3), rdpCorr(5, 0, 36, 0x61, -1, -1))), "no"},
			{"correlation info with flags", rdpCR(rdpHdr{}, cat(rdpNegReq(1, 8, 8, 3), rdpCorr(6, 1, 36, 0x61, -1, -1))), "no"},
			{"correlation info of length 35", rdpCR(rdpHdr{}, cat(rdpNegReq(1, 8, 8, 3), rdpCorr(6, 0, 35, 0x61, -1, -1))), "no"},
			{"negotiation request of type 2", rdpCR(rdpHdr{}, rdpNegReq(2, 0, 8, 3)), "no"},
			{"negotiation request of length 9", rdpCR(rdpHdr{}, rdpNegReq(1, 0, 9, 3)), "no"},
			{"negotiation request with an unknown flag", rdpCR(rdpHdr{}, rdpNegReq(1, 4, 8, 3)), "no"},
			{"negotiation request with an unknown protocol", rdpCR(rdpHdr{}, rdpNegReq(1, 0, 8, 0x20)), "no"},
			{"HYBRID without SSL", rdpCR(rdpHdr{}, rdpNegReq(1, 0, 8, 2)), "no"},
			{"HYBRID_EX without HYBRID", rdpCR(rdpHdr{}, rdpNegReq(1, 0, 8, 9)), "no"},
			{"seven bytes after the cookie", rdpCR(rdpHdr{}, cat(rdpCookie, rdpNeg[:7])), "no"},
			{"one byte after the negotiation request", rdpCR(rdpHdr{}, cat(rdpNeg, []byte{0})), "no"},
			{"TPKT version 2", rdpCR(rdpHdr{ver: 2}, rdpNeg), "no"},
			{"TPKT reserved 1", rdpCR(rdpHdr{rsv: 1}, rdpNeg), "no"},
			{"TPKT length one more than sent", rdpCR(rdpHdr{lenDelta: 1, liDelta: 1}, rdpNeg), "more"},
			{"X.224 length indicator off by one", rdpCR(rdpHdr{liDelta: 1}, rdpNeg), "no"},
			{"X.224 data TPDU", rdpCR(rdpHdr{typ: 0xF0}, rdpNeg), "no"},
			{"X.224 destination reference set", rdpCR(rdpHdr{dst: 1}, rdpNeg), "no"},
			{"X.224 source reference set", rdpCR(rdpHdr{src: 0x1234}, rdpNeg), "no"},
			{"X.224 class 1", rdpCR(rdpHdr{class: 1}, rdpNeg), "no"},
			{"a byte after the request", rdpCR(rdpHdr{trailing: 1}, rdpNeg), "no"},
			{"five bytes", rdpCR(rdpHdr{}, rdpNeg)[:5], "more"},
			{"headers without the payload", rdpCR(rdpHdr{}, rdpNeg)[:11], "more"},
			{"payload cut", rdpCR(rdpHdr{}, cat(rdpCookie, rdpNeg))[:20], "more"},
			{"empty", []byte{}, "more"},
			{"http", []byte("GET / HTTP/1.1\r\nHost: example.com\r\n\r\n"), "no"},
		},
		source: "MS-RDPBCGR 2.2.1.1 Client X.224 Connection Request PDU: TPKT (version 3, reserved 0, length), X.224 CR (LI = length-5, code 0xE0, DST-REF 0, SRC-REF 0, class 0), optional routing token or cookie ending in CR LF, optional rdpNegReq (type 1, flags within 0x0B, length 8, protocols within 0x1F, HYBRID requires SSL, HYBRID_EX requires HYBRID), optional rdpCorrelationInfo (type 6, flags 0, length 36, identity not starting with 0x00/0xF4 and without 0x0D, reserved zero) only with the CORRELATION_INFO flag; nothing after the request",
	},
	{
		fn: "modules/l4rdp.(*MatchRDP).Match", cfgName: "rdp cookie_port=3389", heap: rdpCfgPorts(3389), cfg: rdpJSON("", "", "", "", 3389),
		cases: []msgCase{
			{"token for 172.168.249.216:3389", rdpCR(rdpHdr{}, cat(rdpToken("Cookie: msts=3640205228.15629.0000", 0, 0, 0), rdpNeg)), "yes"},
			{"token only", rdpCR(rdpHdr{}, rdpToken("Cookie: msts=3640205228.15629.0000", 0, 0, 0)), "yes"},
			{"token for port 3390", rdpCR(rdpHdr{}, cat(rdpToken("Cookie: msts=3640205228.15885.0000", 0, 0, 0), rdpNeg)), "no"},
			{"token with reserved 0001", rdpCR(rdpHdr{}, cat(rdpToken("Cookie: msts=3640205228.15629.0001", 0, 0, 0), rdpNeg)), "no"},
			{"token with two parts", rdpCR(rdpHdr{}, cat(rdpToken("Cookie: msts=3640205228.156290000000", 0, 0, 0), rdpNeg)), "no"},
			{"token with a non-numeric address", rdpCR(rdpHdr{}, cat(rdpToken("Cookie: msts=36402o5228.15629.0000", 0, 0, 0), rdpNeg)), "no"},
			{"token with address 2^32", rdpCR(rdpHdr{}, cat(rdpToken("Cookie: msts=4294967296.15629.0000", 0, 0, 0), rdpNeg)), "no"},
			{"token with port 65536+3389 swapped", rdpCR(rdpHdr{}, cat(rdpToken("Cookie: msts=3640205228.81165.0000", 0, 0, 0), rdpNeg)), "no"},
			{"token with another prefix", rdpCR(rdpHdr{}, cat(rdpToken("Cookie: mstx=3640205228.15629.0000", 0, 0, 0), rdpNeg)), "no"},
			{"token of version 4", rdpCR(rdpHdr{}, cat(rdpToken("Cookie: msts=3640205228.15629.0000", 1, 0, 0), rdpNeg)), "no"},
			{"token with a wrong length", rdpCR(rdpHdr{}, cat(rdpToken("Cookie: msts=3640205228.15629.0000", 0, 1, 0), rdpNeg)), "no"},
			{"token with a wrong length indicator", rdpCR(rdpHdr{}, cat(rdpToken("Cookie: msts=3640205228.15629.0000", 0, 0, 1), rdpNeg)), "no"},
			{"mstshash cookie instead of a token", rdpCR(rdpHdr{}, cat(rdpCookie, rdpNeg)), "no"},
			{"no token", rdpCR(rdpHdr{}, rdpNeg), "no"},
		},
		source: "cookie_port filter: the routing token 'Cookie: msts=<ip>.<port>.0000' (ip and port as decimal numbers of their byte-swapped binary form) names one of the configured ports",
	},
	{
		fn: "modules/l4rdp.(*MatchRDP).Match", cfgName: "rdp cookie_port=3389,3390", heap: rdpCfgPorts(3389, 3390), cfg: rdpJSON("", "", "", "", 3389, 3390),
		cases: []msgCase{
			{"token for port 3390", rdpCR(rdpHdr{}, cat(rdpToken("Cookie: msts=3640205228.15885.0000", 0, 0, 0), rdpNeg)), "yes"},
			{"token for port 3391", rdpCR(rdpHdr{}, cat(rdpToken("Cookie: msts=3640205228.16141.0000", 0, 0, 0), rdpNeg)), "no"},
		},
		source: "cookie_port filter with two ports",
	},
	{
		fn: "modules/l4rdp.(*MatchRDP).Match", cfgName: "rdp cookie_hash=user", heap: rdpCfg("user", "", "", ""), cfg: rdpJSON("user", "", "", ""),
		cases: []msgCase{
			{"cookie of user", rdpCR(rdpHdr{}, cat(rdpCookie, rdpNeg)), "yes"},
			{"cookie of other", rdpCR(rdpHdr{}, cat(rdpCookie2, rdpNeg)), "no"},
			{"no cookie", rdpCR(rdpHdr{}, rdpNeg), "no"},
			{"custom info instead of a cookie", rdpCR(rdpHdr{}, cat(rdpCustom, rdpNeg)), "no"},
		},
		source: "cookie_hash filter: the mstshash cookie equals the configured value",
	},
	{
		fn: "modules/l4rdp.(*MatchRDP).Match", cfgName: "rdp cookie_hash=u", heap: rdpCfg("u", "", "", ""), cfg: rdpJSON("u", "", "", ""),
		cases: []msgCase{
			{"cookie of user", rdpCR(rdpHdr{}, cat(rdpCookie, rdpNeg)), "no"},
			{"cookie of u", rdpCR(rdpHdr{}, cat([]byte("Cookie: mstshash=u\r\n"), rdpNeg)), "yes"},
		},
		source: "cookie_hash filter with a one-letter value",
	},
	{
		fn: "modules/l4rdp.(*MatchRDP).Match", cfgName: "rdp cookie_hash_regexp=^us", heap: rdpCfg("", "^us", "", ""), cfg: rdpJSON("", "^us", "", ""),
		cases: []msgCase{
			{"cookie of user", rdpCR(rdpHdr{}, cat(rdpCookie, rdpNeg)), "yes"},
			{"cookie of other", rdpCR(rdpHdr{}, cat(rdpCookie2, rdpNeg)), "no"},
			{"no cookie", rdpCR(rdpHdr{}, rdpNeg), "no"},
		},
		source: "cookie_hash_regexp filter",
	},
	{
		fn: "modules/l4rdp.(*MatchRDP).Match", cfgName: "rdp custom_info", heap: rdpCfg("", "", "tsv://MS Terminal Services Plugin.1.Farm", ""), cfg: rdpJSON("", "", "tsv://MS Terminal Services Plugin.1.Farm", ""),
		cases: []msgCase{
			{"that custom info", rdpCR(rdpHdr{}, cat(rdpCustom, rdpNeg)), "yes"},
			{"another custom info", rdpCR(rdpHdr{}, cat([]byte("tsv://MS Terminal Services Plugin.1.Other\r\n"), rdpNeg)), "no"},
			{"a cookie instead", rdpCR(rdpHdr{}, cat(rdpCookie, rdpNeg)), "no"},
			{"nothing before the negotiation request", rdpCR(rdpHdr{}, rdpNeg), "no"},
		},
		source: "custom_info filter: the routing info before CR LF equals the configured value",
	},
	{
		fn: "modules/l4rdp.(*MatchRDP).Match", cfgName: "rdp custom_info={lb-1}", heap: rdpCfg("", "", "{lb-1}", ""), cfg: rdpJSON("", "", "{lb-1}", ""),
		cases: []msgCase{
			{"custom info {lb-1}", rdpCR(rdpHdr{}, cat([]byte("{lb-1}\r\n"), rdpNeg)), "yes"},
			{"another custom info", rdpCR(rdpHdr{}, cat([]byte("lb-2\r\n"), rdpNeg)), "no"},
			{"a cookie", rdpCR(rdpHdr{}, cat(rdpCookie, rdpNeg)), "no"},
		},
		source: "custom_info filter whose value stands in braces: braces that are no placeholder are part of the value",
	},
	{
		fn: "modules/l4rdp.(*MatchRDP).Match", cfgName: "rdp cookie_hash=a{b}c", heap: rdpCfg("a{b}c", "", "", ""), cfg: rdpJSON("a{b}c", "", "", ""),
		cases: []msgCase{
			{"cookie of a{b}c", rdpCR(rdpHdr{}, cat([]byte("Cookie: mstshash=a{b}c\r\n"), rdpNeg)), "yes"},
			{"cookie of ac", rdpCR(rdpHdr{}, cat([]byte("Cookie: mstshash=ac\r\n"), rdpNeg)), "no"},
		},
		source: "cookie_hash filter with braces in the value",
	},
	{
		fn: "modules/l4rdp.(*MatchRDP).Match", cfgName: "rdp custom_info=x", heap: rdpCfg("", "", "x", ""), cfg: rdpJSON("", "", "x", ""),
		cases: []msgCase{
			{"custom info x", rdpCR(rdpHdr{}, cat([]byte("x\r\n"), rdpNeg)), "yes"},
			{"custom info y", rdpCR(rdpHdr{}, cat([]byte("y\r\n"), rdpNeg)), "no"},
			{"no custom info", rdpCR(rdpHdr{}, rdpNeg), "no"},
		},
		source: "custom_info filter with a one-letter value",
	},
	{
		fn: "modules/l4rdp.(*MatchRDP).Match", cfgName: "rdp custom_info of 235 bytes", heap: rdpCfg("", "", strings.Repeat("a", 235), ""), cfg: rdpJSON("", "", strings.Repeat("a", 235), ""),
		cases: []msgCase{
			{"that custom info", rdpCR(rdpHdr{}, cat([]byte(strings.Repeat("a", 235)+"\r\n"), rdpNeg)), "yes"},
			{"its first 229 bytes", rdpCR(rdpHdr{}, cat([]byte(strings.Repeat("a", 229)+"\r\n"), rdpNeg)), "no"},
			{"its first 234 bytes", rdpCR(rdpHdr{}, cat([]byte(strings.Repeat("a", 234)+"\r\n"), rdpNeg)), "no"},
		},
		source: "custom_info filter with a value longer than the longest cookie hash (the routing info may have up to 246 bytes, MS-RDPBCGR 2.2.1.1: it fills the X.224 request up to its one-byte length)",
	},
	{
		fn: "modules/l4rdp.(*MatchRDP).Match", cfgName: "rdp custom_info_regexp=x", heap: rdpCfg("", "", "", "x"), cfg: rdpJSON("", "", "", "x"),
		cases: []msgCase{
			{"custom info containing x", rdpCR(rdpHdr{}, cat([]byte("axb\r\n"), rdpNeg)), "yes"},
			{"custom info without x", rdpCR(rdpHdr{}, cat([]byte("abc\r\n"), rdpNeg)), "no"},
			{"no custom info", rdpCR(rdpHdr{}, rdpNeg), "no"},
		},
		source: "custom_info_regexp filter with a one-letter expression",
	},
	{
		fn: "modules/l4rdp.(*MatchRDP).Match", cfgName: "rdp cookie_hash_regexp=u", heap: rdpCfg("", "u", "", ""), cfg: rdpJSON("", "u", "", ""),
		cases: []msgCase{
			{"cookie of user", rdpCR(rdpHdr{}, cat(rdpCookie, rdpNeg)), "yes"},
			{"cookie of other", rdpCR(rdpHdr{}, cat(rdpCookie2, rdpNeg)), "no"},
			{"no cookie", rdpCR(rdpHdr{}, rdpNeg), "no"},
		},
		source: "cookie_hash_regexp filter with a one-letter expression",
	},
	{
		fn: "modules/l4rdp.(*MatchRDP).Match", cfgName: "rdp custom_info_regexp=Farm$", heap: rdpCfg("", "", "", "Farm$"), cfg: rdpJSON("", "", "", "Farm$"),
		cases: []msgCase{
			{"matching custom info", rdpCR(rdpHdr{}, cat(rdpCustom, rdpNeg)), "yes"},
			{"another custom info", rdpCR(rdpHdr{}, cat([]byte("tsv://MS Terminal Services Plugin.1.Other\r\n"), rdpNeg)), "no"},
		},
		source: "custom_info_regexp filter",
	},
	{
		fn: "modules/l4winbox.(*MatchWinbox).Match", cfgName: "winbox any mode", heap: winboxCfg(true, true, "", ""), cfg: winboxJSON(nil, "", ""),
		cases: []msgCase{
			{"auth of admin", winboxMsg("admin", 32, 1, 6, 0), "yes"},
			{"auth of admin, parity 0", winboxMsg("admin", 32, 0, 6, 0), "yes"},
			{"auth of a one-letter user", winboxMsg("a", 32, 1, 6, 0), "yes"},
			{"auth of a two-letter user", winboxMsg("ab", 32, 1, 6, 0), "yes"},
			{"auth of a three-letter user", winboxMsg("abc", 32, 1, 6, 0), "yes"},
			{"two-letter user, RoMON", winboxMsg("ab+r", 32, 1, 6, 0), "yes"},
			{"two characters, the second a dash", winboxMsg("a-", 32, 1, 6, 0), "no"},
			{"RoMON auth (user+r)", winboxMsg("admin+r", 32, 1, 6, 0), "yes"},
			{"user with dots and dashes", winboxMsg("a.b-c_d@e#1", 32, 0, 6, 0), "yes"},
			{"key containing a zero byte", winboxLong(5, 7), "yes"},
			{"key starting with a zero byte", winboxLong(5, 0), "yes"},
			{"user name of 221 bytes (one full chunk)", winboxLong(221, -1), "yes"},
			{"user name of 230 bytes (two chunks)", winboxLong(230, -1), "yes"},
			{"user name of 255 bytes (largest message)", winboxLong(255, -1), "yes"},
			{"user name of 256 bytes", winboxLong(256, -1), "no"},
			{"two chunks, the second of type auth", func() []byte { b := winboxLong(230, -1); b[257+1] = 6; return b }(), "no"},
			{"no delimiter", func() []byte { b := winboxMsg("admin", 32, 1, 6, 0); b[2+5] = 0x2e; return b }(), "no"},
			{"parity 2", winboxMsg("admin", 32, 2, 6, 0), "no"},
			{"31 key bytes", winboxMsg("admin", 31, 1, 6, 0), "no"},
			{"33 key bytes", winboxMsg("admin", 33, 1, 6, 0), "no"},
			{"chunk type 5", winboxMsg("admin", 32, 1, 5, 0), "no"},
			{"chunk type 0xff", winboxMsg("admin", 32, 1, 0xff, 0), "no"},
			{"empty user name", winboxMsg("", 32, 1, 6, 0), "no"},
			{"user name with a space", winboxMsg("ad min", 32, 1, 6, 0), "no"},
			{"user name with a dollar sign", winboxMsg("ad$min", 32, 1, 6, 0), "no"},
			{"user name with an ampersand", winboxMsg("R&D", 32, 1, 6, 0), "no"},
			{"user name with an apostrophe", winboxMsg("o'neil", 32, 1, 6, 0), "no"},
			{"user name with an asterisk", winboxMsg("a*b", 32, 1, 6, 0), "no"},
			{"user name with a plus sign inside", winboxMsg("a+b", 32, 1, 6, 0), "no"},
			{"user name with a comma", winboxMsg("a,b", 32, 1, 6, 0), "no"},
			{"user name with a slash", winboxMsg("a/b", 32, 1, 6, 0), "no"},
			{"user name ending with a dash", winboxMsg("admin-", 32, 1, 6, 0), "no"},
			{"one byte after the message", winboxMsg("admin", 32, 1, 6, 1), "no"},
			{"header only", winboxMsg("admin", 32, 1, 6, 0)[:2], "more"},
			{"message cut in the key", winboxMsg("admin", 32, 1, 6, 0)[:20], "more"},
			{"two chunks, cut inside the second chunk", func() []byte { b := winboxLong(230, -1); return b[:len(b)-3] }(), "more"},
			{"two chunks, cut behind the second chunk's length byte", winboxLong(230, -1)[:258], "more"},
			{"two chunks, cut inside the first chunk", winboxLong(230, -1)[:200], "more"},
			{"one byte", []byte{39}, "more"},
			{"empty", []byte{}, "more"},
			{"http", []byte("GET / HTTP/1.1\r\nHost: example.com\r\nAccept: */*\r\n\r\n"), "no"},
		},
		source: "Winbox (MikroTik) login: one chunk [length, type 0x06] holding user name, 0x00, 32 public key bytes, parity 0/1; the user name starts and ends with a letter or digit and has letters, digits and - # . @ _ in between (one, two or more characters) after removing the RoMON suffix '+r'",
	},
	{
		fn: "modules/l4winbox.(*MatchWinbox).Match", cfgName: "winbox standard only", heap: winboxCfg(true, false, "", ""), cfg: winboxJSON([]string{"standard"}, "", ""),
		cases: []msgCase{
			{"auth of admin", winboxMsg("admin", 32, 1, 6, 0), "yes"},
			{"RoMON auth", winboxMsg("admin+r", 32, 1, 6, 0), "no"},
		},
		source: "modes filter: standard only",
	},
	{
		fn: "modules/l4winbox.(*MatchWinbox).Match", cfgName: "winbox romon only", heap: winboxCfg(false, true, "", ""), cfg: winboxJSON([]string{"romon"}, "", ""),
		cases: []msgCase{
			{"auth of admin", winboxMsg("admin", 32, 1, 6, 0), "no"},
			{"RoMON auth", winboxMsg("admin+r", 32, 1, 6, 0), "yes"},
		},
		source: "modes filter: romon only",
	},
	{
		fn: "modules/l4winbox.(*MatchWinbox).Match", cfgName: "winbox username=admin", heap: winboxCfg(true, true, "admin", "^ro"), cfg: winboxJSON(nil, "admin", "^ro"),
		cases: []msgCase{
			{"auth of admin", winboxMsg("admin", 32, 1, 6, 0), "yes"},
			{"RoMON auth of admin", winboxMsg("admin+r", 32, 1, 6, 0), "yes"},
			{"auth of root (the regexp is ignored when a name is given)", winboxMsg("root", 32, 1, 6, 0), "no"},
			{"auth of admin2", winboxMsg("admin2", 32, 1, 6, 0), "no"},
		},
		source: "username filter: the name without the RoMON suffix equals the configured one",
	},
	{
		fn: "modules/l4winbox.(*MatchWinbox).Match", cfgName: "winbox username=a", heap: winboxCfg(true, true, "a", ""), cfg: winboxJSON(nil, "a", ""),
		cases: []msgCase{
			{"auth of a", winboxMsg("a", 32, 1, 6, 0), "yes"},
			{"auth of b", winboxMsg("b", 32, 1, 6, 0), "no"},
		},
		source: "username filter with a one-letter name",
	},
	{
		fn: "modules/l4winbox.(*MatchWinbox).Match", cfgName: "winbox username_regexp=x", heap: winboxCfg(true, true, "", "x"), cfg: winboxJSON(nil, "", "x"),
		cases: []msgCase{
			{"auth of admin", winboxMsg("admin", 32, 1, 6, 0), "no"},
			{"auth of max", winboxMsg("max", 32, 1, 6, 0), "yes"},
		},
		source: "username_regexp filter with a one-letter expression",
	},
	{
		fn: "modules/l4winbox.(*MatchWinbox).Match", cfgName: "winbox username_regexp=^adm", heap: winboxCfg(true, true, "", "^adm"), cfg: winboxJSON(nil, "", "^adm"),
		cases: []msgCase{
			{"auth of admin", winboxMsg("admin", 32, 1, 6, 0), "yes"},
			{"auth of root", winboxMsg("root", 32, 1, 6, 0), "no"},
			{"RoMON auth of root", winboxMsg("root+r", 32, 1, 6, 0), "no"},
		},
		source: "username_regexp filter on the name without the RoMON suffix",
	},
	{
		fn: "modules/l4postgres.(*MatchPostgres).Match", cfgName: "postgres",
		cases: []msgCase{
			{"SSLRequest", pgMsg(80877103, nil), "yes"},
			{"startup 3.0 with user", pgMsg(3<<16, []byte("user\x00alice\x00\x00")), "yes"},
			{"startup 3.0 with user and database", pgMsg(3<<16, []byte("user\x00alice\x00database\x00shop\x00\x00")), "yes"},
			{"startup 3.2", pgMsg(3<<16|2, []byte("user\x00u\x00\x00")), "yes"},
			{"startup 3.0 without parameters", pgMsg(3<<16, []byte{0}), "no"},
			{"startup 3.0, nothing after the version", pgMsg(3<<16, nil), "no"},
			{"protocol 2.0", pgMsg(2<<16, []byte("user\x00alice\x00\x00")), "error"},
			{"SSLRequest code minus one", pgMsg(80877102, nil), "no"},
			{"SSLRequest code with declared length 7", []byte{0, 0, 0, 7, 0x04, 0xd2, 0x16, 0x2f}, "no"},
			{"SSLRequest code with declared length 4", []byte{0, 0, 0, 4, 0x04, 0xd2, 0x16, 0x2f}, "no"},
			{"SSLRequest code with declared length 0", []byte{0, 0, 0, 0, 0x04, 0xd2, 0x16, 0x2f}, "no"},
			{"SSLRequest code with declared length 2^32-1", []byte{0xff, 0xff, 0xff, 0xff, 0x04, 0xd2, 0x16, 0x2f}, "no"},
			{"declared length 7", []byte{0, 0, 0, 7, 0, 3, 0, 0}, "no"},
			{"declared length 0", []byte{0, 0, 0, 0, 0, 3, 0, 0}, "no"},
			{"declared length above the matching limit", []byte{0, 1, 0, 0, 0, 3, 0, 0}, "no"},
			{"startup 3.0 with a one-letter parameter", pgMsg(3<<16, []byte("u\x00v\x00\x00")), "yes"},
			{"declared length exactly the matching limit, body not there yet", []byte{0, 0, 0x20, 0, 0, 3, 0, 0}, "more"},
			{"length only", []byte{0, 0, 0, 8}, "more"},
			{"two bytes", []byte{0, 0}, "more"},
			{"startup cut inside the parameters", pgMsg(3<<16, []byte("user\x00alice\x00\x00"))[:14], "more"},
			{"http", []byte("GET / HTTP/1.1\r\n\r\n"), "no"},
		},
		source: "PostgreSQL frontend/backend protocol, message formats: Int32 length (including itself), then SSLRequest (code 80877103) or StartupMessage (Int32 protocol version, major >= 3, followed by name/value strings and a terminating zero byte)",
	},
	{
		fn: "modules/l4wireguard.(*MatchWireGuard).Match", cfgName: "wireguard zero=0",
		heap: func(h map[string]SV) { h["m.Zero"] = symInt(0) },
		cases: []msgCase{
			{"handshake initiation", wgMsg(148, 1, 0), "yes"},
			{"keepalive (empty transport)", wgMsg(32, 4, 0), "yes"},
			{"148 bytes of type 2", wgMsg(148, 2, 0), "no"},
			{"148 bytes of type 4", wgMsg(148, 4, 0), "no"},
			{"32 bytes of type 1", wgMsg(32, 1, 0), "no"},
			{"initiation with non-zero reserved bytes", wgMsg(148, 1, 7), "no"},
			{"keepalive with non-zero reserved bytes", wgMsg(32, 4, 1), "no"},
			{"handshake response (92 bytes)", wgMsg(92, 2, 0), "no"},
			{"147 bytes", wgMsg(147, 1, 0), "no"},
			{"149 bytes", wgMsg(149, 1, 0), "no"},
			{"33 bytes", wgMsg(33, 4, 0), "no"},
			{"empty", []byte{}, "more"},
		},
		source: "WireGuard protocol: a first datagram is a 148-byte handshake initiation (type 1) or a 32-byte keepalive (type 4); little-endian type, three reserved bytes equal to the configured value (0)",
	},
	{
		fn: "modules/l4ssh.(*MatchSSH).Match", cfgName: "ssh",
		cases: []msgCase{
			{"identification", []byte("SSH-2.0-OpenSSH_9.6\r\n"), "yes"},
			{"exactly the prefix", []byte("SSH-"), "yes"},
			{"lower case", []byte("ssh-2.0-x\r\n"), "no"},
			{"prefix after a space", []byte(" SSH-2.0"), "no"},
			{"three bytes", []byte("SSH"), "more"},
			{"empty", []byte{}, "more"},
			{"http", []byte("GET / HTTP/1.1\r\n"), "no"},
		},
		source: "RFC 4253 4.2: the identification string starts with the four bytes 'SSH-'",
	},
	{
		fn: "modules/l4proxyprotocol.(*MatchProxyProtocol).Match", cfgName: "proxy_protocol",
		cases: []msgCase{
			{"v1", []byte("PROXY TCP4 192.168.0.1 192.168.0.11 56324 443\r\n"), "yes"},
			{"v1 minimal 12 bytes", []byte("PROXY UNKNOW"), "yes"},
			{"v2", append([]byte("\r\n\r\n\x00\r\nQUIT\n"), 0x21, 0x11, 0, 12), "yes"},
			{"v2 signature only", []byte("\r\n\r\n\x00\r\nQUIT\n"), "yes"},
			{"v2 signature with one byte wrong", []byte("\r\n\r\n\x00\r\nQUIT\r"), "no"},
			{"lower case v1", []byte("proxy TCP4 1.1.1.1 2.2.2.2 1 2\r\n"), "no"},
			{"eleven bytes of v1", []byte("PROXY TCP4 "), "more"},
			{"http", []byte("GET / HTTP/1.1\r\nHost: x\r\n\r\n"), "no"},
		},
		source: "PROXY protocol spec 2.1/2.2: v1 starts with 'PROXY', v2 with the 12-byte signature 0D0A0D0A000D0A515549540A; the matcher decides on the first 12 bytes",
	},
	{
		fn: "modules/l4xmpp.(*MatchXMPP).Match", cfgName: "xmpp",
		cases: []msgCase{
			{"client stream header", []byte("<stream:stream xmlns='jabber:client' to='example.com' xmlns:stream='http://etherx.jabber.org/streams' version='1.0'>"), "yes"},
			{"namespace only after the 50-byte window", []byte("<?xml version='1.0'?><stream:stream to='example.com' xmlns='jabber:client' version='1.0'>"), "no"},
			{"jabber at the end of the window", append(bytes.Repeat([]byte(" "), 44), []byte("jabber and more")...), "yes"},
			{"jabber after the window", append(bytes.Repeat([]byte(" "), 45), []byte("jabber and more")...), "no"},
			{"no namespace", bytes.Repeat([]byte("x"), 60), "no"},
			{"49 bytes", append([]byte("jabber"), bytes.Repeat([]byte(" "), 43)...), "more"},
		},
		source: "RFC 6120 4.7/4.8: the stream header carries the namespace 'jabber:client' / 'jabber:server'; the matcher looks for 'jabber' in the first 50 bytes",
	},
	{
		fn: "modules/l4socks.(*Socks5Matcher).Match", cfgName: "socks5 default methods",
		heap: func(h map[string]SV) { h["m.AuthMethods"] = u16SliceSV(h, "authm", []uint16{0, 1, 2}) },
		cfg:  func(h map[string]SV) {},
		cases: []msgCase{
			{"no-auth offer", []byte{5, 1, 0}, "yes"},
			{"three known methods", []byte{5, 3, 0, 1, 2}, "yes"},
			{"no methods", []byte{5, 0}, "no"},
			{"no methods, more bytes behind", []byte{5, 0, 1, 0}, "no"},
			{"unknown method among known", []byte{5, 2, 0, 0x80}, "no"},
			{"version 4", []byte{4, 1, 0}, "no"},
			{"methods truncated", []byte{5, 3, 0, 1}, "more"},
			{"only the version", []byte{5}, "more"},
			{"empty", []byte{}, "more"},
		},
		source: "RFC 1928 3: VER=5, NMETHODS, METHODS of 1 to 255 octets; every offered method must be one of the configured ones",
	},
	{
		fn: "modules/l4socks.(*Socks5Matcher).Match", cfgName: "socks5 methods=[2]",
		heap: func(h map[string]SV) { h["m.AuthMethods"] = u16SliceSV(h, "authm", []uint16{2}) },
		cfg:  func(h map[string]SV) { h["m.AuthMethods"] = u16SliceSV(h, "cfgauthm", []uint16{2}) },
		cases: []msgCase{
			{"user/password only", []byte{5, 1, 2}, "yes"},
			{"no-auth offer", []byte{5, 1, 0}, "no"},
			{"both", []byte{5, 2, 2, 0}, "no"},
		},
		source: "RFC 1928 3 with auth_methods [2]",
	},
	{
		fn: "modules/l4socks.(*Socks5Matcher).Match", cfgName: "socks5 methods=[0 254 255]",
		heap: func(h map[string]SV) { h["m.AuthMethods"] = u16SliceSV(h, "authm", []uint16{0, 254, 255}) },
		cfg:  func(h map[string]SV) { h["m.AuthMethods"] = u16SliceSV(h, "cfgauthm", []uint16{0, 254, 255}) },
		cases: []msgCase{
			{"method 255 only", []byte{5, 1, 0xff}, "yes"},
			{"methods 0 and 255", []byte{5, 2, 0, 0xff}, "yes"},
			{"method 254", []byte{5, 1, 0xfe}, "yes"},
			{"method 253", []byte{5, 1, 0xfd}, "no"},
			{"method 1", []byte{5, 1, 1}, "no"},
			{"all three and one more", []byte{5, 4, 0, 0xfe, 0xff, 2}, "no"},
		},
		source: "RFC 1928 3 with auth_methods [0 254 255]: the method octet ranges over 0..255",
	},
	{
		fn: "modules/l4socks.(*Socks4Matcher).Match", cfgName: "socks4 default",
		heap: func(h map[string]SV) {
			h["m.commands"] = byteSliceSV(h, "cmds", []byte{1, 2})
			z := symInt(0)
			h["m.Ports"] = SV{K: "slice", Known: true, Nil: true, Len: &z, Cap: &z, Desc: "nil"}
			h["m.cidrs"] = SV{K: "slice", Known: true, Nil: true, Len: &z, Cap: &z, Desc: "nil"}
		},
		cases: []msgCase{
			{"connect", []byte{4, 1, 0, 80, 10, 0, 0, 1, 0}, "yes"},
			{"bind", []byte{4, 2, 1, 187, 8, 8, 8, 8}, "yes"},
			{"command 3", []byte{4, 3, 0, 80, 10, 0, 0, 1}, "no"},
			{"command 0", []byte{4, 0, 0, 80, 10, 0, 0, 1}, "no"},
			{"version 5", []byte{5, 1, 0, 80, 10, 0, 0, 1}, "no"},
			{"seven bytes", []byte{4, 1, 0, 80, 10, 0, 0}, "more"},
		},
		source: "SOCKS4 protocol: VN=4, CD in {1 CONNECT, 2 BIND}, DSTPORT, DSTIP (8 bytes)",
	},
	{
		fn: "modules/l4socks.(*Socks4Matcher).Match", cfgName: "socks4 connect to port 443",
		heap: func(h map[string]SV) {
			h["m.commands"] = byteSliceSV(h, "cmds", []byte{1})
			h["m.Ports"] = u16SliceSV(h, "ports", []uint16{443, 8443})
			z := symInt(0)
			h["m.cidrs"] = SV{K: "slice", Known: true, Nil: true, Len: &z, Cap: &z, Desc: "nil"}
		},
		cases: []msgCase{
			{"connect 443", []byte{4, 1, 1, 187, 10, 0, 0, 1}, "yes"},
			{"connect 8443", []byte{4, 1, 0x20, 0xFB, 10, 0, 0, 1}, "yes"},
			{"connect 80", []byte{4, 1, 0, 80, 10, 0, 0, 1}, "no"},
			{"port bytes swapped (47873)", []byte{4, 1, 187, 1, 10, 0, 0, 1}, "no"},
			{"bind 443", []byte{4, 2, 1, 187, 10, 0, 0, 1}, "no"},
		},
		source: "SOCKS4 with commands [CONNECT] and ports [443 8443]: DSTPORT is big-endian in bytes 2..3",
	},
}

func c14Tables(c *Ctx, r *Report, rule string) { c14TablesFor(c, r, rule, "") }

// c14TablesFor: the verdict tables, restricted to the matchers whose configuration name starts with only.
func c14TablesFor(c *Ctx, r *Report, rule, only string) {
	floor := 40
	if only != "" {
		floor = 5
	}
	r.rule(rule, "verdict tables of the protocol matchers (ssh, proxy_protocol, xmpp, socks5, socks4, wireguard, postgres, winbox, rdp): Match, evaluated path by path on first messages with fixed bytes (boundary and near-miss messages included; a read beyond the message answers need-more) under provisioned configurations, answers exactly what the reference predicate written from the protocol definition answers: matched / not matched / need more data", floor)
	for _, mm := range msgMatchers {
		if only != "" && !strings.HasPrefix(mm.cfgName, only) {
			continue
		}
		fn := c.Fn(mm.fn)
		if fn == nil {
			r.bad(rule, mm.fn, mm.cfgName, "-", "matcher not found")
			continue
		}
		for _, mc := range mm.cases {
			sc := msgScenario(c, mm, mc)
			paths, err := evalPaths(fn, sc)
			k := mm.cfgName + ": " + mc.name
			if err != nil || len(paths) == 0 {
				r.bad(rule, mm.fn, k, c.pos(fn.Pos()), fmt.Sprintf("undecided: %v", err))
				continue
			}
			var got []string
			for _, p := range paths {
				v := "?"
				switch {
				case p.Outcome != "return" || len(p.Ret) != 2:
					v = "no normal return (" + p.Outcome + ")"
				case !(p.Ret[1].Known && p.Ret[1].Nil):
					if strings.Contains(p.Ret[1].Desc, "ErrConsumedAllPrefetchedBytes") {
						v = "more"
					} else {
						v = "error " + p.Ret[1].Desc
					}
				case p.Ret[0].K == "bool" && p.Ret[0].Known && p.Ret[0].B:
					v = "yes"
				case p.Ret[0].K == "bool" && p.Ret[0].Known:
					v = "no"
				default:
					v = "undetermined verdict " + p.Ret[0].Desc
				}
				got = append(got, v)
			}
			if os.Getenv("L4DEBUG") == "tbl" && strings.Contains(k, os.Getenv("L4CASE")) {
				for _, p := range paths {
					fmt.Println("DBGTBL", k, p.Outcome, p.retDesc(), "|", fmtTrace(p), "|", p.Assume)
				}
			}
			got = dedup(got)
			ok := len(got) == 1 && (got[0] == mc.want || mc.want == "error" && strings.HasPrefix(got[0], "error "))
			r.check(ok, rule, mm.fn, k, c.pos(fn.Pos()), fmt.Sprintf("%q -> %s (%d path(s))", abbreviate(mc.msg), mc.want, len(paths)), fmt.Sprintf("the matcher answers %v for the message %q, the reference says %s - %s", got, abbreviate(mc.msg), mc.want, mm.source))
		}
	}
}

func abbreviate(b []byte) string {
	if len(b) > 40 {
		return string(b[:40]) + "..."
	}
	return string(b)
}

// varInitStrings: a package-level []string{...} of constants.
func varInitStrings(c *Ctx, pkgShort, name string) ([]string, bool) {
	e, info := findVarInit(c, pkgShort, name)
	cl, ok := e.(*ast.CompositeLit)
	if !ok || len(cl.Elts) == 0 {
		return nil, false
	}
	var out []string
	for _, el := range cl.Elts {
		tv, ok := info.Types[el]
		if !ok || tv.Value == nil || tv.Value.Kind() != constant.String {
			return nil, false
		}
		out = append(out, constant.StringVal(tv.Value))
	}
	return out, true
}

// provisionedState evaluates the matcher's Provision on the configuration of a table (exported fields as written,
// everything else zero) and returns the state it leaves - what Match then runs in. nil when the table gives no
// configuration or Provision does not evaluate to exactly one successful end state (the table's hand-written state
// is used instead, and the obligation text says so).
var provMemo = map[string]map[string]SV{}
var provNote = map[string]string{}

func provisionedState(c *Ctx, mm msgMatcher) map[string]SV {
	if mm.cfg == nil {
		return nil
	}
	key := mm.fn + "|" + mm.cfgName
	if st, ok := provMemo[key]; ok {
		return st
	}
	provMemo[key] = nil
	fn := c.Fn(mm.fn)
	if fn == nil || fn.Signature.Recv() == nil {
		return nil
	}
	prov := methodOf(c, fn.Signature.Recv().Type(), "Provision")
	if prov == nil || len(prov.Blocks) == 0 {
		provNote[key] = "no Provision method"
		return nil
	}
	base := msgScenario(c, msgMatcher{fn: fname(prov)}, msgCase{})
	inner := base.Call
	sc := &Scenario{Name: "provision " + mm.cfgName, MaxVisit: 40, MaxPaths: 400, ConcreteCopy: true, Inline: base.Inline, FreshBase: 500000,
		Params: map[string]SV{"recv": symRef("m", false), "p0": symOpaque("ctx")},
		Heap:   map[string]SV{},
	}
	for k, v := range base.Heap {
		if strings.HasPrefix(k, "global:") || strings.HasPrefix(k, "regexp:") {
			sc.Heap[k] = v
		}
	}
	zeroFields(sc.Heap, "m", fn.Signature.Recv().Type())
	msgCtx = c
	mm.cfg(sc.Heap)
	sc.Call = provisionModels(inner)
	paths, err := evalPaths(prov, sc)
	if err != nil {
		provNote[key] = "Provision undecided: " + err.Error()
		return nil
	}
	return provisionEnd(key, paths)
}

// provisionModels: what provisioning code calls - the replacer, regular expressions, loggers.
func provisionModels(inner func(string, []SV, *symEval, *symState) (SV, bool)) func(string, []SV, *symEval, *symState) (SV, bool) {
	return func(callee string, args []SV, ev *symEval, st *symState) (SV, bool) {
		switch {
		case strings.HasSuffix(callee, "caddy/v2.NewReplacer"):
			return symRef("repl", false), true
		case (callee == "regexp.Compile" || callee == "regexp.MustCompile") && len(args) == 1 && args[0].K == "str" && args[0].Known:
			re := symRef(ev.fresh("regexp"), false)
			if _, err := regexp.Compile(args[0].S); err != nil {
				if callee == "regexp.MustCompile" {
					return SV{}, false
				}
				return symTuple(symNil(), SV{K: "ref", Known: true, Desc: "errRegexp"}), true
			}
			st.heap["regexp:"+re.Desc] = symStr(args[0].S)
			if callee == "regexp.MustCompile" {
				return re, true
			}
			return symTuple(re, symNil()), true
		case callee == "strings.ToLower" && len(args) == 1 && args[0].K == "str" && args[0].Known:
			return symStr(strings.ToLower(args[0].S)), true
		case callee == "strings.ToUpper" && len(args) == 1 && args[0].K == "str" && args[0].Known:
			return symStr(strings.ToUpper(args[0].S)), true
		case strings.HasSuffix(callee, ".Logger"):
			return symRef("logger", false), true
		case callee == "fmt.Errorf" || callee == "errors.New":
			return SV{K: "ref", Known: true, Desc: "err:" + callee}, true
		case callee == "net.ParseCIDR" && len(args) == 1 && args[0].K == "str" && args[0].Known:
			if _, _, err := net.ParseCIDR(args[0].S); err != nil {
				return symTuple(symNil(), symNil(), SV{K: "ref", Known: true, Desc: "errParseCIDR(" + args[0].S + ")"}), true
			}
			return symTuple(symRef("ip("+args[0].S+")", false), symRef("ipnet("+args[0].S+")", false), symNil()), true
		case callee == "net/netip.ParsePrefix" && len(args) == 1 && args[0].K == "str" && args[0].Known:
			if _, err := netip.ParsePrefix(args[0].S); err != nil {
				return symTuple(SV{K: "struct", Desc: "zero:netip.Prefix"}, SV{K: "ref", Known: true, Desc: "errParsePrefix(" + args[0].S + ")"}), true
			}
			return symTuple(SV{K: "struct", Desc: "prefix(" + args[0].S + ")"}, symNil()), true
		case callee == "net/netip.ParseAddr" && len(args) == 1 && args[0].K == "str" && args[0].Known:
			if _, err := netip.ParseAddr(args[0].S); err != nil {
				return symTuple(SV{K: "struct", Desc: "zero:netip.Addr"}, SV{K: "ref", Known: true, Desc: "errParseAddr(" + args[0].S + ")"}), true
			}
			return symTuple(SV{K: "struct", Desc: "addr(" + args[0].S + ")"}, symNil()), true
		case strings.HasSuffix(callee, "caddyhttp.CIDRExpressionToPrefix") && len(args) == 1 && args[0].K == "str" && args[0].Known:
			// (caddy v2.8.4: a CIDR expression when it has a slash, otherwise a single address)
			var err error
			if strings.Contains(args[0].S, "/") {
				_, err = netip.ParsePrefix(args[0].S)
			} else {
				_, err = netip.ParseAddr(args[0].S)
			}
			if err != nil {
				return symTuple(SV{K: "struct", Desc: "zero:netip.Prefix"}, SV{K: "ref", Known: true, Desc: "errCIDRExpression(" + args[0].S + ")"}), true
			}
			return symTuple(SV{K: "struct", Desc: "prefix(" + args[0].S + ")"}, symNil()), true
		}
		if inner != nil {
			return inner(callee, args, ev, st)
		}
		return SV{}, false
	}
}

func provisionEnd(key string, paths []Path) map[string]SV {
	var ok []Path
	for _, p := range paths {
		if p.Outcome == "return" && len(p.Ret) == 1 && p.Ret[0].Known && p.Ret[0].Nil {
			ok = append(ok, p)
		} else if !(p.Outcome == "return" && len(p.Ret) == 1 && p.Ret[0].Known) {
			provNote[key] = "Provision undecided on a path (" + p.Outcome + ")"
			return nil
		}
	}
	if len(ok) != 1 {
		provNote[key] = fmt.Sprintf("Provision ends in %d successful states", len(ok))
		return nil
	}
	st := map[string]SV{}
	for k, v := range ok[0].Heap {
		if k != "msg.pos" {
			st[k] = v
		}
	}
	provMemo[key] = st
	provNote[key] = "state left by Provision"
	if os.Getenv("L4DEBUG") == "prov" {
		var ks []string
		for k := range ok[0].Heap {
			ks = append(ks, k)
		}
		sort.Strings(ks)
		for _, k := range ks {
			v := ok[0].Heap[k]
			fmt.Printf("DBG prov %s: %s = %s %s known=%v n=%d\n", key, k, v.K, v.Desc, v.Known, v.N)
		}
	}
	return st
}

// c06Prefixes: "on a proper prefix of a message that matches, the matcher asks for more data - it never says no".
// For every message of the verdict tables that the reference calls a match, the matcher is evaluated on proper
// prefixes of it, cut at the places where parsers go wrong: the first bytes, the last bytes, and one byte before, at
// and after every multiple of 255/256 and of the matching chunk sizes. The answer must be need-more or already a
// match (a matcher may need less than the whole message); a definite "no" or an error on a prefix means that the
// message is rejected when it arrives in fragments although it matches when it arrives whole.
func c06Prefixes(c *Ctx, r *Report, rule string) {
	r.rule(rule, "every message of the verdict tables that matches, cut to proper prefixes (first bytes, last bytes, around every multiple of 255 and 256 and around half of it): the matcher answers need-more or match, never no and never an error - a message that matches when delivered whole is not rejected when delivered in fragments", 60)
	for _, mm := range msgMatchers {
		fn := c.Fn(mm.fn)
		if fn == nil {
			continue
		}
		for _, mc := range mm.cases {
			if mc.want != "yes" || len(mc.msg) < 2 || mm.local == "udp" || strings.Contains(mm.fn, "l4wireguard") {
				continue // (a datagram is not delivered in fragments; WireGuard has no stream form: the matcher decides on the datagram's length)
			}
			cuts := map[int]bool{}
			add := func(k int) {
				if k >= 1 && k < len(mc.msg) {
					cuts[k] = true
				}
			}
			for _, k := range []int{1, 2, 3, 4, 5, len(mc.msg) / 2, len(mc.msg) - 1, len(mc.msg) - 2, len(mc.msg) - 3, len(mc.msg) - 5} {
				add(k)
			}
			for m := 255; m < len(mc.msg)+2; m += 255 {
				for d := -1; d <= 3; d++ {
					add(m + d)
				}
			}
			var ks []int
			for k := range cuts {
				ks = append(ks, k)
			}
			sort.Ints(ks)
			var problems []string
			for _, k := range ks {
				pc := mc
				pc.msg = mc.msg[:k]
				pc.name = fmt.Sprintf("%s, first %d of %d bytes", mc.name, k, len(mc.msg))
				sc := msgScenario(c, mm, pc)
				paths, err := evalPaths(fn, sc)
				if err != nil || len(paths) == 0 {
					problems = append(problems, fmt.Sprintf("first %d bytes: undecided (%v)", k, err))
					continue
				}
				for _, p := range paths {
					switch {
					case p.Outcome != "return" || len(p.Ret) != 2:
						problems = append(problems, fmt.Sprintf("first %d bytes: no normal return (%s)", k, p.Outcome))
					case !(p.Ret[1].Known && p.Ret[1].Nil):
						if !strings.Contains(p.Ret[1].Desc, "ErrConsumedAllPrefetchedBytes") {
							problems = append(problems, fmt.Sprintf("first %d bytes: error %s", k, p.Ret[1].Desc))
						}
					case p.Ret[0].K == "bool" && p.Ret[0].Known && !p.Ret[0].B:
						problems = append(problems, fmt.Sprintf("first %d bytes: no", k))
					case !(p.Ret[0].K == "bool" && p.Ret[0].Known):
						problems = append(problems, fmt.Sprintf("first %d bytes: undetermined verdict", k))
					}
				}
			}
			problems = dedup(problems)
			if len(problems) > 5 {
				problems = append(problems[:5], fmt.Sprintf("... %d more", len(problems)-5))
			}
			r.check(len(problems) == 0, rule, mm.fn, mm.cfgName+": "+mc.name, c.pos(fn.Pos()), fmt.Sprintf("%d proper prefixes of the %d-byte message answer need-more or match", len(ks), len(mc.msg)),
				fmt.Sprintf("on proper prefixes of a message that matches (%q) the matcher answers: %s - delivered in fragments the message is rejected", abbreviate(mc.msg), strings.Join(problems, "; ")))
		}
	}
}
