package main

import (
	"fmt"
	"os"
	"sort"
	"strings"

	"golang.org/x/tools/go/ssa"
)

// ---- a model of golang.org/x/crypto/cryptobyte.String (the reading half), on byte strings of known content

func cryptobyteModel(callee string, args []SV, ev *symEval, st *symState) (SV, bool) {
	i := strings.Index(callee, "cryptobyte.String).")
	if i < 0 || len(args) == 0 {
		return SV{}, false
	}
	m := callee[i+len("cryptobyte.String)."):]
	cur, ok := st.heap[args[0].Desc]
	if !strings.Contains(callee, "(*") {
		cur, ok = args[0], true // value receiver: the string itself
	}
	if !ok {
		// a String variable nothing was stored to yet: empty
		z := symInt(0)
		cur = SV{K: "slice", Desc: args[0].Desc + "!", Len: &z, Cap: &z, Known: true, Nil: true}
	}
	if cur.Len == nil || !cur.Len.Known {
		return SV{}, false
	}
	n := cur.Len.N
	bs, okb := concreteBytes(st, cur)
	if !okb && n > 0 {
		return SV{}, false
	}
	sub := func(lo, k int64) SV {
		base, off := sliceBase(cur.Desc)
		l := symInt(k)
		return SV{K: "slice", Desc: fmt.Sprintf("%s[%d:%d]", base, off+lo, off+lo+k), Len: &l, Cap: &l, Known: true}
	}
	advance := func(k int64) { st.heap[args[0].Desc] = sub(k, n-k) }
	be := func(k int64) int64 {
		v := int64(0)
		for j := int64(0); j < k; j++ {
			v = v<<8 | int64(bs[j])
		}
		return v
	}
	readInt := func(k int64) (SV, bool) {
		if len(args) != 2 {
			return SV{}, false
		}
		if n < k {
			return symBool(false), true
		}
		st.heap[args[1].Desc] = symInt(be(k))
		advance(k)
		return symBool(true), true
	}
	prefixed := func(k int64) (SV, bool) {
		if len(args) != 2 {
			return SV{}, false
		}
		if n < k {
			return symBool(false), true
		}
		l := be(k)
		if n < k+l {
			return symBool(false), true
		}
		st.heap[args[1].Desc] = sub(k, l)
		advance(k + l)
		return symBool(true), true
	}
	switch m {
	case "Empty":
		return symBool(n == 0), true
	case "Skip":
		if len(args) == 2 && args[1].K == "int" && args[1].Known {
			if n < args[1].N || args[1].N < 0 {
				return symBool(false), true
			}
			advance(args[1].N)
			return symBool(true), true
		}
	case "ReadUint8":
		return readInt(1)
	case "ReadUint16":
		return readInt(2)
	case "ReadUint24":
		return readInt(3)
	case "ReadUint32":
		return readInt(4)
	case "ReadUint8LengthPrefixed":
		return prefixed(1)
	case "ReadUint16LengthPrefixed":
		return prefixed(2)
	case "ReadUint24LengthPrefixed":
		return prefixed(3)
	case "ReadBytes", "CopyBytes":
		if m == "ReadBytes" && len(args) == 3 && args[2].K == "int" && args[2].Known {
			k := args[2].N
			if k < 0 || n < k {
				return symBool(false), true
			}
			st.heap[args[1].Desc] = sub(0, k)
			advance(k)
			return symBool(true), true
		}
	}
	return SV{}, false
}

// helloSpec: a ClientHello written field by field; build() gives its bytes behind the 4-byte handshake header.
type helloSpec struct {
	name       string
	version    uint16
	sessionID  int
	suites     []uint16
	comp       []byte
	noExt      bool
	sni        string
	alpn       []string
	versions   []uint16
	curves     []uint16
	points     []byte
	sigalgs    []uint16
	ocsp       bool
	sct        bool
	ticket     []byte
	hasTicket  bool
	renego     bool
	pskModes   []byte
	keyShares  [][2]int // group, data length (0: the list is present and empty when emptyKS)
	emptyKS    bool
	unknownExt bool
	order      []uint16 // extension order (defaults to ascending)
	cut        int      // bytes removed from the end
	trailing   int      // bytes added behind the extensions block (inside the handshake message)
}

var emitted []uint16 // the extension numbers the last build wrote, in order

func (h helloSpec) build() []byte {
	emitted = nil
	u16 := func(v int) []byte { return []byte{byte(v >> 8), byte(v)} }
	pre := func(k int, b []byte) []byte {
		switch k {
		case 1:
			return append([]byte{byte(len(b))}, b...)
		case 2:
			return append(u16(len(b)), b...)
		}
		return append([]byte{byte(len(b) >> 16), byte(len(b) >> 8), byte(len(b))}, b...)
	}
	var body []byte
	body = append(body, u16(int(h.version))...)
	for i := 0; i < 32; i++ {
		body = append(body, byte(0x40+i))
	}
	sid := make([]byte, h.sessionID)
	for i := range sid {
		sid[i] = byte(0x80 + i)
	}
	body = append(body, pre(1, sid)...)
	var cs []byte
	for _, s := range h.suites {
		cs = append(cs, u16(int(s))...)
	}
	body = append(body, pre(2, cs)...)
	body = append(body, pre(1, h.comp)...)
	if !h.noExt {
		exts := map[uint16][]byte{}
		if h.sni != "" {
			exts[0] = pre(2, append([]byte{0}, pre(2, []byte(h.sni))...))
		}
		if h.ocsp {
			exts[5] = append([]byte{1}, append(pre(2, nil), pre(2, nil)...)...)
		}
		if h.curves != nil {
			var b []byte
			for _, c := range h.curves {
				b = append(b, u16(int(c))...)
			}
			exts[10] = pre(2, b)
		}
		if h.points != nil {
			exts[11] = pre(1, h.points)
		}
		if h.sigalgs != nil {
			var b []byte
			for _, c := range h.sigalgs {
				b = append(b, u16(int(c))...)
			}
			exts[13] = pre(2, b)
		}
		if h.alpn != nil {
			var b []byte
			for _, p := range h.alpn {
				b = append(b, pre(1, []byte(p))...)
			}
			exts[16] = pre(2, b)
		}
		if h.sct {
			exts[18] = []byte{}
		}
		if h.hasTicket {
			exts[35] = h.ticket
		}
		if h.versions != nil {
			var b []byte
			for _, v := range h.versions {
				b = append(b, u16(int(v))...)
			}
			exts[43] = pre(1, b)
		}
		if h.pskModes != nil {
			exts[45] = pre(1, h.pskModes)
		}
		if h.keyShares != nil || h.emptyKS {
			var b []byte
			for _, ks := range h.keyShares {
				d := make([]byte, ks[1])
				for i := range d {
					d[i] = byte(i)
				}
				b = append(b, u16(ks[0])...)
				b = append(b, pre(2, d)...)
			}
			exts[51] = pre(2, b)
		}
		if h.renego {
			exts[0xff01] = pre(1, nil)
		}
		if h.unknownExt {
			exts[0x7a7a] = []byte{1, 2, 3}
		}
		order := h.order
		if order == nil {
			for k := range exts {
				order = append(order, k)
			}
			sort.Slice(order, func(i, j int) bool { return order[i] < order[j] })
		}
		var eb []byte
		var wrote []uint16
		for _, k := range order {
			if d, ok := exts[k]; ok {
				eb = append(eb, u16(int(k))...)
				eb = append(eb, pre(2, d)...)
				wrote = append(wrote, k)
			}
		}
		order = wrote
		body = append(body, pre(2, eb)...)
		for i := 0; i < h.trailing; i++ {
			body = append(body, 0)
		}
		emitted = order
	}
	out := append([]byte{1}, pre(3, body)...)
	return out[:len(out)-h.cut]
}

// c07Hello: the ClientHello parser on concrete hellos. Each hello is written field by field (so what crypto/tls
// would report for it is known by construction: server name, ALPN ids, versions - from the supported_versions
// extension or, without it, from the legacy version -, cipher suites, curves, points, signature schemes) and the
// parser, evaluated with a model of cryptobyte.String, must report exactly that. Orderings of the extensions, an
// empty key_share list, unknown extensions, a hello without extensions and truncated hellos are included.
func c07Hello(c *Ctx, r *Report, rule string) {
	r.rule(rule, "ClientHello parser on concrete hellos written field by field (evaluation of parseRawClientHello with a model of cryptobyte.String): server name, ALPN ids, supported versions (from the extension, or derived from the legacy version), cipher suites, curves, points and signature schemes are exactly the ones written - for several extension orders, an empty key_share list, unknown extensions, no extensions, truncated hellos", 10)
	fnName := "modules/l4tls.parseRawClientHello"
	fn := c.Fn(fnName)
	if fn == nil {
		r.bad(rule, fnName, "exists", "-", "function not found")
		return
	}
	full := helloSpec{name: "browser-like hello", version: 0x0303, sessionID: 32, suites: []uint16{0x1301, 0x1302, 0xc02f, 0x00ff}, comp: []byte{0},
		sni: "example.com", alpn: []string{"h2", "http/1.1"}, versions: []uint16{0x0304, 0x0303}, curves: []uint16{29, 23, 24}, points: []byte{0},
		sigalgs: []uint16{0x0403, 0x0804, 0x0401}, ocsp: true, sct: true, hasTicket: true, renego: true, pskModes: []byte{1}, keyShares: [][2]int{{29, 32}}}
	specs := []helloSpec{full}
	add := func(name string, f func(h *helloSpec)) {
		h := full
		h.name = name
		f(&h)
		specs = append(specs, h)
	}
	add("key_share and supported_versions before server_name and ALPN", func(h *helloSpec) { h.order = []uint16{51, 43, 13, 10, 11, 0, 16, 5, 18, 35, 45, 0xff01} })
	add("empty key_share list (asks for HelloRetryRequest) before the other extensions", func(h *helloSpec) {
		h.keyShares, h.emptyKS = nil, true
		h.order = []uint16{51, 0, 16, 43, 10, 13}
	})
	add("unknown extension first", func(h *helloSpec) { h.unknownExt = true; h.order = []uint16{0x7a7a, 0, 16, 43, 10, 11, 13} })
	add("no supported_versions: TLS 1.2 legacy version", func(h *helloSpec) { h.versions = nil })
	add("no supported_versions: TLS 1.0 legacy version", func(h *helloSpec) { h.versions = nil; h.version = 0x0301 })
	add("no supported_versions: TLS 1.1 legacy version", func(h *helloSpec) { h.versions = nil; h.version = 0x0302 })
	add("supported_versions with GREASE and a draft version", func(h *helloSpec) { h.versions = []uint16{0x7a7a, 0x0304, 0x7f1c, 0x0303} })
	add("no extensions at all", func(h *helloSpec) { h.noExt = true; h.version = 0x0303 })
	add("no server name", func(h *helloSpec) { h.sni = "" })
	add("one ALPN id", func(h *helloSpec) { h.alpn = []string{"acme-tls/1"} })
	add("empty session id, one cipher suite", func(h *helloSpec) { h.sessionID = 0; h.suites = []uint16{0x1301} })
	add("session ticket with data", func(h *helloSpec) { h.ticket = []byte{1, 2, 3, 4} })
	add("two key shares", func(h *helloSpec) { h.keyShares = [][2]int{{29, 32}, {23, 65}} })
	add("a byte behind the extensions block", func(h *helloSpec) { h.trailing = 1 })
	for _, hs := range specs {
		data := hs.build()[c07HeaderOffset(c):]
		if hs.trailing > 0 {
			// crypto/tls refuses such a hello; the parser here stops before the extensions: nothing of them is reported
			hs.noExt = true
			hs.versions = nil
		}
		// what the hello says (by construction)
		wantVersions := hs.versions
		if hs.noExt || wantVersions == nil {
			wantVersions = nil
			for _, v := range []uint16{0x0304, 0x0303, 0x0302, 0x0301} {
				if v <= hs.version {
					wantVersions = append(wantVersions, v)
				}
			}
		}
		u16list := func(xs []uint16) string {
			var ps []string
			for _, x := range xs {
				ps = append(ps, fmt.Sprint(x))
			}
			return "[" + strings.Join(ps, " ") + "]"
		}
		want := map[string]string{"Version": fmt.Sprint(hs.version), "CipherSuites": u16list(hs.suites), "SupportedVersions": u16list(wantVersions)}
		present := func(k uint16) bool {
			if hs.order == nil {
				return true
			}
			for _, x := range hs.order {
				if x == k {
					return true
				}
			}
			return false
		}
		if !hs.noExt {
			var es []uint16
			for _, k := range emitted {
				es = append(es, k)
			}
			want["Extensions"] = u16list(es)
			if !present(5) {
				hs.ocsp = false
			}
			if !present(18) {
				hs.sct = false
			}
			if !present(35) {
				hs.hasTicket = false
			}
			if !present(11) {
				hs.points = nil
			}
			want["ServerName"] = fmt.Sprintf("%q", hs.sni)
			var ps []string
			for _, p := range hs.alpn {
				ps = append(ps, fmt.Sprintf("%q", p))
			}
			want["SupportedProtos"] = "[" + strings.Join(ps, " ") + "]"
			want["SupportedCurves"] = u16list(hs.curves)
			want["SignatureSchemes"] = u16list(hs.sigalgs)
			want["OCSPStapling"] = fmt.Sprint(hs.ocsp)
			want["SCTs"] = fmt.Sprint(hs.sct)
			want["TicketSupported"] = fmt.Sprint(hs.hasTicket)
		} else {
			want["ServerName"], want["SupportedProtos"], want["SupportedCurves"] = `""`, "[]", "[]"
		}
		name := hs.name
		base := msgScenario(c, msgMatcher{fn: fnName}, msgCase{})
		base.Name = name
		base.MaxVisit = 80
		base.MaxPaths = 200
		base.Params = map[string]SV{"p0": byteSliceSV(base.Heap, "data", data)}
		inner := base.Call
		base.Call = func(callee string, args []SV, ev *symEval, st *symState) (SV, bool) {
			if v, ok := cryptobyteModel(callee, args, ev, st); ok {
				return v, true
			}
			return inner(callee, args, ev, st)
		}
		baseInline := base.Inline
		base.Inline = func(f *ssa.Function) bool { // the deferred closure (versions from the legacy version) runs too
			for q := f.Parent(); q != nil; q = q.Parent() {
				if q == fn {
					return true
				}
			}
			return baseInline != nil && baseInline(f)
		}
		paths, err := evalPaths(fn, base)
		if err != nil || len(paths) != 1 {
			r.bad(rule, fnName, name, c.pos(fn.Pos()), fmt.Sprintf("undecided: %d paths, %v", len(paths), err))
			continue
		}
		p := paths[0]
		if os.Getenv("L4DEBUG") == "hello" && hs.name == "browser-like hello" {
			var ks []string
			for k := range p.Heap {
				if strings.HasPrefix(k, "cell:info") {
					ks = append(ks, k)
				}
			}
			sort.Strings(ks)
			for _, k := range ks {
				fmt.Println("    ", k, "=", p.Heap[k].K, p.Heap[k].Desc)
			}
		}
		// the named result lives in a cell
		cell := ""
		for k := range p.Heap {
			if strings.HasPrefix(k, "cell:info#") && strings.HasSuffix(k, ".Version") {
				cell = strings.TrimSuffix(k, ".Version")
			}
		}
		var problems []string
		if p.Outcome != "return" || cell == "" {
			problems = append(problems, "undecided: "+p.Outcome)
		} else {
			var fields []string
			for f := range want {
				fields = append(fields, f)
			}
			sort.Strings(fields)
			for _, f := range fields {
				got := "?"
				v, ok := p.Heap[cell+"."+f]
				if !ok {
					// a field promoted from the embedded tls.ClientHelloInfo
					for k, hv := range p.Heap {
						if strings.HasPrefix(k, cell+".") && strings.HasSuffix(k, "."+f) && strings.Count(k[len(cell)+1:], ".") == 1 {
							v, ok = hv, true
						}
					}
				}
				if ok {
					got = renderHeap(p.Heap, nil, v)
				} else {
					switch want[f] {
					case `""`, "[]", "false", "0":
						got = want[f] // never assigned: the zero value
					}
				}
				if got == "nil" && want[f] == "[]" {
					got = "[]"
				}
				if got != want[f] {
					problems = append(problems, fmt.Sprintf("%s = %s, the hello says %s", f, got, want[f]))
				}
			}
		}
		r.check(len(problems) == 0, rule, fnName, name, c.pos(fn.Pos()), fmt.Sprintf("%d bytes", len(data)), strings.Join(problems, "; ")+" - routing on sni/alpn/version and the placeholders then disagree with what the terminating server sees")
	}
}
