package main

import (
	"fmt"
	"go/constant"
	"go/token"
	"go/types"
	"sort"
	"strings"

	"golang.org/x/tools/go/ssa"
)

// ---------- calls ----------

// callsIn returns every call-like instruction (call, go, defer) of fn in block order.
func callsIn(fn *ssa.Function) []ssa.CallInstruction {
	var out []ssa.CallInstruction
	for _, b := range fn.Blocks {
		for _, in := range b.Instrs {
			if ci, ok := in.(ssa.CallInstruction); ok {
				out = append(out, ci)
			}
		}
	}
	return out
}

// calleeID gives a stable, position-free description of what a call invokes:
//
//	static function/method: its fname (module) or "pkgpath.Name" / "(recv).Name" (external)
//	interface invoke:       "invoke <iface type>.<Method>"
//	builtin:                "builtin <name>"
//	dynamic:                "dynamic"
func calleeID(ci ssa.CallInstruction) string {
	cc := ci.Common()
	if cc.IsInvoke() {
		return "invoke " + typeStr(cc.Value.Type()) + "." + cc.Method.Name()
	}
	switch v := cc.Value.(type) {
	case *ssa.Builtin:
		return "builtin " + v.Name()
	case *ssa.Function:
		return extName(v)
	case *ssa.MakeClosure:
		if f, ok := v.Fn.(*ssa.Function); ok {
			return extName(f)
		}
	}
	return "dynamic"
}

func extName(f *ssa.Function) string {
	if f.Pkg != nil && strings.HasPrefix(f.Pkg.Pkg.Path(), modPath) {
		return fname(f)
	}
	if f.Origin() != nil {
		f = f.Origin()
	}
	if f.Parent() != nil {
		return extName(f.Parent()) + "$anon"
	}
	pk := ""
	if f.Object() != nil && f.Object().Pkg() != nil {
		pk = f.Object().Pkg().Path()
	} else if f.Pkg != nil {
		pk = f.Pkg.Pkg.Path()
	}
	if recv := f.Signature.Recv(); recv != nil {
		return "(" + typeStr(recv.Type()) + ")." + f.Name()
	}
	return pk + "." + f.Name()
}

func typeStr(t types.Type) string {
	return canonTypeString(rawTypeStr(t))
}

// staticCallee returns the called module/external function if statically known.
func staticCallee(ci ssa.CallInstruction) *ssa.Function {
	return ci.Common().StaticCallee()
}

// isInvoke reports whether ci invokes interface method named meth (any interface).
func isInvoke(ci ssa.CallInstruction, meth string) bool {
	cc := ci.Common()
	return cc.IsInvoke() && cc.Method.Name() == meth
}

// isCall reports whether ci statically calls the function whose calleeID is id.
func isCall(ci ssa.CallInstruction, id string) bool { return calleeID(ci) == id }

// ---------- instruction order / dominance ----------

func instrIndex(in ssa.Instruction) int {
	for i, x := range in.Block().Instrs {
		if x == in {
			return i
		}
	}
	return -1
}

// dominates reports whether instruction a dominates instruction b (a executes before b on every path to b).
func dominates(a, b ssa.Instruction) bool {
	if a.Block() == b.Block() {
		return instrIndex(a) < instrIndex(b)
	}
	return a.Block().Dominates(b.Block())
}

// reachableBlocks returns blocks reachable from b (including b if on a cycle or start==true).
func reachableFrom(b *ssa.BasicBlock, includeStart bool) map[*ssa.BasicBlock]bool {
	seen := map[*ssa.BasicBlock]bool{}
	var stack []*ssa.BasicBlock
	if includeStart {
		seen[b] = true
	}
	stack = append(stack, b.Succs...)
	for len(stack) > 0 {
		x := stack[len(stack)-1]
		stack = stack[:len(stack)-1]
		if seen[x] && !(x == b && !includeStart) {
			continue
		}
		if seen[x] {
			continue
		}
		seen[x] = true
		stack = append(stack, x.Succs...)
	}
	return seen
}

// inLoop reports whether block b lies on a cycle of the CFG.
func inLoop(b *ssa.BasicBlock) bool {
	r := reachableFrom(b, false)
	return r[b]
}

// canReach reports whether instruction b can execute after instruction a (same function).
func canReach(a, b ssa.Instruction) bool {
	if a.Block() == b.Block() && instrIndex(a) < instrIndex(b) {
		return true
	}
	return reachableFrom(a.Block(), false)[b.Block()]
}

// pathAvoiding reports whether there is a CFG path from just after instruction `from` to an
// instruction satisfying `target` that passes no instruction satisfying `avoid`.
// It returns the first target found (for diagnostics).
func pathAvoiding(from ssa.Instruction, target, avoid func(ssa.Instruction) bool) ssa.Instruction {
	type st struct {
		b *ssa.BasicBlock
		i int
	}
	seen := map[*ssa.BasicBlock]bool{}
	var work []st
	work = append(work, st{from.Block(), instrIndex(from) + 1})
	for len(work) > 0 {
		s := work[len(work)-1]
		work = work[:len(work)-1]
		blocked := false
		for k := s.i; k < len(s.b.Instrs); k++ {
			in := s.b.Instrs[k]
			if target(in) {
				return in
			}
			if avoid != nil && avoid(in) {
				blocked = true
				break
			}
		}
		if blocked {
			continue
		}
		for _, su := range s.b.Succs {
			if !seen[su] {
				seen[su] = true
				work = append(work, st{su, 0})
			}
		}
	}
	return nil
}

// pathFromEntryAvoiding: like pathAvoiding but starting at function entry.
func pathFromEntryAvoiding(fn *ssa.Function, target, avoid func(ssa.Instruction) bool) ssa.Instruction {
	if len(fn.Blocks) == 0 {
		return nil
	}
	seen := map[*ssa.BasicBlock]bool{fn.Blocks[0]: true}
	work := []*ssa.BasicBlock{fn.Blocks[0]}
	for len(work) > 0 {
		b := work[len(work)-1]
		work = work[:len(work)-1]
		blocked := false
		for _, in := range b.Instrs {
			if target(in) {
				return in
			}
			if avoid != nil && avoid(in) {
				blocked = true
				break
			}
		}
		if blocked {
			continue
		}
		for _, su := range b.Succs {
			if !seen[su] {
				seen[su] = true
				work = append(work, su)
			}
		}
	}
	return nil
}

func isReturn(in ssa.Instruction) bool { _, ok := in.(*ssa.Return); return ok }

// ---------- branch conditions ----------

// Cond is a branch fact: value v was tested and the branch taken was `truth`.
type Cond struct {
	V     ssa.Value
	Truth bool
	If    *ssa.If
}

// edgeConds returns the facts established on entry to block b by dominating branch edges:
// for each dominator d ending in If, if exactly one successor edge of d dominates b
// (that successor has d as its only predecessor), the corresponding fact holds in b.
func edgeConds(b *ssa.BasicBlock) []Cond {
	var out []Cond
	for d := b; d != nil; d = d.Idom() {
		id := d.Idom()
		if id == nil {
			break
		}
		// find the chain: which If-terminated dominators have an edge dominating b
		_ = id
	}
	for d := b.Idom(); d != nil; d = d.Idom() {
		ifi, ok := d.Instrs[len(d.Instrs)-1].(*ssa.If)
		if !ok {
			continue
		}
		for k, s := range d.Succs {
			if len(s.Preds) == 1 && (s == b || s.Dominates(b)) {
				// make sure the other successor does not also dominate (impossible with single pred, but keep explicit)
				out = append(out, Cond{V: ifi.Cond, Truth: k == 0, If: ifi})
			}
		}
	}
	return out
}

// nilCheck decodes v as a comparison of some value with nil: returns (x, isNeq).
func nilCheck(v ssa.Value) (ssa.Value, bool, bool) {
	bo, ok := v.(*ssa.BinOp)
	if !ok || (bo.Op != token.EQL && bo.Op != token.NEQ) {
		return nil, false, false
	}
	if isNilConst(bo.Y) {
		return bo.X, bo.Op == token.NEQ, true
	}
	if isNilConst(bo.X) {
		return bo.Y, bo.Op == token.NEQ, true
	}
	return nil, false, false
}

func isNilConst(v ssa.Value) bool {
	c, ok := v.(*ssa.Const)
	return ok && c.Value == nil && !isBasic(c.Type())
}

func isBasic(t types.Type) bool { _, ok := t.Underlying().(*types.Basic); return ok }

func constInt(v ssa.Value) (int64, bool) {
	c, ok := v.(*ssa.Const)
	if !ok || c.Value == nil {
		return 0, false
	}
	if c.Value.Kind() == constant.Int {
		i, ok := constant.Int64Val(c.Value)
		return i, ok
	}
	return 0, false
}

func constBool(v ssa.Value) (bool, bool) {
	c, ok := v.(*ssa.Const)
	if !ok || c.Value == nil || c.Value.Kind() != constant.Bool {
		return false, false
	}
	return constant.BoolVal(c.Value), true
}

func constString(v ssa.Value) (string, bool) {
	c, ok := v.(*ssa.Const)
	if !ok || c.Value == nil || c.Value.Kind() != constant.String {
		return "", false
	}
	return constant.StringVal(c.Value), true
}

// knownNonNil reports whether, in block b, value x is known != nil (isNil=false) or == nil (isNil=true)
// through a dominating branch edge.
func knownNil(b *ssa.BasicBlock, x ssa.Value, isNil bool) bool {
	for _, c := range edgeConds(b) {
		if y, neq, ok := nilCheck(c.V); ok && sameValue(y, x) {
			// cond "y != nil" true => non-nil ; "y == nil" true => nil
			valIsNil := (neq && !c.Truth) || (!neq && c.Truth)
			if valIsNil == isNil {
				return true
			}
		}
	}
	return false
}

// sameValue: identical SSA value, or both loads of the same address without intervening consideration
// (used only for values in the same function where the address is a local Alloc / named result).
func sameValue(a, b ssa.Value) bool {
	if a == b {
		return true
	}
	ua, ok1 := a.(*ssa.UnOp)
	ub, ok2 := b.(*ssa.UnOp)
	if ok1 && ok2 && ua.Op == token.MUL && ub.Op == token.MUL && ua.X == ub.X {
		if _, isAlloc := ua.X.(*ssa.Alloc); isAlloc {
			return true
		}
	}
	return false
}

// ---------- field access ----------

// fieldOf decodes an address/value as "field <name> of struct type <T>" and returns the base value.
func fieldAddr(v ssa.Value) (base ssa.Value, structName, field string, ok bool) {
	switch x := v.(type) {
	case *ssa.FieldAddr:
		st := derefStruct(x.X.Type())
		if st == nil {
			return nil, "", "", false
		}
		return x.X, namedName(deref(x.X.Type())), canonFieldName(st.Field(x.Field)), true
	case *ssa.Field:
		st, _ := x.X.Type().Underlying().(*types.Struct)
		if st == nil {
			return nil, "", "", false
		}
		return x.X, namedName(x.X.Type()), canonFieldName(st.Field(x.Field)), true
	}
	return nil, "", "", false
}

func deref(t types.Type) types.Type {
	if p, ok := t.Underlying().(*types.Pointer); ok {
		return p.Elem()
	}
	return t
}

func derefStruct(t types.Type) *types.Struct {
	st, _ := deref(t).Underlying().(*types.Struct)
	return st
}

func namedName(t types.Type) string {
	if n, ok := t.(*types.Named); ok {
		if n.Obj().Pkg() != nil {
			return canonTypeString(short(n.Obj().Pkg().Path()) + "." + n.Obj().Name())
		}
		return n.Obj().Name()
	}
	return typeStr(t)
}

// loadOfField reports whether v is a load (*addr) of the named field (struct qualified name, field name).
func loadOfField(v ssa.Value, structName, field string) (base ssa.Value, ok bool) {
	switch x := v.(type) {
	case *ssa.UnOp:
		if x.Op != token.MUL {
			return nil, false
		}
		b, sn, f, ok := fieldAddr(x.X)
		if ok && sn == structName && f == field {
			return b, true
		}
	case *ssa.Field:
		b, sn, f, ok := fieldAddr(x)
		if ok && sn == structName && f == field {
			return b, true
		}
	}
	return nil, false
}

// storesToField lists the Store instructions in fn that write the named field.
func storesToField(fn *ssa.Function, structName, field string) []*ssa.Store {
	var out []*ssa.Store
	for _, b := range fn.Blocks {
		for _, in := range b.Instrs {
			if st, ok := in.(*ssa.Store); ok {
				if _, sn, f, ok := fieldAddr(st.Addr); ok && sn == structName && f == field {
					out = append(out, st)
				}
			}
		}
	}
	return out
}

// ---------- provenance (backward slice) ----------

// Origin is a leaf of the backward slice of a value.
type Origin struct {
	Kind string    // param, const, call, field, global, freevar, alloc, makeclosure, other
	Desc string    // position-free description
	V    ssa.Value // the leaf value
}

type sliceOpts struct {
	throughCalls bool // continue through call arguments (results derive from args)
	maxDepth     int
}

// origins computes the leaves the value v may derive from inside its function. Loads from local
// cells (Alloc) are followed through every store to that cell (flow-insensitive, over-approximate);
// closure free variables are followed to the binding in the enclosing function.
func origins(v ssa.Value, opt sliceOpts) []Origin {
	if opt.maxDepth == 0 {
		opt.maxDepth = 60
	}
	seen := map[ssa.Value]bool{}
	var out []Origin
	var walk func(v ssa.Value, d int)
	add := func(k, desc string, v ssa.Value) { out = append(out, Origin{k, desc, v}) }
	walk = func(v ssa.Value, d int) {
		if v == nil || seen[v] {
			return
		}
		seen[v] = true
		if d > opt.maxDepth {
			add("other", "depth-limit", v)
			return
		}
		switch x := v.(type) {
		case *ssa.Parameter:
			add("param", x.Name(), x)
		case *ssa.Const:
			add("const", constDesc(x), x)
		case *ssa.Global:
			add("global", globalName(x), x)
		case *ssa.FreeVar:
			// follow to binding
			if b := freeVarBinding(x); b != nil {
				walk(b, d+1)
			} else {
				add("freevar", x.Name(), x)
			}
		case *ssa.Function:
			add("func", extName(x), x)
		case *ssa.Builtin:
			add("builtin", x.Name(), x)
		case *ssa.Phi:
			for _, e := range x.Edges {
				walk(e, d+1)
			}
		case *ssa.BinOp:
			walk(x.X, d+1)
			walk(x.Y, d+1)
		case *ssa.UnOp:
			if x.Op == token.MUL {
				// load
				switch a := x.X.(type) {
				case *ssa.Alloc:
					for _, st := range storesTo(a) {
						walk(st, d+1)
					}
					if len(storesTo(a)) == 0 {
						add("alloc", "zero "+typeStr(a.Type()), a)
					}
				case *ssa.FreeVar:
					if b := freeVarBinding(a); b != nil {
						if al, ok := b.(*ssa.Alloc); ok {
							for _, st := range storesToDeep(al) {
								walk(st, d+1)
							}
							return
						}
						walk(b, d+1)
					} else {
						add("freevar", a.Name(), a)
					}
				case *ssa.Global:
					add("global", globalName(a), a)
				default:
					if base, sn, f, ok := fieldAddr(x.X); ok {
						add("field", sn+"."+f, x)
						_ = base
					} else if ia, ok := x.X.(*ssa.IndexAddr); ok {
						add("elem", "element of "+typeStr(ia.X.Type()), x)
						walk(ia.X, d+1)
					} else {
						walk(x.X, d+1)
					}
				}
			} else {
				walk(x.X, d+1)
			}
		case *ssa.Convert:
			walk(x.X, d+1)
		case *ssa.ChangeType:
			walk(x.X, d+1)
		case *ssa.ChangeInterface:
			walk(x.X, d+1)
		case *ssa.MakeInterface:
			walk(x.X, d+1)
		case *ssa.SliceToArrayPointer:
			walk(x.X, d+1)
		case *ssa.Slice:
			walk(x.X, d+1)
			walk(x.Low, d+1)
			walk(x.High, d+1)
		case *ssa.TypeAssert:
			walk(x.X, d+1)
		case *ssa.Extract:
			walk(x.Tuple, d+1)
		case *ssa.Field:
			add("field", namedName(x.X.Type())+"."+fieldName(x.X.Type(), x.Field), x)
		case *ssa.FieldAddr:
			add("fieldaddr", namedName(deref(x.X.Type()))+"."+fieldName(deref(x.X.Type()), x.Field), x)
		case *ssa.Index:
			walk(x.X, d+1)
		case *ssa.IndexAddr:
			walk(x.X, d+1)
		case *ssa.Lookup:
			walk(x.X, d+1)
			walk(x.Index, d+1)
		case *ssa.Alloc:
			add("alloc", typeStr(x.Type()), x)
		case *ssa.MakeClosure:
			add("makeclosure", extName(x.Fn.(*ssa.Function)), x)
		case *ssa.Call:
			add("call", calleeID(x), x)
			if opt.throughCalls {
				for _, a := range x.Call.Args {
					walk(a, d+1)
				}
				if x.Call.IsInvoke() {
					walk(x.Call.Value, d+1)
				}
			}
		case *ssa.Next:
			walk(x.Iter, d+1)
		case *ssa.Range:
			walk(x.X, d+1)
		case *ssa.MakeSlice:
			add("makeslice", typeStr(x.Type()), x)
		case *ssa.MakeMap:
			add("makemap", typeStr(x.Type()), x)
		case *ssa.MakeChan:
			add("makechan", typeStr(x.Type()), x)
		default:
			add("other", fmt.Sprintf("%T", v), v)
		}
	}
	walk(v, 0)
	return out
}

func fieldName(t types.Type, i int) string {
	if st, ok := t.Underlying().(*types.Struct); ok && i < st.NumFields() {
		return canonFieldName(st.Field(i))
	}
	return fmt.Sprint(i)
}

func constDesc(c *ssa.Const) string {
	if c.Value == nil {
		return "nil:" + typeStr(c.Type())
	}
	if s := c.Value.ExactString(); len(s) <= 60 {
		return s
	}
	return c.Value.String()
}

func globalName(g *ssa.Global) string {
	if g.Pkg != nil {
		p := g.Pkg.Pkg.Path()
		if strings.HasPrefix(p, modPath) {
			if n, ok := aliasGlobal[g]; ok {
				return short(p) + "." + n
			}
			return short(p) + "." + g.Name()
		}
		return p + "." + g.Name()
	}
	return g.Name()
}

// storesTo returns the values stored into local cell a within its function.
func storesTo(a *ssa.Alloc) []ssa.Value {
	var out []ssa.Value
	var visit func(addr ssa.Value, d int)
	visit = func(addr ssa.Value, d int) {
		refs := addr.Referrers()
		if refs == nil || d > 4 {
			return
		}
		for _, r := range *refs {
			switch x := r.(type) {
			case *ssa.Store:
				if x.Addr == addr {
					out = append(out, x.Val)
				}
			case *ssa.FieldAddr:
				// a store into a field/element of the cell contributes to the cell's value
				if x.X == addr {
					visit(x, d+1)
				}
			case *ssa.IndexAddr:
				if x.X == addr {
					visit(x, d+1)
				}
			}
		}
	}
	visit(a, 0)
	return out
}

// storesToDeep returns values stored to cell a in its function and in all closures capturing it.
func storesToDeep(a *ssa.Alloc) []ssa.Value {
	out := storesTo(a)
	for _, r := range *a.Referrers() {
		if mc, ok := r.(*ssa.MakeClosure); ok {
			fn := mc.Fn.(*ssa.Function)
			for i, b := range mc.Bindings {
				if b == a {
					out = append(out, storesThroughFreeVar(fn, fn.FreeVars[i])...)
				}
			}
		}
	}
	return out
}

func storesThroughFreeVar(fn *ssa.Function, fv *ssa.FreeVar) []ssa.Value {
	var out []ssa.Value
	for _, r := range *fv.Referrers() {
		if st, ok := r.(*ssa.Store); ok && st.Addr == fv {
			out = append(out, st.Val)
		}
		if mc, ok := r.(*ssa.MakeClosure); ok {
			inner := mc.Fn.(*ssa.Function)
			for i, b := range mc.Bindings {
				if b == fv {
					out = append(out, storesThroughFreeVar(inner, inner.FreeVars[i])...)
				}
			}
		}
	}
	return out
}

// freeVarBinding returns the value bound to the free variable at the (unique) MakeClosure of its function.
func freeVarBinding(fv *ssa.FreeVar) ssa.Value {
	fn := fv.Parent()
	par := fn.Parent()
	if par == nil {
		return nil
	}
	idx := -1
	for i, f := range fn.FreeVars {
		if f == fv {
			idx = i
		}
	}
	if idx < 0 {
		return nil
	}
	var found ssa.Value
	for _, b := range par.Blocks {
		for _, in := range b.Instrs {
			if mc, ok := in.(*ssa.MakeClosure); ok && mc.Fn == fn {
				if found != nil && found != mc.Bindings[idx] {
					return nil
				}
				found = mc.Bindings[idx]
			}
		}
	}
	return found
}

func originKinds(os []Origin) string {
	m := map[string]bool{}
	for _, o := range os {
		m[o.Kind+":"+o.Desc] = true
	}
	var ks []string
	for k := range m {
		ks = append(ks, k)
	}
	sort.Strings(ks)
	return strings.Join(ks, ", ")
}

func hasOrigin(os []Origin, kind, desc string) bool {
	for _, o := range os {
		if o.Kind == kind && (desc == "" || o.Desc == desc) {
			return true
		}
	}
	return false
}

// onlyOrigins reports whether every leaf satisfies pred.
func onlyOrigins(os []Origin, pred func(Origin) bool) bool {
	if len(os) == 0 {
		return false
	}
	for _, o := range os {
		if !pred(o) {
			return false
		}
	}
	return true
}

// derivesFrom reports whether value v may derive from value src (src appears in the backward slice).
func derivesFrom(v, src ssa.Value) bool { return derivesFromAvoiding(v, src, nil) }

// derivesFromAvoiding is derivesFrom that does not look through values for which avoid holds.
func derivesFromAvoiding(v, src ssa.Value, avoid func(ssa.Value) bool) bool {
	seen := map[ssa.Value]bool{}
	var walk func(v ssa.Value, d int) bool
	walk = func(v ssa.Value, d int) bool {
		if v == nil || seen[v] || d > 80 {
			return false
		}
		if v == src {
			return true
		}
		if avoid != nil && avoid(v) {
			return false
		}
		seen[v] = true
		switch x := v.(type) {
		case *ssa.Phi:
			for _, e := range x.Edges {
				if walk(e, d+1) {
					return true
				}
			}
		case *ssa.UnOp:
			if x.Op == token.MUL {
				if a, ok := x.X.(*ssa.Alloc); ok {
					for _, s := range storesToDeep(a) {
						if walk(s, d+1) {
							return true
						}
					}
					return false
				}
				if fv, ok := x.X.(*ssa.FreeVar); ok {
					if b := freeVarBinding(fv); b != nil {
						if b == src {
							return true
						}
						if al, ok := b.(*ssa.Alloc); ok {
							for _, s := range storesToDeep(al) {
								if walk(s, d+1) {
									return true
								}
							}
							return false
						}
						return walk(b, d+1)
					}
				}
			}
			return walk(x.X, d+1)
		case *ssa.FreeVar:
			if b := freeVarBinding(x); b != nil {
				return walk(b, d+1)
			}
		case *ssa.Alloc:
			// a cell reached by address (e.g. the backing array of variadic arguments): what is stored into it
			for _, s := range storesToDeep(x) {
				if walk(s, d+1) {
					return true
				}
			}
		default:
			var ops []*ssa.Value
			if in, ok := v.(ssa.Instruction); ok {
				ops = in.Operands(ops)
				for _, o := range ops {
					if *o != nil && walk(*o, d+1) {
						return true
					}
				}
			}
		}
		return false
	}
	return walk(v, 0)
}

// callResults returns the call instruction as a value (nil for go/defer).
func callValue(ci ssa.CallInstruction) *ssa.Call {
	c, _ := ci.(*ssa.Call)
	return c
}

// extract returns the i-th result of a multi-result call (nil if not extracted).
func extractOf(call *ssa.Call, i int) *ssa.Extract {
	for _, r := range *call.Referrers() {
		if e, ok := r.(*ssa.Extract); ok && e.Index == i {
			return e
		}
	}
	return nil
}

// returnsOf lists the return instructions of fn.
func returnsOf(fn *ssa.Function) []*ssa.Return {
	var out []*ssa.Return
	for _, b := range fn.Blocks {
		if r, ok := b.Instrs[len(b.Instrs)-1].(*ssa.Return); ok {
			out = append(out, r)
		}
	}
	return out
}

// deferredClosures lists functions registered by defer in fn (static closures / functions only).
func deferredCalls(fn *ssa.Function) []*ssa.Defer {
	var out []*ssa.Defer
	for _, b := range fn.Blocks {
		for _, in := range b.Instrs {
			if d, ok := in.(*ssa.Defer); ok {
				out = append(out, d)
			}
		}
	}
	return out
}

func closureOf(v ssa.Value) *ssa.Function {
	switch x := v.(type) {
	case *ssa.MakeClosure:
		return x.Fn.(*ssa.Function)
	case *ssa.Function:
		return x
	}
	return nil
}

// constOf returns the int64 value of a types.Const object (or -1).
func constOf(o types.Object) int64 {
	c, ok := o.(*types.Const)
	if !ok {
		return -1
	}
	if v, ok := constant.Int64Val(constant.ToInt(c.Val())); ok {
		return v
	}
	return -1
}

// poolOp recognises a call that takes a value out of a package-level sync.Pool or gives one back, directly or through
// a wrapper function of the module: a function all of whose returns hand back the (asserted) result of Get on a
// global pool is a getter; one that passes a parameter to Put of a global pool is a putter. It returns the kind
// ("get"/"put"), the pool variable and, for a put, the value given back.
func poolOp(ci ssa.CallInstruction) (kind string, pool *ssa.Global, val ssa.Value) {
	cc := ci.Common()
	switch calleeID(ci) {
	case "(*sync.Pool).Get":
		if g, ok := cc.Args[0].(*ssa.Global); ok {
			return "get", g, nil
		}
		return "", nil, nil
	case "(*sync.Pool).Put":
		if g, ok := cc.Args[0].(*ssa.Global); ok && len(cc.Args) == 2 {
			return "put", g, cc.Args[1]
		}
		return "", nil, nil
	}
	f := cc.StaticCallee()
	if f == nil || f.Pkg == nil || !strings.HasPrefix(f.Pkg.Pkg.Path(), modPath) || len(f.Blocks) == 0 || len(f.Blocks) > 3 {
		return "", nil, nil
	}
	if g := poolGetter(f); g != nil {
		return "get", g, nil
	}
	if g, idx := poolPutter(f); g != nil && idx < len(cc.Args) {
		return "put", g, cc.Args[idx]
	}
	return "", nil, nil
}

func stripBoxing(v ssa.Value) ssa.Value {
	for {
		switch x := v.(type) {
		case *ssa.TypeAssert:
			v = x.X
		case *ssa.ChangeType:
			v = x.X
		case *ssa.MakeInterface:
			v = x.X
		case *ssa.ChangeInterface:
			v = x.X
		default:
			return v
		}
	}
}

// poolGetter: f only returns what it took out of one global pool.
func poolGetter(f *ssa.Function) *ssa.Global {
	if f.Signature.Results().Len() != 1 {
		return nil
	}
	var pool *ssa.Global
	for _, r := range returnsOf(f) {
		call, ok := stripBoxing(r.Results[0]).(*ssa.Call)
		if !ok || calleeID(call) != "(*sync.Pool).Get" {
			return nil
		}
		g, ok := call.Call.Args[0].(*ssa.Global)
		if !ok || (pool != nil && pool != g) {
			return nil
		}
		pool = g
	}
	return pool
}

// poolPutter: f gives one of its parameters back to one global pool (and calls nothing else with it).
func poolPutter(f *ssa.Function) (*ssa.Global, int) {
	for _, ci := range callsIn(f) {
		if calleeID(ci) != "(*sync.Pool).Put" || len(ci.Common().Args) != 2 {
			continue
		}
		g, ok := ci.Common().Args[0].(*ssa.Global)
		if !ok {
			continue
		}
		if par, ok := stripBoxing(ci.Common().Args[1]).(*ssa.Parameter); ok {
			if idx := paramIndex(f, par); idx >= 0 {
				return g, idx
			}
		}
	}
	return nil, 0
}

// methodOf: the method named name in the method set of t (nil when there is none; LookupMethod panics then).
func methodOf(c *Ctx, t types.Type, name string) *ssa.Function {
	ms := c.Prog.MethodSets.MethodSet(t)
	for i := 0; i < ms.Len(); i++ {
		if ms.At(i).Obj().Name() == name {
			return c.Prog.MethodValue(ms.At(i))
		}
	}
	return nil
}
