package main

import (
	"encoding/hex"
	"encoding/json"
	"fmt"
	"go/ast"
	"go/constant"
	"go/token"
	"go/types"
	"os"
	"path/filepath"
	"reflect"
	"sort"
	"strings"

	"golang.org/x/tools/go/ssa"
)

func init() {
	register(&property{
		ID:          "C14",
		Explanation: "Static decision of structural conditions behind the protocol matchers' verdicts: (R1) filter liveness: every configured (JSON) field of every ConnMatcher is read by code reachable from its Match, or by Provision/Validate; (R2) the wire constants and byte strings the matchers compare against equal an independent table written from the protocol specifications (/verif/specs/wire_constants.json), including the version/record-type byte gates; (R3) provision completeness: every unexported field a matcher reads at match time is assigned during provisioning; (R4) address-family hygiene: a netip.Addr tested with Prefix.Contains comes from a textual parse, from AddrFrom4, or has been Unmap()ped (an IPv4-mapped IPv6 address never matches an IPv4 prefix); (R5) the DNS matcher's allow/deny decision, path-evaluated over rule presence, per-question rule hits and the two flags, equals the documented table. Added: (R6) the field predicates of the RDP connection request (TPKT, X.224, negotiation request, correlation info) are evaluated concretely over value tables hitting every clause and boundary and must reject exactly what the reference predicates written from MS-RDPBCGR / RFC 1006 reject; (R7) the clock matcher compares the wall clock obtained by t.In(location) at the connection instant, nothing cached.",
		NotDecided:  "The verdict function of each matcher against a reference predicate over all messages and filter configurations (value-level: field validation arithmetic, regexps, time windows).",
		Run:         runC14,
	})
}

func runC14(c *Ctx, r *Report) {
	c14R13(c, r)
	c14R2(c, r, "C14.R2")
	c14R4(c, r, "C14.R4")
	c14R5(c, r, "C14.R5")
	c14Region(c, r, "C14.R6")
	c14Clock(c, r, "C14.R7")
	c14Tables(c, r, "C14.R8")
	c14DNSNameCase(c, r, "C14.R19")
	c14ListsProvisioned(c, r, "C14.R20")
	c14KeyDirection(c, r, "C14.R21")
	c14SingleAddressPrefix(c, r, "C14.R23")
	defer c15TablesFor(c, r, "C14.R22", "l4dns.(*MatchDNS)") // the rules in force are the rules written: every argument of an allow/deny option of the Caddyfile lands in the field of its own
	c14Siblings(c, r, "C14.R9")
	c14Transport(c, r, "C14.R10")
	c14Headers(c, r, "C14.R11")
	c14NotProvision(c, r, "C14.R12")
	c14NoDroppedEntry(c, r, "C14.R13")
	c14Replay(c, r, "C14.R14")
	c14DNSRule(c, r, "C14.R15")
	c06IsHTTP(c, r, "C14.R16")
	c14ClockWindow(c, r, "C14.R17")
	c14SeparateObjects(c, r, "C14.R18")
}

// fieldAccesses returns for every function the struct fields it loads and stores.
type fieldUse struct{ loads, stores map[string]bool }

func fieldUses(fn *ssa.Function) fieldUse {
	u := fieldUse{map[string]bool{}, map[string]bool{}}
	for _, b := range fn.Blocks {
		for _, in := range b.Instrs {
			switch x := in.(type) {
			case *ssa.FieldAddr:
				_, sn, f, ok := fieldAddr(x)
				if !ok {
					continue
				}
				k := sn + "." + f
				for _, ref := range *x.Referrers() {
					switch rr := ref.(type) {
					case *ssa.Store:
						if rr.Addr == ssa.Value(x) {
							u.stores[k] = true
						} else {
							u.loads[k] = true
						}
					case *ssa.DebugRef:
					case ssa.CallInstruction:
						// the field's address is handed to a callee, which may read and fill it
						u.loads[k] = true
						u.stores[k] = true
					default:
						u.loads[k] = true
					}
				}
			case *ssa.Field:
				_, sn, f, ok := fieldAddr(x)
				if ok {
					u.loads[sn+"."+f] = true
				}
			}
		}
	}
	return u
}

func c14R13(c *Ctx, r *Report) {
	r.rule("C14.R1", "filter liveness: each JSON-configurable field of a ConnMatcher implementation is read in code reachable from its Match, Provision or Validate", 34)
	r.rule("C14.R3", "provision completeness: each unexported field read in code reachable from a matcher's Match is stored in code reachable from its Provision (or unmarshalling)", 15)
	cm := c.iface("layer4", "ConnMatcher")
	if cm == nil {
		r.bad("C14.R1", "layer4.ConnMatcher", "exists", "-", "interface not found")
		return
	}
	for _, match := range c.implementors(cm, "Match") {
		recv := deref(match.Signature.Recv().Type())
		named, ok := recv.(*types.Named)
		if !ok {
			continue
		}
		st, ok := named.Underlying().(*types.Struct)
		if !ok {
			continue
		}
		tname := namedName(named)
		// related methods
		var provRoots []*ssa.Function
		for _, mname := range []string{"Provision", "Validate", "UnmarshalJSON", "UnmarshalCaddyfile"} {
			if f := c.Fn(fmt.Sprintf("%s.(*%s).%s", short(named.Obj().Pkg().Path()), named.Obj().Name(), mname)); f != nil {
				provRoots = append(provRoots, f)
			}
		}
		matchUse := fieldUse{map[string]bool{}, map[string]bool{}}
		for f := range c.reach([]*ssa.Function{match}) {
			u := fieldUses(f)
			for k := range u.loads {
				matchUse.loads[k] = true
			}
		}
		provUse := fieldUse{map[string]bool{}, map[string]bool{}}
		for f := range c.reach(provRoots) {
			u := fieldUses(f)
			for k := range u.loads {
				provUse.loads[k] = true
			}
			for k := range u.stores {
				provUse.stores[k] = true
			}
		}
		for i := 0; i < st.NumFields(); i++ {
			f := st.Field(i)
			tag := reflect.StructTag(st.Tag(i)).Get("json")
			k := tname + "." + f.Name()
			if f.Exported() && tag != "" && tag != "-" {
				used := matchUse.loads[k] || provUse.loads[k]
				r.check(used, "C14.R1", fname(match), "filter "+f.Name(), c.pos(f.Pos()), "consulted", "the configured filter "+k+" (json \""+tag+"\") is never read by Match, Provision or Validate: messages violating it match")
			}
			if !f.Exported() && matchUse.loads[k] {
				if f.Name() == "logger" {
					continue
				}
				r.check(provUse.stores[k] || matchUse.loads[k] && fieldStoredAnywhereAtomically(c, k), "C14.R3", fname(match), "provisioned "+f.Name(), c.pos(f.Pos()), "assigned during provisioning", "Match reads "+k+" but nothing reachable from Provision/unmarshalling assigns it: the pre-parsed filter is always empty")
			}
		}
	}
}

// fieldStoredAnywhereAtomically: fields of atomic type (e.g. lastDigest) are written through methods, not stores.
func fieldStoredAnywhereAtomically(c *Ctx, k string) bool {
	for _, fn := range c.Funcs {
		for _, ci := range callsIn(fn) {
			if strings.HasPrefix(calleeID(ci), "(*sync/atomic.") && len(ci.Common().Args) > 0 {
				if _, sn, f, ok := fieldAddr(ci.Common().Args[0]); ok && sn+"."+f == k {
					return true
				}
			}
		}
	}
	return false
}

type wireEntry struct {
	Pkg   string      `json:"pkg"`
	Name  string      `json:"name"`
	Func  string      `json:"func"`
	Kind  string      `json:"kind"`
	Hex   string      `json:"hex"`
	Index int64       `json:"index"`
	Value interface{} `json:"value"`
	Why   string      `json:"why"`
}

func c14R2(c *Ctx, r *Report, rule string) {
	r.rule(rule, "wire constants equal the independent specification table", 38)
	raw, err := os.ReadFile(filepath.Join(verifDir, "specs", "wire_constants.json"))
	if err != nil {
		r.bad(rule, "specs", "table", "-", "specification table unreadable: "+err.Error())
		return
	}
	var tbl struct {
		Entries []wireEntry `json:"entries"`
	}
	if err := json.Unmarshal(raw, &tbl); err != nil {
		r.bad(rule, "specs", "table", "-", "specification table invalid: "+err.Error())
		return
	}
	for _, e := range tbl.Entries {
		var pkg = func() *types.Package {
			for _, p := range c.Pkgs {
				if short(p.PkgPath) == e.Pkg {
					return p.Types
				}
			}
			return nil
		}()
		key := e.Name
		if e.Kind == "gate" {
			key = e.Func + " byte " + fmt.Sprint(e.Index)
		}
		if pkg == nil {
			r.bad(rule, e.Pkg, key, "-", "package not found")
			continue
		}
		switch e.Kind {
		case "const", "string":
			o := scopeLookup(pkg, e.Name)
			if o == nil {
				r.bad(rule, e.Pkg, key, "-", "constant "+e.Name+" not found ("+e.Why+")")
				continue
			}
			var got interface{}
			if cst, ok := o.(*types.Const); ok {
				if cst.Val().Kind() == constant.String {
					got = constant.StringVal(cst.Val())
				} else if v, ok := constant.Int64Val(constant.ToInt(cst.Val())); ok {
					got = float64(v)
				}
			} else if v, ok := o.(*types.Var); ok {
				got = varInitString(c, e.Pkg, v.Name())
			}
			r.check(reflect.DeepEqual(got, e.Value), rule, e.Pkg, key, c.pos(o.Pos()), fmt.Sprintf("= %v (%s)", e.Value, e.Why), fmt.Sprintf("%s.%s is %v, the specification says %v (%s)", e.Pkg, e.Name, got, e.Value, e.Why))
		case "bytes":
			got := varInitBytes(c, e.Pkg, e.Name)
			want, _ := hex.DecodeString(e.Hex)
			r.check(got != nil && string(got) == string(want), rule, e.Pkg, key, "-", fmt.Sprintf("= %q (%s)", want, e.Why), fmt.Sprintf("%s.%s is %q, the specification says %q (%s)", e.Pkg, e.Name, got, want, e.Why))
		case "gate":
			fn := c.Fn(e.Pkg + "." + e.Func)
			if fn == nil {
				r.bad(rule, e.Pkg, key, "-", "function not found")
				continue
			}
			want := int64(e.Value.(float64))
			found := false
			var seen []int64
			// the matcher and the helpers of its package it calls
			var blocks []*ssa.BasicBlock
			for _, h := range sortedFuncs(c.reachSync(fn)) {
				if h == fn || (h.Pkg == fn.Pkg && h.Parent() == nil && !token.IsExported(h.Name())) {
					blocks = append(blocks, h.Blocks...)
				}
			}
			for _, b := range blocks {
				for _, in := range b.Instrs {
					bo, ok := in.(*ssa.BinOp)
					if !ok || (bo.Op != token.NEQ && bo.Op != token.EQL) {
						continue
					}
					v, isC := constInt(bo.Y)
					u, isLoad := bo.X.(*ssa.UnOp)
					if !isC || !isLoad {
						continue
					}
					if ia, ok := u.X.(*ssa.IndexAddr); ok {
						if i, ok := constInt(ia.Index); ok && i == e.Index {
							seen = append(seen, v)
							if v == want {
								found = true
							}
						}
					}
				}
			}
			if !found && len(seen) == 0 {
				// the byte is not compared through an indexed load (it was read into a variable of its own): whether the
				// matcher insists on the value is then decided by the verdict tables alone, which hold messages with
				// this byte altered for every matcher listed here
				covered := false
				for _, mm := range msgMatchers {
					if mm.fn == e.Pkg+"."+e.Func {
						covered = true
					}
				}
				if covered {
					r.ok(rule, e.Pkg+"."+e.Func, key, c.pos(fn.Pos()), fmt.Sprintf("no indexed comparison of byte %d found; its value %d (%s) is decided by the verdict tables (C14.R8)", e.Index, want, e.Why))
					continue
				}
			}
			r.check(found, rule, e.Pkg+"."+e.Func, key, c.pos(fn.Pos()), fmt.Sprintf("compared with %d (%s)", want, e.Why), fmt.Sprintf("byte %d of the message is compared with %v, the specification says %d (%s)", e.Index, seen, want, e.Why))
		}
	}
}

func findVarInit(c *Ctx, pkgShort, name string) (ast.Expr, *types.Info) {
	for _, p := range c.Pkgs {
		if short(p.PkgPath) != pkgShort {
			continue
		}
		for _, f := range p.Syntax {
			for _, d := range f.Decls {
				gd, ok := d.(*ast.GenDecl)
				if !ok || gd.Tok != token.VAR {
					continue
				}
				for _, s := range gd.Specs {
					vs := s.(*ast.ValueSpec)
					for i, n := range vs.Names {
						if n.Name == name && i < len(vs.Values) {
							return vs.Values[i], p.TypesInfo
						}
					}
				}
			}
		}
	}
	return nil, nil
}

func varInitString(c *Ctx, pkgShort, name string) interface{} {
	e, info := findVarInit(c, pkgShort, name)
	if e == nil {
		return nil
	}
	if tv, ok := info.Types[e]; ok && tv.Value != nil && tv.Value.Kind() == constant.String {
		return constant.StringVal(tv.Value)
	}
	return nil
}

func varInitBytes(c *Ctx, pkgShort, name string) []byte {
	e, info := findVarInit(c, pkgShort, name)
	if e == nil {
		return nil
	}
	switch x := e.(type) {
	case *ast.CallExpr: // []byte("...")
		if _, isConv := x.Fun.(*ast.ArrayType); isConv && len(x.Args) == 1 {
			if tv, ok := info.Types[x.Args[0]]; ok && tv.Value != nil && tv.Value.Kind() == constant.String {
				return []byte(constant.StringVal(tv.Value))
			}
		}
	case *ast.CompositeLit:
		// only slices/arrays of bytes (other integer lists are handled by varInitInts)
		if tv, ok := info.Types[x]; ok {
			var elem types.Type
			switch u := tv.Type.Underlying().(type) {
			case *types.Slice:
				elem = u.Elem()
			case *types.Array:
				elem = u.Elem()
			}
			if elem == nil {
				return nil
			}
			if b, ok := elem.Underlying().(*types.Basic); !ok || (b.Kind() != types.Uint8 && b.Kind() != types.Int8) {
				return nil
			}
		}
		var out []byte
		for _, el := range x.Elts {
			tv, ok := info.Types[el]
			if !ok || tv.Value == nil || tv.Value.Kind() != constant.Int {
				return nil
			}
			v, _ := constant.Int64Val(constant.ToInt(tv.Value))
			out = append(out, byte(v))
		}
		return out
	}
	return nil
}

func c14R4(c *Ctx, r *Report, rule string) {
	r.rule(rule, "every netip.Addr passed to (netip.Prefix).Contains in matcher-reachable code originates only from netip.ParseAddr/MustParseAddr, netip.AddrFrom4 or (netip.Addr).Unmap (helper parameters are followed to what the callers pass) and has had its zone removed (WithZone) on the way; both IP matchers reach such a test", 4)
	okSrc := map[string]bool{"net/netip.ParseAddr": true, "net/netip.MustParseAddr": true, "net/netip.AddrFrom4": true, "(net/netip.Addr).Unmap": true}
	reach := c.matcherReach()
	hasContains := map[*ssa.Function]bool{}
	defer func() {
		// the anchors are the two IP matchers, not a number of call sites (loops may be shared through a helper)
		for _, m := range []string{"layer4.(*MatchRemoteIP).Match", "layer4.(*MatchLocalIP).Match"} {
			mf := c.Fn(m)
			found := false
			if mf != nil {
				for f := range c.reach([]*ssa.Function{mf}) {
					if hasContains[f] {
						found = true
					}
				}
			}
			r.check(found, rule, m, "reaches a range test", "-", "the matcher tests the address against its ranges", "no (netip.Prefix).Contains is reachable from the matcher: anchor not found")
		}
	}()
	for _, fn := range sortedFuncs(reach) {
		n := 0
		for _, ci := range callsIn(fn) {
			if calleeID(ci) != "(net/netip.Prefix).Contains" {
				continue
			}
			n++
			arg := ci.Common().Args[1]
			bad := c14AddrOrigins(c, fn, arg, okSrc, map[string]bool{"(net/netip.Addr).WithZone": true}, 0)
			hasContains[fn] = true
			r.check(len(bad) == 0, rule, fname(fn), fmt.Sprintf("Contains#%d", n), c.ipos(ci), "address is in canonical (unmapped) form", "the address tested against the configured ranges can be an IPv4-mapped IPv6 address (origin: "+strings.Join(bad, ", ")+"): an IPv4 peer on a dual-stack listener then matches no IPv4 range")
			// ... and without a zone: (netip.Prefix).Contains answers false for every address that carries one
			zoned := c14AddrOrigins(c, fn, arg, map[string]bool{"(net/netip.Addr).WithZone": true, "net/netip.AddrFrom4": true, "net/netip.AddrFromSlice": true}, map[string]bool{"(net/netip.Addr).Unmap": true}, 0)
			r.check(len(zoned) == 0, rule, fname(fn), fmt.Sprintf("Contains#%d zone", n), c.ipos(ci), "address carries no zone", "the address tested against the configured ranges can carry an IPv6 zone (origin: "+strings.Join(zoned, ", ")+"; a link-local peer's address is written fe80::1%eth0): (netip.Prefix).Contains is false for every zoned address, so such a peer matches no range - not even fe80::/10 or ::/0 - and `not remote_ip` always matches it")
		}
	}
}

// c14AddrOrigins returns the non-canonical origins of a netip.Addr value (following module helper results and parameters one level).
func c14AddrOrigins(c *Ctx, fn *ssa.Function, v ssa.Value, okSrc, through map[string]bool, depth int) []string {
	var bad []string
	for _, o := range origins(v, sliceOpts{}) {
		switch o.Kind {
		case "call":
			if okSrc[o.Desc] {
				continue
			}
			call := o.V.(*ssa.Call)
			if through[o.Desc] && len(call.Call.Args) > 0 && depth < 6 {
				// an operation that keeps the property in question: judged on what it is applied to
				bad = append(bad, c14AddrOrigins(c, fn, call.Call.Args[0], okSrc, through, depth+1)...)
				continue
			}
			if callee := call.Call.StaticCallee(); callee != nil && callee.Pkg != nil && strings.HasPrefix(callee.Pkg.Pkg.Path(), modPath) && depth < 3 {
				// module helper: look at what it returns for the netip.Addr result
				for _, ret := range returnsOf(callee) {
					for _, res := range ret.Results {
						if typeStr(res.Type()) == "net/netip.Addr" {
							bad = append(bad, c14AddrOrigins(c, callee, res, okSrc, through, depth+1)...)
						}
					}
				}
				continue
			}
			bad = append(bad, o.Desc)
		case "const":
			// zero Addr{} on error paths
		case "param":
			// an unexported helper all of whose callers are known: what the callers pass
			par, _ := o.V.(*ssa.Parameter)
			if par != nil && par.Parent() != nil {
				fn = par.Parent() // (a closure sees the parameter of the function around it as a captured variable)
			}
			sites, escapes := c.callSitesOf(fn)
			if par != nil && !token.IsExported(fn.Name()) && !escapes && len(sites) > 0 && depth < 3 {
				idx := paramIndex(fn, par)
				for _, cs := range sites {
					if idx >= 0 && idx < len(cs.Common().Args) {
						bad = append(bad, c14AddrOrigins(c, cs.Parent(), cs.Common().Args[idx], okSrc, through, depth+1)...)
					}
				}
				continue
			}
			bad = append(bad, "parameter "+o.Desc+" of "+fname(fn))
		default:
			if o.Kind == "alloc" || o.Kind == "other" {
				continue
			}
			bad = append(bad, o.Kind+":"+o.Desc)
		}
	}
	sort.Strings(bad)
	return dedup(bad)
}

func c14R5(c *Ctx, r *Report, rule string) {
	defer func() {
		fn := c.Fn("modules/l4dns.(*MatchDNSRules).Match")
		if fn == nil {
			r.bad(rule, "modules/l4dns.(*MatchDNSRules).Match", "exists", "-", "function not found")
			return
		}
		sc := &Scenario{Name: "empty", Params: map[string]SV{"recv": symRef("rules", false)}, Heap: map[string]SV{"rules": symSlice("list", 0)}}
		paths, err := evalPaths(fn, sc)
		good := err == nil && len(paths) > 0
		for _, p := range paths {
			if len(p.Ret) != 1 || !p.Ret[0].Known || p.Ret[0].B {
				good = false
			}
		}
		r.check(good, rule, fname(fn), "empty list never hits", c.pos(fn.Pos()), "an empty rule list matches nothing", "an empty allow/deny list can report a hit")
	}()
	r.rule(rule, "DNS allow/deny decision table (one question; an empty list never hits): no rules -> match; denied by the only (deny) list -> no; not allowed by the only (allow) list -> no; denied&allowed -> iff prefer_allow; denied&!allowed -> no; !denied&allowed -> yes; matched by no rule -> iff not default_deny", 10)
	fnName := "modules/l4dns.(*MatchDNS).Match"
	fn := c.Fn(fnName)
	if fn == nil {
		r.bad(rule, fnName, "exists", "-", "function not found")
		return
	}
	for _, nAllow := range []int64{0, 1} {
		for _, nDeny := range []int64{0, 1} {
			for _, dd := range []bool{false, true} {
				for _, pa := range []bool{false, true} {
					if (nAllow == 0 || nDeny == 0) && (dd || pa) && !(nAllow == 0 && nDeny == 0 && dd && pa) {
						// flags only matter with both lists; keep one flagged case for the others
						if !(dd && pa) {
							continue
						}
					}
					name := fmt.Sprintf("allow=%d,deny=%d,default_deny=%v,prefer_allow=%v", nAllow, nDeny, dd, pa)
					sc := &Scenario{Name: name, MaxVisit: 4, MaxPaths: 100000,
						Params: map[string]SV{"recv": symRef("m", false), "p0": symRef("cx", false)},
						Heap:   map[string]SV{"m.Allow": symSlice("m.Allow", nAllow), "m.Deny": symSlice("m.Deny", nDeny), "m.DefaultDeny": symBool(dd), "m.PreferAllow": symBool(pa)},
					}
					sc.Call = func(callee string, args []SV, ev *symEval, st *symState) (SV, bool) {
						switch {
						case strings.HasSuffix(callee, "dns.Msg).Unpack"):
							// a well-formed query with one question
							st.heap[args[0].Desc+".Question"] = symSlice("questions", 1)
							return symNil(), true
						case callee == "encoding/binary.Read":
							return symNil(), true
						case strings.HasSuffix(callee, "dns.Msg).Len"):
							return SV{K: "int", Desc: "msglen"}, true
						case callee == "modules/l4dns.appendMessage":
							return symOpaque("appended"), true
						}
						return SV{}, false
					}
					sc.Alts = func(callee string, args []SV, ev *symEval, st *symState) []CallAlt {
						if callee == "io.ReadAtLeast" || callee == "io.ReadFull" {
							rd := func(e SV) SV { return SV{K: "tuple", Desc: "rd", Elems: []SV{{K: "int", Desc: "n"}, e}} }
							return []CallAlt{{Ret: rd(symNil()), Note: "ok"}, {Ret: rd(SV{K: "ref", Known: true, Desc: "needMore"}), Note: "short"}}
						}
						if callee == "modules/l4dns.(*MatchDNSRules).Match" {
							// an empty rule list cannot hit (established separately below)
							if (args[0].Desc == "m.Allow" && nAllow == 0) || (args[0].Desc == "m.Deny" && nDeny == 0) {
								return []CallAlt{{Ret: symBool(false), Note: "miss:" + args[0].Desc}}
							}
							return []CallAlt{{Ret: symBool(true), Note: "hit:" + args[0].Desc}, {Ret: symBool(false), Note: "miss:" + args[0].Desc}}
						}
						return nil
					}
					paths, err := evalPaths(fn, sc)
					if err != nil || len(paths) == 0 {
						r.bad(rule, fnName, name, c.pos(fn.Pos()), fmt.Sprintf("undecided: %v", err))
						continue
					}
					var problems []string
					decided := 0
					if os.Getenv("L4DEBUG") != "" {
						for _, p := range paths {
							fmt.Println("DBG", name, p.Outcome, p.retDesc(), "|", strings.Join(p.Assume, " ; "))
						}
					}
					for _, p := range paths {
						if p.Outcome != "return" || len(p.Ret) != 2 || !p.Ret[0].Known {
							continue
						}
						// only paths that got through message validation with exactly one question evaluated
						var hits []string
						appended := false
						for _, e := range p.Trace {
							if e.Kind == "call" && e.What == "modules/l4dns.(*MatchDNSRules).Match" {
								hits = append(hits, e.Note)
							}
							if e.Kind == "call" && e.What == "modules/l4dns.appendMessage" {
								appended = true
							}
						}
						denied, allowed, dKnown, aKnown := false, false, false, false
						for _, h := range hits {
							if strings.HasSuffix(h, ":m.Deny") {
								denied, dKnown = strings.HasPrefix(h, "hit"), true
							}
							if strings.HasSuffix(h, ":m.Allow") {
								allowed, aKnown = strings.HasPrefix(h, "hit"), true
							}
						}
						// a question whose class or type has no name is no valid question: with rules configured it is
						// never matched, and the rules are consulted only about questions both of whose lookups succeeded
						if nAllow+nDeny > 0 {
							known := map[string]string{}
							for _, a := range p.Assume {
								for _, tbl := range []string{"dns.ClassToString[", "dns.TypeToString["} {
									if strings.HasPrefix(a, "ok(") && strings.Contains(a, tbl) {
										if _, seen := known[tbl]; !seen { // the first question's lookups
											known[tbl] = a[strings.LastIndex(a, "=")+1:]
										}
									}
								}
							}
							for _, tbl := range []string{"dns.ClassToString[", "dns.TypeToString["} {
								what := map[string]string{"dns.ClassToString[": "class", "dns.TypeToString[": "type"}[tbl]
								if known[tbl] == "false" && p.Ret[0].B {
									problems = append(problems, "a question with an undefined "+what+" is matched")
								}
								if len(hits) > 0 && known[tbl] != "true" {
									problems = append(problems, "the rules are consulted about a question whose "+what+" has no name (the lookup's result is not tested, or overwritten): a query with an undefined "+what+" is matched by rules that do not name one")
								}
							}
						}
						if len(hits) > 2 {
							continue // more than one question
						}
						got := p.Ret[0].B
						if nAllow+nDeny > 0 && len(hits) == 0 {
							continue // rejected earlier (invalid message) or zero questions
						}
						if nAllow+nDeny == 0 {
							if got != appended {
								problems = append(problems, "verdict true without recording the message or vice versa")
							}
							continue
						}
						// expected verdict; when a rule list was not consulted its hit value is irrelevant only if the outcome is already determined
						exp := func(denied, allowed bool) bool {
							if nAllow == 0 {
								allowed = false
							}
							if nDeny == 0 {
								denied = false
							}
							switch {
							case nAllow == 0 && denied: // only deny rules: denied questions are filtered out
								return false
							case nDeny == 0 && !allowed: // only allow rules: questions not allowed are filtered out
								return false
							case denied && allowed:
								return pa // deny prevails unless prefer_allow
							case denied:
								return false
							case allowed:
								return true
							default:
								return !dd // matched by no rule: allowed unless default_deny
							}
						}
						var candidates []bool
						ds := []bool{denied}
						if !dKnown {
							ds = []bool{false, true}
						}
						as := []bool{allowed}
						if !aKnown {
							as = []bool{false, true}
						}
						agree := true
						for _, d := range ds {
							for _, a := range as {
								candidates = append(candidates, exp(d, a))
								if exp(d, a) != got {
									agree = false
								}
							}
						}
						decided++
						if !agree {
							problems = append(problems, fmt.Sprintf("question denied=%v(consulted %v) allowed=%v(consulted %v): matcher answers %v, the documented table says %v", denied, dKnown, allowed, aKnown, got, candidates))
						}
						if got && !appended {
							problems = append(problems, "a matching message is not recorded for later handlers")
						}
					}
					r.check(len(problems) == 0 && (decided > 0 || nAllow+nDeny == 0), rule, fnName, name, c.pos(fn.Pos()), fmt.Sprintf("%d paths, %d decisions agree with the table", len(paths), decided), strings.Join(dedup(problems), "\n"))
				}
			}
		}
	}
}

// c14Headers: the request the HTTP matcher builds from an HTTP/2 (prior knowledge) header block carries every
// decoded field. Header fields may repeat (RFC 7540 8.1.2.5 cookie crumbs, several x-forwarded-for); they are
// accumulated with Header.Add. Header.Set under a key taken from the decoded field keeps only the last value: a
// header filter satisfied by an earlier value no longer matches although the HTTP/1.1 form of the request does.
func c14Headers(c *Ctx, r *Report, rule string) {
	r.rule(rule, "decoded header fields accumulate: in the HTTP matcher's package a (http.Header).Set inside a loop never uses a key taken from the data (only constant keys); the loop over the decoded HTTP/2 header fields adds each field with (http.Header).Add", 1)
	adds := 0
	for _, fn := range c.Funcs {
		if !strings.HasPrefix(fname(fn), "modules/l4http.") {
			continue
		}
		k := 0
		for _, ci := range callsIn(fn) {
			id := calleeID(ci)
			if id != "(net/http.Header).Set" && id != "(net/http.Header).Add" {
				continue
			}
			args := ci.Common().Args
			if len(args) < 3 || !inLoop(ci.Block()) {
				continue
			}
			if _, isConst := args[1].(*ssa.Const); isConst {
				continue
			}
			k++
			if id == "(net/http.Header).Add" {
				adds++
				r.ok(rule, fname(fn), fmt.Sprintf("header field#%d", k), c.ipos(ci), "added")
				continue
			}
			r.bad(rule, fname(fn), fmt.Sprintf("header field#%d", k), c.ipos(ci), "a decoded header field is stored with Header.Set: of a repeated field only the last value survives, and a filter satisfied by an earlier value does not match a well-formed request")
		}
	}
	if adds == 0 {
		r.bad(rule, "modules/l4http", "fields are added", "-", "no loop adds decoded header fields to the request with Header.Add")
	}
}

// c14NotProvision: the `not` matcher's provisioning turns the loaded module maps into matcher sets one to one: the
// k-th set holds exactly the matchers of the k-th configured group (groups of 2, 1 and 1 matchers are evaluated).
func c14NotProvision(c *Ctx, r *Report, rule string) {
	r.rule(rule, "not matcher provisioning (path evaluation with three loaded groups of 2, 1 and 1 matchers): MatcherSets gets one set per group, in order, holding exactly that group's matchers - no set carries matchers of an earlier group", 1)
	fnName := "layer4.(*MatchNot).Provision"
	fn := c.Fn(fnName)
	if fn == nil {
		r.bad(rule, fnName, "exists", "-", "function not found")
		return
	}
	groups := [][]string{{"a1", "a2"}, {"b1"}, {"c1"}}
	sc := &Scenario{Name: "groups", MaxVisit: 12, MaxPaths: 5000,
		Params: map[string]SV{"recv": symRef("m", false)}, ByType: map[string]SV{"caddy/v2.Context": {K: "struct", Desc: "ctx"}},
		Heap: map[string]SV{"m.MatcherSets": symSlice("nil-sets", 0)}}
	for i, g := range groups {
		ms := map[string]SV{}
		for _, name := range g {
			v := symRef("matcher:"+name, false)
			v.Dyn = "layer4.ConnMatcher"
			ms[name] = v
		}
		sc.Heap[fmt.Sprintf("loaded[%d]", i)] = SV{K: "ref", Known: true, Desc: fmt.Sprintf("group%d", i)}
		sc.Heap[fmt.Sprintf("loaded.([]map[string]any)[%d]", i)] = SV{K: "ref", Known: true, Desc: fmt.Sprintf("group%d", i)}
		sc.Heap[fmt.Sprintf("loaded.([]map[string]interface{})[%d]", i)] = SV{K: "ref", Known: true, Desc: fmt.Sprintf("group%d", i)}
		sc.Heap[fmt.Sprintf("smap:group%d", i)] = SV{K: "mapval", MS: ms}
	}
	sc.Call = func(callee string, args []SV, ev *symEval, st *symState) (SV, bool) {
		if strings.HasSuffix(callee, "caddy/v2.Context).LoadModule") {
			l := symInt(int64(len(groups)))
			return symTuple(SV{K: "ref", Known: true, Desc: "loaded", Len: &l, Cap: &l, Dyn: "[]map[string]any"}, symNil()), true
		}
		if callee == "fmt.Errorf" {
			return SV{K: "ref", Known: true, Desc: "errorf"}, true
		}
		return SV{}, false
	}
	paths, err := evalPaths(fn, sc)
	if err != nil || len(paths) == 0 {
		r.bad(rule, fnName, "sets per group", c.pos(fn.Pos()), fmt.Sprintf("undecided: %v", err))
		return
	}
	var problems []string
	okPaths := 0
	for _, p := range paths {
		if p.Outcome != "return" || len(p.Ret) != 1 {
			problems = append(problems, "undecided path: "+p.Outcome+" "+fmtTrace(p))
			continue
		}
		if !(p.Ret[0].Known && p.Ret[0].Nil) {
			continue // a failed type assertion / load
		}
		okPaths++
		sets := p.Heap["m.MatcherSets"]
		if sets.Len == nil || !sets.Len.Known || sets.Len.N != int64(len(groups)) {
			problems = append(problems, fmt.Sprintf("MatcherSets has %s sets for %d configured groups", lenDesc(sets), len(groups)))
			continue
		}
		for i, g := range groups {
			set := p.Heap[fmt.Sprintf("%s[%d]", sets.Desc, i)]
			var got []string
			if set.Len != nil && set.Len.Known {
				for k := int64(0); k < set.Len.N; k++ {
					got = append(got, strings.TrimPrefix(p.Heap[fmt.Sprintf("%s[%d]", set.Desc, k)].Desc, "matcher:"))
				}
			} else {
				got = []string{"?" + set.Desc}
			}
			for j := range got {
				if k := strings.Index(got[j], ".("); k > 0 {
					got[j] = got[j][:k]
				}
			}
			if strings.Join(got, ",") != strings.Join(g, ",") {
				problems = append(problems, fmt.Sprintf("set %d holds the matchers %v, its group is %v: `not {A} {B}` then means something else than 'neither A nor B'", i, got, g))
			}
		}
	}
	if okPaths == 0 {
		problems = append(problems, "no successful path")
	}
	r.check(len(problems) == 0, rule, fnName, "sets per group", c.pos(fn.Pos()), fmt.Sprintf("%d paths", len(paths)), strings.Join(dedup(problems), "; "))
}

func lenDesc(v SV) string {
	if v.Len != nil {
		return v.Len.Desc
	}
	return "an unknown number of"
}

// c14NoDroppedEntry: a matcher's Provision that turns a configured list into its parsed form keeps every entry: in a
// loop over a configuration field that appends to a provisioned (unexported) field of the matcher, no path goes on
// to the next entry without appending or failing. A parsed list that silently lost entries filters differently from
// what is configured - and one that lost all of them usually means "no filter".
func c14NoDroppedEntry(c *Ctx, r *Report, rule string) {
	r.rule(rule, "no filter entry is dropped while provisioning: in every ConnMatcher's Provision, a loop over a configured list that appends to a provisioned list of the matcher reaches the next entry only through the append (or fails provisioning)", 3)
	cm := c.iface("layer4", "ConnMatcher")
	if cm == nil {
		r.bad(rule, "layer4.ConnMatcher", "exists", "-", "interface not found")
		return
	}
	n := 0
	for _, match := range c.implementors(cm, "Match") {
		recvT := match.Signature.Recv().Type()
		var prov *ssa.Function
		for _, t := range []types.Type{recvT, types.NewPointer(deref(recvT))} {
			ms := c.Prog.MethodSets.MethodSet(t)
			for i := 0; i < ms.Len(); i++ {
				if ms.At(i).Obj().Name() == "Provision" {
					prov = c.Prog.MethodValue(ms.At(i))
				}
			}
		}
		if prov == nil || len(prov.Blocks) == 0 {
			continue
		}
		sn := namedName(deref(recvT))
		for _, h := range sortedFuncs(c.reachSync(prov)) {
			if h.Pkg != prov.Pkg {
				continue
			}
			for _, b := range h.Blocks {
				for _, in := range b.Instrs {
					st, ok := in.(*ssa.Store)
					if !ok || !inLoop(b) {
						continue
					}
					_, ssn, f, ok := fieldAddr(st.Addr)
					if !ok || ssn != sn || token.IsExported(f) {
						continue
					}
					call, ok := st.Val.(*ssa.Call)
					if !ok || calleeID(call) != "builtin append" {
						continue
					}
					// the loop this append belongs to: a range/index loop over an exported field of the same struct
					var header ssa.Instruction
					// (the innermost loop around the append: its header dominates the append, the append can come
					// back to it, and every other such header dominates it)
					for _, hb := range h.Blocks {
						if !hb.Dominates(b) || !inLoop(hb) || !reachableFrom(b, false)[hb] {
							continue
						}
						if header != nil && !header.Block().Dominates(hb) {
							continue
						}
						for _, hin := range hb.Instrs {
							switch hx := hin.(type) {
							case *ssa.Next:
								header = hx
							case *ssa.If:
								if len(hb.Preds) >= 2 && (header == nil || header.Block() != hb) {
									header = hx
								}
							}
						}
					}
					if header == nil {
						continue
					}
					overConfig := false
					for _, hin := range h.Blocks[0].Instrs {
						_ = hin
					}
					for _, o := range origins(headerSubject(header), sliceOpts{}) {
						if o.Kind == "field" && strings.HasPrefix(o.Desc, sn+".") && token.IsExported(strings.TrimPrefix(o.Desc, sn+".")) {
							overConfig = true
						}
					}
					if !overConfig {
						continue
					}
					n++
					// from the first instruction after the loop test (body entry), can the header be reached again
					// without the append and without returning?
					// (any append to the same field counts - a switch may have one per case -, and so does skipping an
					// entry that is the empty string, e.g. a placeholder that resolved to nothing)
					body := header.Block().Succs[0]
					sameField := func(x ssa.Instruction) bool {
						s2, ok := x.(*ssa.Store)
						if !ok {
							return false
						}
						_, sn2, f2, ok := fieldAddr(s2.Addr)
						return ok && sn2 == ssn && f2 == f
					}
					emptySucc := func(iff *ssa.If) int { // which successor is taken when the tested string is empty (-1: not such a test)
						bo, ok := iff.Cond.(*ssa.BinOp)
						if !ok {
							return -1
						}
						isStr := func(v ssa.Value) bool {
							b, ok := v.Type().Underlying().(*types.Basic)
							return ok && b.Info()&types.IsString != 0
						}
						lenOfStr := func(v ssa.Value) bool {
							call, ok := v.(*ssa.Call)
							return ok && calleeID(call) == "builtin len" && isStr(call.Call.Args[0])
						}
						zero := func(v ssa.Value) bool { k, ok := constInt(v); return ok && k == 0 }
						one := func(v ssa.Value) bool { k, ok := constInt(v); return ok && k == 1 }
						emptyStr := func(v ssa.Value) bool { sv, ok := constString(v); return ok && sv == "" }
						switch {
						case lenOfStr(bo.X) && zero(bo.Y) && (bo.Op == token.GTR || bo.Op == token.NEQ), lenOfStr(bo.X) && one(bo.Y) && bo.Op == token.GEQ, isStr(bo.X) && emptyStr(bo.Y) && bo.Op == token.NEQ:
							return 1
						case lenOfStr(bo.X) && zero(bo.Y) && (bo.Op == token.EQL || bo.Op == token.LEQ), lenOfStr(bo.X) && one(bo.Y) && bo.Op == token.LSS, isStr(bo.X) && emptyStr(bo.Y) && bo.Op == token.EQL:
							return 0
						}
						return -1
					}
					var leak ssa.Instruction
					seenB := map[*ssa.BasicBlock]bool{body: true}
					work := []*ssa.BasicBlock{body}
					for len(work) > 0 && leak == nil {
						blk := work[len(work)-1]
						work = work[:len(work)-1]
						blocked := false
						for _, x := range blk.Instrs {
							if x == header {
								leak = x
								break
							}
							if sameField(x) || isReturn(x) {
								blocked = true
								break
							}
						}
						if blocked || leak != nil {
							continue
						}
						skip := -1
						if iff, ok := blk.Instrs[len(blk.Instrs)-1].(*ssa.If); ok {
							skip = emptySucc(iff)
						}
						for i, su := range blk.Succs {
							if i == skip {
								continue
							}
							if su == header.Block() {
								leak = header
								break
							}
							if !seenB[su] {
								seenB[su] = true
								work = append(work, su)
							}
						}
					}
					r.check(leak == nil, rule, fname(h), fmt.Sprintf("%s.%s entries#%d", sn, f, n), c.ipos(st), "every configured entry is appended (or provisioning fails)", "an entry of the configured list can be skipped without being appended to "+sn+"."+f+" and without failing: the provisioned filter silently differs from the configured one (an all-skipped list even disables the filter)")
				}
			}
		}
	}
	if n == 0 {
		r.bad(rule, "matchers", "provisioned lists", "-", "no provisioning loop found (rule has no instance)")
	}
}

// headerSubject: what a loop iterates over - the range operand, or the value whose length bounds an index loop.
func headerSubject(in ssa.Instruction) ssa.Value {
	switch x := in.(type) {
	case *ssa.Next:
		if rg, ok := x.Iter.(*ssa.Range); ok {
			return rg.X
		}
	case *ssa.If:
		if bo, ok := x.Cond.(*ssa.BinOp); ok {
			for _, side := range []ssa.Value{bo.Y, bo.X} {
				if call, ok := side.(*ssa.Call); ok && calleeID(call) == "builtin len" {
					return call.Call.Args[0]
				}
			}
		}
	}
	return nil
}

// varInitInts: a package-level slice/array literal of integer constants (not bytes).
func varInitInts(c *Ctx, pkgShort, name string) ([]int64, bool) {
	e, info := findVarInit(c, pkgShort, name)
	cl, ok := e.(*ast.CompositeLit)
	if !ok || len(cl.Elts) == 0 {
		return nil, false
	}
	var out []int64
	for _, el := range cl.Elts {
		if kv, isKV := el.(*ast.KeyValueExpr); isKV {
			el = kv.Value
		}
		tv, ok := info.Types[el]
		if !ok || tv.Value == nil || tv.Value.Kind() != constant.Int {
			return nil, false
		}
		v, _ := constant.Int64Val(tv.Value)
		out = append(out, v)
	}
	return out, true
}
