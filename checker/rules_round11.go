package main

import (
	"fmt"
	"go/constant"
	"go/token"
	"go/types"
	"sort"
	"strings"

	"golang.org/x/tools/go/ssa"
)

// Rules added in answer to the eleventh round of seeded changes.

// timerChanOf: v is the channel of a timer kept in a field (x.f.C): the name of that field, "" otherwise.
func timerChanOf(v ssa.Value) string {
	ld, ok := v.(*ssa.UnOp)
	if !ok || ld.Op != token.MUL {
		return ""
	}
	fa, ok := ld.X.(*ssa.FieldAddr)
	if !ok {
		return ""
	}
	if _, sn, f, ok := fieldAddr(fa); !ok || sn != "time.Timer" || f != "C" {
		return ""
	}
	ld2, ok := fa.X.(*ssa.UnOp)
	if !ok || ld2.Op != token.MUL {
		return ""
	}
	if _, _, f, ok := fieldAddr(ld2.X); ok {
		return f
	}
	return ""
}

// c05UDPWaits: the matching deadline of a UDP association is emulated by a timer that Read watches. Every place
// where Read (or a helper it calls in place) can wait for a datagram must therefore wait for the deadline timer and
// for the closing of the association as well - a bare receive from the queue waits for ever.
func c05UDPWaits(c *Ctx, r *Report, rule string) {
	r.rule(rule, "UDP association: every blocking wait for a datagram in packetConn.Read (and the helpers it calls in place) is a select that also waits for the deadline timer's channel and for the association's closed channel - a receive from the queue alone is bounded by nothing", 1)
	fnName := "layer4.(*packetConn).Read"
	fn := c.Fn(fnName)
	if fn == nil {
		r.bad(rule, fnName, "exists", "-", "function not found")
		return
	}
	var cands []*ssa.Function
	for g := range c.reachSync(fn) {
		if g.Pkg == fn.Pkg {
			cands = append(cands, g)
		}
	}
	sort.Slice(cands, func(i, j int) bool { return fname(cands[i]) < fname(cands[j]) })
	n := 0
	for _, g := range cands {
		for _, b := range g.Blocks {
			for _, in := range b.Instrs {
				switch x := in.(type) {
				case *ssa.UnOp:
					if x.Op == token.ARROW && chanID(x.X) == "field layer4.packetConn.readCh" {
						n++
						r.bad(rule, fname(g), fmt.Sprintf("wait#%d", n), c.ipos(x), "a datagram is awaited with a bare receive from the association's queue: neither the matching deadline, nor the idle expiry, nor the closing of the association ends this wait - matching that should end with the timeout goes on for ever and the association is never released")
					}
				case *ssa.Select:
					if !x.Blocking {
						continue
					}
					queue, deadline, closed := false, false, false
					for _, st := range x.States {
						if st.Dir != types.RecvOnly {
							continue
						}
						switch {
						case chanID(st.Chan) == "field layer4.packetConn.readCh":
							queue = true
						case chanID(st.Chan) == "field layer4.packetConn.closed":
							closed = true
						case timerChanOf(st.Chan) == "deadlineTimer":
							deadline = true
						}
					}
					if !queue {
						continue
					}
					n++
					var missing []string
					if !deadline {
						missing = append(missing, "the deadline timer")
					}
					if !closed {
						missing = append(missing, "the closed channel")
					}
					r.check(len(missing) == 0, rule, fname(g), fmt.Sprintf("wait#%d", n), c.ipos(x), "waits for the queue, the deadline timer and the closed channel", "this wait for a datagram does not watch "+strings.Join(missing, " and ")+": the matching deadline (or Close) cannot end it")
				}
			}
		}
	}
	if n == 0 {
		r.bad(rule, fnName, "waits", c.pos(fn.Pos()), "undecided: no wait for a datagram found in Read")
	}
}

// c09CloseOnce: closing the association's `closed` channel twice ends the process. The server closes every
// association exactly once (deferred in Server.handle; C09.R14: no handler closes it); the association itself must
// therefore never call its own Close, and the channel is closed in Close only.
func c09CloseOnce(c *Ctx, r *Report, rule string) {
	r.rule(rule, "UDP association: the closed channel is closed in packetConn.Close only, and no function of the package calls Close on a packetConn (the server's deferred conn.Close() is the one close; Read reports idle expiry by a notice, not by closing)", 2)
	n := 0
	for _, fn := range c.Funcs {
		if fn.Pkg == nil || fn.Pkg.Pkg.Path() != modPath+"/layer4" {
			continue
		}
		for _, ci := range callsIn(fn) {
			if id := calleeID(ci); id == "builtin close" && len(ci.Common().Args) == 1 && chanID(ci.Common().Args[0]) == "field layer4.packetConn.closed" {
				n++
				r.check(fname(fn) == "layer4.(*packetConn).Close", rule, fname(fn), "close(closed)", c.ipos(ci), "closed in Close", "the association's closed channel is closed outside Close: together with the server's deferred Close it is closed twice, which ends the process")
			}
			if g := ci.Common().StaticCallee(); g != nil && fname(g) == "layer4.(*packetConn).Close" {
				n++
				r.bad(rule, fname(fn), "packetConn.Close()", c.ipos(ci), "the association is closed here as well as by the server's deferred conn.Close() when the handler returns: the second close(pc.closed) panics and ends the process")
			}
		}
	}
	// the close in Close is not in a loop and Close has no second close
	if fn := c.Fn("layer4.(*packetConn).Close"); fn != nil {
		k := 0
		for _, ci := range callsIn(fn) {
			if calleeID(ci) == "builtin close" {
				k++
				if inLoop(ci.Block()) {
					r.bad(rule, fname(fn), "close in a loop", c.ipos(ci), "the channel is closed inside a loop")
				}
			}
		}
		n++
		r.check(k == 1, rule, fname(fn), "one close", c.pos(fn.Pos()), "exactly one close", fmt.Sprintf("%d close operations in Close", k))
		// Close is a method of net.Conn: whoever is given the connection may call it - a handler, or a library a
		// handler passes the connection to (go-socks5's ServeConn defers conn.Close()) - and the server calls it when
		// the handler returns. The second call must find the work done: the close of the channel is reached only
		// through a test-and-set (atomic CompareAndSwap/Swap, sync.Once) or after a receive from the channel found it open
		for g := range c.reachSync(fn) {
			if g.Pkg != fn.Pkg {
				continue
			}
			for _, ci := range callsIn(g) {
				if calleeID(ci) != "builtin close" || chanID(ci.Common().Args[0]) != "field layer4.packetConn.closed" {
					continue
				}
				n++
				guarded := false
				if g != fn && g.Parent() != nil {
					// the body of a function value: handed to (*sync.Once).Do
					for _, pci := range callsIn(g.Parent()) {
						if calleeID(pci) == "(*sync.Once).Do" {
							guarded = true
						}
					}
				}
				for _, cd := range edgeConds(ci.Block()) {
					var onceOnly func(v ssa.Value, truth bool, d int) bool
					onceOnly = func(v ssa.Value, truth bool, d int) bool {
						if d > 3 {
							return false
						}
						switch x := v.(type) {
						case *ssa.Call:
							id := calleeID(x)
							if strings.HasPrefix(id, "sync/atomic.CompareAndSwap") || strings.HasSuffix(id, ").CompareAndSwap") {
								return truth // the one caller that changed the flag
							}
							if strings.HasPrefix(id, "sync/atomic.Swap") || strings.HasSuffix(id, ").Swap") {
								return !truth // the old value was false
							}
						case *ssa.UnOp:
							if x.Op == token.NOT {
								return onceOnly(x.X, !truth, d+1)
							}
						case *ssa.BinOp:
							if k, isK := x.Y.(*ssa.Const); isK && k.Value != nil && (x.Op == token.EQL || x.Op == token.NEQ) {
								if bv, isB := constBool(k); isB {
									if (x.Op == token.EQL) == bv {
										return onceOnly(x.X, truth, d+1)
									}
									return onceOnly(x.X, !truth, d+1)
								}
							}
						}
						return false
					}
					if onceOnly(cd.V, cd.Truth, 0) {
						guarded = true
					}
				}
				r.check(guarded, rule, fname(fn), "second Close", c.ipos(ci), "the channel is closed by the first Close only", "Close closes the association's closed channel unconditionally: a handler (or a library it hands the connection to - the socks5 handler's ServeConn defers conn.Close()) that closes the connection makes the server's own deferred conn.Close() the second one - 'close of closed channel' in the connection goroutine ends the whole server process; one datagram is enough")
			}
		}
	}
	if n == 0 {
		r.bad(rule, "layer4.(*packetConn).Close", "exists", "-", "no close of the association's channel found")
	}
}

// c09DiscardOnlyUnaddressed: the server loop hands every datagram to an association. The only datagrams it may
// discard itself are those without a source address (nobody to answer to); any other condition on which a datagram
// is released before the hand-over removes datagrams from their client's stream.
func c09DiscardOnlyUnaddressed(c *Ctx, r *Report, rule string) {
	r.rule(rule, "UDP server loop: a datagram's buffer is released before the hand-over only where the datagram has no source address (pkt.addr == nil); every other datagram - of any size up to the buffer - goes to its association", 1)
	fnName := "layer4.(*Server).servePacket"
	fn := c.Fn(fnName)
	if fn == nil {
		r.bad(rule, fnName, "exists", "-", "function not found")
		return
	}
	n := 0
	for _, ci := range callsIn(fn) {
		kind, _, _ := poolOp(ci)
		if kind != "put" {
			continue
		}
		n++
		conds := edgeConds(ci.Block())
		why := ""
		ok := false
		for _, cd := range conds {
			// a case of the hand-over select (the association ended meanwhile)
			if bo, isBo := cd.V.(*ssa.BinOp); isBo && bo.Op == token.EQL {
				if ex, isEx := bo.X.(*ssa.Extract); isEx {
					if sel, isSel := ex.Tuple.(*ssa.Select); isSel {
						for _, st := range sel.States {
							if st.Dir == types.SendOnly { // the hand-over select, not the loop's own
								ok = true
							}
						}
					}
				}
			}
			if x, neq, isNil := nilCheck(cd.V); isNil {
				if ld, isLd := x.(*ssa.UnOp); isLd && ld.Op == token.MUL {
					if _, sn, f, okf := fieldAddr(ld.X); okf && sn == "layer4.packet" && f == "addr" && cd.Truth != neq {
						ok = true
					}
				}
			}
		}
		if !ok {
			var cs []string
			for _, cd := range conds {
				cs = append(cs, fmt.Sprintf("%s=%v", c.exprAt(fn, cd.V.Pos()), cd.Truth))
			}
			why = strings.Join(cs, ", ")
		}
		r.check(ok, rule, fnName, fmt.Sprintf("release#%d", n), c.ipos(ci), "released where the datagram has no source address, or in the hand-over select", "a datagram is discarded by the server loop on a condition other than a missing source address ("+why+"): it never reaches its client's connection")
	}
	if n == 0 {
		r.ok(rule, fnName, "releases", c.pos(fn.Pos()), "the server loop releases no datagram itself")
	}
}

// c10RobinPerInstance: round_robin visits every available upstream once per cycle - per policy instance. A counter
// shared by all instances is advanced by the selections of other handlers, so an instance can keep landing on the
// same upstream.
func c10RobinPerInstance(c *Ctx, r *Report, rule string) {
	r.rule(rule, "round_robin: the position that Select advances is a field of the policy instance it is called on (not a package-level variable shared by all round_robin policies of the process)", 1)
	fnName := "modules/l4proxy.(*RoundRobinSelection).Select"
	fn := c.Fn(fnName)
	if fn == nil {
		r.bad(rule, fnName, "exists", "-", "function not found")
		return
	}
	n := 0
	for g := range c.reachSync(fn) {
		for _, ci := range callsIn(g) {
			id := calleeID(ci)
			if !strings.HasPrefix(id, "sync/atomic.") || strings.HasPrefix(id, "sync/atomic.Load") || len(ci.Common().Args) == 0 {
				continue // reading the peers' counters is not advancing a position
			}
			n++
			a := ci.Common().Args[0]
			good := false
			detail := ""
			if base, sn, f, ok := fieldAddr(a); ok {
				if pr, isP := base.(*ssa.Parameter); isP && len(g.Params) > 0 && pr == g.Params[0] && (g == fn || c10CalledOnReceiverOf(c, g, fn)) {
					good = true
				} else {
					detail = "the position is " + sn + "." + f + " of another object"
				}
			} else if gl, ok := a.(*ssa.Global); ok {
				detail = "the position is the package-level variable " + globalName(gl) + ": every round_robin policy of the process advances it, so one handler's cycle skips the upstreams another handler's selections have consumed"
			} else {
				detail = "the position is not a field of the receiver"
			}
			r.check(good, rule, fnName, fmt.Sprintf("%s#%d", calleeID(ci), n), c.ipos(ci), "a field of the policy instance", detail)
		}
	}
	if n == 0 {
		r.bad(rule, fnName, "position", c.pos(fn.Pos()), "undecided: no atomic operation on a position found in Select")
	}
}

// c10CalledOnReceiverOf: g is a method of sel's receiver type and every call of it is made by sel on its own receiver.
func c10CalledOnReceiverOf(c *Ctx, g, sel *ssa.Function) bool {
	if g.Signature.Recv() == nil || sel.Signature.Recv() == nil || !types.Identical(g.Signature.Recv().Type(), sel.Signature.Recv().Type()) {
		return false
	}
	sites, escapes := c.callSitesOf(g)
	if escapes || len(sites) == 0 {
		return false
	}
	for _, cs := range sites {
		if cs.Parent() != sel || len(cs.Common().Args) == 0 || cs.Common().Args[0] != ssa.Value(sel.Params[0]) {
			return false
		}
	}
	return true
}

// c11ActiveCheckerStarts: active health checks run exactly when they are configured. The start of the checker in
// Provision may depend on health_checks and health_checks.active being present - on nothing else of the
// configuration (a handler with active checks only must get its checker too).
func c11ActiveCheckerStarts(c *Ctx, r *Report, rule string) {
	r.rule(rule, "proxy Provision: the active health checker is started under no other presence test than HealthChecks != nil and HealthChecks.Active != nil (active checks work without passive ones)", 1)
	fnName := "modules/l4proxy.(*Handler).Provision"
	fn := c.Fn(fnName)
	if fn == nil {
		r.bad(rule, fnName, "exists", "-", "function not found")
		return
	}
	n := 0
	for g := range c.reachSync(fn) {
		for _, b := range g.Blocks {
			for _, in := range b.Instrs {
				gi, ok := in.(*ssa.Go)
				if !ok {
					continue
				}
				cal := gi.Call.StaticCallee()
				if cal == nil {
					if mc, isMC := gi.Call.Value.(*ssa.MakeClosure); isMC {
						cal, _ = mc.Fn.(*ssa.Function)
					}
				}
				if cal == nil || !c.reachSync(cal)[c.Fn("modules/l4proxy.(*Handler).doActiveHealthCheckForAllHosts")] && !strings.Contains(fname(cal), "activeHealthChecker") {
					continue
				}
				n++
				var foreign []string
				sawActive := false
				for _, cd := range edgeConds(b) {
					x, _, isNil := nilCheck(cd.V)
					if !isNil {
						continue
					}
					ld, isLd := x.(*ssa.UnOp)
					if !isLd || ld.Op != token.MUL {
						continue
					}
					_, sn, f, okf := fieldAddr(ld.X)
					if !okf {
						continue
					}
					switch {
					case f == "HealthChecks":
					case f == "Active":
						sawActive = true
					default:
						foreign = append(foreign, sn+"."+f)
					}
				}
				if g != fn {
					sawActive = true // a helper: its caller's conditions are judged where the helper is called (below)
				}
				r.check(len(foreign) == 0 && sawActive, rule, fname(g), fmt.Sprintf("go %s#%d", fname(cal), n), c.ipos(gi), "started iff health_checks.active is configured", func() string {
					if len(foreign) > 0 {
						return "the active health checker is started only where " + strings.Join(dedup(foreign), ", ") + " is present as well: a handler with active checks alone never checks its upstreams, a refusing peer stays in rotation"
					}
					return "the start of the active health checker is not guarded by HealthChecks.Active != nil"
				}())
			}
		}
	}
	if n == 0 {
		r.bad(rule, fnName, "start of the checker", c.pos(fn.Pos()), "the active health checker is not started in Provision (or in what it calls in place)")
	}
}

// c08PoolNewFresh: a pooled buffer must not share storage with another pooled buffer. What a pool's New function
// returns is therefore freshly allocated in that call - or, if it is cut from a larger block, cut with its capacity
// limited (a three-index slice), so that appending to it cannot run into the next buffer.
func c08PoolNewFresh(c *Ctx, r *Report, rule string) {
	r.rule(rule, "buffer pools: what the New function of a package-level sync.Pool of byte slices returns is allocated in that call (make), or is a capacity-limited (three-index) slice - never a plain slice of storage kept elsewhere, whose capacity runs into the next buffer handed out", 2)
	n := 0
	var fresh func(v ssa.Value, d int) (bool, string)
	fresh = func(v ssa.Value, d int) (bool, string) {
		if d > 6 {
			return false, "too deep"
		}
		switch x := v.(type) {
		case *ssa.MakeInterface:
			return fresh(x.X, d+1)
		case *ssa.MakeSlice, *ssa.Alloc:
			return true, ""
		case *ssa.Slice:
			if x.Max != nil {
				return true, ""
			}
			return fresh(x.X, d+1)
		case *ssa.Convert:
			return fresh(x.X, d+1)
		case *ssa.ChangeType:
			return fresh(x.X, d+1)
		case *ssa.Phi:
			for _, e := range x.Edges {
				if ok, why := fresh(e, d+1); !ok {
					return false, why
				}
			}
			return true, ""
		case *ssa.Call:
			g := x.Call.StaticCallee()
			if g == nil || g.Pkg == nil || !strings.HasPrefix(g.Pkg.Pkg.Path(), modPath) || len(g.Blocks) == 0 {
				return false, "result of " + calleeID(x)
			}
			for _, ret := range returnsOf(g) {
				for _, rv := range ret.Results {
					if ok, why := fresh(rv, d+1); !ok {
						return false, why + " (returned by " + fname(g) + ")"
					}
				}
			}
			return true, ""
		case *ssa.UnOp:
			if x.Op == token.MUL {
				if al, ok := x.X.(*ssa.Alloc); ok {
					for _, s := range storesToDeep(al) {
						if ok2, why := fresh(s, d+1); !ok2 {
							return false, why
						}
					}
					return true, ""
				}
				if _, sn, f, ok := fieldAddr(x.X); ok {
					return false, "a plain slice of " + sn + "." + f
				}
				if gl, ok := x.X.(*ssa.Global); ok {
					return false, "a plain slice of the package-level variable " + globalName(gl)
				}
			}
		}
		return false, fmt.Sprintf("a value this rule does not follow (%T)", v)
	}
	for _, pkg := range c.Pkgs {
		sp := c.SSA[pkg.PkgPath]
		if sp == nil {
			continue
		}
		init := sp.Func("init")
		if init == nil {
			continue
		}
		for _, b := range init.Blocks {
			for _, in := range b.Instrs {
				st, ok := in.(*ssa.Store)
				if !ok {
					continue
				}
				fa, ok := st.Addr.(*ssa.FieldAddr)
				if !ok {
					continue
				}
				gl, ok := fa.X.(*ssa.Global)
				if !ok {
					continue
				}
				if _, sn, f, okf := fieldAddr(fa); !okf || sn != "sync.Pool" || f != "New" {
					continue
				}
				var nf *ssa.Function
				switch v := st.Val.(type) {
				case *ssa.Function:
					nf = v
				case *ssa.MakeClosure:
					nf, _ = v.Fn.(*ssa.Function)
				}
				if nf == nil {
					continue
				}
				for _, ret := range returnsOf(nf) {
					if len(ret.Results) != 1 {
						continue
					}
					// only pools of byte slices
					mi, ok := ret.Results[0].(*ssa.MakeInterface)
					if !ok {
						continue
					}
					sl, ok := mi.X.Type().Underlying().(*types.Slice)
					if !ok {
						continue
					}
					if bt, ok := sl.Elem().Underlying().(*types.Basic); !ok || bt.Kind() != types.Uint8 {
						continue
					}
					n++
					ok2, why := fresh(mi.X, 0)
					r.check(ok2, rule, fname(nf), "New of "+globalName(gl), c.ipos(ret), "freshly allocated (or capacity-limited) storage", "the pool's New function hands out "+why+": its capacity reaches into the storage of the next buffer handed out, so a connection that prefetches a second chunk in place writes into the matching buffer of another live connection")
				}
			}
		}
	}
	if n == 0 {
		r.bad(rule, "module", "pools", "-", "no New function of a byte-slice pool found")
	}
}

// c15MapsMade: a Caddyfile parser that fills a map kept in a field (app.Servers[key] = server) needs that map to
// exist whatever was parsed before. On every path from the function's entry to the write, the field was given a new
// map (make, or a composite literal with it) or was tested to be non-nil - a map made on one branch only is a nil
// map on the other, and the adapter panics.
func c15MapsMade(c *Ctx, r *Report, rule string) {
	r.rule(rule, "Caddyfile parsers: a map in a field of an object the parser created that the parser writes into (m[k] = v) has been made, or found non-nil, on every path from the function's entry to that write (a map made on one branch only is nil on the other: 'assignment to entry in nil map' while adapting)", 1)
	var roots []*ssa.Function
	for _, fn := range c.Funcs {
		if fn.Name() == "UnmarshalCaddyfile" || strings.HasPrefix(fn.Name(), "ParseCaddyfile") || fn.Name() == "parseLayer4" {
			roots = append(roots, fn)
		}
	}
	n := 0
	for _, fn := range sortedFuncs(c.reach(roots)) {
		if fn.Pkg == nil || !strings.HasPrefix(fn.Pkg.Pkg.Path(), modPath) {
			continue
		}
		for _, b := range fn.Blocks {
			for _, in := range b.Instrs {
				mu, ok := in.(*ssa.MapUpdate)
				if !ok {
					continue
				}
				ld, ok := mu.Map.(*ssa.UnOp)
				if !ok || ld.Op != token.MUL {
					continue
				}
				base, sn, f, ok := fieldAddr(ld.X)
				if !ok {
					continue
				}
				// only objects the function created itself: a receiver's or a parameter's map is the caller's business
				// (the unmarshallers of this module create theirs under a nil test, judged by the same rule)
				n++
				sameField := func(a ssa.Value) bool {
					b2, s2, f2, ok := fieldAddr(a)
					return ok && s2 == sn && f2 == f && b2 == base
				}
				made := func(x ssa.Instruction) bool {
					st, ok := x.(*ssa.Store)
					if !ok || !sameField(st.Addr) {
						return false
					}
					_, isMake := st.Val.(*ssa.MakeMap)
					return isMake
				}
				// blocks entered over an edge on which the field was found non-nil
				nonNil := map[[2]*ssa.BasicBlock]bool{}
				for _, bb := range fn.Blocks {
					ifi, ok := bb.Instrs[len(bb.Instrs)-1].(*ssa.If)
					if !ok {
						continue
					}
					if x, neq, ok := nilCheck(ifi.Cond); ok {
						if l2, ok := x.(*ssa.UnOp); ok && l2.Op == token.MUL && sameField(l2.X) {
							if neq {
								nonNil[[2]*ssa.BasicBlock{bb, bb.Succs[0]}] = true
							} else {
								nonNil[[2]*ssa.BasicBlock{bb, bb.Succs[1]}] = true
							}
						}
					}
				}
				// is there a path from the entry to the write that passes neither?
				reached := false
				seen := map[*ssa.BasicBlock]bool{fn.Blocks[0]: true}
				work := []*ssa.BasicBlock{fn.Blocks[0]}
				for len(work) > 0 && !reached {
					bb := work[len(work)-1]
					work = work[:len(work)-1]
					blocked := false
					for _, x := range bb.Instrs {
						if x == ssa.Instruction(mu) {
							reached = true
							break
						}
						if made(x) {
							blocked = true
							break
						}
					}
					if blocked || reached {
						continue
					}
					for _, su := range bb.Succs {
						if !seen[su] && !nonNil[[2]*ssa.BasicBlock{bb, su}] {
							seen[su] = true
							work = append(work, su)
						}
					}
				}
				// a field of a parameter or the receiver that the function never makes: not this function's duty
				if _, isParam := base.(*ssa.Parameter); isParam && reached {
					anyMake := false
					for _, bb := range fn.Blocks {
						for _, x := range bb.Instrs {
							if made(x) {
								anyMake = true
							}
						}
					}
					if !anyMake {
						r.ok(rule, fname(fn), fmt.Sprintf("%s.%s[...] = ...#%d", sn, f, n), c.ipos(mu), "the map belongs to an object handed in; this function never makes it (the creator's duty)")
						continue
					}
				}
				r.check(!reached, rule, fname(fn), fmt.Sprintf("%s.%s[...] = ...#%d", sn, f, n), c.ipos(mu), "made or found non-nil on every path to the write", "the map "+sn+"."+f+" is written here, but on some path from the function's entry it has neither been made nor been found non-nil: adapting a Caddyfile that takes that path panics with 'assignment to entry in nil map'")
			}
		}
	}
	if n == 0 {
		r.bad(rule, "module", "map writes", "-", "no write into a map kept in a field found in the Caddyfile parsers (parseLayer4 has one)")
	}
}

// c17TotalLimiterOwn: the handler-wide bound of a throttle handler is the one its configuration states. The limiter
// kept for all connections of the handler is therefore the limiter Provision makes from the handler's own total
// rate and total burst - not one obtained from elsewhere (a registry shared with other handlers or configurations,
// whose entry was made from other numbers).
func c17TotalLimiterOwn(c *Ctx, r *Report, rule string) {
	r.rule(rule, "throttle Provision: every value stored into the handler-wide limiter is nil or the result of rate.NewLimiter on the handler's own TotalReadBytesPerSecond and TotalReadBurstSize (directly or through a helper of the package given exactly these) - never a limiter taken from a registry or another object", 1)
	n := 0
	// derives: v is (a conversion of) a load of field f of fn's receiver
	fromRecvField := func(fn *ssa.Function, v ssa.Value, f string) bool {
		for {
			switch x := v.(type) {
			case *ssa.Convert:
				v = x.X
				continue
			case *ssa.ChangeType:
				v = x.X
				continue
			}
			break
		}
		ld, ok := v.(*ssa.UnOp)
		if !ok || ld.Op != token.MUL {
			return false
		}
		base, _, f2, ok := fieldAddr(ld.X)
		return ok && f2 == f && len(fn.Params) > 0 && base == ssa.Value(fn.Params[0])
	}
	var judge func(fn *ssa.Function, v ssa.Value, isRate, isBurst func(ssa.Value) bool, d int) string
	judge = func(fn *ssa.Function, v ssa.Value, isRate, isBurst func(ssa.Value) bool, d int) string {
		if d > 4 {
			return "too deep"
		}
		switch x := v.(type) {
		case *ssa.Const:
			if x.IsNil() {
				return ""
			}
		case *ssa.Phi:
			for _, e := range x.Edges {
				if why := judge(fn, e, isRate, isBurst, d+1); why != "" {
					return why
				}
			}
			return ""
		case *ssa.Call:
			id := calleeID(x)
			if strings.HasSuffix(id, "golang.org/x/time/rate.NewLimiter") && len(x.Call.Args) == 2 {
				if !isRate(x.Call.Args[0]) {
					return "the limiter's rate is not the handler's TotalReadBytesPerSecond"
				}
				if !isBurst(x.Call.Args[1]) {
					return "the limiter's burst is not the handler's TotalReadBurstSize"
				}
				return ""
			}
			g := x.Call.StaticCallee()
			if g != nil && g.Pkg == fn.Pkg && len(g.Blocks) > 0 && len(g.Params) == len(x.Call.Args) {
				// a helper: its results judged with its parameters standing for the arguments given here
				argOf := func(pv ssa.Value) ssa.Value {
					for {
						switch y := pv.(type) {
						case *ssa.Convert:
							pv = y.X
							continue
						case *ssa.ChangeType:
							pv = y.X
							continue
						}
						break
					}
					if pr, ok := pv.(*ssa.Parameter); ok {
						if j := paramIndex(g, pr); j >= 0 {
							return x.Call.Args[j]
						}
					}
					return nil
				}
				for _, ret := range returnsOf(g) {
					for _, rv := range ret.Results {
						if !strings.Contains(typeStr(rv.Type()), "rate.Limiter") {
							continue
						}
						why := judge(g, rv, func(a ssa.Value) bool { b := argOf(a); return b != nil && isRate(b) }, func(a ssa.Value) bool { b := argOf(a); return b != nil && isBurst(b) }, d+1)
						if why != "" {
							return why + " (in " + fname(g) + ")"
						}
					}
				}
				return ""
			}
			return "the limiter is the result of " + id
		case *ssa.TypeAssert:
			return "the limiter is taken out of a value of unknown origin (a registry entry) by a type assertion"
		case *ssa.UnOp:
			if x.Op == token.MUL {
				if _, sn, f, ok := fieldAddr(x.X); ok {
					return "the limiter is copied from " + sn + "." + f
				}
			}
		case *ssa.Extract:
			return "the limiter is a result of " + func() string {
				if cl, ok := x.Tuple.(*ssa.Call); ok {
					return calleeID(cl)
				}
				return "a call"
			}()
		}
		return fmt.Sprintf("the limiter is a value this rule does not follow (%T)", v)
	}
	for _, fn := range c.Funcs {
		if fn.Pkg == nil || fn.Pkg.Pkg.Path() != modPath+"/modules/l4throttle" {
			continue
		}
		for _, b := range fn.Blocks {
			for _, in := range b.Instrs {
				st, ok := in.(*ssa.Store)
				if !ok {
					continue
				}
				_, sn, f, ok := fieldAddr(st.Addr)
				if !ok || sn != "modules/l4throttle.Handler" || f != "totalLimiter" {
					continue
				}
				n++
				why := judge(fn, st.Val, func(a ssa.Value) bool { return fromRecvField(fn, a, "TotalReadBytesPerSecond") }, func(a ssa.Value) bool { return fromRecvField(fn, a, "TotalReadBurstSize") }, 0)
				r.check(why == "", rule, fname(fn), fmt.Sprintf("store totalLimiter#%d", n), c.ipos(st), "made from the handler's own total rate and burst", why+": the handler-wide bound in force is then not the one this handler's configuration states (after a reload, or with a second throttle handler, the first one's burst applies)")
			}
		}
	}
	if n == 0 {
		r.bad(rule, "modules/l4throttle.(*Handler).Provision", "store totalLimiter", "-", "no assignment of the handler-wide limiter found")
	}
}

// c06TLSPrefixes: "a message that matches when delivered whole is never rejected when delivered in fragments", for a
// ClientHello that is spread over two records: on every proper prefix of the stream the tls matcher asks for more
// data - it neither parses (a verdict of the sub-matchers on half a hello) nor answers no.
func c06TLSPrefixes(c *Ctx, r *Report, rule string) {
	r.rule(rule, "tls matcher on every proper prefix (1..n-1 bytes) of a ClientHello spread over two handshake records (evaluation of Match, reads served from the prefix): the answer is need-more and the hello parser is not reached - also where the prefix ends inside the second record's header or body", 40)
	fnName := "modules/l4tls.(*MatchTLS).Match"
	fn := c.Fn(fnName)
	if fn == nil {
		r.bad(rule, fnName, "exists", "-", "function not found")
		return
	}
	hello := make([]byte, 40)
	for i := range hello {
		hello[i] = byte(i*5 + 3)
	}
	hello[0], hello[1], hello[2], hello[3] = 1, 0, 0, 36
	rec := func(body []byte) []byte {
		return append([]byte{22, 3, 1, byte(len(body) >> 8), byte(len(body))}, body...)
	}
	stream := append(rec(hello[:18]), rec(hello[18:])...)
	for cut := 1; cut < len(stream); cut++ {
		name := fmt.Sprintf("first %d of %d bytes", cut, len(stream))
		mm := msgMatcher{fn: fnName, cfgName: "tls", heap: func(h map[string]SV) {
			h["m.matchers"] = symSlice("matchers", 0)
			h["m.logger"] = symRef("logger", false)
		}}
		sc := msgScenario(c, mm, msgCase{name: name, msg: stream[:cut]})
		orig := sc.Call
		parsed := false
		sc.Call = func(callee string, args []SV, ev *symEval, st *symState) (SV, bool) {
			switch {
			case strings.HasSuffix(callee, "l4tls.parseRawClientHello"):
				parsed = true
				return SV{K: "struct", Desc: "chi"}, true
			case strings.Contains(callee, "context.Context.Value"), strings.Contains(callee, "Replacer"):
				return symRef("repl", false), true
			}
			return orig(callee, args, ev, st)
		}
		paths, err := evalPaths(fn, sc)
		if err != nil || len(paths) != 1 {
			r.bad(rule, fnName, name, c.pos(fn.Pos()), fmt.Sprintf("undecided: %d paths, %v", len(paths), err))
			continue
		}
		ret := paths[0].retDesc()
		r.check(!parsed && strings.Contains(ret, "ErrConsumedAllPrefetchedBytes"), rule, fnName, name, c.pos(fn.Pos()), "need more", fmt.Sprintf("on this prefix of a hello that matches when it has arrived completely the matcher answers (%s), hello parsed: %v - a definite verdict on bytes that have not arrived: the route is passed over (or taken) depending on how the client's bytes were split into segments", ret, parsed))
	}
}

// c11CleanupPairs: the peer table counts references. Provision takes one reference per dial address it gets to -
// it stops at the first address that does not parse - and caddy calls Cleanup also for a handler whose Provision
// failed. Cleanup must therefore give back exactly the references that were taken: those of the addresses for which
// the upstream has a peer. Giving back more takes references away from the configuration that is still running: its
// peers leave the table while in use, and the next configuration starts with fresh counters (failures forgotten,
// open connections not counted against max_connections).
func c11CleanupPairs(c *Ctx, r *Report, rule string) {
	r.rule(rule, "proxy Cleanup (path evaluation over handlers whose provisioning got to 2+1, 2+0, 1+0 and 0+0 of the dial addresses of two upstreams): the table entries released are exactly those of the addresses provisioned - one Delete per peer the upstream holds, with the key provision stored it under - also after a Provision that failed half way", 4)
	fnName := "modules/l4proxy.(*Handler).Cleanup"
	fn := c.Fn(fnName)
	if fn == nil {
		r.bad(rule, fnName, "exists", "-", "function not found")
		return
	}
	dials := [][]string{{"a.example:1", "b.example:2"}, {"c.example:3"}}
	for _, got := range [][2]int64{{2, 1}, {2, 0}, {1, 0}, {0, 0}} {
		name := fmt.Sprintf("provisioned %d of 2 and %d of 1 addresses", got[0], got[1])
		heap := map[string]SV{"h.Upstreams": symSlice("ups", 2)}
		var want []string
		for ui, ds := range dials {
			u := fmt.Sprintf("u%d", ui)
			heap[fmt.Sprintf("ups[%d]", ui)] = symRef(u, false)
			heap[u+".Dial"] = symSlice(u+".dial", int64(len(ds)))
			for di, d := range ds {
				heap[fmt.Sprintf("%s.dial[%d]", u, di)] = symStr(d)
				if int64(di) < got[ui] {
					want = append(want, d)
				}
			}
			heap[u+".peers"] = symSlice(u+".peers", got[ui])
			for pi := int64(0); pi < got[ui]; pi++ {
				heap[fmt.Sprintf("%s.peers[%d]", u, pi)] = symRef(fmt.Sprintf("%s.peer%d", u, pi), false)
			}
		}
		sc := &Scenario{Name: name, MaxVisit: 8, MaxPaths: 200, Params: map[string]SV{"recv": symRef("h", false)}, Heap: heap}
		var deleted []string
		sc.Call = func(callee string, args []SV, ev *symEval, st *symState) (SV, bool) {
			if strings.HasSuffix(callee, "UsagePool).Delete") && len(args) >= 2 {
				k := args[1]
				d := k.Desc
				if k.K == "str" && k.Known {
					d = k.S
				} else if in, ok := st.heap[k.Desc]; ok && in.K == "str" && in.Known {
					d = in.S
				}
				deleted = append(deleted, d)
				return symTuple(symBool(true), symNil()), true
			}
			return SV{}, false
		}
		paths, err := evalPaths(fn, sc)
		if err != nil || len(paths) != 1 {
			r.bad(rule, fnName, name, c.pos(fn.Pos()), fmt.Sprintf("undecided: %d paths, %v", len(paths), err))
			continue
		}
		for i, d := range deleted {
			// a key boxed into an interface: "make(string <- x)"-like descriptions end with the string itself
			for _, ds := range dials {
				for _, w := range ds {
					if strings.Contains(d, w) {
						deleted[i] = w
					}
				}
			}
		}
		r.check(strings.Join(deleted, ",") == strings.Join(want, ","), rule, fnName, name, c.pos(fn.Pos()), fmt.Sprintf("releases %q", want),
			fmt.Sprintf("Cleanup releases the table entries %q, provisioning had stored %q: the references of addresses this handler never got to belong to the configuration that is still running - its peers leave the table while in use, and the next configuration starts them with fresh counters (an upstream inside its failure window is back in rotation, open connections no longer count against max_connections)", deleted, want))
	}
}

// c14DNSNameCase: domain names compare without regard to case (RFC 1035 2.3.3, RFC 4343), and the rule documentation
// promises the rules the name "in lower case ending with a dot". The wire keeps the client's spelling (miekg/dns
// unpacks it as sent; resolvers randomise it on purpose), so the name has to be lowered before the rules see it.
func c14DNSNameCase(c *Ctx, r *Report, rule string) {
	r.rule(rule, "dns matcher: the question name handed to the allow and deny rules is the result of strings.ToLower (names are case-insensitive and the rule documentation promises lower case; the wire carries the client's spelling): ExAmPle.COM. is judged like example.com.", 2)
	fnName := "modules/l4dns.(*MatchDNS).Match"
	fn := c.Fn(fnName)
	if fn == nil {
		r.bad(rule, fnName, "exists", "-", "function not found")
		return
	}
	n := 0
	for g := range c.reachSync(fn) {
		if g.Pkg != fn.Pkg {
			continue
		}
		for _, ci := range callsIn(g) {
			cal := ci.Common().StaticCallee()
			if cal == nil || fname(cal) != "modules/l4dns.(*MatchDNSRules).Match" || len(ci.Common().Args) < 5 {
				continue
			}
			n++
			var bad []string
			var judge func(in *ssa.Function, v ssa.Value, d int)
			judge = func(in *ssa.Function, v ssa.Value, d int) {
				for _, o := range origins(v, sliceOpts{}) {
					if o.Kind == "call" && o.Desc == "strings.ToLower" {
						continue
					}
					// a helper's parameter: what its callers pass
					if pr, ok := o.V.(*ssa.Parameter); ok && o.Kind == "param" && d < 3 {
						sites, escapes := c.callSitesOf(in)
						if idx := paramIndex(in, pr); idx >= 0 && !escapes && len(sites) > 0 {
							for _, cs := range sites {
								if idx < len(cs.Common().Args) {
									judge(cs.Parent(), cs.Common().Args[idx], d+1)
								}
							}
							continue
						}
					}
					bad = append(bad, o.Kind+":"+o.Desc)
				}
			}
			judge(g, ci.Common().Args[4], 0)
			r.check(len(bad) == 0, rule, fname(g), fmt.Sprintf("rules.Match#%d name", n), c.ipos(ci), "lower-cased", "the rules are given the question name as the client spelled it ("+strings.Join(dedup(bad), ", ")+"): a query for ExAmPle.COM. is not matched by a rule on example.com. - a deny list is passed by changing the case of a letter, an allow list rejects resolvers that randomise case")
		}
	}
	if n == 0 {
		r.bad(rule, fnName, "rules consulted", c.pos(fn.Pos()), "undecided: no call of the rule lists found")
	}
}

// c12Placeholders: "later matchers, placeholders and handlers see the source and destination addresses the header
// declares". The connection placeholders that WrapConnection derives from the socket's addresses are therefore set
// again, from the addresses of the connection that is handed on, on every path on which the proxy_protocol handler
// hands on the connection it built on an accepted header.
func c12Placeholders(c *Ctx, r *Report, rule string) {
	r.rule(rule, "proxy_protocol handler: every placeholder that WrapConnection sets from the connection's RemoteAddr()/LocalAddr() is set again - from the same method of the connection built on the accepted header - on every path to the call of next that hands that connection on", 2)
	wrap := c.Fn("layer4.WrapConnection")
	fnName := "modules/l4proxyprotocol.(*Handler).Handle"
	fn := c.Fn(fnName)
	if wrap == nil || fn == nil {
		r.bad(rule, fnName, "exists", "-", "WrapConnection or the handler not found")
		return
	}
	// a Replacer.Set whose value is what method m of some connection returns: (key, m)
	setOf := func(ci ssa.CallInstruction) (key, meth string, on ssa.Value) {
		if !strings.HasSuffix(calleeID(ci), "caddy/v2.Replacer).Set") || len(ci.Common().Args) < 3 {
			return "", "", nil
		}
		k, ok := ci.Common().Args[1].(*ssa.Const)
		if !ok || k.Value == nil {
			return "", "", nil
		}
		for _, o := range origins(ci.Common().Args[2], sliceOpts{}) {
			if call, ok := o.V.(*ssa.Call); ok {
				name := ""
				var recv ssa.Value
				if call.Call.IsInvoke() {
					name, recv = call.Call.Method.Name(), call.Call.Value
				} else if cal := call.Call.StaticCallee(); cal != nil && cal.Signature.Recv() != nil && len(call.Call.Args) > 0 {
					name, recv = cal.Name(), call.Call.Args[0]
				}
				if name == "RemoteAddr" || name == "LocalAddr" {
					return strings.Trim(k.Value.ExactString(), `"`), name, recv
				}
			}
		}
		return "", "", nil
	}
	keys := map[string]string{}
	for _, ci := range callsIn(wrap) {
		if k, m, _ := setOf(ci); k != "" {
			keys[k] = m
		}
	}
	if len(keys) == 0 {
		r.bad(rule, "layer4.WrapConnection", "address placeholders", c.pos(wrap.Pos()), "undecided: no placeholder set from the connection's addresses found")
		return
	}
	// the calls of next that hand on a connection built on the header's wrapper
	n := 0
	var cands []*ssa.Function
	for g := range c.reachSync(fn) {
		if g.Pkg == fn.Pkg {
			cands = append(cands, g)
		}
	}
	sort.Slice(cands, func(i, j int) bool { return fname(cands[i]) < fname(cands[j]) })
	for _, g := range cands {
		for _, ci := range callsIn(g) {
			if !isInvoke(ci, "Handle") || len(ci.Common().Args) != 1 {
				continue
			}
			var wrapper ssa.Value
			for _, o := range origins(ci.Common().Args[0], sliceOpts{}) {
				if call, ok := o.V.(*ssa.Call); ok && strings.HasSuffix(calleeID(call), "layer4.(*Connection).Wrap") && len(call.Call.Args) == 2 {
					// (through the package's helpers that pick the connection to hand on from their arguments)
					for _, o2 := range origins(call.Call.Args[1], sliceOpts{throughCalls: true}) {
						if strings.Contains(typeStr(o2.V.Type()), "proxyprotocol.Conn") {
							wrapper = o2.V
						}
					}
				}
			}
			if wrapper == nil {
				continue
			}
			var ks []string
			for k := range keys {
				ks = append(ks, k)
			}
			sort.Strings(ks)
			for _, k := range ks {
				n++
				m := keys[k]
				isSet := func(in ssa.Instruction) bool {
					c2, ok := in.(ssa.CallInstruction)
					if !ok {
						return false
					}
					k2, m2, on := setOf(c2)
					if k2 == k && m2 == m && on != nil {
						return strings.Contains(typeStr(on.Type()), "proxyprotocol.Conn") || derivesFrom(on, wrapper)
					}
					// a helper of the package that sets the placeholder, on every path, from the connection it is given
					h := c2.Common().StaticCallee()
					if h == nil || h.Pkg != fn.Pkg || len(h.Blocks) == 0 || h == g {
						return false
					}
					inner := func(x ssa.Instruction) bool {
						c3, ok := x.(ssa.CallInstruction)
						if !ok {
							return false
						}
						k3, m3, on3 := setOf(c3)
						if k3 != k || m3 != m || on3 == nil {
							return false
						}
						_, isParam := on3.(*ssa.Parameter)
						return isParam
					}
					return pathFromEntryAvoiding(h, isReturn, inner) == nil
				}
				target := func(in ssa.Instruction) bool { return in == ssa.Instruction(ci) }
				hit := pathFromEntryAvoiding(g, target, isSet)
				r.check(hit == nil, rule, fnName, "{"+k+"} before next.Handle", c.ipos(ci), "set from the new connection's "+m+"()", "the connection built on the accepted PROXY header is handed on while the placeholder {"+k+"} still holds what WrapConnection took from the socket ("+m+"() of the load balancer's connection): configuration behind the handler that uses the placeholder - an upstream address, a log field, a matcher value - sees the proxy's address, not the one the header declares")
			}
		}
	}
	if n == 0 {
		r.bad(rule, fnName, "hand-on of the wrapped connection", c.pos(fn.Pos()), "undecided: no call of next with a connection built on the header's wrapper found")
	}
}

// c09FreshAfterEnd: "after a client's virtual connection has ended a later datagram from that client is served by a
// fresh one". An association has ended when its closed channel is closed; the loop learns of it by a notice that it
// may process later than the client's next datagram. Where the loop finds the association of the datagram in hand
// closed, that datagram has to start a new association - releasing it drops a datagram that arrived after the end.
func c09FreshAfterEnd(c *Ctx, r *Report, rule string) {
	r.rule(rule, "UDP server loop: where the hand-over finds the association closed (its notice not processed yet), the datagram in hand goes to a fresh association - it is not released", 1)
	const anchor = "layer4.(*Server).servePacket"
	fn := c.Fn(anchor)
	if fn == nil {
		r.bad(rule, anchor, "exists", "-", "function not found")
		return
	}
	n := 0
	for g := range c.reachSync(fn) {
		if g.Pkg != fn.Pkg {
			continue
		}
		for _, b := range g.Blocks {
			for _, in := range b.Instrs {
				sel, ok := in.(*ssa.Select)
				if !ok {
					continue
				}
				send, closedIdx := false, -1
				for i, st := range sel.States {
					if st.Dir == types.SendOnly && chanID(st.Chan) == "field layer4.packetConn.readCh" {
						send = true
					}
					if st.Dir == types.RecvOnly && chanID(st.Chan) == "field layer4.packetConn.closed" {
						closedIdx = i
					}
				}
				if !send || closedIdx < 0 {
					continue
				}
				n++
				// the body of the closed case
				var idx ssa.Value
				for _, ref := range *sel.Referrers() {
					if ex, ok := ref.(*ssa.Extract); ok && ex.Index == 0 {
						idx = ex
					}
				}
				var body *ssa.BasicBlock
				cur := sel.Block()
				for steps := 0; steps < 8 && cur != nil && idx != nil; steps++ {
					ifi, ok := cur.Instrs[len(cur.Instrs)-1].(*ssa.If)
					if !ok {
						break
					}
					bo, ok := ifi.Cond.(*ssa.BinOp)
					if !ok || bo.Op != token.EQL || bo.X != idx {
						break
					}
					k, ok := constInt(bo.Y)
					if !ok {
						break
					}
					if int(k) == closedIdx {
						body = cur.Succs[0]
						break
					}
					cur = cur.Succs[1]
					if int(k) == len(sel.States)-2 && closedIdx == len(sel.States)-1 {
						body = cur
						break
					}
				}
				if body == nil {
					r.bad(rule, anchor, "closed case of the hand-over", c.ipos(sel), "undecided: the body of the case was not found")
					continue
				}
				released := ""
				seen := map[*ssa.BasicBlock]bool{body: true}
				work := []*ssa.BasicBlock{body}
				for len(work) > 0 && released == "" {
					bb := work[len(work)-1]
					work = work[:len(work)-1]
					stop := false
					for _, x := range bb.Instrs {
						if ci, ok := x.(ssa.CallInstruction); ok {
							if kind, _, _ := poolOp(ci); kind == "put" {
								released = c.ipos(x)
								break
							}
						}
						if s2, ok := x.(*ssa.Select); ok && s2 != sel {
							stop = true
							break
						}
						if _, ok := x.(*ssa.MapUpdate); ok {
							stop = true // a new entry in the table: the fresh association
							break
						}
					}
					if stop || released != "" {
						continue
					}
					for _, su := range bb.Succs {
						if !seen[su] {
							seen[su] = true
							work = append(work, su)
						}
					}
				}
				r.check(released == "", rule, anchor, "closed case of the hand-over", c.ipos(sel), "the datagram starts a fresh association", "the hand-over finds the client's association closed and releases the datagram in hand ("+released+"): a datagram that arrives after the association has ended, but before the loop has processed its close notice, is dropped instead of being served by a fresh association")
			}
		}
	}
	if n == 0 {
		r.bad(rule, anchor, "closed case of the hand-over", c.pos(fn.Pos()), "undecided: the hand-over select with a closed case was not found")
	}
}

// c12HeaderExamined: a PROXY header may declare no addresses (v1 "PROXY UNKNOWN", v2 LOCAL): the receiver then has to
// go on with the connection's own addresses. The library's wrapper answers a v1 UNKNOWN header with the empty
// address ":0" (HeaderV1{}.SrcAddr() is a non-nil &net.TCPAddr{}), so a handler that hands the wrapper on without
// looking at the header it parsed presents ":0" to later matchers and handlers.
func c12HeaderExamined(c *Ctx, r *Report, rule string) {
	r.rule(rule, "proxy_protocol handler: the header that ProxyHeader() returns is looked at before the connection is handed on (a header without addresses - v1 UNKNOWN - must leave the connection's own addresses in force; the library's wrapper reports ':0' for it)", 1)
	const anchor = "modules/l4proxyprotocol.(*Handler).Handle"
	fn := c.Fn(anchor)
	if fn == nil {
		r.bad(rule, anchor, "exists", "-", "function not found")
		return
	}
	n := 0
	for g := range c.reachSync(fn) {
		if g.Pkg != fn.Pkg {
			continue
		}
		for _, ci := range callsIn(g) {
			if !strings.HasSuffix(calleeID(ci), "proxyprotocol.Conn).ProxyHeader") {
				continue
			}
			n++
			used := false
			if v, ok := ci.(ssa.Value); ok && v.Referrers() != nil {
				for _, ref := range *v.Referrers() {
					if ex, ok := ref.(*ssa.Extract); ok && ex.Index == 0 && ex.Referrers() != nil {
						for _, r2 := range *ex.Referrers() {
							if _, dbg := r2.(*ssa.DebugRef); !dbg {
								used = true
							}
						}
					}
				}
			}
			r.check(used, rule, anchor, "header examined", c.ipos(ci), "the parsed header is looked at", "the header returned by ProxyHeader() is discarded and the library's wrapper is handed on as it is: for a v1 'PROXY UNKNOWN' header (no addresses declared; HAProxy sends it for its own checks) RemoteAddr() and LocalAddr() of the connection become ':0' instead of staying the socket's addresses - remote_ip and local_ip matchers behind the handler fail with 'invalid remote IP address' and the connection is dropped")
		}
	}
	if n == 0 {
		r.bad(rule, anchor, "header examined", c.pos(fn.Pos()), "undecided: no call of ProxyHeader found")
	}
}

// c15AsymmetricCodec: "that JSON loads". A value whose type reads itself from JSON with a method of its own
// (UnmarshalJSON) but is written by the default encoding (no MarshalJSON, no MarshalText) is written in a form it
// cannot read when the two differ - caddytls.PublicKeyAlgorithm reads "rsa" and is written as 1. A Caddyfile parser
// that fills such a value adapts to JSON that does not load.
func c15AsymmetricCodec(c *Ctx, r *Report, rule string) {
	r.rule(rule, "Caddyfile parsers fill no value of a type that has UnmarshalJSON but neither MarshalJSON nor MarshalText (it is written by the default encoding in a form its own reader may refuse: the adapted JSON does not load)", 1)
	var roots []*ssa.Function
	for _, fn := range c.Funcs {
		if fn.Name() == "UnmarshalCaddyfile" || strings.HasPrefix(fn.Name(), "ParseCaddyfile") || fn.Name() == "parseLayer4" {
			roots = append(roots, fn)
		}
	}
	hasMethod := func(t types.Type, name string) bool {
		for _, tt := range []types.Type{t, types.NewPointer(t)} {
			ms := types.NewMethodSet(tt)
			for i := 0; i < ms.Len(); i++ {
				if ms.At(i).Obj().Name() == name {
					return true
				}
			}
		}
		return false
	}
	n, checked := 0, 0
	for _, fn := range sortedFuncs(c.reach(roots)) {
		if fn.Pkg == nil || !strings.HasPrefix(fn.Pkg.Pkg.Path(), modPath) {
			continue
		}
		for _, ci := range callsIn(fn) {
			cal := ci.Common().StaticCallee()
			if cal == nil || cal.Name() != "UnmarshalJSON" || cal.Signature.Recv() == nil {
				continue
			}
			checked++
			t := deref(cal.Signature.Recv().Type())
			if hasMethod(t, "MarshalJSON") || hasMethod(t, "MarshalText") {
				r.ok(rule, fname(fn), "fills "+typeStr(t), c.ipos(ci), "the type writes itself as it reads itself")
				continue
			}
			n++
			r.bad(rule, "Caddyfile parsers", "fills "+typeStr(t), c.ipos(ci), "the parser ("+fname(fn)+") fills a "+typeStr(t)+" from its Caddyfile spelling; the type reads that spelling from JSON (UnmarshalJSON) but is written by the default encoding (no MarshalJSON): the adapted configuration holds a form the type's own reader refuses, so the JSON the documented syntax adapts to does not load")
		}
	}
	if checked == 0 {
		r.ok(rule, "Caddyfile parsers", "custom readers", "-", "no parser fills a value through its UnmarshalJSON")
	}
}

// c14ListsProvisioned: a configured list is a filter that applies whatever the other options hold. In a Provision
// method, the loop that prepares the entries of one list field of the configuration must not stand on a branch that
// is taken only when another list field is empty (`if len(m.A) > 0 { ... } else if len(m.B) > 0 { for range m.B`):
// with both given, the second list is silently ignored - messages that satisfy it no longer match.
func c14ListsProvisioned(c *Ctx, r *Report, rule string) {
	r.rule(rule, "matcher Provision: the loop over one exported list field of the configuration is not guarded by the emptiness of another exported list field of the same object (both lists given: both apply)", 5)
	n := 0
	for _, fn := range c.Funcs {
		if fn.Name() != "Provision" || fn.Signature.Recv() == nil || len(fn.Params) == 0 || fn.Pkg == nil || !strings.HasPrefix(fn.Pkg.Pkg.Path(), modPath) {
			continue
		}
		recv := fn.Params[0]
		// loads of exported slice fields of the receiver
		fieldOf := func(v ssa.Value) string {
			ld, ok := v.(*ssa.UnOp)
			if !ok || ld.Op != token.MUL {
				return ""
			}
			base, _, f, ok := fieldAddr(ld.X)
			if !ok || base != ssa.Value(recv) || !token.IsExported(f) {
				return ""
			}
			if _, isSl := ld.Type().Underlying().(*types.Slice); !isSl {
				return ""
			}
			return f
		}
		for _, b := range fn.Blocks {
			for _, in := range b.Instrs {
				// a loop over a list field: len(field) taken in a block that heads a range loop (go/ssa: rangeindex)
				call, ok := in.(*ssa.Call)
				if !ok || calleeID(call) != "builtin len" || len(call.Call.Args) != 1 || !strings.Contains(b.Comment, "range") {
					// ranges are lowered to len + index loops; the length is taken right before the loop
					if !ok || calleeID(call) != "builtin len" || len(call.Call.Args) != 1 {
						continue
					}
					isRange := false
					for _, su := range b.Succs {
						if strings.HasPrefix(su.Comment, "rangeindex") {
							isRange = true
						}
					}
					if !isRange {
						continue
					}
				}
				f := fieldOf(call.Call.Args[0])
				if f == "" {
					continue
				}
				n++
				var others []string
				for _, cd := range edgeConds(b) {
					bo, ok := cd.V.(*ssa.BinOp)
					if !ok {
						continue
					}
					for _, side := range []ssa.Value{bo.X, bo.Y} {
						if lc, ok := side.(*ssa.Call); ok && calleeID(lc) == "builtin len" && len(lc.Call.Args) == 1 {
							if g := fieldOf(lc.Call.Args[0]); g != "" && g != f {
								// the branch taken is the one on which the other list is empty
								empty := false
								k, isK := constInt(bo.Y)
								switch {
								case isK && k == 0 && bo.Op == token.GTR && !cd.Truth, isK && k == 0 && bo.Op == token.EQL && cd.Truth, isK && k == 0 && bo.Op == token.NEQ && !cd.Truth, isK && k == 0 && bo.Op == token.LEQ && cd.Truth, isK && k == 1 && bo.Op == token.LSS && cd.Truth, isK && k == 1 && bo.Op == token.GEQ && !cd.Truth:
									empty = true
								}
								if empty {
									others = append(others, g)
								}
							}
						}
					}
				}
				r.check(len(others) == 0, rule, fname(fn), "range "+f, c.ipos(in), "prepared whatever the other lists hold", "the entries of "+f+" are prepared only where "+strings.Join(dedup(others), ", ")+" is empty: a configuration that gives both lists loses "+f+" without a word - messages that satisfy an entry of it are not matched")
			}
		}
	}
	if n == 0 {
		r.bad(rule, "module", "list fields", "-", "no loop over a list field found in the Provision methods")
	}
}

// c18ParsersAssign: "parsing any byte string the parser accepts and serialising the result reproduces the same
// bytes" - also into an object that was used before. A parser that appends the variable-length rest of its input to
// what the field already holds (`msg.Content = append(msg.Content, rest...)`) returns, on a used object, the old rest
// followed by the new one; and where it skips the assignment for an empty rest, the old rest stays.
func c18ParsersAssign(c *Ctx, r *Report, rule string) {
	r.rule(rule, "wire-message parsers (FromBytes* methods of the codec packages): a slice field of the receiver is never assigned append(<that same field as it was on entry>, ...): the parsed value replaces what the object held", 2)
	n := 0
	for _, fn := range c.Funcs {
		if fn.Pkg == nil || fn.Signature.Recv() == nil || len(fn.Params) == 0 || !strings.HasPrefix(fn.Name(), "FromBytes") {
			continue
		}
		switch fn.Pkg.Pkg.Path() {
		case modPath + "/modules/l4openvpn", modPath + "/modules/l4wireguard", modPath + "/modules/l4winbox", modPath + "/modules/l4rdp":
		default:
			continue
		}
		recv := fn.Params[0]
		for _, b := range fn.Blocks {
			for _, in := range b.Instrs {
				st, ok := in.(*ssa.Store)
				if !ok {
					continue
				}
				base, sn, f, ok := fieldAddr(st.Addr)
				if !ok || base != ssa.Value(recv) {
					continue
				}
				if _, isSl := st.Val.Type().Underlying().(*types.Slice); !isSl {
					continue
				}
				n++
				stale := ""
				if call, ok := st.Val.(*ssa.Call); ok && calleeID(call) == "builtin append" && len(call.Call.Args) > 0 {
					// the first operand: a load of the same field that no earlier store of this function overwrote
					if ld, ok := call.Call.Args[0].(*ssa.UnOp); ok && ld.Op == token.MUL {
						if b2, s2, f2, ok := fieldAddr(ld.X); ok && b2 == ssa.Value(recv) && s2 == sn && f2 == f {
							overwritten := false
							for _, bb := range fn.Blocks {
								for _, x := range bb.Instrs {
									if s0, ok := x.(*ssa.Store); ok && s0 != st {
										if b3, s3, f3, ok := fieldAddr(s0.Addr); ok && b3 == ssa.Value(recv) && s3 == sn && f3 == f && canReach(s0, ld) && !canReach(ld, s0) {
											overwritten = true
										}
									}
								}
							}
							if !overwritten {
								stale = sn + "." + f
							}
						}
					}
				}
				r.check(stale == "", rule, fname(fn), "store "+sn+"."+f, c.ipos(st), "the parsed value replaces the field", "the parser appends the rest of its input to what "+stale+" already holds: parsing into an object that was used before yields the old bytes followed by the new ones, and serialising the result does not reproduce the input")
			}
		}
	}
	if n == 0 {
		r.bad(rule, "codec packages", "slice fields", "-", "no parser assigning a slice field found")
	}
}

// c08AfterHandOff: a connection that was handed to the wrapped listener belongs to its consumer, whose reads update
// the connection's plain counters. The goroutine that did the hand-off must not look at them any more (its
// "connection stats" would race with the consumer and say nothing about its own share).
func c08AfterHandOff(c *Ctx, r *Report, rule string) {
	r.rule(rule, "listener wrapper: after the route chain has returned, handle reads the connection's plain counter (bytesRead) only where the result is known not to be the hand-off (errHijacked) - the consumer of a handed-off connection is updating it", 1)
	const anchor = "layer4.(*listener).handle"
	fn := c.Fn(anchor)
	if fn == nil {
		r.bad(rule, anchor, "exists", "-", "function not found")
		return
	}
	n := 0
	for _, b := range fn.Blocks {
		for _, in := range b.Instrs {
			ld, ok := in.(*ssa.UnOp)
			if !ok || ld.Op != token.MUL {
				continue
			}
			_, sn, f, ok := fieldAddr(ld.X)
			if !ok || sn != "layer4.Connection" || f != "bytesRead" {
				continue
			}
			n++
			guarded := false
			for _, cd := range edgeConds(b) {
				if isHijackTest(cd.V, 0) && !cd.Truth {
					guarded = true
				}
			}
			r.check(guarded, rule, anchor, "read of bytesRead after the chain returned", c.ipos(ld), "only where the connection was not handed off", "handle reads cx.bytesRead for its statistics also when the connection has been handed to the wrapped listener: the consumer's Read is adding to that counter at the same time - a data race on every handed-off connection (and the figure logged is not this handler's)")
		}
	}
	// the statistics written by a helper of the package that is given the connection
	for _, ci := range callsIn(fn) {
		call, ok := ci.(*ssa.Call)
		if !ok {
			continue
		}
		g := call.Call.StaticCallee()
		if g == nil || g.Pkg != fn.Pkg || len(g.Blocks) == 0 || g == fn {
			continue
		}
		reads := false
		for _, b := range g.Blocks {
			for _, in := range b.Instrs {
				if ld, ok := in.(*ssa.UnOp); ok && ld.Op == token.MUL {
					if base, sn, f, ok := fieldAddr(ld.X); ok && sn == "layer4.Connection" && f == "bytesRead" {
						if _, isP := base.(*ssa.Parameter); isP {
							reads = true
						}
					}
				}
			}
		}
		if !reads {
			continue
		}
		n++
		guarded := false
		for _, cd := range edgeConds(call.Block()) {
			if isHijackTest(cd.V, 0) && !cd.Truth {
				guarded = true
			}
		}
		r.check(guarded, rule, anchor, "read of bytesRead after the chain returned", c.ipos(call), "only where the connection was not handed off", "handle has "+fname(g)+" read cx.bytesRead for its statistics also when the connection has been handed to the wrapped listener: the consumer's Read is adding to that counter at the same time - a data race on every handed-off connection")
	}
	if n == 0 {
		r.ok(rule, anchor, "read of bytesRead", c.pos(fn.Pos()), "handle does not read the counter")
	}
	// the context of the connection: handlers that stay on the connection after the hand-off wait on it (the
	// throttle's token and latency waits) - a context that handle derives, stores into the connection and cancels
	// when it returns is cancelled under the consumer's hands
	for _, b := range fn.Blocks {
		for _, in := range b.Instrs {
			call, ok := in.(*ssa.Call)
			if !ok {
				continue
			}
			switch calleeID(call) {
			case "context.WithCancel", "context.WithTimeout", "context.WithDeadline", "context.WithCancelCause":
			default:
				continue
			}
			var ctxV, cancelV ssa.Value
			for _, ref := range *call.Referrers() {
				if ex, ok := ref.(*ssa.Extract); ok {
					if ex.Index == 0 {
						ctxV = ex
					} else {
						cancelV = ex
					}
				}
			}
			if ctxV == nil || cancelV == nil {
				continue
			}
			stored := false
			for _, ref := range *ctxV.Referrers() {
				if st, ok := ref.(*ssa.Store); ok {
					if _, sn, f, ok := fieldAddr(st.Addr); ok && sn == "layer4.Connection" && f == "Context" {
						stored = true
					}
				}
			}
			if !stored {
				continue
			}
			for _, ref := range *cancelV.Referrers() {
				ci, ok := ref.(ssa.CallInstruction)
				if !ok || ci.Common().Value != cancelV {
					continue
				}
				guarded := false
				for _, cd := range edgeConds(ref.Block()) {
					if isHijackTest(cd.V, 0) && !cd.Truth {
						guarded = true
					}
				}
				if _, isDefer := ref.(*ssa.Defer); isDefer {
					guarded = false // runs when handle returns, whatever the result was
				}
				r.check(guarded, rule, anchor, "cancel of the connection's context", c.ipos(ref), "only where the connection was not handed off", "handle stores a cancellable context into the connection and cancels it when it returns - also after the hand-off to the wrapped listener: every read of a handed-off connection that waits on that context (a throttle handler in the routes) then fails with 'context canceled' and the consumer gets none of the client's bytes")
			}
		}
	}
}

// c09IdleTimerDrained: Read re-arms the idle timer of the association each time it starts waiting. Under the timer
// semantics this module is built with (go 1.22 in go.mod: a tick stays in the channel until it is received), a tick
// from an earlier period - the handler was busy elsewhere for longer than the idle time - survives a bare Reset and
// ends the next Read at once, with the client's datagram still queued. The timer is therefore stopped and its
// channel drained before it is re-armed.
func c09IdleTimerDrained(c *Ctx, r *Report, rule string) {
	r.rule(rule, "UDP association: the idle timer is re-armed (Reset) only after Stop, with a tick that Stop reports as already sent taken out of the channel: a tick left from an earlier period must not end the next Read while datagrams are queued", 1)
	const anchor = "layer4.(*packetConn).Read"
	fn := c.Fn(anchor)
	if fn == nil {
		r.bad(rule, anchor, "exists", "-", "function not found")
		return
	}
	// which timer a value is: the association's field, or - in a helper that is given the address of a timer
	// variable - the field whose address a caller in the package passes
	var timerOf func(g *ssa.Function, v ssa.Value) string
	timerOf = func(g *ssa.Function, v ssa.Value) string {
		ld, ok := v.(*ssa.UnOp)
		if !ok || ld.Op != token.MUL {
			return ""
		}
		if _, sn, f, ok := fieldAddr(ld.X); ok && sn == "layer4.packetConn" {
			return f
		}
		if pr, ok := ld.X.(*ssa.Parameter); ok {
			idx := paramIndex(g, pr)
			sites, _ := c.callSitesOf(g)
			for _, cs := range sites {
				if idx >= 0 && idx < len(cs.Common().Args) {
					if _, sn, f, ok := fieldAddr(cs.Common().Args[idx]); ok && sn == "layer4.packetConn" && f == "idleTimer" {
						return f
					}
				}
			}
		}
		return ""
	}
	chanOf := func(g *ssa.Function, v ssa.Value) string {
		ld, ok := v.(*ssa.UnOp)
		if !ok || ld.Op != token.MUL {
			return ""
		}
		fa, ok := ld.X.(*ssa.FieldAddr)
		if !ok {
			return ""
		}
		if _, sn, f, ok := fieldAddr(fa); !ok || sn != "time.Timer" || f != "C" {
			return ""
		}
		return timerOf(g, fa.X)
	}
	n := 0
	for g := range c.reachSync(fn) {
		if g.Pkg != fn.Pkg {
			continue
		}
		for _, ci := range callsIn(g) {
			if calleeID(ci) != "(*time.Timer).Reset" || len(ci.Common().Args) == 0 || timerOf(g, ci.Common().Args[0]) != "idleTimer" {
				continue
			}
			n++
			stopped, drained := false, false
			for _, c2 := range callsIn(g) {
				if calleeID(c2) == "(*time.Timer).Stop" && len(c2.Common().Args) > 0 && timerOf(g, c2.Common().Args[0]) == "idleTimer" {
					if c2.Block() == ci.Block() || c2.Block().Dominates(ci.Block()) {
						stopped = true
					}
				}
			}
			for _, b := range g.Blocks {
				for _, in := range b.Instrs {
					switch x := in.(type) {
					case *ssa.UnOp:
						if x.Op == token.ARROW && chanOf(g, x.X) == "idleTimer" && canReach(x, ci) {
							drained = true
						}
					case *ssa.Select:
						for _, st := range x.States {
							if st.Dir == types.RecvOnly && chanOf(g, st.Chan) == "idleTimer" && !x.Blocking && canReach(x, ci) {
								drained = true
							}
						}
					}
				}
			}
			r.check(stopped && drained, rule, anchor, "re-arming the idle timer", c.ipos(ci), "Stop, drain, Reset", "the idle timer is re-armed with a bare Reset: a tick that fired while the handler was not reading (busy for longer than the idle time) stays in the channel and the next Read takes it for idle expiry - it returns EOF at once although the client's datagram is queued, and Close discards the queue")
		}
	}
	if n == 0 {
		r.bad(rule, anchor, "re-arming the idle timer", c.pos(fn.Pos()), "undecided: no Reset of the idle timer found")
	}
}

// c18ParsersAssignAlways: a parser that gives a field of its object a value on one successful path and leaves it
// alone on another (the optional part is absent) returns, on an object that was used before, the new message with
// the old optional part: serialising it does not reproduce the input. Every field of the receiver that a parser
// assigns on some path to a successful return is assigned on every such path.
func c18ParsersAssignAlways(c *Ctx, r *Report, rule string) {
	r.rule(rule, "wire-message parsers (FromBytes* methods of the codec packages): a field of the receiver that is assigned on some path to a return without error is assigned on every such path (an absent optional part clears the field instead of leaving what an earlier parse put there)", 20)
	n := 0
	for _, fn := range sortedFuncs(func() map[*ssa.Function]bool {
		m := map[*ssa.Function]bool{}
		for _, f := range c.Funcs {
			m[f] = true
		}
		return m
	}()) {
		if fn.Pkg == nil || fn.Signature.Recv() == nil || len(fn.Params) == 0 || !strings.HasPrefix(fn.Name(), "FromBytes") || len(fn.Blocks) == 0 {
			continue
		}
		switch fn.Pkg.Pkg.Path() {
		case modPath + "/modules/l4openvpn", modPath + "/modules/l4wireguard", modPath + "/modules/l4winbox", modPath + "/modules/l4rdp":
		default:
			continue
		}
		res := fn.Signature.Results()
		if res.Len() != 1 || !types.Identical(res.At(0).Type(), types.Universe.Lookup("error").Type()) {
			continue
		}
		recv := fn.Params[0]
		// the fields of the receiver (through nested structs) that the function stores to
		chainOf := func(addr ssa.Value) string {
			root, chain := fieldChain(addr)
			if root != ssa.Value(recv) || chain == "" {
				return ""
			}
			return chain
		}
		fields := map[string]token.Pos{}
		for _, b := range fn.Blocks {
			for _, in := range b.Instrs {
				if st, ok := in.(*ssa.Store); ok {
					if ch := chainOf(st.Addr); ch != "" {
						if _, seen := fields[ch]; !seen {
							fields[ch] = st.Pos()
						}
					}
				}
			}
		}
		var chains []string
		for ch := range fields {
			chains = append(chains, ch)
		}
		sort.Strings(chains)
		okReturn := func(in ssa.Instruction) bool {
			ret, ok := in.(*ssa.Return)
			if !ok || len(ret.Results) != 1 {
				return false
			}
			if k, isC := ret.Results[0].(*ssa.Const); isC {
				return k.IsNil()
			}
			if _, isMI := ret.Results[0].(*ssa.MakeInterface); isMI {
				return false
			}
			if ld, isLd := ret.Results[0].(*ssa.UnOp); isLd {
				if _, isG := ld.X.(*ssa.Global); isG {
					return false // a package-level error value
				}
			}
			return !onNonNilEdge(ret.Block(), ret.Results[0])
		}
		for _, ch := range chains {
			n++
			isStore := func(in ssa.Instruction) bool {
				st, ok := in.(*ssa.Store)
				return ok && chainOf(st.Addr) == ch
			}
			hit := pathFromEntryAvoiding(fn, okReturn, isStore)
			name := strings.TrimSuffix(ch, "/")
			if i := strings.LastIndex(name, "/"); i >= 0 {
				name = name[i+1:]
			}
			r.check(hit == nil, rule, fname(fn), "field "+name, c.pos(fields[ch]), "assigned on every successful path", func() string {
				if hit == nil {
					return ""
				}
				return "the parser can return without error at " + c.ipos(hit) + " without having assigned " + name + ": parsed into an object that was used before, the message keeps that part of the earlier one, and serialising it does not reproduce the input"
			}())
		}
	}
	if n == 0 {
		r.bad(rule, "codec packages", "fields", "-", "no parser assigning a field of its receiver found")
	}
}

// isHijackTest: v is the answer to "was the connection handed off" - errors.Is(err, errHijacked) itself, a variable
// (also one shared with deferred closures) that is only ever given such an answer, or a local function returning one.
func isHijackTest(v ssa.Value, d int) bool {
	if d > 4 {
		return false
	}
	switch x := v.(type) {
	case *ssa.Call:
		if calleeID(x) == "errors.Is" && len(x.Call.Args) == 2 {
			for _, o := range origins(x.Call.Args[1], sliceOpts{}) {
				if strings.Contains(o.Desc, "errHijacked") {
					return true
				}
			}
			return false
		}
		var g *ssa.Function
		if mc, ok := x.Call.Value.(*ssa.MakeClosure); ok {
			g, _ = mc.Fn.(*ssa.Function)
		} else {
			g = x.Call.StaticCallee()
		}
		if g == nil || len(g.Blocks) == 0 || g.Pkg == nil || !strings.HasPrefix(g.Pkg.Pkg.Path(), modPath) {
			// a closure kept in a local variable
			if ld, ok := x.Call.Value.(*ssa.UnOp); ok {
				if al, ok := ld.X.(*ssa.Alloc); ok {
					for _, sv := range storesToDeep(al) {
						if mc, ok := sv.(*ssa.MakeClosure); ok {
							g, _ = mc.Fn.(*ssa.Function)
						}
					}
				}
			}
			if g == nil || len(g.Blocks) == 0 {
				return false
			}
		}
		rets := returnsOf(g)
		if len(rets) == 0 {
			return false
		}
		for _, ret := range rets {
			if len(ret.Results) != 1 || !isHijackTest(ret.Results[0], d+1) {
				return false
			}
		}
		return true
	case *ssa.UnOp:
		if x.Op != token.MUL {
			return false
		}
		var stores []ssa.Value
		switch a := x.X.(type) {
		case *ssa.Alloc:
			stores = storesToDeep(a)
		case *ssa.FreeVar:
			// the enclosing function's variable
			if fn := a.Parent(); fn != nil && fn.Parent() != nil {
				for i, fv := range fn.FreeVars {
					if fv == a {
						for _, ref := range *fn.Referrers() {
							if mc, ok := ref.(*ssa.MakeClosure); ok && i < len(mc.Bindings) {
								if al, ok := mc.Bindings[i].(*ssa.Alloc); ok {
									stores = storesToDeep(al)
								}
							}
						}
					}
				}
			}
		}
		n := 0
		for _, sv := range stores {
			if b, isC := constBool(sv); isC && !b {
				continue
			}
			if !isHijackTest(sv, d+1) {
				return false
			}
			n++
		}
		return n > 0
	case *ssa.Phi:
		n := 0
		for _, e := range x.Edges {
			if b, isC := constBool(e); isC && !b {
				continue
			}
			if !isHijackTest(e, d+1) {
				return false
			}
			n++
		}
		return n > 0
	}
	return false
}

// c04HeaderAddrs: the addresses of a parsed PROXY header are optional - the library returns a nil net.Addr from
// SrcAddr()/DestAddr() for a header that declares none (v2 LOCAL, unspecified family). A method called on such a
// result without a test for nil is a nil dereference in the connection's goroutine.
func c04HeaderAddrs(c *Ctx, r *Report, rule string) {
	r.rule(rule, "a method is called on what proxyprotocol.Header.SrcAddr()/DestAddr() returned only behind a test that it is not nil (a v2 LOCAL header has no addresses: the result is a nil net.Addr)", 0)
	n := 0
	for _, fn := range sortedFuncs(c.perConnReach()) {
		if fn.Pkg == nil || !strings.HasPrefix(fn.Pkg.Pkg.Path(), modPath) {
			continue
		}
		for _, ci := range callsIn(fn) {
			cm := ci.Common()
			if !cm.IsInvoke() {
				continue
			}
			src, ok := cm.Value.(*ssa.Call)
			if !ok || !src.Call.IsInvoke() || (src.Call.Method.Name() != "SrcAddr" && src.Call.Method.Name() != "DestAddr") || !strings.Contains(typeStr(src.Call.Value.Type()), "proxyprotocol.Header") {
				continue
			}
			n++
			guarded := false
			for _, cd := range edgeConds(ci.Block()) {
				if y, neq, ok := nilCheck(cd.V); ok && y == ssa.Value(src) && ((neq && cd.Truth) || (!neq && !cd.Truth)) {
					guarded = true
				}
			}
			r.check(guarded, rule, fname(fn), fmt.Sprintf("%s().%s()#%d", src.Call.Method.Name(), cm.Method.Name(), n), c.ipos(ci), "behind a test for nil", "a method is called on the result of the header's "+src.Call.Method.Name()+"() without a test for nil: a well-formed v2 header with the LOCAL command (a load balancer's health check) declares no addresses, the result is a nil net.Addr and the call ends the connection's goroutine - and the process - with a nil dereference")
		}
	}
	if n == 0 {
		r.ok(rule, "module", "uses of header addresses", "-", "no method is called on a header's SrcAddr()/DestAddr() result")
	}
}

// c01PrefetchKeepsBytes: "no byte lost". A Read may deliver bytes together with an error (io.Reader; crypto/tls
// does it for the last record of a client whose close_notify arrives in the same segment). The bytes are in the
// matching buffer then; a prefetch that reports the error makes the router drop the connection with the client's
// complete message unread. The error belongs to the next read, which returns it again without bytes.
func c01PrefetchKeepsBytes(c *Ctx, r *Report, rule string) {
	r.rule(rule, "prefetch over what the underlying Read returns (bytes and no error, bytes and io.EOF, bytes and another error, no bytes and an error): a read that delivered bytes is a successful prefetch - the error comes back with the next read - and only a read without bytes hands its error on", 4)
	fnName := "layer4.(*Connection).prefetch"
	fn := c.Fn(fnName)
	if fn == nil {
		r.bad(rule, fnName, "exists", "-", "function not found")
		return
	}
	for _, t := range []struct {
		name string
		n    int64
		err  string
	}{{"5 bytes, no error", 5, ""}, {"5 bytes and io.EOF", 5, "EOF"}, {"5 bytes and a timeout", 5, "timeout"}, {"no bytes and io.EOF", 0, "EOF"}} {
		for _, room := range []struct {
			l, cp int64
			name  string
		}{{0, 2048, "room in the buffer"}, {100, 120, "temporary chunk"}} {
			name := t.name + ", " + room.name
			sc := &Scenario{Name: name, Heap: map[string]SV{"recv.buf": symSliceCap("recv.buf", room.l, room.cp)}, Params: map[string]SV{"recv": symRef("recv", false)}}
			sc.Call = func(callee string, args []SV, ev *symEval, st *symState) (SV, bool) {
				if strings.HasPrefix(callee, "invoke ") && strings.HasSuffix(callee, ".Read") {
					e := symNil()
					if t.err != "" {
						e = SV{K: "ref", Known: true, Desc: "readErr:" + t.err}
					}
					return SV{K: "tuple", Desc: "rd", Elems: []SV{symInt(t.n), e}}, true
				}
				if strings.Contains(callee, "zap") || strings.Contains(callee, "Logger") || strings.Contains(callee, "RemoteAddr") {
					return symOpaque("log"), true
				}
				return SV{}, false
			}
			paths, err := evalPaths(fn, sc)
			if err != nil || len(paths) == 0 {
				r.bad(rule, fnName, name, c.pos(fn.Pos()), fmt.Sprintf("undecided: %v", err))
				continue
			}
			var problems []string
			for _, p := range paths {
				if len(p.Ret) != 1 {
					problems = append(problems, "no result")
					continue
				}
				got := p.Ret[0]
				wantNil := t.n > 0 || t.err == ""
				isNil := got.K == "ref" && got.Known && got.Nil
				switch {
				case wantNil && !isNil:
					problems = append(problems, fmt.Sprintf("the read delivered %d bytes, prefetch reports %s: the router ends the connection with these bytes - already in the matching buffer - unread by any matcher or handler", t.n, got.Desc))
				case !wantNil && (isNil || !strings.Contains(got.Desc, "readErr")):
					problems = append(problems, "a read without bytes that failed is reported as "+got.Desc)
				}
			}
			r.check(len(problems) == 0, rule, fnName, name, c.pos(fn.Pos()), "bytes delivered: success; none: the read's error", strings.Join(dedup(problems), "; "))
		}
	}
}

// c18BoundsCompared: "parsers reject, rather than truncate or pad, inputs of the wrong length". Where a codec package
// states the size bounds of a message type as constants (<Type>BytesMin / <Type>BytesMax / <Type>BytesTotal), the
// type's FromBytes compares the length of its input with each of them (itself or in a helper it calls in place).
func c18BoundsCompared(c *Ctx, r *Report, rule string) {
	r.rule(rule, "wire-message parsers: for every message type whose package defines <Type>BytesMin, <Type>BytesMax or <Type>BytesTotal, FromBytes compares len(input) with each constant the package defines for the type (types whose accepted lengths C18.R1 decides by evaluation are left to it)", 1)
	n := 0
	for _, fn := range c.Funcs {
		if fn.Pkg == nil || fn.Signature.Recv() == nil || fn.Name() != "FromBytes" || len(fn.Params) < 2 || len(fn.Blocks) == 0 {
			continue
		}
		switch fn.Pkg.Pkg.Path() {
		case modPath + "/modules/l4openvpn", modPath + "/modules/l4wireguard", modPath + "/modules/l4winbox", modPath + "/modules/l4rdp":
		default:
			continue
		}
		tn := namedName(deref(fn.Signature.Recv().Type()))
		if i := strings.LastIndex(tn, "."); i >= 0 {
			tn = tn[i+1:]
		}
		if c18LayoutTypes[short(fn.Pkg.Pkg.Path())+"."+tn] {
			continue // which lengths this parser accepts is decided by evaluation (C18.R1), however it rejects the others
		}
		// the lengths the input is compared with: len(src) against a constant, in fn and what it calls in place
		seen := map[int64]bool{}
		for g := range c.reachSync(fn) {
			if g.Pkg != fn.Pkg {
				continue
			}
			for _, b := range g.Blocks {
				for _, in := range b.Instrs {
					bo, ok := in.(*ssa.BinOp)
					if !ok {
						continue
					}
					switch bo.Op {
					case token.LSS, token.LEQ, token.GTR, token.GEQ, token.EQL, token.NEQ:
					default:
						continue
					}
					for _, pr := range [][2]ssa.Value{{bo.X, bo.Y}, {bo.Y, bo.X}} {
						k, isK := constInt(pr[1])
						if !isK {
							continue
						}
						v := pr[0]
						for {
							if cv, ok := v.(*ssa.Convert); ok {
								v = cv.X
								continue
							}
							break
						}
						isLen := func(v ssa.Value) bool {
							for {
								if cv, ok := v.(*ssa.Convert); ok {
									v = cv.X
									continue
								}
								break
							}
							call, ok := v.(*ssa.Call)
							return ok && calleeID(call) == "builtin len"
						}
						lenValued := isLen(v)
						if pr, isP := v.(*ssa.Parameter); isP && !lenValued && g != fn {
							// a helper's parameter that is a length at every call
							if sites, escapes := c.callSitesOf(g); !escapes && len(sites) > 0 {
								lenValued = true
								for _, cs := range sites {
									for i, gp := range g.Params {
										if gp == pr && (i >= len(cs.Common().Args) || !isLen(cs.Common().Args[i])) {
											lenValued = false
										}
									}
								}
							}
						}
						if lenValued {
							seen[k] = true
							// `len(src) < Min-1` style: also the neighbours for strict/non-strict spellings
							seen[k+1], seen[k-1] = true, true
						}
					}
				}
			}
		}
		for _, suffix := range []string{"BytesMin", "BytesMax", "BytesTotal"} {
			o := fn.Pkg.Pkg.Scope().Lookup(tn + suffix)
			cst, ok := o.(*types.Const)
			if !ok {
				continue
			}
			v, ok := constant.Int64Val(constant.ToInt(cst.Val()))
			if !ok {
				continue
			}
			n++
			r.check(seen[v], rule, fname(fn), tn+suffix, c.pos(fn.Pos()), fmt.Sprintf("len(input) is compared with %d", v), fmt.Sprintf("the package states %s%s = %d, but the parser never compares the length of its input with it: inputs beyond that bound are parsed (truncated or over-long messages are accepted) instead of being rejected", tn, suffix, v))
		}
	}
	if n == 0 {
		r.bad(rule, "codec packages", "bounds", "-", "no message type with size constants found")
	}
}

// c18LayoutTypes: the message types whose accepted lengths are decided by the layout evaluation of C18.R1.
var c18LayoutTypes = map[string]bool{
	"modules/l4openvpn.MessagePlain": true, "modules/l4openvpn.MessageAuth": true, "modules/l4openvpn.MessageCrypt": true, "modules/l4openvpn.MessageCrypt2": true, "modules/l4openvpn.WrappedKey": true,
	"modules/l4wireguard.MessageInitiation": true, "modules/l4wireguard.MessageTransport": true,
	"modules/l4rdp.TPKTHeader": true, "modules/l4rdp.X224Crq": true, "modules/l4rdp.RDPNegReq": true, "modules/l4rdp.RDPCorrInfo": true, "modules/l4rdp.RDPToken": true,
}

// c08PooledPeerUntouched: a peer found in the package-level pool is the one the running configuration's connections
// and health checker are working with. Provisioning a new configuration takes it as it is; writing one of its plain
// fields (its address, say) is a data race with those readers - and changes where the running configuration dials.
func c08PooledPeerUntouched(c *Ctx, r *Report, rule string) {
	r.rule(rule, "Upstream.provision (and what it calls in place) stores into the fields of a peer only where that peer is the one it has just allocated - never into one taken from the shared pool", 0)
	fn := c.Fn("modules/l4proxy.(*Upstream).provision")
	if fn == nil {
		r.bad(rule, "modules/l4proxy.(*Upstream).provision", "exists", "-", "function not found")
		return
	}
	n := 0
	for g := range c.reachSync(fn) {
		if g.Pkg != fn.Pkg {
			continue
		}
		for _, b := range g.Blocks {
			for _, in := range b.Instrs {
				st, ok := in.(*ssa.Store)
				if !ok {
					continue
				}
				base, sn, f, ok := fieldAddr(st.Addr)
				if !ok || sn != "modules/l4proxy.peer" {
					continue
				}
				n++
				var foreign []string
				for _, o := range origins(base, sliceOpts{}) {
					if _, isAlloc := o.V.(*ssa.Alloc); isAlloc {
						continue
					}
					foreign = append(foreign, o.Kind+":"+o.Desc)
				}
				r.check(len(foreign) == 0, rule, fname(g), fmt.Sprintf("store peer.%s#%d", f, n), c.ipos(st), "into the peer just allocated", "provisioning writes peer."+f+" of a peer that may be the one found in the shared pool ("+strings.Join(dedup(foreign), ", ")+"): the running configuration's connections and health checker read that field without synchronisation - a data race - and from then on dial what the configuration being provisioned says")
			}
		}
	}
	if n == 0 {
		r.ok(rule, fname(fn), "stores into peers", c.pos(fn.Pos()), "provisioning stores into no field of a peer after creating it")
	}
}

// c09NoticeMeansEnd: a close notice tells the loop that the association is over - the loop forgets it, and the
// client's next datagram starts another. Read sends one when it gives up for good (idle expiry, closed); a Read that
// merely ran into its deadline returns an error its caller may answer by reading again, so it must not send one.
func c09NoticeMeansEnd(c *Ctx, r *Report, rule string) {
	r.rule(rule, "UDP association: every path of Read that sends a close notice returns io.EOF (the association is over); no notice is sent on a path that returns the deadline error, after which the handler may go on reading", 1)
	const anchor = "layer4.(*packetConn).Read"
	fn := c.Fn(anchor)
	if fn == nil {
		r.bad(rule, anchor, "exists", "-", "function not found")
		return
	}
	n := 0
	isNoticeSend := func(in ssa.Instruction) bool {
		sd, ok := in.(*ssa.Send)
		return ok && (chanID(sd.Chan) == "field layer4.packetConn.closeCh" || strings.Contains(typeStr(sd.Chan.Type()), "packetConn"))
	}
	// helpers of the package (called synchronously) that send the notice count as the notice at their call site
	senders := map[*ssa.Function]bool{}
	for g := range c.reachSync(fn) {
		if g == fn || g.Pkg != fn.Pkg {
			continue
		}
		for h := range c.reachSync(g) {
			if h.Pkg != fn.Pkg || h == fn {
				continue
			}
			for _, b := range h.Blocks {
				for _, in := range b.Instrs {
					if isNoticeSend(in) {
						senders[g] = true
					}
				}
			}
		}
	}
	for _, g := range []*ssa.Function{fn} {
		for _, b := range g.Blocks {
			for _, in := range b.Instrs {
				sd := in
				if !isNoticeSend(in) {
					cl, ok := in.(*ssa.Call)
					if !ok || cl.Call.StaticCallee() == nil || !senders[cl.Call.StaticCallee()] {
						continue
					}
				}
				n++
				// every return reachable from the send
				var bad []string
				seen := map[*ssa.BasicBlock]bool{b: true}
				work := []*ssa.BasicBlock{b}
				first := true
				for len(work) > 0 {
					bb := work[len(work)-1]
					work = work[:len(work)-1]
					started := !first || false
					for _, x := range bb.Instrs {
						if first && !started {
							if x == sd {
								started = true
							}
							continue
						}
						if ret, ok := x.(*ssa.Return); ok && len(ret.Results) == 2 {
							isEOF := false
							for _, o := range origins(ret.Results[1], sliceOpts{}) {
								if strings.Contains(o.Desc, "io.EOF") {
									isEOF = true
								}
							}
							if !isEOF {
								bad = append(bad, c.ipos(ret))
							}
						}
					}
					first = false
					for _, su := range bb.Succs {
						if !seen[su] {
							seen[su] = true
							work = append(work, su)
						}
					}
				}
				r.check(len(bad) == 0, rule, anchor, fmt.Sprintf("notice#%d", n), c.ipos(sd), "followed by return io.EOF only", "after this close notice Read can return something other than io.EOF ("+strings.Join(bad, ", ")+"): the loop forgets an association whose handler is still reading - the client's next datagram starts a second connection and the first handler never sees it")
			}
		}
	}
	if n == 0 {
		r.bad(rule, anchor, "notices", c.pos(fn.Pos()), "undecided: no close notice sent by Read found")
	}
}

// c11EveryPeerProbed: active checks mark a peer down while it refuses connections - every peer, whatever its state.
// The probe of a peer is started under no condition on that peer's counters or flags (a peer that still carries
// old connections can have stopped accepting new ones).
func c11EveryPeerProbed(c *Ctx, r *Report, rule string) {
	r.rule(rule, "active health checker: the probe of a peer is started under no condition that reads the peer's own state (connection count, failures, health flag)", 1)
	fn := c.Fn("modules/l4proxy.(*Handler).doActiveHealthCheckForAllHosts")
	if fn == nil {
		r.bad(rule, "modules/l4proxy.(*Handler).doActiveHealthCheckForAllHosts", "exists", "-", "function not found")
		return
	}
	probe := c.Fn("modules/l4proxy.(*Handler).doActiveHealthCheck")
	n := 0
	var scan func(g *ssa.Function)
	scanned := map[*ssa.Function]bool{}
	scan = func(g *ssa.Function) {
		if scanned[g] {
			return
		}
		scanned[g] = true
		for _, a := range g.AnonFuncs {
			scan(a)
		}
		for _, b := range g.Blocks {
			for _, in := range b.Instrs {
				ci, ok := in.(ssa.CallInstruction)
				if !ok {
					continue
				}
				cal := ci.Common().StaticCallee()
				if cal == nil {
					if mc, isMC := ci.Common().Value.(*ssa.MakeClosure); isMC {
						cal, _ = mc.Fn.(*ssa.Function)
					}
				}
				if cal == nil {
					continue
				}
				if cal != probe && !(cal.Pkg == fn.Pkg && c.reachSync(cal)[probe]) {
					continue
				}
				if cal != probe && cal.Parent() == nil {
					scan(cal) // a helper that runs the probes: its own conditions are judged as well
				}
				n++
				var onPeer []string
				for _, cd := range edgeConds(b) {
					var walk func(v ssa.Value, d int)
					walk = func(v ssa.Value, d int) {
						if d > 4 || v == nil {
							return
						}
						switch x := v.(type) {
						case *ssa.BinOp:
							walk(x.X, d+1)
							walk(x.Y, d+1)
						case *ssa.UnOp:
							if _, sn, f, ok := fieldAddr(x.X); ok && sn == "modules/l4proxy.peer" {
								onPeer = append(onPeer, "peer."+f)
							}
							walk(x.X, d+1)
						case *ssa.Call:
							if g2 := x.Call.StaticCallee(); g2 != nil && g2.Signature.Recv() != nil && strings.HasSuffix(typeStr(g2.Signature.Recv().Type()), "l4proxy.peer") {
								onPeer = append(onPeer, g2.Name()+"()")
							}
							if strings.HasPrefix(calleeID(x), "sync/atomic.") && len(x.Call.Args) > 0 {
								if _, sn, f, ok := fieldAddr(x.Call.Args[0]); ok && sn == "modules/l4proxy.peer" {
									onPeer = append(onPeer, "peer."+f)
								}
							}
						case *ssa.Convert:
							walk(x.X, d+1)
						}
					}
					walk(cd.V, 0)
				}
				if cal == probe && len(ci.Common().Args) >= 2 {
					// the peer probed is an element of an upstream's own list of peers, not of a list put together here
					// (a list from which entries were left out leaves peers unprobed, healthy for ever)
					var fromPeers func(v ssa.Value, depth int) (bool, string)
					fromPeers = func(v ssa.Value, depth int) (bool, string) {
						ok, why := false, ""
						for _, o := range origins(v, sliceOpts{}) {
							switch {
							case o.Kind == "field" && strings.HasSuffix(o.Desc, "Upstream.peers"):
								ok = true
							case o.Kind == "call" && o.Desc == "builtin append":
								why = "a list built with append"
							case o.Kind == "param" && depth < 3:
								pr := o.V.(*ssa.Parameter)
								var argLists [][]ssa.Value
								if par := pr.Parent().Parent(); par != nil {
									// a closure called or started where it is made: the arguments of that call
									for _, pb := range par.Blocks {
										for _, pin := range pb.Instrs {
											if pci, isCI := pin.(ssa.CallInstruction); isCI {
												if mc, isMC := pci.Common().Value.(*ssa.MakeClosure); isMC && mc.Fn == ssa.Value(pr.Parent()) {
													argLists = append(argLists, pci.Common().Args)
												}
											}
										}
									}
								} else if sites, escapes := c.callSitesOf(pr.Parent()); !escapes {
									for _, cs := range sites {
										argLists = append(argLists, cs.Common().Args)
									}
								}
								for _, al := range argLists {
									for i, gp := range pr.Parent().Params {
										if gp == pr && i < len(al) {
											if k, w := fromPeers(al[i], depth+1); k {
												ok = true
											} else if w != "" {
												why = w
											}
										}
									}
								}
							}
						}
						return ok && why == "", why
					}
					good, why := fromPeers(ci.Common().Args[1], 0)
					if !good && why != "" {
						r.bad(rule, fname(fn), fmt.Sprintf("probe#%d list", n), c.ipos(ci), "the peers probed are taken from "+why+", not from the upstream's own list: a peer left out of it (a duplicate by some key, say) is never checked, keeps its health flag, and stays in rotation while its backend is down")
					}
				}
				r.check(len(onPeer) == 0, rule, fname(fn), fmt.Sprintf("probe#%d", n), c.ipos(ci), "every peer is probed", "the probe of a peer is started only under a condition on "+strings.Join(dedup(onPeer), ", ")+": a peer in that state is not checked, keeps its health flag, and stays in rotation while it refuses new connections")
			}
		}
	}
	scan(fn)
	if n == 0 {
		r.bad(rule, fname(fn), "probes", c.pos(fn.Pos()), "undecided: no start of a probe found")
	}
}

// c16ConstructorsFresh: caddy builds every module instance with the New function of its ModuleInfo and then decodes
// the instance's JSON into it. encoding/json decodes a list into the storage the field already has (it truncates and
// appends), and a map into the map that is there: a constructor that hands out a package-level list, map or object
// makes every instance decode into the same storage - one handler's configuration becomes the default of the next.
func c16ConstructorsFresh(c *Ctx, r *Report, rule string, only string) {
	floor := 30
	if only != "" {
		floor = 1
	}
	r.rule(rule, "module constructors (the New function of every CaddyModule): the instance returned is freshly allocated and none of its fields of reference type (slice, map, pointer, channel, function, interface) is set from a package-level variable - instances share no storage that the JSON decoder or Provision writes", floor)
	n := 0
	for _, fn := range c.Funcs {
		if fn.Name() != "CaddyModule" || fn.Signature.Recv() == nil || fn.Pkg == nil || len(fn.Blocks) == 0 {
			continue
		}
		if only != "" && !strings.Contains(fname(fn), only) {
			continue
		}
		// the function stored into the New field of the result
		var ctors []*ssa.Function
		for _, b := range fn.Blocks {
			for _, in := range b.Instrs {
				st, ok := in.(*ssa.Store)
				if !ok {
					continue
				}
				if _, sn, f, ok := fieldAddr(st.Addr); !ok || !strings.HasSuffix(sn, ".ModuleInfo") || f != "New" {
					continue
				}
				switch v := st.Val.(type) {
				case *ssa.Function:
					ctors = append(ctors, v)
				case *ssa.MakeClosure:
					if f, ok := v.Fn.(*ssa.Function); ok {
						ctors = append(ctors, f)
					}
				}
			}
		}
		for _, ctor := range ctors {
			n++
			var bad []string
			for g := range c.reachSync(ctor) {
				if g.Pkg != fn.Pkg {
					continue
				}
				for _, b := range g.Blocks {
					for _, in := range b.Instrs {
						st, ok := in.(*ssa.Store)
						if !ok {
							continue
						}
						_, sn, f, ok := fieldAddr(st.Addr)
						if !ok {
							continue
						}
						switch st.Val.Type().Underlying().(type) {
						case *types.Slice, *types.Map, *types.Pointer, *types.Chan, *types.Signature, *types.Interface:
						default:
							continue
						}
						for _, o := range origins(st.Val, sliceOpts{}) {
							if o.Kind == "global" {
								bad = append(bad, fmt.Sprintf("%s.%s is set from the package-level variable %s", sn, f, o.Desc))
							}
						}
					}
				}
				for _, ret := range returnsOf(g) {
					if g != ctor {
						continue
					}
					for _, res := range ret.Results {
						for _, o := range origins(res, sliceOpts{}) {
							if o.Kind == "global" {
								bad = append(bad, "the instance returned is the package-level variable "+o.Desc)
							}
						}
					}
				}
			}
			r.check(len(bad) == 0, rule, fname(fn), "New", c.pos(ctor.Pos()), "a fresh instance sharing nothing", strings.Join(dedup(bad), "; ")+": caddy decodes each instance's JSON into the value New returns, and a list is decoded into the storage the field already has - the configuration of one instance overwrites the default that the next instance starts from (and the instances race on it)")
		}
	}
	if n < floor {
		r.bad(rule, "modules", "constructors", "-", fmt.Sprintf("only %d module constructors found", n))
	}
}

// c14KeyDirection: which quarter of an OpenVPN static key signs a control message is fixed by the key direction
// (openvpn crypto.c, key_direction_state_init: bidirectional - both ends use key 0; normal - the server sends with
// key 0 and receives with key 1; inverse - the other way round; a key is 64 cipher bytes followed by 64 HMAC bytes, so
// the HMAC bytes of key k are the quarter 2k+1 and its cipher bytes the quarter 2k). The matcher is the server's end:
// a client's message is checked with the key the server receives with.
func c14KeyDirection(c *Ctx, r *Report, rule string) {
	r.rule(rule, "openvpn static key (evaluation of the StaticKey accessors for every key direction): the client's HMAC bytes are the quarter 3 of the key in the normal direction and the quarter 1 in the inverse and the bidirectional one, the server's the quarter 1 except in the inverse direction (3); the client encrypts with the quarter 2 (inverse: 0) and decrypts with the quarter 0 (inverse: 2)", 14)
	type want struct {
		fn            string
		inverse, bidi bool
		quarter       int64
	}
	var table []want
	for _, d := range []struct {
		inv, bidi    bool
		cAuth, sAuth int64
		cEnc, cDec   int64
		checkCrypt   bool
	}{
		{false, false, 3, 1, 2, 0, true},
		{true, false, 1, 3, 0, 2, true},
		{false, true, 1, 1, 2, 0, false},
		{true, true, 1, 1, 0, 2, false},
	} {
		table = append(table, want{"GetClientAuthBytes", d.inv, d.bidi, d.cAuth}, want{"GetServerAuthBytes", d.inv, d.bidi, d.sAuth})
		if d.checkCrypt {
			table = append(table, want{"GetClientEncryptBytes", d.inv, d.bidi, d.cEnc}, want{"GetClientDecryptBytes", d.inv, d.bidi, d.cDec},
				want{"GetServerEncryptBytes", d.inv, d.bidi, d.cDec}, want{"GetServerDecryptBytes", d.inv, d.bidi, d.cEnc})
		}
	}
	for _, w := range table {
		fnName := "modules/l4openvpn.(*StaticKey)." + w.fn
		fn := c.Fn(fnName)
		key := fmt.Sprintf("inverse=%v bidi=%v", w.inverse, w.bidi)
		if fn == nil {
			r.bad(rule, fnName, key, "-", "function not found")
			continue
		}
		sc := &Scenario{Name: key, MaxVisit: 8, MaxPaths: 200,
			Params: map[string]SV{"recv": symRef("sk", false)},
			Heap:   map[string]SV{"sk.Inverse": symBool(w.inverse), "sk.Bidi": symBool(w.bidi), "sk.KeyBytes": symSlice("key", 256)},
			Inline: func(f *ssa.Function) bool { return f.Pkg == fn.Pkg && len(f.Blocks) > 0 },
		}
		paths, err := evalPaths(fn, sc)
		if err != nil || len(paths) != 1 || paths[0].Outcome != "return" || len(paths[0].Ret) != 1 {
			r.bad(rule, fnName, key, c.pos(fn.Pos()), fmt.Sprintf("undecided (%d paths, %v)", len(paths), err))
			continue
		}
		got := paths[0].Ret[0]
		base, lo := sliceBase(got.Desc)
		ln := int64(-1)
		if got.Len != nil && got.Len.Known {
			ln = got.Len.N
		}
		r.check(base == "key" && lo == 64*w.quarter && ln == 64, rule, fnName, key, c.pos(fn.Pos()), fmt.Sprintf("key[%d:%d]", 64*w.quarter, 64*w.quarter+64),
			fmt.Sprintf("returns %s (length %d), the key direction says key[%d:%d]: control messages of genuine peers fail the HMAC check (and those made with the other half pass it) - the matcher's verdict for tls-auth/tls-crypt clients is wrong in this direction", got.Desc, ln, 64*w.quarter, 64*w.quarter+64))
	}
}

// c15OptionalModuleLoaded: a field that holds one optional module as raw JSON (json.RawMessage) is empty when the
// configuration does not name a module. caddy's LoadModule on an empty message fails ("unexpected end of JSON
// input"), so a Provision that loads such a field does so only where it has found the field non-empty - otherwise
// every configuration that leaves the module out (and relies on the documented default) fails to provision.
func c15OptionalModuleLoaded(c *Ctx, r *Report, rule string) {
	r.rule(rule, "Provision: ctx.LoadModule on a field that holds a single optional module (json.RawMessage) is called only under a test that the field is not nil/empty - a configuration that leaves the module out provisions with the default", 1)
	n := 0
	for _, fn := range c.Funcs {
		if fn.Pkg == nil || len(fn.Blocks) == 0 {
			continue
		}
		for _, ci := range callsIn(fn) {
			if !strings.HasSuffix(calleeID(ci), "caddy/v2.Context).LoadModule") || len(ci.Common().Args) < 3 {
				continue
			}
			fieldName, ok := constString(ci.Common().Args[2])
			if !ok {
				continue
			}
			obj := ci.Common().Args[1]
			if mi, isMI := obj.(*ssa.MakeInterface); isMI {
				obj = mi.X
			}
			st, isStruct := deref(obj.Type()).Underlying().(*types.Struct)
			if !isStruct {
				continue
			}
			isRaw := false
			for i := 0; i < st.NumFields(); i++ {
				if st.Field(i).Name() == fieldName && typeStr(st.Field(i).Type()) == "encoding/json.RawMessage" {
					isRaw = true
				}
			}
			if !isRaw {
				continue // a list or map of modules: an empty one loads as an empty one
			}
			n++
			guarded := false
			for _, cd := range edgeConds(ci.Block()) {
				v, isNeq, isNil := nilCheck(cd.V)
				if isNil {
					if ld, isLd := v.(*ssa.UnOp); isLd && ld.Op == token.MUL {
						if _, _, f, okf := fieldAddr(ld.X); okf && f == fieldName && cd.Truth == isNeq {
							guarded = true
						}
					}
					continue
				}
				// len(x.FieldRaw) > 0 / != 0
				if bo, isBO := cd.V.(*ssa.BinOp); isBO {
					for _, side := range []ssa.Value{bo.X, bo.Y} {
						if call, isCall := side.(*ssa.Call); isCall && calleeID(call) == "builtin len" {
							if ld, isLd := call.Call.Args[0].(*ssa.UnOp); isLd && ld.Op == token.MUL {
								if _, _, f, okf := fieldAddr(ld.X); okf && f == fieldName {
									if (cd.Truth && (bo.Op == token.GTR || bo.Op == token.NEQ || bo.Op == token.LSS)) || (!cd.Truth && (bo.Op == token.EQL || bo.Op == token.LEQ || bo.Op == token.GEQ)) {
										guarded = true
									}
								}
							}
						}
					}
				}
			}
			r.check(guarded, rule, fname(fn), "LoadModule "+fieldName, c.ipos(ci), "only where the field is set", "LoadModule(…, \""+fieldName+"\") is called without a test that the field is set: for a configuration that names no module there (the Caddyfile without the option, the default documented) caddy fails with 'unexpected end of JSON input' and the configuration does not provision")
		}
	}
	if n == 0 {
		r.bad(rule, "modules", "LoadModule of a single module", "-", "no such call found")
	}
}

// c15NumbersDecimal: a number written in a Caddyfile denotes what the same digits denote in JSON - a decimal
// number. A parser that reads it with base 0 (Go literal syntax) takes a zero-padded decimal for octal: the adapted
// JSON states another value than the Caddyfile.
func c15NumbersDecimal(c *Ctx, r *Report, rule string) {
	r.rule(rule, "Caddyfile parsers: every number is read as a decimal number (strconv.ParseInt/ParseUint and big.Int.SetString with base 10) - what the adapted JSON states is the number the Caddyfile states", 10)
	n := 0
	for _, fn := range c.Funcs {
		if fn.Pkg == nil || len(fn.Blocks) == 0 {
			continue
		}
		inParser := false
		for f := fn; f != nil; f = f.Parent() {
			if strings.HasPrefix(f.Name(), "UnmarshalCaddyfile") || strings.HasPrefix(f.Name(), "unmarshalCaddyfile") {
				inParser = true
			}
		}
		if !inParser {
			continue
		}
		for _, ci := range callsIn(fn) {
			id := calleeID(ci)
			baseArg := -1
			switch id {
			case "strconv.ParseInt", "strconv.ParseUint":
				baseArg = 1
			case "(*math/big.Int).SetString":
				baseArg = 2
			}
			if baseArg < 0 || baseArg >= len(ci.Common().Args) {
				continue
			}
			n++
			b, isK := constInt(ci.Common().Args[baseArg])
			r.check(isK && b == 10, rule, fname(fn), fmt.Sprintf("%s#%d base", id, n), c.ipos(ci), "base 10", fmt.Sprintf("the number is read with base %d (constant: %v), not as a decimal number: with base 0 a zero-padded value such as 0100 is taken for octal (64) and 08 is refused - the adapted JSON states another number than the Caddyfile", b, isK))
		}
	}
	if n == 0 {
		r.bad(rule, "Caddyfile parsers", "numbers", "-", "no number parsed in a Caddyfile parser found")
	}
}

// c14SingleAddressPrefix: a range given as a single address stands for that address alone - a prefix of all its bits
// (32 for IPv4, 128 for IPv6). Where the module builds such a prefix itself, the length is the address's own BitLen().
func c14SingleAddressPrefix(c *Ctx, r *Report, rule string) {
	r.rule(rule, "IP ranges: wherever the module turns an address into a prefix itself (netip.PrefixFrom), the prefix length is that address's BitLen() - a single IPv6 address is a /128, not a /32 (ranges parsed by caddyhttp.CIDRExpressionToPrefix or netip.ParsePrefix are the library's)", 0)
	n := 0
	for _, fn := range c.Funcs {
		if fn.Pkg == nil || len(fn.Blocks) == 0 || !strings.HasPrefix(fn.Pkg.Pkg.Path(), modPath) {
			continue
		}
		for _, ci := range callsIn(fn) {
			if calleeID(ci) != "net/netip.PrefixFrom" || len(ci.Common().Args) != 2 {
				continue
			}
			n++
			ok := false
			for _, o := range origins(ci.Common().Args[1], sliceOpts{}) {
				if o.Kind == "call" && strings.HasSuffix(o.Desc, "netip.Addr).BitLen") {
					ok = true
				}
			}
			r.check(ok, rule, fname(fn), fmt.Sprintf("netip.PrefixFrom#%d", n), c.ipos(ci), "length = BitLen() of the address", "the prefix built from a single address does not take its length from the address's BitLen(): a bare IPv6 address becomes a /32 (or an IPv4 one something else than /32) and the range matches peers it does not name")
		}
	}
	r.ok(rule, "module", "prefixes built by the module", "-", fmt.Sprintf("%d netip.PrefixFrom call(s)", n))
}

// c17ProxyReadsThroughWrappers: the proxy pumps the client's bytes through the connection it was given - whatever
// handlers before it wrapped around the socket (the throttle's limiter, a TLS terminator, the PROXY header reader)
// sees every byte. The unwrapped connection below is there for half-closing only.
func c17ProxyReadsThroughWrappers(c *Ctx, r *Report, rule string) {
	r.rule(rule, "proxy pump: no copy or read in Handler.proxy takes its bytes from the connection below the wrappers (Connection.Conn, what halfCloser/NetConn() unwrap): the client is read through the connection handed to the handler", 1)
	fn := c.Fn("modules/l4proxy.(*Handler).proxy")
	if fn == nil {
		r.bad(rule, "modules/l4proxy.(*Handler).proxy", "exists", "-", "function not found")
		return
	}
	n := 0
	var scan func(g *ssa.Function)
	scanned := map[*ssa.Function]bool{}
	scan = func(g *ssa.Function) {
		if scanned[g] || len(scanned) > 40 {
			return
		}
		scanned[g] = true
		for _, a := range g.AnonFuncs {
			scan(a)
		}
		for _, ci := range callsIn(g) {
			// the pumps as functions or methods of the package (called, or started with go)
			if h := ci.Common().StaticCallee(); h != nil && h.Pkg == fn.Pkg && len(h.Blocks) > 0 && h.Name() != "halfCloser" {
				scan(h)
			}
			id := calleeID(ci)
			src := -1
			switch {
			case id == "io.Copy" || id == "io.CopyBuffer" || id == "io.CopyN":
				src = 1
			case id == "io.ReadFull" || id == "io.ReadAll" || id == "io.ReadAtLeast":
				src = 0
			case isInvoke(ci, "Read") || isInvoke(ci, "WriteTo"):
				src = -2
			}
			var v ssa.Value
			if src >= 0 && src < len(ci.Common().Args) {
				v = ci.Common().Args[src]
			} else if src == -2 {
				v = ci.Common().Value
			}
			if v == nil {
				continue
			}
			n++
			var below []string
			for _, o := range origins(v, sliceOpts{throughCalls: true}) {
				if o.Kind == "field" && strings.HasSuffix(o.Desc, "layer4.Connection.Conn") {
					below = append(below, "Connection.Conn")
				}
				if o.Kind == "call" && (strings.HasSuffix(o.Desc, ".NetConn") || strings.HasSuffix(o.Desc, "l4proxy.halfCloser")) {
					below = append(below, shortCallee(o.Desc))
				}
			}
			r.check(len(below) == 0, rule, fname(fn), fmt.Sprintf("%s#%d source", id, n), c.ipos(ci), "reads through the connection it was given", "the pump reads from the connection below the wrappers ("+strings.Join(dedup(below), ", ")+"): bytes taken there pass no limiter of a throttle handler in front of the proxy (and no TLS terminator, no PROXY header reader) - the read rate is unbounded")
		}
	}
	scan(fn)
	if n == 0 {
		r.bad(rule, fname(fn), "copies", c.pos(fn.Pos()), "undecided: no copy or read found in the pump")
	}
}
