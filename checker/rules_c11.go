package main

import (
	"fmt"
	"go/token"
	"sort"
	"strings"

	"golang.org/x/tools/go/ssa"
)

func init() {
	register(&property{
		ID:          "C11",
		Explanation: "Static decision of the accounting mechanisms of the proxy: (R1) countFailure: the only countFail arguments in the module are +1 and -1; after the +1 a goroutine is started on whose every path (sleep of the configured fail duration, then) countFail(-1) on the same peer is reached before it ends; (R2/R3) proxy Handle, path-evaluated over every outcome of selection, dialing and tryAgain: a new attempt happens only after tryAgain returned true, giving up returns the last error, and on success every peer of the selected upstream is counted +1, the deferred cleanup closes every upstream connection and counts every peer -1, and proxy() runs in between on exactly the dialed connections; (R4) the active checker marks a peer unhealthy only on the dial-error edge and healthy only after a successful dial; (R5) Upstream.healthy/full/available, path-evaluated over all peer states, equal their definitions (every peer consulted); (R6) the counters peer.fails/numConns/unhealthy are written only by the atomic add / compare-and-swap inside countFail/countConn/setHealthy. Added: (R7) tryAgain, path-evaluated: gives up iff time.Since(start) >= try_duration (nothing added), otherwise waits on timer(try_interval) | ctx.Done; (R8) no option that Handler.Provision defaults after provisioning the upstreams is read while they are provisioned.",
		NotDecided:  "The timing of the failure window (sleep-based), the exact history statement 'out of rotation iff >= max_fails failures remembered', check-then-act races between available() and countConn under concurrency.",
		Run:         runC11,
	})
}

func runC11(c *Ctx, r *Report) {
	c11R1(c, r, "C11.R1")
	c11Handle(c, r, "C11.R2")
	c11R4(c, r, "C11.R4")
	c11R5(c, r, "C11.R5")
	c11R6(c, r, "C11.R6")
	c11TryAgain(c, r, "C11.R7")
	c11Defaults(c, r, "C11.R8")
	c11CountFailure(c, r, "C11.R10")
	c11ActiveAddress(c, r, "C11.R11")
	c11Provision(c, r, "C11.R12")
	c11PeerKey(c, r, "C11.R13")
	c03Dial(c, r, "C11.R15", false) // every failed dial is remembered on the peer that failed: plain and TLS upstreams, dial and header-write failures (evaluation of dialPeers over all outcomes)
	c11PeersFrozen(c, r, "C11.R16")
	c11AdmissionBeforeDial(c, r, "C11.R17")
	c11ActiveCheckerStarts(c, r, "C11.R18")
	c11CleanupPairs(c, r, "C11.R19")
	c10PoliciesAs(c, r, "C11.R20", "C11.R21", "C11.R22") // a connection is retried "against available upstreams": the policy that picks them returns one whenever one is available
	c11EveryPeerProbed(c, r, "C11.R23")
	c15R6(c, r, "C11.R14") // the health checks in effect are the configured ones: a Caddyfile option never replaces a health-check object an earlier option has filled in
	// an upstream at its connection limit is not given another connection: every policy returns only upstreams
	// for which available() (health AND limits) holds - the policy tables of C10 with full pool states
	tmp := newReport("tmp")
	c10Policies(c, tmp)
	r.rule("C11.R9", "every selection policy returns only upstreams that are available (healthy and below their connection limits), evaluated over full pool states (C10.R1)", 6)
	for _, o := range tmp.Obls {
		if o.Rule == "C10.R1" {
			parts := strings.SplitN(o.Key, "|", 3)
			if o.OK {
				r.ok("C11.R9", parts[1], parts[2], o.Pos, o.Detail)
			} else {
				r.bad("C11.R9", parts[1], parts[2], o.Pos, o.Detail)
			}
		}
	}
}

func c11R1(c *Ctx, r *Report, rule string) {
	r.rule(rule, "failure pairing: countFail is called only with the constants +1/-1; in countFailure the +1 is followed by a goroutine in which every path to its end passes countFail(-1) on the same peer after sleeping the fail duration", 4)
	id := "modules/l4proxy.(*peer).countFail"
	n := 0
	var plus, minus []ssa.CallInstruction
	for _, fn := range c.Funcs {
		for _, ci := range callsIn(fn) {
			if calleeID(ci) != id {
				continue
			}
			n++
			v, ok := constInt(ci.Common().Args[1])
			r.check(ok && (v == 1 || v == -1), rule, fname(fn), fmt.Sprintf("countFail arg#%d", n), c.ipos(ci), fmt.Sprintf("constant %d", v), "countFail is called with something other than the constants +1/-1: remembered failures no longer pair up")
			if ok && v == 1 {
				plus = append(plus, ci)
			}
			if ok && v == -1 {
				minus = append(minus, ci)
			}
		}
	}
	r.check(len(plus) == 1 && len(minus) == 1, rule, "modules/l4proxy", "one +1 and one -1 site", "-", "exactly one remembering and one forgetting site", fmt.Sprintf("%d '+1' and %d '-1' sites of countFail", len(plus), len(minus)))
	if len(plus) != 1 || len(minus) != 1 {
		return
	}
	cf := plus[0].Parent()
	cl := minus[0].Parent()
	name := fname(cf)
	// the goroutine is started on every path after the successful +1
	var goi *ssa.Go
	for _, ci := range callsIn(cf) {
		if g, ok := ci.(*ssa.Go); ok && (closureOf(g.Call.Value) == cl || g.Call.StaticCallee() == cl) {
			goi = g
		}
	}
	if !r.check(goi != nil, rule, name, "forgetter started", c.pos(cf.Pos()), "the forgetting goroutine is started by countFailure", "the function that remembers a failure does not start the goroutine that forgets it") {
		return
	}
	// from +1: every path to return passes the go, except the error edge of the +1 itself
	errV := plus[0].(*ssa.Call)
	leak := pathAvoiding(plus[0], isReturn, func(in ssa.Instruction) bool {
		if in == ssa.Instruction(goi) {
			return true
		}
		// paths on which the +1 failed (error edge) are exempt: block known to have err != nil
		return knownNil(in.Block(), errV, false)
	})
	r.check(leak == nil, rule, name, "+1 always paired", c.ipos(plus[0]), "after a successful +1 the forgetter is always started", "a path remembers the failure (+1) and returns without starting the forgetter: the upstream never comes back")
	// same peer
	same := derivesFrom(minus[0].Common().Args[0], rootOf(plus[0].Common().Args[0])) || rootOf(minus[0].Common().Args[0]) == rootOf(plus[0].Common().Args[0])
	if !same {
		// the forgetter is a function of its own: its peer parameter is what the go statement passes
		if pp, ok := rootOf(minus[0].Common().Args[0]).(*ssa.Parameter); ok && goi.Call.StaticCallee() == cl {
			if idx := paramIndex(cl, pp); idx >= 0 && idx < len(goi.Call.Args) {
				a := goi.Call.Args[idx]
				same = rootOf(a) == rootOf(plus[0].Common().Args[0]) || derivesFrom(a, rootOf(plus[0].Common().Args[0]))
			}
		}
	}
	r.check(same, rule, fname(cl), "same peer", c.ipos(minus[0]), "-1 is applied to the peer that got the +1", "the -1 is applied to a different peer than the +1")
	// in the closure: every path from entry to return passes countFail(-1) (panic/recover block aside)
	skip := pathFromEntryAvoiding(cl, func(in ssa.Instruction) bool {
		ret, ok := in.(*ssa.Return)
		return ok && ret.Block() != cl.Recover
	}, func(in ssa.Instruction) bool { return in == ssa.Instruction(minus[0]) })
	r.check(skip == nil, rule, fname(cl), "-1 on every path", c.ipos(minus[0]), "the goroutine cannot end without forgetting the failure", "the forgetting goroutine can end without calling countFail(-1) (e.g. when a context is cancelled at reload): peers are shared across reloads, the failure is remembered forever and the upstream stays out of rotation")
	// sleep of the fail duration dominates the -1
	slept := false
	for _, ci := range callsIn(cl) {
		if calleeID(ci) == "time.Sleep" && dominates(ci, minus[0]) {
			os := origins(ci.Common().Args[0], sliceOpts{})
			_ = os
			slept = true
		}
	}
	// or a timer receive dominating
	for _, b := range cl.Blocks {
		for _, in := range b.Instrs {
			if u, ok := in.(*ssa.UnOp); ok && u.Op.String() == "<-" && dominates(u, minus[0]) {
				slept = true
			}
		}
	}
	r.check(slept, rule, fname(cl), "waits before forgetting", c.ipos(minus[0]), "the -1 happens after waiting", "the failure is forgotten without waiting for the fail duration")
}

// c11Handle path-evaluates the proxy handler's retry loop and connection accounting.
func c11Handle(c *Ctx, r *Report, rule string) {
	r.rule(rule, "proxy Handle over every outcome of Select/dialPeers/tryAgain (2 peers): re-selection only after tryAgain()==true, and tryAgain is given a reading of the clock taken before the first selection (each time.Now() is a value of its own); giving up returns the last dial error or 'no upstreams available'; on success countConn(+1) once per peer, proxy(down, dialed conns), and the deferred cleanup closes every dialed connection and calls countConn(-1) once per peer", 3)
	fnName := "modules/l4proxy.(*Handler).Handle"
	fn := c.Fn(fnName)
	if fn == nil {
		r.bad(rule, fnName, "exists", "-", "function not found")
		return
	}
	selID, dialID, tryID := "invoke modules/l4proxy.Selector.Select", "modules/l4proxy.(*Handler).dialPeers", "modules/l4proxy.(LoadBalancing).tryAgain"
	sc := &Scenario{Name: "retry", MaxVisit: 4, MaxPaths: 20000,
		Params: map[string]SV{"recv": symRef("h", false), "p0": symRef("down", false)},
		Heap:   map[string]SV{"up.peers": symSlice("up.peers", 2)},
		Inline: func(f *ssa.Function) bool {
			if f.Parent() != nil && fname(f.Parent()) == fnName {
				return true
			}
			// helpers of the package that Handle is split into (the retry loop, the deferred cleanup) are part of it;
			// what the evaluation observes as calls stays a call
			switch f.Name() {
			case "dialPeers", "tryAgain", "proxy", "countConn", "countFailure", "Select":
				return false
			}
			for q := f.Parent(); q != nil; q = q.Parent() {
				if q.Pkg == fn.Pkg && !token.IsExported(q.Name()) {
					return true
				}
			}
			return f.Pkg != nil && f.Pkg == fn.Pkg && f.Parent() == nil && !token.IsExported(f.Name())
		},
	}
	sc.Call = func(callee string, args []SV, ev *symEval, st *symState) (SV, bool) {
		switch {
		case callee == "fmt.Errorf":
			return SV{K: "ref", Known: true, Desc: "errNoUpstreams"}, true
		case callee == "modules/l4proxy.(*Handler).proxy":
			return symOpaque("relayed"), true // the relay itself is decided by C03.R1-R3
		case callee == "time.Now":
			k := 1
			for _, e := range st.trace {
				if e.Kind == "call" && e.What == "time.Now" {
					k++
				}
			}
			return symOpaque(fmt.Sprintf("now#%d", k)), true // each reading of the clock is a value of its own
		case strings.HasPrefix(callee, "invoke context.Context.Value"):
			return symOpaque(shortCallee(callee)), true
		}
		return SV{}, false
	}
	sc.Alts = func(callee string, args []SV, ev *symEval, st *symState) []CallAlt {
		k := 0
		for _, e := range st.trace {
			if e.Kind == "call" && e.What == callee {
				k++
			}
		}
		switch callee {
		case selID:
			return []CallAlt{{Ret: symNil(), Note: "none"}, {Ret: symRef("up", false), Note: "up"}}
		case dialID:
			conns := symSlice(fmt.Sprintf("conns%d", k), 2)
			conns.Known = true
			tup := func(a, b SV) SV { return SV{K: "tuple", Desc: "dial", Elems: []SV{a, b}} }
			z := symInt(0)
			nilSlice := SV{K: "slice", Known: true, Nil: true, Len: &z, Desc: "nil"}
			return []CallAlt{{Ret: tup(conns, symNil()), Note: "ok:" + conns.Desc}, {Ret: tup(nilSlice, SV{K: "ref", Known: true, Desc: fmt.Sprintf("dialErr%d", k)}), Note: fmt.Sprintf("dialErr%d", k)}}
		case tryID:
			return []CallAlt{{Ret: symBool(true), Note: "again"}, {Ret: symBool(false), Note: "giveup"}}
		}
		return nil
	}
	paths, err := evalPaths(fn, sc)
	if err != nil || len(paths) == 0 {
		r.bad(rule, fnName, "retry-loop", c.pos(fn.Pos()), fmt.Sprintf("undecided: %v", err))
		return
	}
	var retryProblems, giveupProblems, successProblems []string
	nSuccess, nGiveup := 0, 0
	for _, p := range paths {
		if p.Outcome == "cutoff" {
			continue
		}
		tr := fmtTrace(p)
		lastErr := ""
		allowed := true // the first attempt needs no tryAgain
		success := ""
		gaveUp := false
		var plus, minus, closed []string
		proxied := ""
		deferAfterPlus := false
		for _, e := range p.Trace {
			if e.Kind == "rundefer" {
				deferAfterPlus = true
			}
			if e.Kind != "call" {
				continue
			}
			switch {
			case e.What == selID:
				if !allowed {
					retryProblems = append(retryProblems, "a new selection attempt starts without tryAgain() having returned true (spinning / ignoring try_duration): "+tr)
				}
				allowed = false
				if e.Note == "none" && lastErr == "" {
					lastErr = "errNoUpstreams"
				}
			case e.What == dialID:
				if strings.HasPrefix(e.Note, "ok:") {
					success = strings.TrimPrefix(e.Note, "ok:")
				} else {
					lastErr = e.Note
				}
			case e.What == tryID:
				if e.Note == "again" {
					allowed = true
				} else {
					gaveUp = true
				}
				// try_duration runs from the connection's arrival: the start handed to tryAgain is a reading of the
				// clock taken before the first selection, not one taken again inside the retry loop
				if len(e.Args) > 0 {
					start, nowIdx, selIdx := e.Args[len(e.Args)-1], -1, -1
					nNow := 0
					for i2, e2 := range p.Trace {
						if e2.Kind != "call" {
							continue
						}
						if e2.What == "time.Now" {
							nNow++
							if fmt.Sprintf("now#%d", nNow) == start {
								nowIdx = i2
							}
						}
						if e2.What == selID && selIdx < 0 {
							selIdx = i2
						}
					}
					if nowIdx < 0 || selIdx < 0 || nowIdx > selIdx {
						retryProblems = append(retryProblems, "tryAgain is given the start time "+start+", which is not a reading of the clock taken before the first selection: try_duration then runs from the last attempt and a connection whose dials keep failing is retried forever instead of failing after try_duration")
					}
				}
			case e.What == "modules/l4proxy.(*peer).countConn":
				if e.Args[1] == "1" {
					plus = append(plus, e.Args[0])
				} else if e.Args[1] == "-1" {
					minus = append(minus, e.Args[0])
				} else {
					successProblems = append(successProblems, "countConn with argument "+e.Args[1])
				}
			case e.What == "invoke net.Conn.Close":
				closed = append(closed, e.Args[0])
			case e.What == "modules/l4proxy.(*Handler).proxy":
				proxied = e.Args[2]
				if len(minus) > 0 || len(closed) > 0 {
					successProblems = append(successProblems, "cleanup runs before proxying: "+tr)
				}
			}
		}
		_ = deferAfterPlus
		switch {
		case success != "":
			nSuccess++
			want := []string{"up.peers[0]", "up.peers[1]"}
			if strings.Join(plus, ",") != strings.Join(want, ",") {
				successProblems = append(successProblems, "open connections are not counted (+1) once on every peer of the selected upstream (got ["+strings.Join(plus, ",")+"]): max_connections / least_conn see wrong numbers")
			}
			if strings.Join(minus, ",") != strings.Join(want, ",") {
				successProblems = append(successProblems, "ended connections are not counted (-1) once on every peer (got ["+strings.Join(minus, ",")+"]): the upstream stays 'full' forever or goes negative")
			}
			if proxied != success {
				successProblems = append(successProblems, "proxy() does not run on the connections just dialed ("+proxied+" vs "+success+")")
			}
			if strings.Join(closed, ",") != success+"[0],"+success+"[1]" {
				successProblems = append(successProblems, "the deferred cleanup does not close every dialed upstream connection (closed ["+strings.Join(closed, ",")+"])")
			}
			if len(p.Ret) != 1 || !(p.Ret[0].Known && p.Ret[0].Nil) {
				successProblems = append(successProblems, "successful proxying must return nil")
			}
		case gaveUp:
			nGiveup++
			if len(p.Ret) != 1 || p.Ret[0].Desc != lastErr {
				giveupProblems = append(giveupProblems, fmt.Sprintf("giving up must return the last error (%s), returns %s: %s", lastErr, p.retDesc(), tr))
			}
			if len(plus) > 0 || proxied != "" {
				giveupProblems = append(giveupProblems, "connections counted/proxied although no upstream was dialed: "+tr)
			}
		default:
			giveupProblems = append(giveupProblems, "path ends without success or giving up: "+tr)
		}
	}
	pos := c.pos(fn.Pos())
	r.check(len(retryProblems) == 0, rule, fnName, "retry gated by tryAgain", pos, fmt.Sprintf("%d paths: every further attempt follows tryAgain()==true", len(paths)), strings.Join(dedup(retryProblems), "\n"))
	r.check(len(giveupProblems) == 0 && nGiveup > 0, rule, fnName, "give up with last error", pos, fmt.Sprintf("%d giving-up paths return the last error", nGiveup), strings.Join(dedup(giveupProblems), "\n"))
	r.check(len(successProblems) == 0 && nSuccess > 0, rule, fnName, "connection accounting and cleanup", pos, fmt.Sprintf("%d successful paths: +1/-1 per peer, proxy on the dialed conns, all closed", nSuccess), strings.Join(dedup(successProblems), "\n"))
}

func c11R4(c *Ctx, r *Report, rule string) {
	r.rule(rule, "active health check polarity: setHealthy(false) only on the edge where the dial returned an error, setHealthy(true) only where it did not; every path through the probe dials the peer and reaches a setHealthy call before it returns (no peer is skipped)", 3)
	fn := c.Fn("modules/l4proxy.(*Handler).doActiveHealthCheck")
	if fn == nil {
		r.bad(rule, "modules/l4proxy.(*Handler).doActiveHealthCheck", "exists", "-", "function not found")
		return
	}
	var dialErr ssa.Value
	for _, ci := range callsIn(fn) {
		if id := calleeID(ci); id == "net.DialTimeout" || id == "net.Dial" {
			if call, ok := ci.(*ssa.Call); ok {
				dialErr = extractOf(call, 1)
			}
		}
	}
	n := 0
	for _, ci := range callsIn(fn) {
		if calleeID(ci) != "modules/l4proxy.(*peer).setHealthy" {
			continue
		}
		n++
		v, ok := constBool(ci.Common().Args[1])
		good := ok && dialErr != nil && ((v && knownNil(ci.Block(), dialErr, true)) || (!v && knownNil(ci.Block(), dialErr, false)))
		r.check(good, rule, fname(fn), fmt.Sprintf("setHealthy(%v)", v), c.ipos(ci), "polarity follows the dial result", "setHealthy is not called with the constant matching the dial outcome on its edge: a peer that refuses connections is marked up (or the reverse)")
	}
	// every probe ends with a verdict: no return is reachable without passing the dial and a setHealthy call, whatever
	// the peer's network or address (a peer that is skipped keeps the status it had and is never marked down or up again)
	isVerdict := func(in ssa.Instruction) bool {
		ci, ok := in.(ssa.CallInstruction)
		return ok && calleeID(ci) == "modules/l4proxy.(*peer).setHealthy"
	}
	isDial := func(in ssa.Instruction) bool {
		ci, ok := in.(ssa.CallInstruction)
		return ok && (calleeID(ci) == "net.DialTimeout" || calleeID(ci) == "net.Dial" || strings.HasSuffix(calleeID(ci), "Dialer).Dial") || strings.HasSuffix(calleeID(ci), "Dialer).DialContext"))
	}
	reportsError := func(in ssa.Instruction) bool { // a return of a freshly made error tells the caller that the check did not occur
		ret, ok := in.(*ssa.Return)
		if !ok || len(ret.Results) == 0 {
			return false
		}
		call, ok := ret.Results[len(ret.Results)-1].(*ssa.Call)
		return ok && (calleeID(call) == "fmt.Errorf" || calleeID(call) == "errors.New")
	}
	plainReturn := func(in ssa.Instruction) bool { return isReturn(in) && !reportsError(in) }
	skipV := pathFromEntryAvoiding(fn, plainReturn, isVerdict)
	skipD := pathFromEntryAvoiding(fn, plainReturn, isDial)
	bad := ""
	if skipV != nil {
		bad = "the return at " + c.ipos(skipV) + " is reachable without any setHealthy call"
	} else if skipD != nil {
		bad = "the return at " + c.ipos(skipD) + " is reachable without dialing the peer"
	}
	r.check(bad == "", rule, fname(fn), "every probe dials and ends with a verdict", c.pos(fn.Pos()), "no return without a dial and a setHealthy call before it",
		bad+": such a peer keeps whatever status it had - it is not marked down while it refuses connections (or never comes back up)")
}

func c11R5(c *Ctx, r *Report, rule string) {
	r.rule(rule, "Upstream.healthy/full/available path-evaluated for 2 peers over all peer states: healthy = every peer healthy and (no passive policy or max_fails<=0 or every peer's fails < max_fails); full = max_connections>0 and some peer has >= max_connections; available = healthy and not full", 3)
	type peerSt struct {
		healthy bool
		fails   int64
		conns   int64
	}
	states := []peerSt{{true, 0, 0}, {false, 0, 0}, {true, 2, 0}, {true, 0, 2}, {true, 1, 1}}
	for _, target := range []string{"healthy", "full", "available"} {
		fnName := "modules/l4proxy.(*Upstream)." + target
		fn := c.Fn(fnName)
		if fn == nil {
			r.bad(rule, fnName, "exists", "-", "function not found")
			continue
		}
		var problems []string
		cases := 0
		for _, policy := range []int64{-1, 0, 1, 2} { // -1: no passive policy
			for _, maxConns := range []int64{0, 1, 2} {
				for _, s0 := range states {
					for _, s1 := range states {
						ps := []peerSt{s0, s1}
						sc := &Scenario{Name: "x", Params: map[string]SV{"recv": symRef("u", false)},
							Heap: map[string]SV{"u.peers": symSlice("u.peers", 2), "u.MaxConnections": symInt(maxConns)},
							Inline: func(f *ssa.Function) bool {
								n := fname(f)
								return strings.HasPrefix(n, "modules/l4proxy.(*Upstream).") || strings.HasPrefix(n, "modules/l4proxy.(*peer).")
							},
						}
						if policy < 0 {
							sc.Heap["u.healthCheckPolicy"] = symNil()
						} else {
							sc.Heap["u.healthCheckPolicy"] = symRef("pol", false)
							sc.Heap["pol.MaxFails"] = symInt(policy)
						}
						for i, p := range ps {
							un := int64(1)
							if p.healthy {
								un = 0
							}
							sc.Heap[fmt.Sprintf("u.peers[%d]", i)] = symRef(fmt.Sprintf("peer%d", i), false)
							sc.Heap[fmt.Sprintf("peer%d.unhealthy", i)] = symInt(un)
							sc.Heap[fmt.Sprintf("peer%d.fails", i)] = symInt(p.fails)
							sc.Heap[fmt.Sprintf("peer%d.numConns", i)] = symInt(p.conns)
						}
						sc.Call = func(callee string, args []SV, ev *symEval, st *symState) (SV, bool) {
							if callee == "sync/atomic.LoadInt32" && len(args) == 1 {
								if v, ok := st.heap[args[0].Desc]; ok {
									return v, true
								}
							}
							return SV{}, false
						}
						paths, err := evalPaths(fn, sc)
						cases++
						if err != nil || len(paths) != 1 || len(paths[0].Ret) != 1 || !paths[0].Ret[0].Known {
							problems = append(problems, fmt.Sprintf("undecided for policy=%d maxConns=%d peers=%v (%v, %d paths)", policy, maxConns, ps, err, len(paths)))
							continue
						}
						got := paths[0].Ret[0].B
						healthy := s0.healthy && s1.healthy && (policy <= 0 || (s0.fails < policy && s1.fails < policy))
						full := maxConns > 0 && (s0.conns >= maxConns || s1.conns >= maxConns)
						want := map[string]bool{"healthy": healthy, "full": full, "available": healthy && !full}[target]
						if got != want {
							problems = append(problems, fmt.Sprintf("%s = %v but its definition gives %v for max_fails=%d max_connections=%d peers(healthy,fails,conns)=%v", target, got, want, policy, maxConns, ps))
						}
					}
				}
			}
		}
		if len(problems) > 6 {
			problems = append(problems[:6], fmt.Sprintf("... and %d more", len(problems)-6))
		}
		r.check(len(problems) == 0, rule, fnName, "truth table", c.pos(fn.Pos()), fmt.Sprintf("%d peer-state combinations agree with the definition", cases), strings.Join(problems, "\n"))
	}
}

func c11R6(c *Ctx, r *Report, rule string) {
	r.rule(rule, "who may write the counters: peer.fails and peer.numConns only through atomic.AddInt32 in countFail/countConn, peer.unhealthy only through atomic.CompareAndSwapInt32 in setHealthy (loads are free)", 3)
	want := map[string][2]string{
		"fails":     {"modules/l4proxy.(*peer).countFail", "sync/atomic.AddInt32"},
		"numConns":  {"modules/l4proxy.(*peer).countConn", "sync/atomic.AddInt32"},
		"unhealthy": {"modules/l4proxy.(*peer).setHealthy", "sync/atomic.CompareAndSwapInt32"},
	}
	found := map[string]int{}
	for _, fn := range c.Funcs {
		for _, b := range fn.Blocks {
			for _, in := range b.Instrs {
				fa, ok := in.(*ssa.FieldAddr)
				if !ok {
					continue
				}
				_, sn, f, _ := fieldAddr(fa)
				w, tracked := want[f]
				if sn != "modules/l4proxy.peer" || !tracked {
					continue
				}
				for _, ref := range *fa.Referrers() {
					switch x := ref.(type) {
					case *ssa.Store:
						if al, ok := fa.X.(*ssa.Alloc); ok && strings.Contains(al.Comment, "complit") {
							continue
						}
						r.bad(rule, fname(fn), "plain store peer."+f, c.ipos(x), "the counter is overwritten with a plain store")
					case ssa.CallInstruction:
						id := calleeID(x)
						if ops := atomicOpsAt(c, x, fa); len(ops) > 0 && !strings.HasPrefix(id, "sync/atomic.") {
							// a helper of the package that performs nothing but these atomic operations on the counter
							id = strings.Join(ops, "+")
						}
						if strings.HasPrefix(id, "sync/atomic.Load") {
							continue
						}
						found[f]++
						r.check(fname(fn) == w[0] && id == w[1], rule, fname(fn), id+"(&peer."+f+")", c.ipos(x), "the counter's single writer", "peer."+f+" is modified by "+id+" in "+fname(fn)+" (allowed: "+w[1]+" in "+w[0]+"): the +1/-1 pairing no longer holds (count goes negative or an upstream returns to rotation inside its failure window)")
					}
				}
			}
		}
	}
	for f := range want {
		if found[f] == 0 {
			r.bad(rule, "modules/l4proxy.peer", "writer of "+f, "-", "no atomic writer of peer."+f+" found")
		}
	}
}

// c11TryAgain: path evaluation of the retry pacing. Giving up is decided by comparing exactly the time elapsed
// since the first attempt with try_duration; otherwise the wait is try_interval (or cancellation).
func c11TryAgain(c *Ctx, r *Report, rule string) {
	r.rule(rule, "tryAgain (path evaluation): it gives up without waiting iff time.Since(start) >= try_duration - the elapsed time alone, nothing added - otherwise it waits on a timer of try_interval and answers true when it fires, false when the context is cancelled first", 3)
	fnName := "modules/l4proxy.(LoadBalancing).tryAgain"
	fn := c.Fn(fnName)
	if fn == nil {
		r.bad(rule, fnName, "exists", "-", "function not found")
		return
	}
	sc := &Scenario{Name: "pacing", MaxVisit: 3,
		ByType: map[string]SV{"caddy/v2.Context": symRef("ctx", false), "time.Time": {K: "struct", Desc: "start"}},
		Heap:   map[string]SV{"recv.TryDuration": {K: "int", Desc: "lb.TryDuration"}, "recv.TryInterval": {K: "int", Desc: "lb.TryInterval"}},
	}
	sc.Call = func(callee string, args []SV, ev *symEval, st *symState) (SV, bool) {
		switch {
		case callee == "time.Since":
			return SV{K: "int", Desc: "since(" + args[0].Desc + ")"}, true
		case callee == "time.After", callee == "time.NewTimer":
			return symRef("timer("+args[0].Desc+")", false), true
		case strings.HasSuffix(callee, ".Done"):
			return symRef("ctx.Done", false), true
		case callee == "(*time.Timer).Stop":
			return symBool(true), true
		}
		return SV{}, false
	}
	paths, err := evalPaths(fn, sc)
	if err != nil || len(paths) == 0 {
		r.bad(rule, fnName, sc.Name, c.pos(fn.Pos()), fmt.Sprintf("undecided: %v", err))
		return
	}
	var pGive, pWait, pRes []string
	nGive, nWait := 0, 0
	for _, p := range paths {
		if p.Outcome == "panic" && strings.Contains(fmtTrace(p), "blocking select matched no case") {
			continue // compiler-generated arm of a blocking select, never taken
		}
		if p.Outcome != "return" || len(p.Ret) != 1 || !p.Ret[0].Known {
			pRes = append(pRes, "no definite answer on a path: "+fmtTrace(p))
			continue
		}
		sel := ""
		for _, e := range p.Trace {
			if e.Kind == "select" {
				sel = e.What
			}
		}
		var give string
		for _, a := range p.Assume {
			if strings.Contains(a, "since(") {
				give = a
			}
		}
		if sel == "" {
			// gave up without waiting
			nGive++
			if p.Ret[0].B {
				pGive = append(pGive, "answers true without waiting")
			}
			norm := strings.NewReplacer(" ", "", "(", "", ")", "").Replace(give)
			if !(norm == "sincestart>=lb.TryDuration=true" || norm == "sincestart<lb.TryDuration=false") {
				pGive = append(pGive, "gives up under the condition "+give+"; it must be exactly time.Since(start) >= try_duration (a retry that is still due is otherwise skipped, or retries go on after the window)")
			}
			continue
		}
		nWait++
		if !strings.Contains(sel, "lb.TryInterval") || strings.Contains(sel, "TryDuration") {
			pWait = append(pWait, "the wait is not a timer of try_interval: "+sel)
		}
		if !strings.Contains(sel, "ctx.Done") {
			pWait = append(pWait, "cancellation is not part of the wait: "+sel)
		}
	}
	if nGive == 0 {
		pGive = append(pGive, "no path gives up")
	}
	if nWait == 0 {
		pWait = append(pWait, "no path waits")
	}
	// answers of the waiting paths: decided by which case fired
	for _, p := range paths {
		idx := ""
		for _, a := range p.Assume {
			if strings.Contains(a, ".idx") {
				idx = a
			}
		}
		_ = idx
	}
	pos := c.pos(fn.Pos())
	r.check(len(pGive) == 0, rule, fnName, "give-up condition", pos, fmt.Sprintf("%d path(s) give up, all under time.Since(start) >= try_duration", nGive), strings.Join(dedup(pGive), "; "))
	r.check(len(pWait) == 0, rule, fnName, "wait", pos, fmt.Sprintf("%d path(s) wait on timer(try_interval) | ctx.Done", nWait), strings.Join(dedup(pWait), "; "))
	r.check(len(pRes) == 0, rule, fnName, "definite answers", pos, fmt.Sprintf("%d paths", len(paths)), strings.Join(dedup(pRes), "; "))
}

// c11Defaults: options are defaulted in one place. An option field that Handler.Provision assigns a default to
// after it has provisioned the upstreams must not be read while the upstreams are provisioned: the value
// seen there is the raw, not yet defaulted one (max_fails left unset reads as 0 although it will be 1).
func c11Defaults(c *Ctx, r *Report, rule string) {
	r.rule(rule, "no read before default: every option field to which Handler.Provision assigns a default after the call that provisions the upstreams is not read in Upstream.provision or the module functions it calls", 2)
	fnName := "modules/l4proxy.(*Handler).Provision"
	fn := c.Fn(fnName)
	up := c.Fn("modules/l4proxy.(*Upstream).provision")
	if fn == nil || up == nil {
		r.bad(rule, fnName, "exists", "-", "Handler.Provision / Upstream.provision not found")
		return
	}
	var calls []ssa.Instruction
	for _, ci := range callsIn(fn) {
		if ci.Common().StaticCallee() == up {
			calls = append(calls, ci)
		}
	}
	if len(calls) == 0 {
		r.bad(rule, fnName, "provisions upstreams", c.pos(fn.Pos()), "the call to Upstream.provision was not found")
		return
	}
	later := map[string]string{}
	for _, b := range fn.Blocks {
		for _, in := range b.Instrs {
			st, ok := in.(*ssa.Store)
			if !ok {
				continue
			}
			_, sn, f, ok := fieldAddr(st.Addr)
			if !ok || !strings.HasPrefix(sn, "modules/l4proxy.") || sn == "modules/l4proxy.Handler" {
				continue
			}
			for _, cl := range calls {
				if canReach(cl, st) {
					later[sn+"."+f] = c.ipos(st)
				}
			}
		}
	}
	// ... also where the defaulting stands in a helper of the package that Provision calls after the upstreams
	for _, ci := range callsIn(fn) {
		g := ci.Common().StaticCallee()
		if g == nil || g == up || g.Pkg != fn.Pkg || len(g.Blocks) == 0 {
			continue
		}
		after := false
		for _, cl := range calls {
			if canReach(cl, ci) {
				after = true
			}
		}
		if !after {
			continue
		}
		for h := range c.reachSync(g) {
			if h.Pkg != fn.Pkg || h == up {
				continue
			}
			for _, b := range h.Blocks {
				for _, in := range b.Instrs {
					if st, ok := in.(*ssa.Store); ok {
						if _, sn, f, ok := fieldAddr(st.Addr); ok && strings.HasPrefix(sn, "modules/l4proxy.") && sn != "modules/l4proxy.Handler" {
							later[sn+"."+f] = c.ipos(st)
						}
					}
				}
			}
		}
	}
	r.check(len(later) >= 3, rule, fnName, "defaults applied after the upstreams", c.pos(fn.Pos()), fmt.Sprintf("%d option fields are defaulted after the upstreams are provisioned: %v", len(later), sortedKeys(later)), fmt.Sprintf("expected the defaulting of max_fails / active timeout / interval after the upstream loop, found %v", sortedKeys(later)))
	var bad []string
	reach := c.reach([]*ssa.Function{up})
	for _, g := range sortedFuncs(reach) {
		for _, b := range g.Blocks {
			for _, in := range b.Instrs {
				ld, ok := in.(*ssa.UnOp)
				if !ok || ld.Op != token.MUL {
					continue
				}
				if _, sn, f, ok := fieldAddr(ld.X); ok {
					if at, isLater := later[sn+"."+f]; isLater {
						bad = append(bad, fmt.Sprintf("%s reads %s.%s at %s, but its default is only applied afterwards (%s)", fname(g), sn, f, c.ipos(ld), at))
					}
				}
			}
		}
	}
	r.check(len(bad) == 0, rule, fname(up), "reads no option that is defaulted later", c.pos(up.Pos()), fmt.Sprintf("%d functions reachable from Upstream.provision scanned", len(reach)), strings.Join(dedup(bad), "; ")+": with the option left unset the decision is taken on 0 instead of the default")
}

func sortedKeys(m map[string]string) []string {
	var out []string
	for k := range m {
		out = append(out, k)
	}
	sort.Strings(out)
	return out
}
