package main

import (
	"fmt"
	"net"
	"strings"
)

// c12Provision: who may send a PROXY header is decided by the allow list as it is after provisioning. Provision of
// the proxy_protocol handler is evaluated on concrete allow lists, placeholders resolved from a fixed environment:
// every configured entry becomes exactly one rule (a CIDR range, or a single address as the range of that address),
// an entry that resolves to nothing or to something that is no address fails provisioning - it is never skipped,
// because a list that ends up empty means "accept the header from everybody".
func c12Provision(c *Ctx, r *Report, rule string) {
	r.rule(rule, "proxy_protocol Provision, evaluated on concrete allow lists with placeholders resolved from a fixed environment ({env.L4_NET} = 192.0.2.0/24, {env.L4_ADDR} = 192.0.2.7, {env.L4_EMPTY} = \"\"): every entry becomes exactly one rule, an entry that resolves to nothing or to no address fails provisioning (an empty rule list would accept the header from everybody)", 8)
	fnName := "modules/l4proxyprotocol.(*Handler).Provision"
	fn := c.Fn(fnName)
	if fn == nil {
		r.bad(rule, fnName, "exists", "-", "function not found")
		return
	}
	env := map[string]string{"{env.L4_NET}": "192.0.2.0/24", "{env.L4_ADDR}": "192.0.2.7", "{env.L4_EMPTY}": "", "{env.L4_ADDR6}": "2001:db8::7"}
	resolve := func(s string) string {
		for k, v := range env {
			s = strings.ReplaceAll(s, k, v)
		}
		return s
	}
	cases := [][]string{
		{},
		{"10.0.0.0/8"},
		{"10.0.0.0/8", "::1"},
		{"192.168.0.0/16", "fd00::/8", "203.0.113.9"},
		{"{env.L4_NET}"},
		{"{env.L4_ADDR}"},
		{"{env.L4_ADDR6}", "10.0.0.0/8"},
		{"{env.L4_EMPTY}"},
		{"10.0.0.0/8", "{env.L4_EMPTY}"},
		{"not-an-address"},
		{"10.0.0.0/33"},
	}
	for _, allow := range cases {
		wantOK := true
		for _, a := range allow {
			ra := resolve(a)
			if _, _, err := net.ParseCIDR(ra); err != nil && net.ParseIP(ra) == nil {
				wantOK = false
			}
		}
		name := fmt.Sprintf("allow=%q", allow)
		base := msgScenario(c, msgMatcher{fn: fnName}, msgCase{})
		sc := &Scenario{Name: name, MaxVisit: 12, MaxPaths: 2000, ConcreteCopy: true, Inline: base.Inline, FreshBase: 900000,
			Params: map[string]SV{"recv": symRef("m", false), "p0": symOpaque("ctx")},
			Heap:   map[string]SV{},
		}
		for k, v := range base.Heap {
			if strings.HasPrefix(k, "global:") {
				sc.Heap[k] = v
			}
		}
		zeroFields(sc.Heap, "m", fn.Signature.Recv().Type())
		l := symInt(int64(len(allow)))
		sc.Heap["m.Allow"] = SV{K: "slice", Desc: "m.Allow", Len: &l, Cap: &l, Known: true}
		for i, a := range allow {
			sc.Heap[fmt.Sprintf("m.Allow[%d]", i)] = symStr(a)
		}
		inner := provisionModels(base.Call)
		sc.Call = func(callee string, args []SV, ev *symEval, st *symState) (SV, bool) {
			switch {
			case strings.HasSuffix(callee, "Replacer).ReplaceAll") && len(args) == 3 && args[1].K == "str" && args[1].Known:
				return symStr(resolve(args[1].S)), true
			case callee == "net.ParseIP" && len(args) == 1 && args[0].K == "str" && args[0].Known:
				ip := net.ParseIP(args[0].S)
				if ip == nil {
					z := symInt(0)
					return SV{K: "slice", Known: true, Nil: true, Len: &z, Cap: &z, Desc: "nil"}, true
				}
				n := symInt(16)
				return SV{K: "slice", Known: true, Len: &n, Cap: &n, Desc: "ip16(" + args[0].S + ")"}, true
			case callee == "(net.IP).To4" && len(args) == 1:
				if strings.HasPrefix(args[0].Desc, "ip16(") && net.ParseIP(strings.TrimSuffix(strings.TrimPrefix(args[0].Desc, "ip16("), ")")).To4() != nil {
					n := symInt(4)
					return SV{K: "slice", Known: true, Len: &n, Cap: &n, Desc: "ip4(" + strings.TrimPrefix(args[0].Desc, "ip16(")}, true
				}
				z := symInt(0)
				return SV{K: "slice", Known: true, Nil: true, Len: &z, Cap: &z, Desc: "nil"}, true
			case callee == "net.CIDRMask" && len(args) == 2 && args[0].K == "int" && args[0].Known && args[1].K == "int" && args[1].Known:
				return SV{K: "ref", Known: true, Desc: fmt.Sprintf("mask(%d/%d)", args[0].N, args[1].N)}, true
			case callee == "net.CIDRMask":
				return symRef("mask(?)", false), true
			case callee == "sort.Slice", callee == "sort.SliceStable", strings.HasPrefix(callee, "slices.SortFunc"), strings.HasPrefix(callee, "slices.SortStableFunc"):
				return symOpaque("sorted"), true // the order of the rules is not what this rule is about
			case callee == "strings.Fields" && len(args) == 1 && args[0].K == "str" && args[0].Known:
				fs := strings.Fields(args[0].S)
				desc := ev.fresh("fields")
				n := symInt(int64(len(fs)))
				for i, f := range fs {
					st.heap[fmt.Sprintf("%s[%d]", desc, i)] = symStr(f)
				}
				return SV{K: "slice", Known: true, Len: &n, Cap: &n, Desc: desc}, true
			case callee == "strings.TrimSpace" && len(args) == 1 && args[0].K == "str" && args[0].Known:
				return symStr(strings.TrimSpace(args[0].S)), true
			case strings.HasSuffix(callee, ".String") && len(args) == 1:
				return SV{K: "str", Desc: "string(" + args[0].Desc + ")"}, true
			}
			return inner(callee, args, ev, st)
		}
		paths, err := evalPaths(fn, sc)
		if err != nil || len(paths) == 0 {
			r.bad(rule, fnName, name, c.pos(fn.Pos()), fmt.Sprintf("undecided: %v", err))
			continue
		}
		var problems []string
		for _, p := range paths {
			if p.Outcome != "return" || len(p.Ret) != 1 || !p.Ret[0].Known {
				problems = append(problems, "undecided path ("+p.Outcome+")")
				continue
			}
			ok := p.Ret[0].Nil
			switch {
			case ok && !wantOK:
				n := int64(-1)
				if v, has := p.Heap["m.rules"]; has && v.Len != nil && v.Len.Known {
					n = v.Len.N
				}
				problems = append(problems, fmt.Sprintf("provisioning succeeds with %d rule(s) although an entry resolves to no address: the entry is dropped, and with nothing left every peer may send the header", n))
			case !ok && wantOK:
				problems = append(problems, "provisioning fails ("+p.Ret[0].Desc+") although every entry resolves to a range or an address")
			case ok:
				// a single address is the range of that address alone: the mask made for it covers every bit of the
				// address it is stored with (4 bytes for IPv4, 16 for IPv6)
				for k, mv := range p.Heap {
					if !strings.HasSuffix(k, ".Mask") || !strings.HasPrefix(mv.Desc, "mask(") {
						continue
					}
					var ones, bits int64
					if _, err := fmt.Sscanf(mv.Desc, "mask(%d/%d)", &ones, &bits); err != nil {
						problems = append(problems, "the mask made for a single address is "+mv.Desc)
						continue
					}
					ipv := p.Heap[strings.TrimSuffix(k, ".Mask")+".IP"]
					if ones != bits || ipv.Len == nil || !ipv.Len.Known || ipv.Len.N*8 != bits {
						ipl := "?"
						if ipv.Len != nil && ipv.Len.Known {
							ipl = fmt.Sprint(ipv.Len.N)
						}
						problems = append(problems, fmt.Sprintf("a single address becomes a %s-byte address with a mask of %d ones in %d bits: not the range of that address alone (a 16-byte IPv4 address with 32 ones in 128 bits contains every IPv4 peer)", ipl, ones, bits))
					}
				}
				if v, has := p.Heap["m.rules"]; !has || v.Len == nil || !v.Len.Known || v.Len.N != int64(len(allow)) {
					got := "?"
					if has && v.Len != nil && v.Len.Known {
						got = fmt.Sprint(v.Len.N)
					}
					problems = append(problems, fmt.Sprintf("%s rule(s) for %d configured entries", got, len(allow)))
				}
			}
		}
		r.check(len(problems) == 0, rule, fnName, name, c.pos(fn.Pos()), fmt.Sprintf("%d path(s): provisions=%v with one rule per entry", len(paths), wantOK), strings.Join(dedup(problems), "; "))
	}
}
