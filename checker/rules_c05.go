package main

import (
	"fmt"
	"go/token"
	"strings"

	"golang.org/x/tools/go/ssa"
)

func init() {
	register(&property{
		ID:          "C05",
		Explanation: "Static decision of the mechanisms that bound the matching phase: (R1) the matching deadline is computed once per routing from time.Now()+timeout, outside every loop, and every SetReadDeadline in the router passes that value or the zero time; (R2/R3) on every path of the bounded abstract interpretation of the compiled route handler (0..3 routes, all outcomes) the deadline is armed before each prefetch and cleared before each route handler chain and before the fallback; (R4) after a failed prefetch or a matcher error nothing else runs and nil is returned, and Server.handle registers conn.Close() unconditionally as its first deferred action; (R5) prefetch, evaluated over the orderings of len(buf) against the matching limit (and with a non-zero cursor), reads at most one chunk and only while len(buf) < MaxMatchingBytes, otherwise returns ErrMatchingBufferFull without reading; (R6) the emulated UDP deadline is stored and reloaded with the same sub-second encoding; (R7) no module-defined Set*Deadline performs a blocking channel operation (the router arms and clears the deadline from the connection goroutine and must get control back).",
		NotDecided:  "Wall-clock bounds themselves (scheduling slack, kernel timers), the behaviour of net.Conn deadlines (trusted), the http matcher's own buffer-full answer, timeouts of nested subroutes adding up.",
		Run:         runC05,
	})
}

func runC05(c *Ctx, r *Report) {
	c05R1(c, r, "C05.R1")
	c05R23(c, r, "C05.R2")
	c05R4(c, r, "C05.R4")
	c05R5(c, r, "C05.R5")
	c05R6(c, r, "C05.R6")
	c05R7(c, r, "C05.R7")
	c05UDPDeadline(c, r, "C05.R13")
	c05TimeoutWiring(c, r, "C05.R14")
	// "matching is not abandoned before the timeout while some route is undecided": an undecided matcher must say
	// need-more in the one form the router recognises, otherwise the connection is dropped at once
	c06R3(c, r, "C05.R8")
	c06R4(c, r, "C05.R9")
	c06R10(c, r, "C05.R10")
	c02Router(c, r, "C05.R11")         // nothing runs after aborted matching, also below a route that was not terminal (route-loop exploration)
	c01R1(c, r, "C05.R15")             // the buffer bound holds only for frozen matchers: every matcher of a set runs between its own freeze and unfreeze (a nested set - not - must not leave the outer one unfrozen)
	c06IsHTTP(c, r, "C05.R16")         // matching that exhausts the buffer ends with the buffer-full error and no handler: the http matcher keeps answering need-more for a first line that has not ended (a "no" at the limit would let the next route or the fallback handle the connection)
	c05UDPWaits(c, r, "C05.R17")       // the emulated deadline of a UDP association works only where Read watches its timer
	c04BoundedParsers(c, r, "C05.R18") // an undecided route is not abandoned: the HTTP/2 framer's limit is a constant, not what happens to be buffered (a frame larger than the bytes prefetched so far is a hard error then, not need-more)
	c02R1(c, r, "C05.R12")             // the combinators hand need-more up: an undecided set is never overridden by a later set's "no"
}

func c05R1(c *Ctx, r *Report, rule string) {
	r.rule(rule, "every SetReadDeadline in the compiled route handler passes the zero time or a value defined outside all loops that derives from time.Now() and the matchingTimeout captured at Compile", 3)
	outer := c.Fn("layer4.(RouteList).Compile$1")
	if outer == nil {
		r.bad(rule, "layer4.(RouteList).Compile$1", "exists", "-", "compiled handler closure not found")
		return
	}
	name := fname(outer)
	n := 0
	for _, ci := range callsIn(outer) {
		if !isInvoke(ci, "SetReadDeadline") {
			continue
		}
		n++
		arg := ci.Common().Args[0]
		k := fmt.Sprintf("SetReadDeadline#%d", n)
		if cst, ok := arg.(*ssa.Const); ok && cst.Value == nil {
			r.ok(rule, name, k, c.ipos(ci), "clears the deadline (zero time)")
			continue
		}
		os := origins(arg, sliceOpts{throughCalls: true})
		hasNow, hasTimeout, inLoopDef := false, false, false
		for _, o := range os {
			if o.Kind == "call" && o.Desc == "time.Now" {
				hasNow = true
			}
			if o.Kind == "freevar" && o.Desc == "matchingTimeout" || o.Kind == "param" && o.Desc == "matchingTimeout" {
				hasTimeout = true
			}
			if in, ok := o.V.(ssa.Instruction); ok && in.Block() != nil && in.Parent() == outer && inLoop(in.Block()) {
				inLoopDef = true
			}
		}
		if in, ok := arg.(ssa.Instruction); ok && in.Parent() == outer && inLoop(in.Block()) {
			inLoopDef = true
		}
		r.check(hasNow && hasTimeout && !inLoopDef, rule, name, k, c.ipos(ci),
			"arms the deadline computed once from time.Now()+matchingTimeout",
			fmt.Sprintf("the deadline passed here is not the one computed once per routing (from time.Now: %v, from matchingTimeout: %v, computed inside a loop: %v; origins %s): a trickling client can extend matching forever or the timeout is ignored", hasNow, hasTimeout, inLoopDef, originKinds(os)))
	}
}

func c05R23(c *Ctx, r *Report, rule string) {
	r.rule(rule, "bounded abstract interpretation of the compiled route handler (0..3 routes, all outcomes): the matching deadline is armed when prefetch is called and cleared when a route's handlers or the fallback are called", 4)
	for n := 0; n <= 3; n++ {
		rounds := 3
		if n == 3 {
			rounds = 2
		}
		name := "layer4.(RouteList).Compile$1"
		paths, err := exploreRouter(c, n, rounds)
		if err != nil {
			r.bad(rule, name, fmt.Sprintf("routes=%d", n), "-", "undecided: "+err.Error())
			continue
		}
		nbad := 0
		var first []string
		for _, p := range paths {
			if b := routerInvariants(p, n, "deadline"); len(b) > 0 {
				nbad++
				if len(first) < 3 {
					first = append(first, strings.Join(dedup(b), "; ")+"   on path: "+p.String())
				}
			}
		}
		if nbad == 0 {
			r.ok(rule, name, fmt.Sprintf("routes=%d", n), "-", fmt.Sprintf("%d paths explored, deadline armed at every prefetch and cleared at every handler", len(paths)))
		} else {
			r.bad(rule, name, fmt.Sprintf("routes=%d", n), "-", fmt.Sprintf("%d of %d paths violate the deadline discipline:\n%s", nbad, len(paths), strings.Join(first, "\n")))
		}
	}
}

func c05R4(c *Ctx, r *Report, rule string) {
	r.rule(rule, "fail closed: on every explored path nothing runs after a failed prefetch or a matcher error and the compiled handler returns nil; Server.handle and listener.handle register the closing of the connection before anything can fail", 3)
	// exploration part (routing family contains 'done' checks)
	name := "layer4.(RouteList).Compile$1"
	paths, err := exploreRouter(c, 2, 3)
	if err != nil {
		r.bad(rule, name, "failed-matching", "-", "undecided: "+err.Error())
	} else {
		nfail, nbad := 0, 0
		var ex string
		for _, p := range paths {
			failed := false
			for i, s := range p.Steps {
				if (s.Kind == "prefetch" && s.Note != "ok") || (s.Kind == "match" && s.Note == "ERR") {
					failed = true
					nfail++
					for _, t := range p.Steps[i+1:] {
						if t.Kind == "chain" || t.Kind == "fallback" || t.Kind == "match" || t.Kind == "prefetch" {
							nbad++
							ex = p.String()
						}
					}
				}
			}
			if failed && p.Ret != "nil" {
				nbad++
				ex = p.String()
			}
		}
		r.check(nbad == 0 && nfail > 0, rule, name, "failed-matching", "-", fmt.Sprintf("%d paths with failed matching: none invokes a handler afterwards, all return nil", nfail), "a handler or further matching runs after matching failed (timeout, buffer full, matcher error): "+ex)
	}
	// the closing of the connection
	for _, fnName := range []string{"layer4.(*Server).handle", "layer4.(*listener).handle"} {
		fn := c.Fn(fnName)
		if fn == nil {
			r.bad(rule, fnName, "exists", "-", "function not found")
			continue
		}
		// first defer must be a closure that calls Close on the conn parameter, and it must be in the entry block before any call that can fail
		var first *ssa.Defer
		for _, in := range fn.Blocks[0].Instrs {
			if d, ok := in.(*ssa.Defer); ok {
				first = d
				break
			}
			if _, ok := in.(*ssa.Call); ok {
				break
			}
		}
		good := false
		detail := "the first action is not a deferred closing of the connection"
		if first != nil {
			if cl := closureOf(first.Call.Value); cl != nil {
				for _, ci := range callsIn(cl) {
					if isInvoke(ci, "Close") {
						// unconditional in Server.handle; guarded only by errHijacked in listener.handle
						conds := edgeConds(ci.Block())
						if len(conds) == 0 {
							good = true
						} else if fnName == "layer4.(*listener).handle" {
							// guarded: the guard must be exactly 'not handed off', which the path evaluation of
							// listener.handle decides (Close runs iff the route handler's result is not errHijacked)
							tmp := newReport("tmp")
							c13R3(c, tmp, "tmp")
							good = len(tmp.Obls) > 0
							for _, o := range tmp.Obls {
								if !o.OK {
									good = false
								}
							}
						}
						if !good {
							detail = "conn.Close() in the deferred closure is guarded by a condition other than 'not hijacked'"
						}
					}
				}
			}
		}
		r.check(good, rule, fnName, "deferred conn.Close", c.pos(fn.Pos()), "closing the connection is the first deferred action", detail)
	}
}

func c05R5(c *Ctx, r *Report, rule string) {
	r.rule(rule, "prefetch scenario table: while len(buf) < MaxMatchingBytes exactly one underlying read of one prefetch chunk happens; at or above the limit no read happens and ErrMatchingBufferFull is returned - independent of the read cursor; both constants are positive", 6)
	fnName := "layer4.(*Connection).prefetch"
	fn := c.Fn(fnName)
	if fn == nil {
		r.bad(rule, fnName, "exists", "-", "function not found")
		return
	}
	// constants
	var limit, chunk int64 = -1, -1
	if p := c.ByPath[modPath+"/layer4"]; p != nil {
		for _, nm := range []string{"MaxMatchingBytes", "prefetchChunkSize"} {
			if o := scopeLookup(p.Types, nm); o != nil {
				if cst, ok := o.(interface {
					Val() interface{ String() string }
				}); ok {
					_ = cst
				}
			}
		}
		limit = constOf(scopeLookup(p.Types, "MaxMatchingBytes"))
		chunk = constOf(scopeLookup(p.Types, "prefetchChunkSize"))
	}
	r.check(limit > 0 && chunk > 0 && chunk <= limit, rule, "layer4", "constants", "-", fmt.Sprintf("MaxMatchingBytes=%d prefetchChunkSize=%d", limit, chunk), fmt.Sprintf("MaxMatchingBytes=%d / prefetchChunkSize=%d are not positive constants with chunk <= limit", limit, chunk))
	if limit <= 0 || chunk <= 0 {
		return
	}
	type w struct {
		l, cp, off int64
		name       string
	}
	for _, x := range []w{
		{0, chunk, 0, "empty"},
		{limit - 1, limit + chunk, 0, "one-below-limit"},
		{limit - 1, limit - 1, 0, "one-below-limit-no-capacity"},
		{limit, limit + chunk, 0, "at-limit"},
		{limit, limit + chunk, limit - 10, "at-limit-mostly-consumed"},
		{limit + chunk - 1, limit + 2*chunk, chunk, "above-limit-partly-consumed"},
	} {
		sc := &Scenario{
			Name:   fmt.Sprintf("%s(len=%d,cap=%d,off=%d)", x.name, x.l, x.cp, x.off),
			Heap:   map[string]SV{"recv.buf": symSliceCap("recv.buf", x.l, x.cp), "recv.offset": symInt(x.off)},
			Params: map[string]SV{"recv": symRef("recv", false)},
		}
		paths, err := evalPaths(fn, sc)
		if err != nil || len(paths) == 0 {
			r.bad(rule, fnName, sc.Name, c.pos(fn.Pos()), fmt.Sprintf("undecided: %v", err))
			continue
		}
		var problems []string
		for _, p := range paths {
			raw := traceCalls(p, connReadIsRaw)
			if x.l < limit {
				if len(raw) != 1 {
					problems = append(problems, fmt.Sprintf("below the limit exactly one underlying read is expected, got %d: %s", len(raw), fmtTrace(p)))
					continue
				}
				dst := raw[0].Args[1]
				okDst := dst == fmt.Sprintf("recv.buf[%d:%d]", x.l, x.l+chunk) || strings.HasSuffix(dst, fmt.Sprintf("[:%d]", chunk))
				if !okDst {
					problems = append(problems, "the underlying read's destination is not one prefetch chunk: "+dst)
				}
			} else {
				if len(raw) != 0 {
					problems = append(problems, "reads from the socket although the matching limit is reached (unbounded buffering): "+fmtTrace(p))
				}
				if len(p.Ret) != 1 || !strings.Contains(p.Ret[0].Desc, "ErrMatchingBufferFull") {
					problems = append(problems, "must return ErrMatchingBufferFull at the limit, returns "+p.retDesc())
				}
			}
		}
		if len(problems) == 0 {
			r.ok(rule, fnName, sc.Name, c.pos(fn.Pos()), fmtTrace(paths[0]))
		} else {
			r.bad(rule, fnName, sc.Name, c.pos(fn.Pos()), strings.Join(dedup(problems), "\n"))
		}
	}
}

func c05R6(c *Ctx, r *Report, rule string) {
	r.rule(rule, "module-defined SetReadDeadline implementations that store the deadline as an integer use a sub-second encoding (UnixNano/UnixMicro/UnixMilli, never whole seconds) and the reader decodes with the matching constructor", 2)
	enc := map[string]string{"(time.Time).UnixNano": "nano", "(time.Time).UnixMicro": "micro", "(time.Time).UnixMilli": "milli", "(time.Time).Unix": "sec"}
	for _, fn := range c.Funcs {
		if fn.Name() != "SetReadDeadline" || fn.Signature.Recv() == nil || len(fn.Blocks) == 0 {
			continue
		}
		name := fname(fn)
		t := fn.Params[1]
		used := map[string]bool{}
		for _, ci := range callsIn(fn) {
			if e, ok := enc[calleeID(ci)]; ok && len(ci.Common().Args) > 0 && ci.Common().Args[0] == ssa.Value(t) {
				// does the result reach a store (atomic Store or plain)?
				used[e] = true
			}
			// the conversion in a helper of the package that is given the deadline (storeDeadline(t))
			if g := ci.Common().StaticCallee(); g != nil && g.Pkg == fn.Pkg && len(g.Blocks) > 0 {
				for k, a := range ci.Common().Args {
					if a != ssa.Value(t) || k >= len(g.Params) {
						continue
					}
					for _, cj := range callsIn(g) {
						if e, ok := enc[calleeID(cj)]; ok && len(cj.Common().Args) > 0 && cj.Common().Args[0] == ssa.Value(g.Params[k]) {
							used[e] = true
						}
					}
				}
			}
		}
		if len(used) == 0 {
			r.ok(rule, name, "encoding", c.pos(fn.Pos()), "the deadline is not converted to an integer")
			continue
		}
		r.check(!used["sec"], rule, name, "encoding", c.pos(fn.Pos()), "deadline stored with sub-second resolution", "the deadline is truncated to whole seconds (Time.Unix()): a matching deadline less than a second ahead lies in the past and matching is abandoned before the timeout elapsed")
		// decoder agreement in the same package: time.Unix(0, x) for nano; time.UnixMilli / UnixMicro
		want := ""
		for e := range used {
			want = e
		}
		okDec := false
		var where string
		for _, g := range c.Funcs {
			if g.Pkg != fn.Pkg {
				continue
			}
			for _, ci := range callsIn(g) {
				id := calleeID(ci)
				args := ci.Common().Args
				switch {
				case id == "time.Unix" && len(args) == 2:
					sec, isSecConst := constInt(args[0])
					nsec, isNsecConst := constInt(args[1])
					fromDeadline := func(v ssa.Value) bool {
						for _, o := range origins(v, sliceOpts{}) {
							if o.Kind == "call" && strings.HasSuffix(o.Desc, "atomic.Int64).Load") {
								return true
							}
						}
						return false
					}
					if fromDeadline(args[1]) && isSecConst && sec == 0 {
						where = fname(g)
						okDec = okDec || want == "nano"
					}
					if fromDeadline(args[0]) && isNsecConst && nsec == 0 {
						where = fname(g)
						okDec = okDec || want == "sec"
					}
				case id == "time.UnixMilli":
					okDec = okDec || want == "milli"
					where = fname(g)
				case id == "time.UnixMicro":
					okDec = okDec || want == "micro"
					where = fname(g)
				}
			}
		}
		r.check(okDec, rule, name, "decoder agrees", c.pos(fn.Pos()), "the stored deadline is decoded with the matching constructor in "+where, "the stored deadline ("+want+") is decoded with a constructor for a different unit (in "+where+"): the deadline is off by orders of magnitude")
	}
}

// c05R7: a deadline setter must return. The router calls SetReadDeadline before every prefetch round and
// before every handler; a setter that can wait on a channel (the textbook "drain the timer" idiom is one,
// because Read consumes the same channel) leaves the connection in the matching phase for ever.
func c05R7(c *Ctx, r *Report, rule string) {
	r.rule(rule, "module-defined SetDeadline/SetReadDeadline/SetWriteDeadline implementations (and the module functions they call) contain no blocking channel operation: no receive, no send, no select without default", 1)
	for _, fn := range c.Funcs {
		switch fn.Name() {
		case "SetReadDeadline", "SetDeadline", "SetWriteDeadline":
		default:
			continue
		}
		if fn.Signature.Recv() == nil || len(fn.Blocks) == 0 || fn.Synthetic != "" {
			continue
		}
		var bad []string
		seen := map[*ssa.Function]bool{}
		var scan func(f *ssa.Function, depth int)
		scan = func(f *ssa.Function, depth int) {
			if seen[f] || depth > 4 || len(f.Blocks) == 0 {
				return
			}
			seen[f] = true
			for _, b := range f.Blocks {
				for _, in := range b.Instrs {
					switch x := in.(type) {
					case *ssa.UnOp:
						if x.Op == token.ARROW {
							bad = append(bad, "receive at "+c.ipos(in))
						}
					case *ssa.Send:
						bad = append(bad, "send at "+c.ipos(in))
					case *ssa.Select:
						if x.Blocking {
							bad = append(bad, "blocking select at "+c.ipos(in))
						}
					case ssa.CallInstruction:
						if cal := x.Common().StaticCallee(); cal != nil && cal.Pkg != nil && strings.HasPrefix(cal.Pkg.Pkg.Path(), modPath) {
							if _, isGo := in.(*ssa.Go); !isGo {
								scan(cal, depth+1)
							}
						}
					}
				}
			}
		}
		scan(fn, 0)
		r.check(len(bad) == 0, rule, fname(fn), "non-blocking", c.pos(fn.Pos()), "no channel operation that can wait", "the deadline setter can block: "+strings.Join(bad, ", ")+" - if nothing is (or another goroutine already consumed what was) on that channel the router never gets control back: matching never times out and the connection is never released")
	}
}
