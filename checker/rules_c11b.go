package main

import (
	"fmt"
	"go/token"
	"os"
	"sort"
	"strings"

	"golang.org/x/tools/go/ssa"
)

// c11CountFailure evaluates Handler.countFailure over the configurations of the passive checks: whenever passive
// checks with a non-zero fail duration are configured, every failed dial is remembered - whatever the peer's
// present failure count is (a failure that is dropped because the peer "is already down" lets the upstream come
// back fail_duration after the first max_fails failures instead of after the latest ones).
func c11CountFailure(c *Ctx, r *Report, rule string) {
	r.rule(rule, "countFailure (path evaluation over: no health checks / no passive checks / fail_duration 0 / fail_duration > 0 with the peer's counters symbolic): with a fail duration every path calls countFail(+1) on the peer, and - unless that call failed - starts the forgetter; without one nothing is counted", 4)
	fnName := "modules/l4proxy.(*Handler).countFailure"
	fn := c.Fn(fnName)
	if fn == nil {
		r.bad(rule, fnName, "exists", "-", "function not found")
		return
	}
	type scn struct {
		name   string
		heap   map[string]SV
		counts bool
	}
	scns := []scn{
		{"no health checks", map[string]SV{"h.HealthChecks": symNil()}, false},
		{"no passive checks", map[string]SV{"h.HealthChecks": symRef("hc", false), "hc.Passive": symNil()}, false},
		{"fail_duration=0", map[string]SV{"h.HealthChecks": symRef("hc", false), "hc.Passive": symRef("passive", false), "passive.FailDuration": symInt(0)}, false},
		{"fail_duration=5", map[string]SV{"h.HealthChecks": symRef("hc", false), "hc.Passive": symRef("passive", false), "passive.FailDuration": symInt(5)}, true},
	}
	for _, s := range scns {
		sc := &Scenario{Name: s.name, Params: map[string]SV{"recv": symRef("h", false), "p0": symRef("p", false)}, Heap: s.heap, NoDefaultInline: false}
		sc.Alts = func(callee string, args []SV, ev *symEval, st *symState) []CallAlt {
			if strings.HasSuffix(callee, "(*peer).countFail") {
				return []CallAlt{{Ret: symNil(), Note: "ok"}, {Ret: symRef("err", false), Note: "error"}}
			}
			return nil
		}
		paths, err := evalPaths(fn, sc)
		if err != nil || len(paths) == 0 {
			r.bad(rule, fnName, s.name, c.pos(fn.Pos()), fmt.Sprintf("undecided: %v", err))
			continue
		}
		var problems []string
		for _, p := range paths {
			if p.Outcome == "panic" {
				continue
			}
			plus, forget, failed := 0, 0, false
			for _, e := range p.Trace {
				if e.Kind == "call" && strings.HasSuffix(e.What, "(*peer).countFail") && e.In == fnName {
					if len(e.Args) >= 2 && e.Args[0] == "p" && e.Args[1] == "1" {
						plus++
						failed = e.Note == "error"
					} else {
						problems = append(problems, "countFail("+strings.Join(e.Args, ", ")+") in countFailure")
					}
				}
				if e.Kind == "go" {
					forget++
				}
			}
			switch {
			case !s.counts && (plus > 0 || forget > 0):
				problems = append(problems, "a failure is counted although no fail duration is configured: "+fmtTrace(p))
			case s.counts && plus != 1:
				problems = append(problems, fmt.Sprintf("a path remembers %d failures for one failed dial (assumptions: %s): the upstream is no longer out of rotation exactly while the failures of the last fail_duration number at least max_fails", plus, strings.Join(p.Assume, " & ")))
			case s.counts && !failed && forget != 1:
				problems = append(problems, fmt.Sprintf("%d forgetters started after a remembered failure", forget))
			case s.counts && failed && forget != 0:
				problems = append(problems, "the forgetter runs although the failure could not be remembered")
			}
		}
		r.check(len(problems) == 0, rule, fnName, s.name, c.pos(fn.Pos()), fmt.Sprintf("%d paths", len(paths)), strings.Join(dedup(problems), "\n"))
	}
}

// c11ActiveAddress evaluates doActiveHealthCheck: the address that is dialled is the peer's address with the
// configured health-check port substituted (when one is configured) - at the moment the dial string is built.
func c11ActiveAddress(c *Ctx, r *Report, rule string) {
	r.rule(rule, "active health check target (path evaluation over health_port unset / set): the host:port string handed to the dial is built from the peer's address after the configured health port has been substituted for its port range, and from the unchanged address otherwise; the network is the peer's", 2)
	fnName := "modules/l4proxy.(*Handler).doActiveHealthCheck"
	fn := c.Fn(fnName)
	if fn == nil {
		r.bad(rule, fnName, "exists", "-", "function not found")
		return
	}
	for _, port := range []int64{0, 9000} {
		name := fmt.Sprintf("health_port=%d", port)
		sc := &Scenario{Name: name, Params: map[string]SV{"recv": symRef("h", false), "p0": symRef("p", false)},
			Heap: map[string]SV{"h.HealthChecks": symRef("hc", false), "hc.Active": symRef("active", false), "active.Port": symInt(port),
				"p.address.StartPort": symInt(80), "p.address.EndPort": symInt(80)}}
		type dialled struct{ start, end, joinArg string }
		built := map[string]dialled{}
		nJoin := 0
		sc.Call = func(callee string, args []SV, ev *symEval, st *symState) (SV, bool) {
			switch {
			case strings.HasSuffix(callee, "NetworkAddress).JoinHostPort"):
				nJoin++
				d := dialled{joinArg: args[len(args)-1].Desc}
				if os.Getenv("L4V_DEBUG") != "" {
					fmt.Fprintln(os.Stderr, "JOIN", args[0].K, args[0].Desc)
					for k, v := range st.heap {
						if strings.Contains(k, "Port") || strings.Contains(k, "addr") {
							fmt.Fprintln(os.Stderr, "   ", k, "=", v.Desc)
						}
					}
				}
				if v, ok := st.heap[args[0].Desc+".StartPort"]; ok {
					d.start = v.Desc
				}
				if v, ok := st.heap[args[0].Desc+".EndPort"]; ok {
					d.end = v.Desc
				}
				id := fmt.Sprintf("hostport#%d", nJoin)
				built[id] = d
				l := SV{K: "int", Desc: "len(" + id + ")"}
				return SV{K: "str", Desc: id, Len: &l}, true
			case callee == "net.DialTimeout", callee == "net.Dial":
				return SV{}, false
			}
			return SV{}, false
		}
		sc.Alts = func(callee string, args []SV, ev *symEval, st *symState) []CallAlt {
			switch {
			case callee == "net.DialTimeout", callee == "net.Dial":
				return []CallAlt{{Ret: symTuple(symRef("conn", false), symNil()), Note: "up"}, {Ret: symTuple(symNil(), symRef("dialerr", false)), Note: "down"}}
			case strings.HasSuffix(callee, "(*peer).setHealthy"):
				return []CallAlt{{Ret: symTuple(symBool(true), symNil()), Note: "swapped"}}
			}
			return nil
		}
		paths, err := evalPaths(fn, sc)
		if err != nil || len(paths) == 0 {
			r.bad(rule, fnName, name, c.pos(fn.Pos()), fmt.Sprintf("undecided: %v", err))
			continue
		}
		var problems []string
		dials := 0
		for _, p := range paths {
			if p.Outcome == "panic" {
				continue
			}
			for _, e := range p.Trace {
				if e.Kind != "call" || !(e.What == "net.DialTimeout" || e.What == "net.Dial") {
					continue
				}
				dials++
				if len(e.Args) < 2 {
					problems = append(problems, "dial without an address")
					continue
				}
				d, ok := built[e.Args[1]]
				if !ok {
					problems = append(problems, "the dialled address "+e.Args[1]+" is not built by NetworkAddress.JoinHostPort from the peer's address")
					continue
				}
				want := "80"
				if port > 0 {
					want = "9000"
				}
				if d.start != want || d.joinArg != "0" {
					problems = append(problems, fmt.Sprintf("the dial string is built from start port %s offset %s, expected port %s: the check probes another port than the configured one (a peer whose health port is closed stays in rotation)", d.start, d.joinArg, want))
				}
				if !strings.Contains(e.Args[0], "Network") {
					problems = append(problems, "network argument is "+e.Args[0])
				}
			}
		}
		if dials == 0 {
			problems = append(problems, "no dial on any path")
		}
		r.check(len(problems) == 0, rule, fnName, name, c.pos(fn.Pos()), fmt.Sprintf("%d paths, %d dial(s)", len(paths), dials), strings.Join(dedup(problems), "\n"))
	}
}

// c11Provision evaluates Upstream.provision: how an upstream gets its peers, its connection limit and its view of
// the passive health policy.
// c11NoPeerlessUpstream: an upstream without dial addresses has no peers: it is "healthy" and "not full" by vacuity,
// every policy selects it, and the connection is proxied to nothing. The Caddyfile refuses such an upstream; a JSON
// configuration must be refused as well, when it is provisioned.
func c11NoPeerlessUpstream(c *Ctx, r *Report, rule string) {
	r.rule(rule, "Upstream.provision on an upstream without dial addresses (path evaluation): provisioning fails - an upstream without peers would be available by vacuity and selected by every policy, with nothing to dial", 1)
	fnName := "modules/l4proxy.(*Upstream).provision"
	fn := c.Fn(fnName)
	if fn == nil {
		r.bad(rule, fnName, "exists", "-", "function not found")
		return
	}
	sc := &Scenario{Name: "no dial addresses", MaxVisit: 5, MaxPaths: 2000,
		Params: map[string]SV{"recv": symRef("u", false)},
		ByType: map[string]SV{"modules/l4proxy.Handler": symRef("h", false), "caddy/v2.Context": {K: "struct", Desc: "ctx"}},
		Heap: map[string]SV{"u.Dial": symSlice("dial", 0), "u.MaxConnections": symInt(0), "u.TLS": symNil(), "u.peers": symSlice("nil-peers", 0),
			"h.logger": symRef("logger", false), "h.HealthChecks": symNil()},
	}
	sc.Call = func(callee string, args []SV, ev *symEval, st *symState) (SV, bool) {
		switch {
		case strings.HasSuffix(callee, "caddy/v2.NewReplacer"):
			return symRef("repl", false), true
		case callee == "fmt.Errorf", callee == "errors.New":
			return SV{K: "ref", Known: true, Desc: "provisionError"}, true
		case strings.HasPrefix(callee, "(*go.uber.org/zap.Logger)"), strings.HasPrefix(callee, "go.uber.org/zap."):
			return symRef("named-logger", false), true
		}
		return SV{}, false
	}
	paths, err := evalPaths(fn, sc)
	if err != nil || len(paths) == 0 {
		r.bad(rule, fnName, sc.Name, c.pos(fn.Pos()), fmt.Sprintf("undecided: %v", err))
		return
	}
	okPaths := 0
	for _, p := range paths {
		if len(p.Ret) == 1 && p.Ret[0].K == "ref" && p.Ret[0].Known && p.Ret[0].Nil {
			okPaths++
		}
	}
	r.check(okPaths == 0, rule, fnName, sc.Name, c.pos(fn.Pos()), "provisioning fails", fmt.Sprintf("an upstream without dial addresses provisions without error (%d of %d paths): it has no peers, so it is healthy and below its connection limit by vacuity - every selection policy returns it, and the client's connection is proxied to nothing (the Caddyfile refuses the same upstream)", okPaths, len(paths)))
}

func c11Provision(c *Ctx, r *Report, rule string) {
	r.rule(rule, "Upstream.provision (path evaluation over: no health checks / no passive checks / passive checks with unhealthy_connection_count 0 or 3, max_connections 0, 1 or 5, 2 dial addresses each new or already known): on success the upstream has one peer per dial address in order (the stored one for a known address), max_connections is the configured value, or unhealthy_connection_count when it is unset and that is positive, and the health policy the availability test reads is the handler's passive policy; an address that does not parse or spans a port range fails provisioning", 12)
	fnName := "modules/l4proxy.(*Upstream).provision"
	fn := c.Fn(fnName)
	if fn == nil {
		r.bad(rule, fnName, "exists", "-", "function not found")
		return
	}
	type hc struct {
		name    string
		checks  bool
		passive bool
		ucc     int64
	}
	for _, k := range []hc{{"no health checks", false, false, 0}, {"no passive checks", true, false, 0}, {"passive,ucc=0", true, true, 0}, {"passive,ucc=1", true, true, 1}, {"passive,ucc=3", true, true, 3}} {
		for _, maxc := range []int64{0, 1, 5} {
			name := fmt.Sprintf("%s,max_connections=%d", k.name, maxc)
			sc := &Scenario{Name: name, MaxVisit: 5, MaxPaths: 5000,
				Params: map[string]SV{"recv": symRef("u", false)},
				ByType: map[string]SV{"modules/l4proxy.Handler": symRef("h", false), "caddy/v2.Context": {K: "struct", Desc: "ctx"}},
				Heap: map[string]SV{"u.Dial": symSlice("dial", 2), "u.MaxConnections": symInt(maxc), "u.TLS": symNil(), "u.peers": symSlice("nil-peers", 0),
					"h.logger": symRef("logger", false)},
			}
			switch {
			case !k.checks:
				sc.Heap["h.HealthChecks"] = symNil()
			case !k.passive:
				sc.Heap["h.HealthChecks"] = symRef("hc", false)
				sc.Heap["hc.Passive"] = symNil()
			default:
				sc.Heap["h.HealthChecks"] = symRef("hc", false)
				sc.Heap["hc.Passive"] = symRef("passive", false)
				sc.Heap["passive.UnhealthyConnectionCount"] = symInt(k.ucc)
				sc.Heap["passive.MaxFails"] = symInt(7)
			}
			nParse := 0
			var rawParse []string
			sc.Call = func(callee string, args []SV, ev *symEval, st *symState) (SV, bool) {
				switch {
				case strings.HasSuffix(callee, "caddy/v2.NewReplacer"):
					return symRef("repl", false), true
				case strings.HasSuffix(callee, "Replacer).ReplaceKnown"), strings.HasSuffix(callee, "Replacer).ReplaceAll"):
					return SV{K: "str", Desc: "resolved(" + args[1].Desc + ")"}, true
				case strings.HasPrefix(callee, "(*go.uber.org/zap.Logger)"), strings.HasPrefix(callee, "go.uber.org/zap."), callee == "fmt.Errorf":
					if callee == "fmt.Errorf" {
						return SV{K: "ref", Known: true, Desc: "errorf"}, true
					}
					return symRef("named-logger", false), true
				}
				return SV{}, false
			}
			sc.Alts = func(callee string, args []SV, ev *symEval, st *symState) []CallAlt {
				switch {
				case strings.HasSuffix(callee, "caddy/v2.ParseNetworkAddress"):
					nParse++
					if !strings.HasPrefix(args[0].Desc, "resolved(") {
						rawParse = append(rawParse, args[0].Desc)
					}
					a := SV{K: "struct", Desc: "addr(" + args[0].Desc + ")"}
					return []CallAlt{{Ret: symTuple(a, symNil()), Note: "parsed"}, {Ret: symTuple(SV{K: "struct", Desc: "zeroaddr"}, SV{K: "ref", Known: true, Desc: "parseErr"}), Note: "bad"}}
				case strings.HasSuffix(callee, "NetworkAddress).PortRangeSize"):
					return []CallAlt{{Ret: symInt(1), Note: "one port"}, {Ret: symInt(3), Note: "range"}, {Ret: symInt(0), Note: "empty"}}
				case strings.HasSuffix(callee, "UsagePool).LoadOrStore") || strings.HasSuffix(callee, "sync.Map).LoadOrStore"):
					known := symRef("known("+args[1].Desc+")", false)
					known.Dyn, known.DynT = "*modules/l4proxy.peer", nil
					return []CallAlt{{Ret: symTuple(args[2], symBool(false)), Note: "new"}, {Ret: symTuple(known, symBool(true)), Note: "known:" + known.Desc}}
				}
				return nil
			}
			paths, err := evalPaths(fn, sc)
			if err != nil || len(paths) == 0 {
				r.bad(rule, fnName, name, c.pos(fn.Pos()), fmt.Sprintf("undecided: %v", err))
				continue
			}
			var problems []string
			okPaths := 0
			for _, p := range paths {
				if p.Outcome != "return" || len(p.Ret) != 1 {
					problems = append(problems, "undecided path: "+p.Outcome)
					continue
				}
				// what happened to the addresses
				mustFail := false
				var want []string // expected peers
				for _, e := range p.Trace {
					if e.Kind != "call" {
						continue
					}
					switch {
					case strings.HasSuffix(e.What, "ParseNetworkAddress") && e.Note == "bad":
						mustFail = true
					case strings.HasSuffix(e.What, "PortRangeSize") && e.Note != "one port":
						mustFail = true
					case strings.HasSuffix(e.What, "LoadOrStore"):
						if strings.HasPrefix(e.Note, "known:") {
							want = append(want, strings.TrimPrefix(e.Note, "known:"))
						} else {
							want = append(want, e.Args[len(e.Args)-1])
						}
					}
				}
				failed := !(p.Ret[0].Known && p.Ret[0].Nil)
				if mustFail != failed {
					problems = append(problems, fmt.Sprintf("an address that does not parse or spans a port range: provisioning fails=%v, expected %v", failed, mustFail))
					continue
				}
				if failed {
					// Cleanup runs also after a failed Provision and releases one table entry per peer the upstream
					// holds: the upstream holds exactly as many peers as references were taken
					if ps := p.Heap["u.peers"]; ps.Len != nil && ps.Len.Known && ps.Len.N != int64(len(want)) {
						problems = append(problems, fmt.Sprintf("after a provisioning that failed with %d table reference(s) taken the upstream holds %d peers: Cleanup releases one entry per peer - entries this upstream never took belong to the running configuration, whose peers then leave the table while in use (the next configuration starts them with fresh counters)", len(want), ps.Len.N))
					}
					continue
				}
				okPaths++
				// peers
				ps := p.Heap["u.peers"]
				var got []string
				if ps.Len != nil && ps.Len.Known {
					for i := int64(0); i < ps.Len.N; i++ {
						d := p.Heap[fmt.Sprintf("%s[%d]", ps.Desc, i)].Desc
						if j := strings.Index(d, ").("); j > 0 && strings.HasPrefix(d, "known(") {
							d = d[:j+1] // the stored value asserted to *peer
						}
						got = append(got, d)
					}
				}
				if len(want) != 2 || strings.Join(got, ",") != strings.Join(want, ",") {
					problems = append(problems, fmt.Sprintf("the upstream's peers are %v, expected one per dial address in order: %v", got, want))
				}
				// limit
				wantMax := maxc
				if k.passive && k.ucc > 0 && maxc == 0 {
					wantMax = k.ucc
				}
				if mv := p.Heap["u.MaxConnections"]; !(mv.Known && mv.N == wantMax) {
					problems = append(problems, fmt.Sprintf("max_connections ends up as %s, expected %d (configured %d, unhealthy_connection_count %d)", mv.Desc, wantMax, maxc, k.ucc))
				}
				// policy
				pol := p.Heap["u.healthCheckPolicy"]
				switch {
				case k.passive && pol.Desc != "passive":
					problems = append(problems, "the upstream's health policy is "+pol.Desc+", expected the handler's passive policy: max_fails has no effect on availability")
				case !k.passive && !(pol.Desc == "" || (pol.Known && pol.Nil)):
					problems = append(problems, "the upstream gets a health policy ("+pol.Desc+") although no passive checks are configured")
				}
			}
			if okPaths == 0 {
				problems = append(problems, "no successful provisioning path")
			}
			if len(rawParse) > 0 {
				problems = append(problems, "the dial address is parsed as configured ("+strings.Join(dedup(rawParse), ", ")+"), not as the replacer resolves it: an address whose port (or all of it) is a placeholder known at load time - 127.0.0.1:{env.PORT} - adapts but fails to provision")
			}
			r.check(len(problems) == 0, rule, fnName, name, c.pos(fn.Pos()), fmt.Sprintf("%d paths (%d successful)", len(paths), okPaths), strings.Join(dedup(problems), "; "))
		}
	}
}

// c11PeerKey: the process-wide peer table (health flags, failure and connection counters, the address that is
// dialed) is keyed per backend. A key must tell backends apart that differ in anything that is dialed - network
// included: tcp/H:P and udp/H:P are two backends. Every key used with the table (LoadOrStore, Delete, Load) derives
// from the configured dial string itself (as written, or with placeholders replaced), or from the parsed
// address's String() (which spells the network out) - not from a projection of the address.
func c11PeerKey(c *Ctx, r *Report, rule string) {
	spellings := map[string][]string{}
	defer func() {
		// every user of the table spells the key the same way: what is stored under the configured string is not found
		// (and never released) under the canonical form of the parsed address, and the reverse
		var ks []string
		for k, v := range spellings {
			ks = append(ks, fmt.Sprintf("%s (%s)", k, strings.Join(v, ", ")))
		}
		sort.Strings(ks)
		if len(spellings) > 0 {
			r.check(len(spellings) == 1, rule, "modules/l4proxy.peers", "one spelling of the key", "-", "every operation on the table uses "+strings.Join(ks, ""),
				"the operations on the peer table spell the key differently: "+strings.Join(ks, "; ")+" - for an address whose configured spelling is not the canonical one (tcp/host:port, a placeholder) the entry stored at provisioning is never released at clean-up: the peer outlives its configuration with whatever health state it had")
		}
	}()
	r.rule(rule, "the shared peer table is keyed by the configured dial address itself (or the parsed address's String()), never by a projection that drops the network or the host: every key of LoadOrStore/Delete/Load on the table derives from Upstream.Dial", 2)
	n := 0
	for _, fn := range c.Funcs {
		if fn.Pkg == nil || short(fn.Pkg.Pkg.Path()) != "modules/l4proxy" {
			continue
		}
		for _, ci := range callsIn(fn) {
			id := calleeID(ci)
			if !(strings.HasSuffix(id, "UsagePool).LoadOrStore") || strings.HasSuffix(id, "UsagePool).Delete") || strings.HasSuffix(id, "UsagePool).LoadOrNew") || strings.HasSuffix(id, "sync.Map).LoadOrStore") || strings.HasSuffix(id, "sync.Map).Delete") || strings.HasSuffix(id, "sync.Map).Load")) {
				continue
			}
			args := ci.Common().Args
			if len(args) < 2 {
				continue
			}
			tbl := args[0]
			if ld, ok := tbl.(*ssa.UnOp); ok {
				tbl = ld.X
			}
			g, ok := tbl.(*ssa.Global)
			if !ok || !strings.HasSuffix(globalName(g), ".peers") {
				continue
			}
			n++
			var bad []string
			spelling := "the dial string as configured"
			for _, o := range c.originsIP(fn, args[1], 0) {
				switch {
				case o.Kind == "field" && strings.HasSuffix(o.Desc, "Upstream.Dial"):
				case o.Kind == "const":
				case o.Kind == "elem" && elemOfField(o.V, "Upstream.Dial"):
				case o.Kind == "call" && strings.Contains(o.Desc, "Replacer).Replace"):
					spelling = "the dial string with placeholders replaced"
				case o.Kind == "call" && strings.HasSuffix(o.Desc, "NetworkAddress).String"):
					spelling = "the parsed address's String()"
				default:
					bad = append(bad, o.Kind+":"+o.Desc)
				}
			}
			spellings[spelling] = append(spellings[spelling], c.ipos(ci))
			sort.Strings(bad)
			r.check(len(bad) == 0, rule, fname(fn), fmt.Sprintf("%s key#%d", shortCallee(id), n), c.ipos(ci), "the key is the configured dial address", "the key of the peer table derives from "+strings.Join(dedup(bad), ", ")+" instead of the configured dial address: two backends that differ only in what the key leaves out (network, host) share one peer - one of them is never dialed, and their health and connection counts are mixed")
		}
	}
}

// elemOfField: v is an element (index load or range element) of a slice that is the named field.
func elemOfField(v ssa.Value, field string) bool {
	var ia *ssa.IndexAddr
	switch x := v.(type) {
	case *ssa.UnOp:
		ia, _ = x.X.(*ssa.IndexAddr)
	case *ssa.IndexAddr:
		ia = x
	}
	if ia == nil {
		return false
	}
	for _, o := range origins(ia.X, sliceOpts{}) {
		if o.Kind == "field" && strings.HasSuffix(o.Desc, field) {
			return true
		}
	}
	return false
}

// c11PeersFrozen: the connection accounting of the proxy pairs "+1 on every peer of the upstream" when a connection
// starts with "-1 on every peer of the upstream" when it ends, reading the upstream's peer list both times. The pairing
// holds only if the list is the same at both moments: Upstream.peers is assigned while the upstream is provisioned and
// never afterwards (a configuration that is unloaded while a connection is open must not take the list away under it).
func c11PeersFrozen(c *Ctx, r *Report, rule string) {
	r.rule(rule, "Upstream.peers, read by the +1/-1 connection accounting at the start and at the end of a proxied connection, is assigned only while the upstream is provisioned (set-up code), never by Cleanup or per-connection code", 1)
	n := 0
	for _, fn := range c.Funcs {
		for _, st := range storesToField(fn, "modules/l4proxy.Upstream", "peers") {
			n++
			ok := false
			for f := fn; f != nil; f = f.Parent() {
				switch f.Name() {
				case "provision", "Provision", "UnmarshalJSON":
					ok = true
				}
			}
			if !ok && fn.Parent() == nil && !token.IsExported(fn.Name()) {
				// a helper all of whose callers are provisioning code
				if sites, escapes := c.callSitesOf(fn); !escapes && len(sites) > 0 {
					ok = true
					for _, cs := range sites {
						switch cs.Parent().Name() {
						case "provision", "Provision":
						default:
							ok = false
						}
					}
				}
			}
			r.check(ok, rule, fname(fn), "store Upstream.peers", c.ipos(st), "assigned while provisioning",
				"Upstream.peers is assigned in "+fname(fn)+": a connection that is open at that moment counted +1 on the old peers and will count -1 on the new list (or on none) when it ends - the peers keep a connection that is gone, and an upstream with max_connections stays full for ever")
		}
	}
	if n == 0 {
		r.bad(rule, "modules/l4proxy.Upstream", "store Upstream.peers", "-", "no assignment of Upstream.peers found")
	}
}

// c11AdmissionBeforeDial: "an upstream that has reached max_connections open proxied connections is not given another
// until one ends" - also for connections that arrive at the same moment. The selector admits a connection by reading
// the count; the count itself must therefore go up before anything that takes time happens, i.e. before the upstream
// is dialed: while one connection is dialing, every other one still reads the old count and is admitted as well.
// (A necessary condition, not the whole of it: the test and the increment are still two steps.)
func c11AdmissionBeforeDial(c *Ctx, r *Report, rule string) {
	r.rule(rule, "proxy Handle: the +1 on the peers' connection count that follows a selection is made before the selected upstream is dialed (a count raised only after the dial lets every connection that arrives during the dial pass the max_connections test as well)", 1)
	fnName := "modules/l4proxy.(*Handler).Handle"
	fn := c.Fn(fnName)
	if fn == nil {
		r.bad(rule, fnName, "exists", "-", "function not found")
		return
	}
	// Handle and the unexported helpers of the package it is split into
	var dial, plus []ssa.CallInstruction
	for _, g := range sortedFuncs(c.reachSync(fn)) {
		if g != fn && !(g.Pkg == fn.Pkg && !token.IsExported(g.Name()) && g.Name() != "dialPeers" && g.Name() != "proxy") {
			continue
		}
		for _, ci := range callsIn(g) {
			switch calleeID(ci) {
			case "modules/l4proxy.(*Handler).dialPeers":
				dial = append(dial, ci)
			case "modules/l4proxy.(*peer).countConn":
				if k, ok := constInt(ci.Common().Args[1]); ok && k > 0 {
					plus = append(plus, ci)
				}
			}
		}
	}
	if len(dial) == 0 || len(plus) == 0 {
		r.bad(rule, fnName, "count before dial", c.pos(fn.Pos()), fmt.Sprintf("undecided: %d dial(s) and %d increment(s) found", len(dial), len(plus)))
		return
	}
	before := false
	for _, d := range dial {
		for _, p := range plus {
			if p.Parent() == d.Parent() && canReach(p, d) && !canReach(d, p) {
				before = true
			}
			if p.Parent() == d.Parent() && inLoop(d.Block()) && canReach(p, d) && dominates(p, d) {
				before = true
			}
		}
	}
	r.check(before, rule, fnName, "count before dial", c.ipos(dial[0]), "the connection is counted before the upstream is dialed",
		"the connection count is raised only after the selected upstream has been dialed ("+c.ipos(plus[0])+"): connections arriving while one is dialing all read the old count in the selector and are admitted - with max_connections 1, eight simultaneous clients are proxied to the upstream at the same time")
}
