package main

import (
	"fmt"
	"os"
	"strings"
)

// c11CountFailure evaluates Handler.countFailure over the configurations of the passive checks: whenever passive
// checks with a non-zero fail duration are configured, every failed dial is remembered - whatever the peer's
// present failure count is (a failure that is dropped because the peer "is already down" lets the upstream come
// back fail_duration after the first max_fails failures instead of after the latest ones).
func c11CountFailure(c *Ctx, r *Report, rule string) {
	r.rule(rule, "countFailure (path evaluation over: no health checks / no passive checks / fail_duration 0 / fail_duration > 0 with the peer's counters symbolic): with a fail duration every path calls countFail(+1) on the peer, and - unless that call failed - starts the forgetter; without one nothing is counted", 4)
	fnName := "modules/l4proxy.(*Handler).countFailure"
	fn := c.Fn(fnName)
	if fn == nil {
		r.bad(rule, fnName, "exists", "-", "function not found")
		return
	}
	type scn struct {
		name   string
		heap   map[string]SV
		counts bool
	}
	scns := []scn{
		{"no health checks", map[string]SV{"h.HealthChecks": symNil()}, false},
		{"no passive checks", map[string]SV{"h.HealthChecks": symRef("hc", false), "hc.Passive": symNil()}, false},
		{"fail_duration=0", map[string]SV{"h.HealthChecks": symRef("hc", false), "hc.Passive": symRef("passive", false), "passive.FailDuration": symInt(0)}, false},
		{"fail_duration=5", map[string]SV{"h.HealthChecks": symRef("hc", false), "hc.Passive": symRef("passive", false), "passive.FailDuration": symInt(5)}, true},
	}
	for _, s := range scns {
		sc := &Scenario{Name: s.name, Params: map[string]SV{"recv": symRef("h", false), "p0": symRef("p", false)}, Heap: s.heap, NoDefaultInline: false}
		sc.Alts = func(callee string, args []SV, ev *symEval, st *symState) []CallAlt {
			if strings.HasSuffix(callee, "(*peer).countFail") {
				return []CallAlt{{Ret: symNil(), Note: "ok"}, {Ret: symRef("err", false), Note: "error"}}
			}
			return nil
		}
		paths, err := evalPaths(fn, sc)
		if err != nil || len(paths) == 0 {
			r.bad(rule, fnName, s.name, c.pos(fn.Pos()), fmt.Sprintf("undecided: %v", err))
			continue
		}
		var problems []string
		for _, p := range paths {
			if p.Outcome == "panic" {
				continue
			}
			plus, forget, failed := 0, 0, false
			for _, e := range p.Trace {
				if e.Kind == "call" && strings.HasSuffix(e.What, "(*peer).countFail") && e.In == fnName {
					if len(e.Args) >= 2 && e.Args[0] == "p" && e.Args[1] == "1" {
						plus++
						failed = e.Note == "error"
					} else {
						problems = append(problems, "countFail("+strings.Join(e.Args, ", ")+") in countFailure")
					}
				}
				if e.Kind == "go" {
					forget++
				}
			}
			switch {
			case !s.counts && (plus > 0 || forget > 0):
				problems = append(problems, "a failure is counted although no fail duration is configured: "+fmtTrace(p))
			case s.counts && plus != 1:
				problems = append(problems, fmt.Sprintf("a path remembers %d failures for one failed dial (assumptions: %s): the upstream is no longer out of rotation exactly while the failures of the last fail_duration number at least max_fails", plus, strings.Join(p.Assume, " & ")))
			case s.counts && !failed && forget != 1:
				problems = append(problems, fmt.Sprintf("%d forgetters started after a remembered failure", forget))
			case s.counts && failed && forget != 0:
				problems = append(problems, "the forgetter runs although the failure could not be remembered")
			}
		}
		r.check(len(problems) == 0, rule, fnName, s.name, c.pos(fn.Pos()), fmt.Sprintf("%d paths", len(paths)), strings.Join(dedup(problems), "\n"))
	}
}

// c11ActiveAddress evaluates doActiveHealthCheck: the address that is dialled is the peer's address with the
// configured health-check port substituted (when one is configured) - at the moment the dial string is built.
func c11ActiveAddress(c *Ctx, r *Report, rule string) {
	r.rule(rule, "active health check target (path evaluation over health_port unset / set): the host:port string handed to the dial is built from the peer's address after the configured health port has been substituted for its port range, and from the unchanged address otherwise; the network is the peer's", 2)
	fnName := "modules/l4proxy.(*Handler).doActiveHealthCheck"
	fn := c.Fn(fnName)
	if fn == nil {
		r.bad(rule, fnName, "exists", "-", "function not found")
		return
	}
	for _, port := range []int64{0, 9000} {
		name := fmt.Sprintf("health_port=%d", port)
		sc := &Scenario{Name: name, Params: map[string]SV{"recv": symRef("h", false), "p0": symRef("p", false)},
			Heap: map[string]SV{"h.HealthChecks": symRef("hc", false), "hc.Active": symRef("active", false), "active.Port": symInt(port),
				"p.address.StartPort": symInt(80), "p.address.EndPort": symInt(80)}}
		type dialled struct{ start, end, joinArg string }
		built := map[string]dialled{}
		nJoin := 0
		sc.Call = func(callee string, args []SV, ev *symEval, st *symState) (SV, bool) {
			switch {
			case strings.HasSuffix(callee, "NetworkAddress).JoinHostPort"):
				nJoin++
				d := dialled{joinArg: args[len(args)-1].Desc}
				if os.Getenv("L4V_DEBUG") != "" {
					fmt.Fprintln(os.Stderr, "JOIN", args[0].K, args[0].Desc)
					for k, v := range st.heap {
						if strings.Contains(k, "Port") || strings.Contains(k, "addr") {
							fmt.Fprintln(os.Stderr, "   ", k, "=", v.Desc)
						}
					}
				}
				if v, ok := st.heap[args[0].Desc+".StartPort"]; ok {
					d.start = v.Desc
				}
				if v, ok := st.heap[args[0].Desc+".EndPort"]; ok {
					d.end = v.Desc
				}
				id := fmt.Sprintf("hostport#%d", nJoin)
				built[id] = d
				l := SV{K: "int", Desc: "len(" + id + ")"}
				return SV{K: "str", Desc: id, Len: &l}, true
			case callee == "net.DialTimeout", callee == "net.Dial":
				return SV{}, false
			}
			return SV{}, false
		}
		sc.Alts = func(callee string, args []SV, ev *symEval, st *symState) []CallAlt {
			switch {
			case callee == "net.DialTimeout", callee == "net.Dial":
				return []CallAlt{{Ret: symTuple(symRef("conn", false), symNil()), Note: "up"}, {Ret: symTuple(symNil(), symRef("dialerr", false)), Note: "down"}}
			case strings.HasSuffix(callee, "(*peer).setHealthy"):
				return []CallAlt{{Ret: symTuple(symBool(true), symNil()), Note: "swapped"}}
			}
			return nil
		}
		paths, err := evalPaths(fn, sc)
		if err != nil || len(paths) == 0 {
			r.bad(rule, fnName, name, c.pos(fn.Pos()), fmt.Sprintf("undecided: %v", err))
			continue
		}
		var problems []string
		dials := 0
		for _, p := range paths {
			if p.Outcome == "panic" {
				continue
			}
			for _, e := range p.Trace {
				if e.Kind != "call" || !(e.What == "net.DialTimeout" || e.What == "net.Dial") {
					continue
				}
				dials++
				if len(e.Args) < 2 {
					problems = append(problems, "dial without an address")
					continue
				}
				d, ok := built[e.Args[1]]
				if !ok {
					problems = append(problems, "the dialled address "+e.Args[1]+" is not built by NetworkAddress.JoinHostPort from the peer's address")
					continue
				}
				want := "80"
				if port > 0 {
					want = "9000"
				}
				if d.start != want || d.joinArg != "0" {
					problems = append(problems, fmt.Sprintf("the dial string is built from start port %s offset %s, expected port %s: the check probes another port than the configured one (a peer whose health port is closed stays in rotation)", d.start, d.joinArg, want))
				}
				if !strings.Contains(e.Args[0], "Network") {
					problems = append(problems, "network argument is "+e.Args[0])
				}
			}
		}
		if dials == 0 {
			problems = append(problems, "no dial on any path")
		}
		r.check(len(problems) == 0, rule, fnName, name, c.pos(fn.Pos()), fmt.Sprintf("%d paths, %d dial(s)", len(paths), dials), strings.Join(dedup(problems), "\n"))
	}
}
