package main

import (
	"encoding/json"
	"fmt"
	"os"
	"os/exec"
	"path/filepath"
	"regexp"
	"sort"
	"strings"
	"sync"
)

// A variant is a seeded change of /repo that breaks a property while still type-checking.
// It is applied as an in-memory overlay (no copy of the tree is made), the property's rules
// are re-run in a child process, and some failed obligation key must contain Expect.
type variant struct {
	Name     string `json:"name"`
	Property string `json:"property"`
	File     string `json:"file,omitempty"`
	Old      string `json:"old,omitempty"`
	New      string `json:"new,omitempty"`
	Patch    string `json:"patch,omitempty"`   // path (relative to /verif) of a unified diff
	Expect   string `json:"expect,omitempty"`  // substring expected in a failed obligation key
	Neutral  bool   `json:"neutral,omitempty"` // behaviour-preserving edit: nothing may fire
	Why      string `json:"why,omitempty"`
}

func loadVariants(verif, prop string) []variant {
	var out []variant
	files, _ := filepath.Glob(filepath.Join(verif, "selftest", "*.json"))
	sort.Strings(files)
	for _, f := range files {
		raw, err := os.ReadFile(f)
		if err != nil {
			continue
		}
		var vs []variant
		if err := json.Unmarshal(raw, &vs); err != nil {
			fmt.Fprintf(os.Stderr, "selftest file %s: %v\n", f, err)
			continue
		}
		for _, v := range vs {
			if v.Property == prop {
				out = append(out, v)
			}
		}
	}
	return out
}

var plusRe = regexp.MustCompile(`(?m)^\+\+\+ b/(\S+)`)

// overlayFor computes the overlay {relative file: content} of a variant, or an error/skip reason.
func overlayFor(verif, repo string, v variant) (map[string]string, string) {
	if v.Patch != "" {
		raw, err := os.ReadFile(filepath.Join(verif, v.Patch))
		if err != nil {
			return nil, "patch unreadable: " + err.Error()
		}
		files := map[string]bool{}
		for _, m := range plusRe.FindAllStringSubmatch(string(raw), -1) {
			files[m[1]] = true
		}
		tmp, err := os.MkdirTemp("", "l4v-patch-")
		if err != nil {
			return nil, err.Error()
		}
		defer os.RemoveAll(tmp)
		for f := range files {
			src, err := os.ReadFile(filepath.Join(repo, f))
			if err != nil {
				if strings.Contains(string(raw), "new file mode") {
					_ = os.MkdirAll(filepath.Dir(filepath.Join(tmp, f)), 0o755)
					continue // created by the patch
				}
				return nil, "file in patch missing: " + f
			}
			_ = os.MkdirAll(filepath.Dir(filepath.Join(tmp, f)), 0o755)
			_ = os.WriteFile(filepath.Join(tmp, f), src, 0o644)
		}
		cmd := exec.Command("patch", "-p1", "-s", "-f", "--no-backup-if-mismatch", "-d", tmp)
		cmd.Stdin = strings.NewReader(string(raw))
		if out, err := cmd.CombinedOutput(); err != nil {
			return nil, "patch does not apply to the current tree: " + firstLine(string(out))
		}
		ov := map[string]string{}
		for f := range files {
			b, _ := os.ReadFile(filepath.Join(tmp, f))
			ov[f] = string(b)
		}
		return ov, ""
	}
	src, err := os.ReadFile(filepath.Join(repo, v.File))
	if err != nil {
		return nil, "file missing: " + v.File
	}
	if strings.Count(string(src), v.Old) != 1 {
		return nil, fmt.Sprintf("'old' text occurs %d times in %s (tree changed)", strings.Count(string(src), v.Old), v.File)
	}
	return map[string]string{v.File: strings.Replace(string(src), v.Old, v.New, 1)}, ""
}

func runSelfTests(verif, repo, prop string, rep *Report) map[string]interface{} {
	vs := loadVariants(verif, prop)
	type res struct {
		Name    string   `json:"name"`
		Fired   bool     `json:"fired"`
		Skipped string   `json:"skipped,omitempty"`
		Expect  string   `json:"expect,omitempty"`
		Neutral bool     `json:"neutral,omitempty"`
		Keys    []string `json:"failed_keys,omitempty"`
	}
	results := make([]res, len(vs))
	sem := make(chan struct{}, 4)
	var wg sync.WaitGroup
	for i, v := range vs {
		wg.Add(1)
		go func(i int, v variant) {
			defer wg.Done()
			sem <- struct{}{}
			defer func() { <-sem }()
			r := res{Name: v.Name, Expect: v.Expect, Neutral: v.Neutral}
			ov, skip := overlayFor(verif, repo, v)
			if skip != "" {
				r.Skipped = skip
				results[i] = r
				return
			}
			tmp, err := os.CreateTemp("", "l4v-ov-*.json")
			if err != nil {
				r.Skipped = err.Error()
				results[i] = r
				return
			}
			defer os.Remove(tmp.Name())
			b, _ := json.Marshal(ov)
			_, _ = tmp.Write(b)
			_ = tmp.Close()
			cmd := exec.Command(os.Args[0], "-prop", prop, "-tier", "quick", "-child", "-overlay", tmp.Name(), "-repo", repo, "-verif", verif)
			out, _ := cmd.CombinedOutput()
			var keys []string
			found := false
			for _, line := range strings.Split(string(out), "\n") {
				if strings.HasPrefix(line, "CHILD-RESULT ") {
					found = true
					_ = json.Unmarshal([]byte(strings.TrimPrefix(line, "CHILD-RESULT ")), &keys)
				}
			}
			if !found {
				r.Skipped = "child produced no result: " + firstLine(string(out))
				results[i] = r
				return
			}
			// subtract failures that already exist on the unchanged tree (known findings)
			base := map[string]bool{}
			for _, o := range rep.Obls {
				if !o.OK {
					base[o.Key] = true
				}
			}
			for _, k := range keys {
				kk := k
				if j := strings.Index(k, " :: "); j >= 0 {
					kk = k[:j]
				}
				if base[kk] {
					continue
				}
				r.Keys = append(r.Keys, firstLine(k))
				if v.Expect == "" || strings.Contains(kk, v.Expect) {
					r.Fired = true
				}
			}
			if v.Neutral {
				r.Fired = len(r.Keys) > 0
			}
			results[i] = r
		}(i, v)
	}
	wg.Wait()
	fired, missed, skipped, falseAlarms := 0, []string{}, 0, []string{}
	for _, r := range results {
		switch {
		case r.Skipped != "":
			skipped++
		case r.Neutral:
			if r.Fired {
				falseAlarms = append(falseAlarms, r.Name)
			}
		case r.Fired:
			fired++
		default:
			missed = append(missed, r.Name)
		}
	}
	for _, r := range results {
		if r.Skipped != "" {
			fmt.Printf("SELFTEST-SKIPPED property=%s variant=%s (%s)\n", prop, r.Name, r.Skipped)
		}
	}
	for _, m := range missed {
		fmt.Printf("SELFTEST-MISS property=%s variant=%s (checker did not report the seeded change)\n", prop, m)
	}
	for _, m := range falseAlarms {
		fmt.Printf("SELFTEST-FALSE-ALARM property=%s neutral-variant=%s\n", prop, m)
	}
	return map[string]interface{}{"variants": len(vs), "fired": fired, "missed": missed, "skipped": skipped, "neutral_false_alarms": falseAlarms, "results": results}
}
