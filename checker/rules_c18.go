package main

import (
	"fmt"
	"strings"

	"golang.org/x/tools/go/ssa"
)

func init() {
	register(&property{
		ID:          "C18",
		Explanation: "Static decision of the wire codecs by byte-layout evaluation: for each exported wire type of the OpenVPN, WireGuard and RDP modules the parser is path-evaluated on a symbolic input of concrete length L (for L at, just inside, just outside and between the type's size bounds), every field is tracked as a byte range of the input (through fixed-width decodings with their byte order), the serialiser is evaluated on the resulting object, and its output pieces must be exactly the input bytes in order: (R1) parse-then-serialise reproduces the input for every accepted length; (R2) lengths outside the type's declared bounds (exactly the declared size for fixed-size types) are rejected on every path, lengths inside are accepted on some path, and no decoding reads past its slice; (R3) the OpenVPN header byte codec is checked exhaustively for all 256 values; (R4) for structures read with encoding/binary the declared <Type>BytesTotal constant equals the encoded size of the struct.",
		NotDecided:  "Winbox MessageAuth beyond its chunk arithmetic (R6) and the tiling of the reassembled buffer (R5): user-name syntax, RoMON suffix handling; serialise-then-parse for arbitrary field values that no parse produces; cryptographic transforms (FromBytesCrypt/ToBytesCrypt, HMAC).",
		Run:         runC18,
	})
}

func runC18(c *Ctx, r *Report) {
	r.rule("C18.R1", "parse-then-serialise reproduces the input byte for byte; lengths outside the bounds are rejected, inside accepted (byte-layout evaluation per type)", 12)
	specs := []codecSpec{
		{pkg: "modules/l4openvpn", typ: "MessagePlain", parse: "FromBytes", ser: "ToBytes", minC: "MessagePlainBytesTotal", maxC: "MessagePlainBytesTotal", fixed: true},
		{pkg: "modules/l4openvpn", typ: "MessageAuth", parse: "FromBytes", ser: "ToBytes", minC: "MessageAuthBytesMin", maxC: "MessageAuthBytesMax"},
		{pkg: "modules/l4openvpn", typ: "MessageCrypt", parse: "FromBytes", ser: "ToBytes", minC: "MessageCryptBytesTotal", maxC: "MessageCryptBytesTotal", fixed: true},
		{pkg: "modules/l4openvpn", typ: "MessageCrypt2", parse: "FromBytes", ser: "ToBytes", minC: "MessageCrypt2BytesMin", maxC: "MessageCrypt2BytesMax"},
		{pkg: "modules/l4openvpn", typ: "WrappedKey", parse: "FromBytes", ser: "ToBytes", minC: "WrappedKeyBytesMin", maxC: "WrappedKeyBytesMax"},
		{pkg: "modules/l4wireguard", typ: "MessageInitiation", parse: "FromBytes", ser: "ToBytes", minC: "MessageInitiationBytesTotal", maxC: "MessageInitiationBytesTotal", fixed: true},
		{pkg: "modules/l4wireguard", typ: "MessageTransport", parse: "FromBytes", ser: "ToBytes", minC: "MessageTransportBytesMin", maxC: "", extraLens: []int64{48, 49}},
		{pkg: "modules/l4rdp", typ: "TPKTHeader", parse: "FromBytes", ser: "ToBytes", minC: "TPKTHeaderBytesTotal", maxC: "TPKTHeaderBytesTotal", fixed: true},
		{pkg: "modules/l4rdp", typ: "X224Crq", parse: "FromBytes", ser: "ToBytes", minC: "X224CrqBytesTotal", maxC: "X224CrqBytesTotal", fixed: true},
		{pkg: "modules/l4rdp", typ: "RDPNegReq", parse: "FromBytes", ser: "ToBytes", minC: "RDPNegReqBytesTotal", maxC: "RDPNegReqBytesTotal", fixed: true},
		{pkg: "modules/l4rdp", typ: "RDPCorrInfo", parse: "FromBytes", ser: "ToBytes", minC: "RDPCorrInfoBytesTotal", maxC: "RDPCorrInfoBytesTotal", fixed: true},
		{pkg: "modules/l4rdp", typ: "RDPToken", parse: "FromBytes", ser: "ToBytes", minC: "RDPTokenBytesMin", maxC: "", extraLens: []int64{40}},
	}
	for _, sp := range specs {
		evalCodecRoundTrip(c, r, "C18.R1", sp)
	}
	c18Header(c, r, "C18.R3")
	c18Sizes(c, r, "C18.R4")
	c18Tiling(c, r, "C18.R5")
	c18Chunks(c, r, "C18.R6")
	c18NarrowLen(c, r, "C18.R7")
	c14TablesFor(c, r, "C18.R8", "openvpn") // parsers reject inputs of the wrong length whatever state the message object is in (a digest left from an earlier message)
	c18ParsersAssign(c, r, "C18.R9")
	c18ParsersAssignAlways(c, r, "C18.R10")
	c18BoundsCompared(c, r, "C18.R11")
}

// c18Header evaluates MessageHeader.FromBytes/ToBytes for all 256 byte values.
// codecModelNoLemma is codecModel without the header lemma (used to establish the lemma itself).
func codecModelNoLemma(callee string, args []SV, ev *symEval, st *symState) (SV, bool) {
	if strings.Contains(callee, "(*MessageHeader).") {
		return SV{}, false
	}
	return codecModel(callee, args, ev, st)
}

func c18Header(c *Ctx, r *Report, rule string) {
	r.rule(rule, "OpenVPN MessageHeader: for every byte value b, FromBytes([b]) succeeds and ToBytes gives back [b]; inputs of length 0 and 2 are rejected (exhaustive)", 1)
	pf := c.Fn("modules/l4openvpn.(*MessageHeader).FromBytes")
	sf := c.Fn("modules/l4openvpn.(*MessageHeader).ToBytes")
	if pf == nil || sf == nil {
		r.bad(rule, "modules/l4openvpn.MessageHeader", "exists", "-", "codec not found")
		return
	}
	var problems []string
	for _, L := range []int64{0, 2} {
		sc := &Scenario{Params: map[string]SV{"recv": symRef("recv", false), "p0": {K: "slice", Desc: "src", Len: lenSV(L)}}, Call: codecModelNoLemma}
		ps, _ := evalPaths(pf, sc)
		for _, p := range ps {
			if len(p.Ret) == 1 && p.Ret[0].Known && p.Ret[0].Nil {
				problems = append(problems, fmt.Sprintf("a %d-byte header is accepted", L))
			}
		}
	}
	okCount := 0
	for b := int64(0); b < 256; b++ {
		sc := &Scenario{Params: map[string]SV{"recv": symRef("recv", false), "p0": {K: "slice", Desc: "src", Len: lenSV(1)}}, Heap: map[string]SV{"src[0]": symInt(b)}, Call: codecModelNoLemma}
		ps, err := evalPaths(pf, sc)
		if err != nil || len(ps) != 1 || len(ps[0].Ret) != 1 || !(ps[0].Ret[0].Known && ps[0].Ret[0].Nil) {
			problems = append(problems, fmt.Sprintf("byte %d: parser does not accept deterministically", b))
			continue
		}
		heap := map[string]SV{}
		for k, v := range ps[0].Heap {
			if strings.HasPrefix(k, "recv.") {
				heap[k] = v
			}
		}
		outs, err := evalPaths(sf, &Scenario{Params: map[string]SV{"recv": symRef("recv", false)}, Heap: heap, Call: codecModelNoLemma})
		if err != nil || len(outs) != 1 || len(outs[0].Ret) != 1 {
			problems = append(problems, fmt.Sprintf("byte %d: serialiser undecided", b))
			continue
		}
		pcs, _ := piecesOf(outs[0].Ret[0])
		if len(pcs) != 1 || pcs[0].Desc != fmt.Sprintf("#%d", b) {
			d := outs[0].Ret[0].Desc
			problems = append(problems, fmt.Sprintf("byte %d is serialised back as %s", b, d))
			continue
		}
		okCount++
	}
	if len(problems) > 5 {
		problems = append(problems[:5], fmt.Sprintf("... %d more", len(problems)-5))
	}
	r.check(len(problems) == 0 && okCount == 256, rule, fname(pf), "all 256 header bytes", c.pos(pf.Pos()), "opcode/key-id split and join are inverse for every byte", strings.Join(problems, "\n"))
}

func c18Sizes(c *Ctx, r *Report, rule string) {
	r.rule(rule, "declared size constant = encoded size of the struct for types (de)serialised whole with encoding/binary", 5)
	for _, w := range []struct{ pkg, typ, cst string }{
		{"modules/l4rdp", "TPKTHeader", "TPKTHeaderBytesTotal"},
		{"modules/l4rdp", "X224Crq", "X224CrqBytesTotal"},
		{"modules/l4rdp", "RDPNegReq", "RDPNegReqBytesTotal"},
		{"modules/l4rdp", "RDPCorrInfo", "RDPCorrInfoBytesTotal"},
		{"modules/l4wireguard", "MessageInitiation", "MessageInitiationBytesTotal"},
	} {
		n := c.namedType(w.pkg, w.typ)
		cv, ok := constByName(c, w.pkg, w.cst)
		if n == nil || !ok {
			r.bad(rule, w.pkg+"."+w.typ, "size", "-", "type or constant not found")
			continue
		}
		sz, ok := sizeOfFixed(n)
		r.check(ok && sz == cv, rule, w.pkg+"."+w.typ, "size", "-", fmt.Sprintf("%s = %d = encoded size", w.cst, cv), fmt.Sprintf("%s = %d but the struct encodes to %d bytes", w.cst, cv, sz))
	}
	_ = ssa.Value(nil)
}
