package main

import (
	"fmt"
	"go/token"
	"go/types"
	"strings"

	"golang.org/x/tools/go/ssa"
)

const connStruct = "layer4.Connection"

func init() {
	register(&property{
		ID:          "C01",
		Explanation: "Static decision of the cursor discipline that makes match-and-rewind lossless: (R1) every ConnMatcher.Match invocation is bracketed by freeze/unfreeze on all paths (typestate over the SSA CFG); (R2) freeze saves and unfreeze restores exactly the read cursor; (R3) Connection.Read, evaluated over all orderings of (matching, len(buf), offset) by a finite-predicate path evaluator, drains the buffer before the socket, advances the cursor by what was copied, resets only outside matching and never touches the socket while matching; (R4) prefetch appends exactly the bytes the underlying read returned; (R5) no component copies a Connection by value or constructs one outside the two constructors, Wrap never hands unread bytes to the new connection, and every Wrap argument reads through the receiver; (R6) the router adopts the connection handed on by a non-terminal route; (R7) every handler passes on the connection it got, or Wrap of a conn built on it; (R8) the value delivered to the consumer of a wrapped listener reads through the layer4 connection. Wrap arguments must be built on the receiver itself, not on what its fields hold (its underlying Conn).",
		NotDecided:  "Equality of the delivered stream with the sent stream for all streams and segmentations (conjunction of these rules plus the semantics of tls.Conn, bufio, io.TeeReader, which are trusted); buffer growth arithmetic beyond R4; handlers outside this module.",
		Run:         runC01,
	})
}

func connPtr(c *Ctx) types.Type {
	n := c.namedType("layer4", "Connection")
	if n == nil {
		return nil
	}
	return types.NewPointer(n)
}

func isConnPtr(t types.Type) bool {
	p, ok := t.(*types.Pointer)
	return ok && namedName(p.Elem()) == connStruct
}

func runC01(c *Ctx, r *Report) {
	c01R1(c, r, "C01.R1")
	c01R2(c, r, "C01.R2")
	c01R3(c, r, "C01.R3")
	c01R4(c, r, "C01.R4")
	c01TeeKeepsPipeOpen(c, r, "C01.R17")
	c09DatagramNotDropped(c, r, "C01.R18") // no byte lost on UDP: a datagram the server loop has taken from the socket reader is queued for its association or explicitly released, on every path
	c01R5(c, r, "C01.R5")
	c09R4(c, r, "C01.R19") // the order of a UDP client's bytes is the order of its datagrams: each is handed to the association's queue by the loop itself, one blocking send in arrival order (not by goroutines that race for the queue)
	c01PrefetchKeepsBytes(c, r, "C01.R20")
	c01R6(c, r, "C01.R6")
	c01R7(c, r, "C01.R7")
	c01R9(c, r, "C01.R9")
	c02R6(c, r, "C01.R11") // handlers behind a nested subroute get this connection's continuation, not one cached from another connection
	c09R7(c, r, "C01.R10") // the UDP virtual connection hands out exactly the datagram's bytes, however it is split into reads
	c08R6(c, r, "C01.R12") // the client's first byte is the first byte of the stream: a new connection's matching buffer starts empty (a recycled slice keeps the length it was returned with)
	c01TeeRead(c, r, "C01.R13")
	c02HandlersCompile(c, r, "C01.R15") // a branch's handlers read the stream in the configured order (the second one behind the first one's wrapping)
	c13R3(c, r, "C01.R16")              // a handed-off connection keeps its matching buffer: the bytes it still has to replay are not recycled under it
	c09R6(c, r, "C01.R14")              // UDP: every queued datagram is its own record and buffer - a burst is delivered datagram by datagram, none read twice or overwritten
	c13R6(c, r, "C01.R8")               // the consumer of a wrapped listener is a "next component" too: what it is handed reads through the layer4 connection
}

// ---------------- R1: match bracket (typestate) ----------------

const (
	tsUnfrozen = 1
	tsFrozen   = 2 // frozen, no matcher has read yet
	tsTop      = 3
	tsDirty    = 4 // frozen, a matcher has already advanced the cursor
)

func tsName(s int) string {
	return map[int]string{0: "unreached", tsUnfrozen: "unfrozen", tsFrozen: "frozen", tsTop: "either (paths disagree)", tsDirty: "frozen but already read by a previous matcher"}[s]
}

func c01R1(c *Ctx, r *Report, rule string) {
	r.rule(rule, "every invocation of ConnMatcher.Match is reached only in state 'frozen' (after (*Connection).freeze on the same connection, with no other matcher invoked since) and every exit of the invoking function is reached in state 'unfrozen'; freeze is never entered when possibly already frozen", 3)
	freezeID, unfreezeID := "layer4.(*Connection).freeze", "layer4.(*Connection).unfreeze"
	for _, fn := range c.Funcs {
		var matchCalls []ssa.CallInstruction
		uses := false
		for _, ci := range callsIn(fn) {
			if isInvoke(ci, "Match") && strings.HasSuffix(typeStr(ci.Common().Value.Type()), "layer4.ConnMatcher") {
				matchCalls = append(matchCalls, ci)
			}
			if id := calleeID(ci); id == freezeID || id == unfreezeID {
				uses = true
			}
		}
		if len(matchCalls) == 0 && !uses {
			continue
		}
		name := fname(fn)
		if name == freezeID || name == unfreezeID {
			continue
		}
		// forward dataflow
		in := map[*ssa.BasicBlock]int{}
		in[fn.Blocks[0]] = tsUnfrozen
		deferredUnfreeze := false
		type viol struct {
			what, pos, detail string
		}
		var viols []viol
		var oks []viol
		changed := true
		iter := 0
		for changed && iter < 50 {
			changed = false
			iter++
			viols, oks = nil, nil
			for _, b := range fn.Blocks {
				st := in[b]
				if st == 0 {
					continue
				}
				for _, ins := range b.Instrs {
					switch x := ins.(type) {
					case *ssa.Defer:
						if calleeID(x) == unfreezeID {
							deferredUnfreeze = true
						}
					case *ssa.RunDefers:
						if deferredUnfreeze {
							st = tsUnfrozen
						}
					case *ssa.Call:
						id := calleeID(x)
						switch {
						case id == freezeID:
							if st != tsUnfrozen {
								viols = append(viols, viol{"freeze", c.ipos(x), "freeze() reached in state " + tsName(st) + ": a second freeze overwrites the saved cursor with the position a previous matcher advanced to (bytes lost for the handler)"})
							} else {
								oks = append(oks, viol{"freeze", c.ipos(x), "reached unfrozen"})
							}
							st = tsFrozen
						case id == unfreezeID:
							if st != tsFrozen && st != tsDirty {
								viols = append(viols, viol{"unfreeze", c.ipos(x), "unfreeze() reached in state " + tsName(st)})
							} else {
								oks = append(oks, viol{"unfreeze", c.ipos(x), "reached frozen"})
							}
							st = tsUnfrozen
						case isInvoke(x, "Match") && strings.HasSuffix(typeStr(x.Common().Value.Type()), "layer4.ConnMatcher"):
							if st != tsFrozen {
								viols = append(viols, viol{"invoke ConnMatcher.Match", c.ipos(x), "matcher invoked in state " + tsName(st) + ": it would read from the socket / consume bytes for good / not start at the first unconsumed byte"})
							} else {
								oks = append(oks, viol{"invoke ConnMatcher.Match", c.ipos(x), "matcher invoked frozen"})
							}
							st = tsDirty
						}
					case *ssa.Return:
						if st != tsUnfrozen {
							viols = append(viols, viol{"return", c.ipos(x), "function returns in state " + tsName(st) + ": the connection stays in matching mode / the cursor is not rewound"})
						} else {
							oks = append(oks, viol{"return", c.ipos(x), "returns unfrozen"})
						}
					}
				}
				for _, s := range b.Succs {
					ns := in[s]
					j := st
					if ns != 0 && ns != st {
						j = tsTop
					}
					if ns != j {
						in[s] = j
						changed = true
					}
				}
			}
		}
		seenK := map[string]int{}
		for _, v := range oks {
			seenK[v.what]++
			r.ok(rule, name, fmt.Sprintf("%s#%d", v.what, seenK[v.what]), v.pos, v.detail)
		}
		seenK = map[string]int{}
		for _, v := range viols {
			seenK[v.what]++
			r.bad(rule, name, fmt.Sprintf("%s!%d", v.what, seenK[v.what]), v.pos, v.detail)
		}
		// freeze/unfreeze/match must be on the same connection value
		var conn ssa.Value
		for _, ci := range callsIn(fn) {
			id := calleeID(ci)
			var v ssa.Value
			if id == freezeID || id == unfreezeID {
				v = ci.Common().Args[0]
			} else if isInvoke(ci, "Match") && strings.HasSuffix(typeStr(ci.Common().Value.Type()), "layer4.ConnMatcher") {
				v = ci.Common().Args[0]
			} else {
				continue
			}
			if conn == nil {
				conn = v
			} else if conn != v {
				r.bad(rule, name, "same-connection", c.ipos(ci), "freeze/unfreeze/Match are applied to different connection values")
			}
		}
	}
	// MatchNot reaches matchers only through MatcherSet.Match
	if fn := c.Fn("layer4.(*MatchNot).Match"); fn != nil {
		okc := false
		for _, ci := range callsIn(fn) {
			if calleeID(ci) == "layer4.(MatcherSet).Match" {
				okc = true
			}
		}
		r.check(okc, rule, fname(fn), "delegates to MatcherSet.Match", c.pos(fn.Pos()), "negated matchers are evaluated through the bracketed MatcherSet.Match", "MatchNot.Match no longer evaluates its sets through MatcherSet.Match")
	}
}

// ---------------- R2: freeze/unfreeze save & restore ----------------

func c01R2(c *Ctx, r *Report, rule string) {
	r.rule(rule, "freeze stores matching=true and frozenOffset := offset (nothing else); unfreeze stores matching=false and offset := frozenOffset (nothing else)", 4)
	type want struct{ fn, field, src string }
	for _, w := range []want{
		{"layer4.(*Connection).freeze", "frozenOffset", "offset"},
		{"layer4.(*Connection).unfreeze", "offset", "frozenOffset"},
	} {
		fn := c.Fn(w.fn)
		if fn == nil {
			r.bad(rule, w.fn, "exists", "-", "function not found")
			continue
		}
		sts := storesToField(fn, connStruct, w.field)
		if len(sts) != 1 {
			r.bad(rule, w.fn, "store "+w.field, c.pos(fn.Pos()), fmt.Sprintf("expected exactly one store to %s, found %d", w.field, len(sts)))
		} else {
			os := origins(sts[0].Val, sliceOpts{})
			good := onlyOrigins(os, func(o Origin) bool { return o.Kind == "field" && o.Desc == connStruct+"."+w.src })
			base, _ := loadOfField(sts[0].Val, connStruct, w.src)
			good = good && base != nil && base == fn.Params[0]
			r.check(good, rule, w.fn, "store "+w.field, c.ipos(sts[0]), w.field+" := "+w.src+" of the receiver", fmt.Sprintf("%s is stored from {%s}, not from the receiver's %s: the cursor is rewound to a wrong position (bytes lost or duplicated)", w.field, originKinds(os), w.src))
		}
		mt := storesToField(fn, connStruct, "matching")
		wantB := w.field == "frozenOffset"
		good := len(mt) == 1
		if good {
			b, ok := constBool(mt[0].Val)
			good = ok && b == wantB
		}
		r.check(good, rule, w.fn, "store matching", c.pos(fn.Pos()), fmt.Sprintf("matching := %v", wantB), fmt.Sprintf("matching is not stored as constant %v exactly once", wantB))
		// no other field stores
		for _, b := range fn.Blocks {
			for _, in := range b.Instrs {
				if st, ok := in.(*ssa.Store); ok {
					if _, sn, f, ok := fieldAddr(st.Addr); ok && sn == connStruct && f != w.field && f != "matching" {
						r.bad(rule, w.fn, "store "+f, c.ipos(st), "unexpected store to Connection."+f+" in "+w.fn)
					}
				}
			}
		}
	}
}

// ---------------- R3: Connection.Read scenario table ----------------

type lenOff struct {
	l, o int64
	name string
}

var readWitnesses = []lenOff{{0, 0, "empty"}, {5, 5, "drained"}, {5, 2, "partly-read"}, {5, 0, "unread"}, {1, 0, "single-unread"}, {1, 1, "single-drained"}, {2, 1, "last-byte"}}

func connReadIsRaw(e Event) bool {
	return e.Kind == "call" && strings.HasPrefix(e.What, "invoke net.Conn.Read") && len(e.Args) > 0 && e.Args[0] == "recv.Conn"
}

func c01R3(c *Ctx, r *Report, rule string) {
	r.rule(rule, "Connection.Read over all orderings of (matching, len(buf), offset, len(p)) with 0<=offset<=len: matching&exhausted -> (0, ErrConsumedAllPrefetchedBytes) without touching the socket; unread bytes -> exactly one copy from buf[offset:] into p, the cursor ends at offset+copied, (copied, nil), no socket read, the buffer is reset (offset 0, length 0) iff not matching and the cursor reached the end; not matching & exhausted -> exactly one Conn.Read(p) returned unchanged", 8)
	fnName := "layer4.(*Connection).Read"
	fn := c.Fn(fnName)
	if fn == nil {
		r.bad(rule, fnName, "exists", "-", "function not found")
		return
	}
	for _, matching := range []bool{true, false} {
		for _, w := range readWitnesses {
			name := fmt.Sprintf("matching=%v,%s(len=%d,off=%d)", matching, w.name, w.l, w.o)
			remaining := w.l - w.o
			lens := []int64{4}
			if remaining > 0 {
				lens = []int64{1, remaining, remaining + 3}
				if remaining == 1 {
					lens = []int64{1, 4}
				}
			}
			var problems []string
			total := 0
			first := ""
			for _, lp := range lens {
				sc := &Scenario{
					Name: name,
					Heap: map[string]SV{
						"recv.matching": symBool(matching),
						"recv.buf":      symSliceCap("recv.buf", w.l, 2048),
						"recv.offset":   symInt(w.o),
					},
					Params: map[string]SV{"recv": symRef("recv", false), "p0": symSlice("p", lp)},
				}
				sc.Call = func(callee string, args []SV, ev *symEval, st *symState) (SV, bool) {
					if callee == "builtin copy" && len(args) == 2 && args[0].Len != nil && args[0].Len.Known && args[1].Len != nil && args[1].Len.Known {
						n := args[0].Len.N
						if args[1].Len.N < n {
							n = args[1].Len.N
						}
						return symInt(n), true
					}
					return SV{}, false
				}
				paths, err := evalPaths(fn, sc)
				if err != nil || len(paths) == 0 {
					problems = append(problems, fmt.Sprintf("undecided: path evaluation failed: %v (%d paths)", err, len(paths)))
					continue
				}
				total += len(paths)
				exhausted := remaining == 0
				for _, p := range paths {
					tr := fmtTrace(p)
					if first == "" {
						first = tr
					}
					if p.Outcome != "return" {
						problems = append(problems, "path does not return normally: "+tr)
						continue
					}
					raw := traceCalls(p, connReadIsRaw)
					cps := traceCalls(p, func(e Event) bool { return e.Kind == "call" && e.What == "builtin copy" })
					for _, e := range p.Trace {
						if e.Kind == "store" && (e.What == "recv.matching" || e.What == "recv.frozenOffset" || e.What == "recv.Conn") {
							problems = append(problems, "Read stores "+e.What+": "+tr)
						}
					}
					off, buf := p.Heap["recv.offset"], p.Heap["recv.buf"]
					offIs := func(n int64) bool { return off.K == "int" && off.Known && off.N == n }
					bufLenIs := func(n int64) bool {
						base, _ := sliceBase(buf.Desc)
						return buf.Len != nil && buf.Len.Known && buf.Len.N == n && base == "recv.buf"
					}
					switch {
					case matching && exhausted:
						if len(raw) > 0 || len(cps) > 0 || !offIs(w.o) || !bufLenIs(w.l) {
							problems = append(problems, "matching with nothing buffered must only report need-more, but: "+tr)
						}
						if len(p.Ret) != 2 || !(p.Ret[0].K == "int" && p.Ret[0].Known && p.Ret[0].N == 0) || !strings.Contains(p.Ret[1].Desc, "ErrConsumedAllPrefetchedBytes") {
							problems = append(problems, "matching with nothing buffered must return (0, ErrConsumedAllPrefetchedBytes), returns ("+p.retDesc()+")")
						}
					case !exhausted:
						if len(raw) > 0 {
							problems = append(problems, "socket read although unread bytes are buffered (reordering): "+tr)
						}
						okCopy := len(cps) == 1 && len(cps[0].Args) == 2 && cps[0].Args[0] == "p"
						if okCopy {
							base, lo := sliceBase(cps[0].Args[1])
							okCopy = base == "recv.buf" && lo == w.o
						}
						if !okCopy {
							problems = append(problems, fmt.Sprintf("expected exactly one copy(p, buf[%d:]): %s", w.o, tr))
							break
						}
						copied := lp
						if remaining < copied {
							copied = remaining
						}
						atEnd := w.o+copied == w.l
						switch {
						case matching || !atEnd:
							if !offIs(w.o+copied) || !bufLenIs(w.l) {
								msg := "the cursor must advance by the number of bytes copied and the buffer must stay"
								if matching {
									msg += " (matching: rewind must remain possible)"
								} else {
									msg += " (unread bytes remain: they would be lost)"
								}
								problems = append(problems, fmt.Sprintf("%s; len(p)=%d: cursor=%s buffer=%s: %s", msg, lp, off.Desc, buf.Desc, tr))
							}
						default:
							if !offIs(0) || !bufLenIs(0) {
								problems = append(problems, fmt.Sprintf("when the cursor reaches the end outside matching the buffer must be reset (offset 0, length 0); len(p)=%d: cursor=%s buffer=%s: %s", lp, off.Desc, buf.Desc, tr))
							}
						}
						if len(p.Ret) != 2 || !(p.Ret[0].K == "int" && p.Ret[0].Known && p.Ret[0].N == copied) || !(p.Ret[1].Known && p.Ret[1].Nil) {
							problems = append(problems, fmt.Sprintf("must return (%d, nil), returns (%s)", copied, p.retDesc()))
						}
					default: // not matching, exhausted
						if len(cps) > 0 || !offIs(w.o) && !offIs(0) {
							problems = append(problems, "nothing buffered: no copy / cursor change expected: "+tr)
						}
						if len(raw) != 1 || len(raw[0].Args) != 2 || raw[0].Args[1] != "p" {
							problems = append(problems, "expected exactly one underlying Conn.Read(p): "+tr)
							break
						}
						if len(p.Ret) != 2 || !strings.HasSuffix(p.Ret[0].Desc, ".0") || !strings.HasSuffix(p.Ret[1].Desc, ".1") || !strings.HasPrefix(p.Ret[0].Desc, "invoke.Read#") {
							problems = append(problems, "result of the underlying read must be returned unchanged, returns ("+p.retDesc()+")")
						}
					}
				}
			}
			if len(problems) == 0 {
				r.ok(rule, fnName, name, c.pos(fn.Pos()), fmt.Sprintf("%d path(s) over len(p) in %v: %s", total, lens, first))
			} else {
				r.bad(rule, fnName, name, c.pos(fn.Pos()), strings.Join(dedup(problems), "\n"))
			}
		}
	}
}

// isSumOf reports whether desc is "(<n> + <prefix>…)" or the commuted form.
func isSumOf(desc string, n int64, prefix string) bool {
	a := fmt.Sprintf("(%d + %s", n, prefix)
	if strings.HasPrefix(desc, a) && strings.HasSuffix(desc, ")") {
		return true
	}
	return strings.HasPrefix(desc, "("+prefix) && strings.HasSuffix(desc, fmt.Sprintf(" + %d)", n))
}

// ---------------- R4: prefetch appends exactly what was read ----------------

func c01R4(c *Ctx, r *Report, rule string) {
	r.rule(rule, "prefetch: each underlying Conn.Read(dst) is followed by buf := buf[:len+n] when dst = buf[len:len+chunk], or buf := append(buf, tmp[:n]...) when dst = tmp, with n that read's count; no other store to buf", 4)
	fnName := "layer4.(*Connection).prefetch"
	fn := c.Fn(fnName)
	if fn == nil {
		r.bad(rule, fnName, "exists", "-", "function not found")
		return
	}
	for _, w := range []struct {
		l, cp int64
		name  string
	}{{0, 2048, "room-in-buffer"}, {2048, 2048, "buffer-full-capacity"}, {0, 0, "no-buffer-yet"}, {100, 120, "little-room"}} {
		sc := &Scenario{
			Name:   fmt.Sprintf("%s(len=%d,cap=%d)", w.name, w.l, w.cp),
			Heap:   map[string]SV{"recv.buf": symSliceCap("recv.buf", w.l, w.cp)},
			Params: map[string]SV{"recv": symRef("recv", false)},
			Assume: map[string]bool{},
		}
		paths, err := evalPaths(fn, sc)
		if err != nil || len(paths) == 0 {
			r.bad(rule, fnName, sc.Name, c.pos(fn.Pos()), fmt.Sprintf("undecided: %v", err))
			continue
		}
		var problems []string
		for _, p := range paths {
			tr := fmtTrace(p)
			raw := traceCalls(p, connReadIsRaw)
			var bufStores []Event
			for _, e := range p.Trace {
				if e.Kind == "store" && e.What == "recv.buf" {
					bufStores = append(bufStores, e)
				}
				if e.Kind == "store" && (e.What == "recv.offset" || e.What == "recv.matching" || e.What == "recv.frozenOffset" || e.What == "recv.Conn") {
					problems = append(problems, "prefetch stores "+e.What+": "+tr)
				}
			}
			for _, e := range p.Trace {
				if e.Kind == "call" && e.What == fnName {
					problems = append(problems, "prefetch calls itself: one prefetch is then more than one read of the connection - after a read that returned everything the client has sent, the second one waits until the matching deadline and its error replaces the bytes already buffered: "+tr)
				}
			}
			if len(raw) != 1 || len(bufStores) != 1 {
				problems = append(problems, fmt.Sprintf("expected one underlying read and one buffer update, got %d/%d: %s", len(raw), len(bufStores), tr))
				continue
			}
			dst := raw[0].Args[1]
			val := bufStores[0].Args[0]
			// find the name of the read result
			n := ""
			for _, rr := range p.Ret {
				_ = rr
			}
			// result names are invoke.Read#k ; locate in val
			if i := strings.Index(val, "invoke.Read#"); i >= 0 {
				j := i
				for j < len(val) && val[j] != '.' || j < i+len("invoke.Read#") {
					j++
				}
				n = val[i:j] + ".0"
			}
			switch {
			case dst == fmt.Sprintf("recv.buf[%d:%d]", w.l, w.l+2048):
				want := fmt.Sprintf("recv.buf[:(%d + %s)]", w.l, n)
				if n == "" || val != want {
					problems = append(problems, "after reading into the buffer's spare capacity buf must grow by exactly the count read ("+want+"), got "+val)
				}
			case strings.Contains(dst, "[:2048]"):
				want := fmt.Sprintf("append(recv.buf, %s)", strings.TrimSuffix(dst, "[:2048]")+"[:2048][:"+n+"]")
				if n == "" || val != want {
					problems = append(problems, "after reading into a temporary chunk exactly tmp[:n] must be appended ("+want+"), got "+val)
				}
			default:
				problems = append(problems, "unexpected destination of the underlying read: "+dst)
			}
		}
		if len(problems) == 0 {
			r.ok(rule, fnName, sc.Name, c.pos(fn.Pos()), fmtTrace(paths[0]))
		} else {
			r.bad(rule, fnName, sc.Name, c.pos(fn.Pos()), strings.Join(problems, "\n"))
		}
	}
}

// ---------------- R5: single owner of the unread bytes ----------------

func c01R5(c *Ctx, r *Report, rule string) {
	r.rule(rule, "(a) a layer4.Connection is never copied by value and is constructed only in WrapConnection and Wrap; (b) Wrap gives the new connection no unread bytes (buffer only when drained, with length 0; cursor 0); (c) every argument of Wrap reads through the receiver", 6)
	// (a)
	ctors := map[string]bool{"layer4.WrapConnection": true, "layer4.(*Connection).Wrap": true}
	nCopies := 0
	for _, fn := range c.Funcs {
		name := fname(fn)
		for _, b := range fn.Blocks {
			for _, in := range b.Instrs {
				switch x := in.(type) {
				case *ssa.Alloc:
					if namedName(deref(x.Type())) == connStruct && !ctors[name] {
						nCopies++
						r.bad(rule, name, "constructs-or-copies Connection", c.ipos(x), "a layer4.Connection value is created outside WrapConnection/Wrap: a struct copy duplicates the unread buffer while both copies read on; a literal has no buffer at all (bytes lost)")
					}
				case *ssa.UnOp:
					if x.Op == token.MUL && namedName(x.Type()) == connStruct {
						nCopies++
						r.bad(rule, name, "copies Connection by value", c.ipos(x), "*Connection is dereferenced into a value copy: the copy carries its own buffer/cursor while its Conn reads through the original (bytes duplicated)")
					}
				}
			}
		}
	}
	for n := range ctors {
		fn := c.Fn(n)
		r.check(fn != nil, rule, n, "constructor present", "-", "constructor analysed", "constructor not found")
	}
	if nCopies == 0 {
		r.ok(rule, "module", "no by-value Connection", "-", fmt.Sprintf("%d functions scanned, no Connection value copy or foreign construction", len(c.Funcs)))
	}
	// (b) Wrap scenario table
	wrapName := "layer4.(*Connection).Wrap"
	if fn := c.Fn(wrapName); fn != nil {
		for _, matching := range []bool{false} {
			for _, w := range readWitnesses {
				sc := &Scenario{
					Name:   fmt.Sprintf("Wrap:%s(len=%d,off=%d)", w.name, w.l, w.o),
					Heap:   map[string]SV{"recv.matching": symBool(matching), "recv.buf": symSliceCap("recv.buf", w.l, 2048), "recv.offset": symInt(w.o)},
					Params: map[string]SV{"recv": symRef("recv", false), "p0": symRef("conn", false)},
					Call: func(callee string, args []SV, ev *symEval, st *symState) (SV, bool) {
						if strings.HasPrefix(callee, "(*sync/atomic.") {
							return symOpaque("atomic"), true
						}
						return SV{}, false
					},
				}
				paths, err := evalPaths(fn, sc)
				if err != nil || len(paths) == 0 {
					r.bad(rule, wrapName, sc.Name, c.pos(fn.Pos()), fmt.Sprintf("undecided: %v", err))
					continue
				}
				var problems []string
				for _, p := range paths {
					connStored := false
					for _, e := range p.Trace {
						if e.Kind != "store" {
							continue
						}
						if strings.HasPrefix(e.What, "recv.") {
							problems = append(problems, "Wrap modifies the receiver ("+e.What+")")
						}
						if strings.HasSuffix(e.What, ".Conn") && e.Args[0] == "conn" {
							connStored = true
						}
						if strings.HasSuffix(e.What, ".buf") && strings.HasPrefix(e.What, "new ") {
							hv := p.Heap[e.What]
							empty := hv.Len != nil && hv.Len.Known && hv.Len.N == 0 // nil or a zero-length slice: no bytes handed on
							shares := false
							if base, _ := sliceBase(hv.Desc); base == "recv.buf" && !(hv.Known && hv.Nil) {
								shares = true
							}
							if w.l != w.o && !empty {
								problems = append(problems, "the new connection receives the buffer ("+e.Args[0]+") although "+fmt.Sprint(w.l-w.o)+" byte(s) are still unread in the receiver, which the wrapped conn also reads through: bytes delivered twice")
							} else if w.l != w.o && shares {
								problems = append(problems, "the new connection shares the storage of the receiver's buffer ("+e.Args[0]+") while "+fmt.Sprint(w.l-w.o)+" byte(s) in it are still unread: its next prefetch overwrites them")
							} else if !empty {
								problems = append(problems, "a drained buffer may be reused only with length 0, got "+e.Args[0])
							}
						}
						if strings.HasSuffix(e.What, ".offset") && strings.HasPrefix(e.What, "new ") && e.Args[0] != "0" {
							problems = append(problems, "the new connection's cursor is set to "+e.Args[0])
						}
					}
					if !connStored {
						problems = append(problems, "the new connection's Conn is not the argument")
					}
					if len(p.Ret) != 1 || !strings.HasPrefix(p.Ret[0].Desc, "new layer4.Connection") {
						problems = append(problems, "Wrap does not return the new connection: "+p.retDesc())
					}
				}
				if len(problems) == 0 {
					r.ok(rule, wrapName, sc.Name, c.pos(fn.Pos()), fmtTrace(paths[0]))
				} else {
					r.bad(rule, wrapName, sc.Name, c.pos(fn.Pos()), strings.Join(dedup(problems), "\n"))
				}
			}
		}
	}
	// (c) Wrap call sites
	for _, fn := range c.Funcs {
		n := 0
		for _, ci := range callsIn(fn) {
			if calleeID(ci) != wrapName {
				continue
			}
			n++
			recv, arg := ci.Common().Args[0], ci.Common().Args[1]
			// built on the receiver itself, not on the receiver's underlying Conn (which bypasses the receiver's buffer)
			underlying := func(v ssa.Value) bool {
				ld, ok := v.(*ssa.UnOp)
				if !ok || ld.Op != token.MUL {
					return false
				}
				_, sn, f, ok := fieldAddr(ld.X)
				_ = f
				return ok && sn == "layer4.Connection" // what a field of the receiver holds (its socket, its context) is not the receiver
			}
			ok := c.builtOn(fn, arg, rootOf(recv), underlying, 0)
			r.check(ok, rule, fname(fn), fmt.Sprintf("Wrap-arg#%d", n), c.ipos(ci), "the wrapped conn is built on the receiver (reads through it)", "the conn passed to Wrap is not built on the receiver connection itself (it is built on something else, or only on what the receiver's fields hold, e.g. its underlying Conn): the receiver's buffered bytes would be skipped")
		}
	}
}

func dedup(s []string) []string {
	seen := map[string]bool{}
	var out []string
	for _, x := range s {
		if !seen[x] {
			seen[x] = true
			out = append(out, x)
		}
	}
	return out
}

// rootOf follows loads of local cells back to a parameter when unambiguous.
func rootOf(v ssa.Value) ssa.Value {
	for i := 0; i < 10; i++ {
		u, ok := v.(*ssa.UnOp)
		if !ok || u.Op != token.MUL {
			return v
		}
		a, ok := u.X.(*ssa.Alloc)
		if !ok {
			return v
		}
		sts := storesToDeep(a)
		if len(sts) != 1 {
			return v
		}
		v = sts[0]
	}
	return v
}

// ---------------- R6: router adopts the wrapped connection ----------------

func c01R6(c *Ctx, r *Report, rule string) {
	r.rule(rule, "the connection the router works on (exploration of the compiled route handler, 1..2 routes, every outcome of matchers/prefetch/handlers, a non-terminal route handing on the same or a wrapped connection): every SetReadDeadline, prefetch, AnyMatch, handler chain and the fallback uses the connection handed on by the last non-terminal route; the adoption of a wrapped connection is exercised", 3)
	name := "layer4.(RouteList).Compile$1"
	adopted := 0
	for n := 1; n <= 2; n++ {
		paths, err := exploreRouter(c, n, 2)
		if err != nil || len(paths) == 0 {
			r.bad(rule, name, fmt.Sprintf("routes=%d connection identity", n), "-", fmt.Sprintf("undecided: %v", err))
			continue
		}
		var problems []string
		for _, p := range paths {
			for _, b := range routerInvariants(p, n, "routing") {
				if strings.Contains(b, "uses connection") || strings.HasPrefix(b, "model:") {
					problems = append(problems, b+"   on path: "+p.String())
				}
			}
			wrappedAt := -1
			for i, s := range p.Steps {
				if s.Kind == "chain" && strings.HasPrefix(s.Note, "nonterminal-wrapped:") {
					wrappedAt = i
				}
				if wrappedAt >= 0 && i > wrappedAt && s.Conn != "" && strings.Contains(p.Steps[wrappedAt].Note, s.Conn) {
					adopted++
					wrappedAt = -1
				}
			}
		}
		if len(problems) > 3 {
			problems = append(problems[:3], fmt.Sprintf("... %d more", len(problems)-3))
		}
		r.check(len(problems) == 0, rule, name, fmt.Sprintf("routes=%d connection identity", n), "-", fmt.Sprintf("%d paths", len(paths)), "a connection other than the one handed on by the last non-terminal route is used (after e.g. a tls route the next route would match and relay ciphertext): "+strings.Join(problems, "\n"))
	}
	r.check(adopted > 0, rule, name, "adoption exercised", "-", fmt.Sprintf("%d later steps run on a wrapped connection handed on by a route", adopted), "no explored path uses a wrapped connection after a route handed it on: the router's last handler does not adopt it")
}

// ---------------- R7: handlers hand on a connection that reads through the one they got ----------------

func c01R7(c *Ctx, r *Report, rule string) {
	r.rule(rule, "every NextHandler.Handle of the module passes to next.Handle its own connection parameter or Wrap(conn) of it; once it has built a net.Conn on top of its connection (tls.Server, proxyprotocol.NewConn, …) and that conn is not nil, it must pass on Wrap of that conn", 6)
	nh := c.iface("layer4", "NextHandler")
	if nh == nil {
		r.bad(rule, "layer4.NextHandler", "exists", "-", "interface not found")
		return
	}
	netConn := netConnIface(c)
	// the handlers, and the unexported helpers a handler hands both its connection and its next handler to
	type hfn struct {
		fn       *ssa.Function
		cx, next *ssa.Parameter
	}
	var todo []hfn
	isHandlerT := func(t types.Type) bool {
		return strings.HasSuffix(typeStr(t), "layer4.Handler")
	}
	for _, fn := range c.implementors(nh, "Handle") {
		if len(fn.Params) >= 3 && len(fn.Blocks) > 0 {
			todo = append(todo, hfn{fn, fn.Params[1], fn.Params[2]})
		}
	}
	seenFn := map[*ssa.Function]bool{}
	for _, h := range todo {
		seenFn[h.fn] = true
	}
	for i := 0; i < len(todo); i++ {
		for _, ci := range callsIn(todo[i].fn) {
			cal := ci.Common().StaticCallee()
			if cal == nil || seenFn[cal] || len(cal.Blocks) == 0 || cal.Pkg == nil || !strings.HasPrefix(cal.Pkg.Pkg.Path(), modPath) {
				continue
			}
			var pcx, pnext *ssa.Parameter
			for k, a := range ci.Common().Args {
				if k >= len(cal.Params) {
					break
				}
				if a == ssa.Value(todo[i].cx) && isConnPtr(cal.Params[k].Type()) {
					pcx = cal.Params[k]
				}
				if a == ssa.Value(todo[i].next) && isHandlerT(cal.Params[k].Type()) {
					pnext = cal.Params[k]
				}
			}
			if pcx != nil && pnext != nil {
				seenFn[cal] = true
				todo = append(todo, hfn{cal, pcx, pnext})
			}
		}
	}
	for _, h := range todo {
		fn := h.fn
		name := fname(fn)
		cx := h.cx
		next := h.next
		// wrapper-creating calls: result implements net.Conn and an argument derives from cx; a net.Conn handed
		// in as a parameter next to cx (a helper of a handler) is such a wrapper too
		var wrappers []ssa.Value
		for _, pp := range fn.Params {
			if pp != cx && pp != fn.Params[0] && netConn != nil && types.Implements(pp.Type(), netConn) && !isConnPtr(pp.Type()) {
				wrappers = append(wrappers, pp)
			}
		}
		for _, ci := range callsIn(fn) {
			call, ok := ci.(*ssa.Call)
			if !ok || calleeID(ci) == "layer4.(*Connection).Wrap" {
				continue
			}
			if netConn == nil || !types.Implements(call.Type(), netConn) || isConnPtr(call.Type()) {
				continue
			}
			for _, a := range call.Call.Args {
				if derivesFrom(a, cx) {
					wrappers = append(wrappers, call)
					break
				}
			}
		}
		k := 0
		for _, ci := range callsIn(fn) {
			cc := ci.Common()
			if !(cc.IsInvoke() && cc.Method.Name() == "Handle" && rootOf(cc.Value) == ssa.Value(next)) {
				continue
			}
			k++
			arg := cc.Args[0]
			kk := fmt.Sprintf("next.Handle#%d", k)
			root := rootOf(arg)
			var wrapCall *ssa.Call
			if call, ok := root.(*ssa.Call); ok && calleeID(call) == "layer4.(*Connection).Wrap" {
				wrapCall = call
			}
			// which wrappers are live (possibly non-nil) here?
			var live []ssa.Value
			for _, w := range wrappers {
				if wi, isInstr := w.(ssa.Instruction); isInstr && !canReach(wi, ci) {
					continue
				}
				if knownNil(ci.Block(), w, true) {
					continue
				}
				live = append(live, w)
			}
			switch {
			case wrapCall != nil:
				recvOK := rootOf(wrapCall.Call.Args[0]) == ssa.Value(cx)
				argOK := true
				for _, w := range live {
					if !derivesFrom(wrapCall.Call.Args[1], w) {
						// a wrapper built by a constructor helper for ANOTHER Wrap of this function (the tee's branch
						// connection next to the one handed on) is used, not passed over
						usedElsewhere := false
						for _, cj := range callsIn(fn) {
							if oc, isCall := cj.(*ssa.Call); isCall && oc != wrapCall && calleeID(oc) == "layer4.(*Connection).Wrap" && len(oc.Call.Args) >= 2 && derivesFrom(oc.Call.Args[1], w) {
								usedElsewhere = true
							}
						}
						if !usedElsewhere {
							argOK = false
						}
					}
				}
				r.check(recvOK && argOK, rule, name, kk, c.ipos(ci), "passes on cx.Wrap(conn built on cx)", "passes on a Wrap that is not Wrap of the conn built on the handler's own connection")
			case root == ssa.Value(cx):
				if len(live) > 0 {
					r.bad(rule, name, kk, c.ipos(ci), "the handler built "+typeStr(live[0].Type())+" on top of its connection ("+live[0].Name()+") but passes the plain connection on: later handlers read the raw stream (e.g. ciphertext / the PROXY header is not stripped)")
				} else {
					r.ok(rule, name, kk, c.ipos(ci), "passes its own connection on")
				}
			default:
				// a helper of the module that is given the handler's connection and returns the connection(s) to
				// pass on: every value it returns in that position is its parameter or Wrap on its parameter
				if okHelper, why := c.wrapHelperResult(root, cx); okHelper && len(live) == 0 {
					r.ok(rule, name, kk, c.ipos(ci), "passes on "+why)
					break
				}
				r.bad(rule, name, kk, c.ipos(ci), "passes on a connection that is neither its parameter nor Wrap of a conn built on it (origins: "+originKinds(origins(arg, sliceOpts{}))+")")
			}
		}
	}
}

// wrapHelperResult: v is (a component of) the result of a module helper that received cx; every value the helper
// returns in that position is its own connection parameter or Wrap called on it.
func (c *Ctx) wrapHelperResult(v ssa.Value, cx ssa.Value) (bool, string) {
	idx := 0
	if ex, ok := v.(*ssa.Extract); ok {
		idx = ex.Index
		v = ex.Tuple
	}
	call, ok := v.(*ssa.Call)
	if !ok {
		return false, ""
	}
	g := call.Call.StaticCallee()
	if g == nil || g.Pkg == nil || !strings.HasPrefix(g.Pkg.Pkg.Path(), modPath) || len(g.Blocks) == 0 {
		return false, ""
	}
	var par *ssa.Parameter
	for k, a := range call.Call.Args {
		if k < len(g.Params) && rootOf(a) == cx && isConnPtr(g.Params[k].Type()) {
			par = g.Params[k]
		}
	}
	if par == nil {
		return false, ""
	}
	rets := returnsOf(g)
	if len(rets) == 0 {
		return false, ""
	}
	for _, ret := range rets {
		if idx >= len(ret.Results) {
			return false, ""
		}
		root := rootOf(ret.Results[idx])
		if root == ssa.Value(par) {
			continue
		}
		w, isCall := root.(*ssa.Call)
		if !isCall || calleeID(w) != "layer4.(*Connection).Wrap" || rootOf(w.Call.Args[0]) != ssa.Value(par) {
			return false, ""
		}
	}
	return true, "what " + fname(g) + " returns: Wrap on the connection it was given"
}

func netConnIface(c *Ctx) *types.Interface {
	for _, p := range c.Pkgs {
		for _, imp := range p.Imports {
			if imp.PkgPath == "net" {
				if o := imp.Types.Scope().Lookup("Conn"); o != nil {
					i, _ := o.Type().Underlying().(*types.Interface)
					return i
				}
			}
		}
	}
	return nil
}

// builtOn: v derives from src without looking through what src's fields hold; when both come into an unexported
// helper as parameters, the question is asked at every call site of the helper.
func (c *Ctx) builtOn(fn *ssa.Function, v, src ssa.Value, avoid func(ssa.Value) bool, depth int) bool {
	if derivesFromAvoiding(v, src, avoid) {
		return true
	}
	sp, ok := src.(*ssa.Parameter)
	if !ok || depth > 2 || token.IsExported(fn.Name()) {
		return false
	}
	sites, escapes := c.callSitesOf(fn)
	si := paramIndex(fn, sp)
	if escapes || len(sites) == 0 || si < 0 {
		return false
	}
	for qi, q := range fn.Params {
		if q == sp || !derivesFromAvoiding(v, q, avoid) {
			continue
		}
		all := true
		for _, cs := range sites {
			args := cs.Common().Args
			if qi >= len(args) || si >= len(args) || !c.builtOn(cs.Parent(), args[qi], rootOf(args[si]), avoid, depth+1) {
				all = false
			}
		}
		if all {
			return true
		}
	}
	return false
}

// c01R9: a tap on the stream (io.TeeReader) placed by a handler reads from the layer4 connection itself, not from
// what the connection's fields hold: below the matching buffer the tap misses every byte that was prefetched for
// matching and is replayed from the buffer.
func c01R9(c *Ctx, r *Report, rule string) {
	r.rule(rule, "every io.TeeReader in a function that has a *layer4.Connection parameter takes its source from that connection itself (or a reader built on it), never from the connection's underlying Conn", 2)
	for _, fn := range c.Funcs {
		if len(fn.Blocks) == 0 {
			continue
		}
		var conns []*ssa.Parameter
		root := fn
		for root.Parent() != nil {
			root = root.Parent()
		}
		for _, p := range root.Params {
			if isConnPtr(p.Type()) {
				conns = append(conns, p)
			}
		}
		underlyingF := func(v ssa.Value) bool {
			ld, ok := v.(*ssa.UnOp)
			if !ok || ld.Op != token.MUL {
				return false
			}
			_, sn, _, ok := fieldAddr(ld.X)
			return ok && sn == "layer4.Connection"
		}
		if len(conns) == 0 {
			// a constructor helper of a wrapper (newNextConn(conn, pw)): the source is one of its parameters, and
			// every call site lies in a function with a connection parameter and passes that connection (or a reader
			// built on it)
			sites, escapes := c.callSitesOf(fn)
			if fn.Parent() != nil || escapes || len(sites) == 0 || fn.Pkg == nil || !strings.HasPrefix(fn.Pkg.Pkg.Path(), modPath) {
				continue
			}
			m := 0
			for _, ci := range callsIn(fn) {
				if calleeID(ci) != "io.TeeReader" {
					continue
				}
				m++
				src := ci.Common().Args[0]
				if mi, ok := src.(*ssa.MakeInterface); ok {
					src = mi.X
				}
				if ci2, ok := src.(*ssa.ChangeInterface); ok {
					src = ci2.X
				}
				pr, isParam := src.(*ssa.Parameter)
				k := -1
				if isParam {
					k = paramIndex(fn, pr)
				}
				good := k >= 0
				for _, site := range sites {
					caller := site.Parent()
					rootC := caller
					for rootC.Parent() != nil {
						rootC = rootC.Parent()
					}
					siteOK := false
					if k >= 0 && k < len(site.Common().Args) {
						for _, cp := range rootC.Params {
							if isConnPtr(cp.Type()) && c.builtOn(caller, site.Common().Args[k], cp, underlyingF, 0) {
								siteOK = true
							}
						}
					}
					good = good && siteOK
				}
				r.check(good, rule, fname(fn), fmt.Sprintf("TeeReader#%d source", m), c.ipos(ci), fmt.Sprintf("taps the connection itself at all %d call site(s) of this helper", len(sites)), "the tee reads from something other than the layer4 connection itself (e.g. its underlying Conn): bytes prefetched during matching are replayed from the buffer above the tap and never reach the tee's writer - the branch/upstream misses the start of the stream")
			}
			continue
		}
		n := 0
		for _, ci := range callsIn(fn) {
			if calleeID(ci) != "io.TeeReader" {
				continue
			}
			n++
			src := ci.Common().Args[0]
			underlying := func(v ssa.Value) bool {
				ld, ok := v.(*ssa.UnOp)
				if !ok || ld.Op != token.MUL {
					return false
				}
				_, sn, _, ok := fieldAddr(ld.X)
				return ok && sn == "layer4.Connection"
			}
			good := false
			for _, cp := range conns {
				if c.builtOn(fn, src, cp, underlying, 0) {
					good = true
				}
			}
			r.check(good, rule, fname(fn), fmt.Sprintf("TeeReader#%d source", n), c.ipos(ci), "taps the connection itself", "the tee reads from something other than the layer4 connection itself (e.g. its underlying Conn): bytes prefetched during matching are replayed from the buffer above the tap and never reach the tee's writer - the branch/upstream misses the start of the stream")
		}
	}
}
