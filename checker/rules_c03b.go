package main

import (
	"fmt"
	"go/types"
	"sort"
	"strings"

	"golang.org/x/tools/go/ssa"
)

// c03HalfCloser: which connection gets the half-close on behalf of the client's connection. halfCloser is evaluated
// on chains of concrete connection types: the FIRST connection of the chain that offers CloseWrite is the one to
// use - a TLS connection must be shut down by its own CloseWrite (close_notify), not by a FIN on the socket under
// it - and wrappers that do not offer it are looked through (layer4.Connection, proxyprotocol.Conn, NetConn()).
func c03HalfCloser(c *Ctx, r *Report, rule string) {
	r.rule(rule, "halfCloser, evaluated on chains of concrete connection types (tls over tcp; layer4.Connection over tls / over tcp; a NetConn() wrapper over tcp; udp): returns the first connection of the chain that offers CloseWrite, none for a chain without one", 5)
	fnName := "modules/l4proxy.halfCloser"
	fn := c.Fn(fnName)
	if fn == nil {
		r.bad(rule, fnName, "exists", "-", "function not found")
		return
	}
	typ := func(pkg, name string) types.Type {
		if p := c.Prog.ImportedPackage(pkg); p != nil {
			if t := p.Type(name); t != nil {
				return types.NewPointer(t.Type())
			}
		}
		return nil
	}
	tlsT, tcpT, udpT := typ("crypto/tls", "Conn"), typ("net", "TCPConn"), typ("net", "UDPConn")
	cxT := typ(modPath+"/layer4", "Connection")
	if tlsT == nil || tcpT == nil || udpT == nil || cxT == nil {
		r.bad(rule, fnName, "types", c.pos(fn.Pos()), "undecided: crypto/tls.Conn, net.TCPConn, net.UDPConn or layer4.Connection not found")
		return
	}
	// a wrapper of the module that offers NetConn() but not CloseWrite
	var netConnWrapper types.Type
	for _, p := range c.Pkgs {
		sc := p.Types.Scope()
		for _, n := range sc.Names() {
			tn, ok := sc.Lookup(n).(*types.TypeName)
			if !ok {
				continue
			}
			for _, t := range []types.Type{tn.Type(), types.NewPointer(tn.Type())} {
				ms := types.NewMethodSet(t)
				if ms.Lookup(nil, "NetConn") != nil && ms.Lookup(nil, "CloseWrite") == nil && ms.Lookup(nil, "Read") != nil && netConnWrapper == nil && !strings.HasSuffix(typeStr(t), "layer4.Connection") {
					netConnWrapper = t
				}
			}
		}
	}
	ref := func(desc string, t types.Type) SV {
		return SV{K: "ref", Known: true, Desc: desc, DynT: t, Dyn: typeStr(t)}
	}
	type chain struct {
		name string
		top  SV
		heap map[string]SV
		want string // description of the connection expected, "" = none
	}
	chains := []chain{
		{"tls over tcp", ref("tlsconn", tlsT), map[string]SV{"inner:tlsconn": ref("tcp", tcpT)}, "tlsconn"},
		{"tcp", ref("tcp", tcpT), nil, "tcp"},
		{"udp", ref("udp", udpT), nil, ""},
		{"layer4.Connection over tls over tcp", ref("cx", cxT), map[string]SV{"cx.Conn": ref("tlsconn", tlsT), "inner:tlsconn": ref("tcp", tcpT)}, "tlsconn"},
		{"layer4.Connection over tcp", ref("cx", cxT), map[string]SV{"cx.Conn": ref("tcp", tcpT)}, "tcp"},
		{"layer4.Connection over udp", ref("cx", cxT), map[string]SV{"cx.Conn": ref("udp", udpT)}, ""},
	}
	if netConnWrapper != nil {
		chains = append(chains, chain{"NetConn() wrapper (" + typeStr(netConnWrapper) + ") over tcp", ref("wrapper", netConnWrapper), map[string]SV{"inner:wrapper": ref("tcp", tcpT)}, "tcp"},
			chain{"NetConn() wrapper over tls over tcp", ref("wrapper", netConnWrapper), map[string]SV{"inner:wrapper": ref("tlsconn", tlsT), "inner:tlsconn": ref("tcp", tcpT)}, "tlsconn"})
	}
	// every concrete type a handler of the module puts around the client's connection (the argument of
	// Connection.Wrap) and that does not offer CloseWrite itself must be looked through: over a TCP socket the
	// half-close still has to reach the socket (a wrapper halfCloser does not know ends the search with "none", and
	// the client never sees the end of the upstream's stream while that handler is in front)
	wrapped := map[string]types.Type{}
	for _, f := range c.Funcs {
		for _, ci := range callsIn(f) {
			callee := ci.Common().StaticCallee()
			if callee == nil || fname(callee) != "layer4.(*Connection).Wrap" || len(ci.Common().Args) < 2 {
				continue
			}
			for _, t := range ifaceDynTypes(ci.Common().Args[1], map[ssa.Value]bool{}) {
				wrapped[typeStr(t)] = t
			}
		}
	}
	var wnames []string
	for n := range wrapped {
		wnames = append(wnames, n)
	}
	sort.Strings(wnames)
	nWrapped := 0
	for _, n := range wnames {
		t := wrapped[n]
		if types.NewMethodSet(t).Lookup(nil, "CloseWrite") != nil {
			continue // covered by the chains above (tls) / the first connection that offers it
		}
		nWrapped++
		want := "tcp"
		if n == "modules/l4tee.teeConn" {
			// the one exception, by name: the wrapper of a tee BRANCH. The client's half-close belongs to the main
			// chain's relay, so through this type nothing may be reached (the tee-branch rule of this property
			// demands the same of the type's method set)
			want = ""
		}
		chains = append(chains, chain{"wrapped by a handler: " + n + " over tcp", ref("wrapped", t), map[string]SV{"inner:wrapped": ref("tcp", tcpT), "wrapped.Conn": ref("tcp", tcpT)}, want})
	}
	r.check(nWrapped >= 1, rule, fnName, "wrapper types found", c.pos(fn.Pos()), fmt.Sprintf("%d concrete type(s) without CloseWrite reach Connection.Wrap: %s", nWrapped, strings.Join(wnames, ", ")), "undecided: no concrete type reaching Connection.Wrap was found (the handlers' wrapping was moved?)")
	for _, ch := range chains {
		sc := &Scenario{Name: ch.name, MaxVisit: 8, Params: map[string]SV{"p0": ch.top}, Heap: map[string]SV{}}
		for k, v := range ch.heap {
			sc.Heap[k] = v
		}
		sc.Call = func(callee string, args []SV, ev *symEval, st *symState) (SV, bool) {
			if strings.HasSuffix(callee, ".NetConn") && len(args) == 1 {
				if v, ok := st.heap["inner:"+args[0].Desc]; ok {
					return v, true
				}
				return symNil(), true
			}
			return SV{}, false
		}
		paths, err := evalPaths(fn, sc)
		if err != nil || len(paths) == 0 {
			r.bad(rule, fnName, ch.name, c.pos(fn.Pos()), fmt.Sprintf("undecided: %v", err))
			continue
		}
		var problems []string
		for _, p := range paths {
			if p.Outcome != "return" || len(p.Ret) != 2 {
				problems = append(problems, "undecided path: "+p.Outcome)
				continue
			}
			got := ""
			if p.Ret[1].Known && p.Ret[1].B {
				got = p.Ret[0].Desc
			} else if !p.Ret[1].Known {
				problems = append(problems, "undecided: "+p.Ret[1].Desc)
				continue
			}
			if got != ch.want {
				w := ch.want
				if w == "" {
					w = "none"
				}
				g := got
				if g == "" {
					g = "none"
				}
				problems = append(problems, fmt.Sprintf("the half-close goes to %s, the first connection of the chain that offers CloseWrite is %s (a TLS stream must end with its own close_notify, a socket under a wrapper must still see the FIN)", g, w))
			}
		}
		r.check(len(problems) == 0, rule, fnName, ch.name, c.pos(fn.Pos()), fmt.Sprintf("%d path(s)", len(paths)), strings.Join(dedup(problems), "; "))
	}
}

// c03TeeBranch: a tee branch runs concurrently with the main chain over the same client connection. The half-close
// of the client belongs to the main chain's relay ("when one side finishes, its peer gets the half-close; the other
// direction keeps flowing"): a proxy in the branch that finishes first must not be able to shut down the client's
// write side while the main relay still writes to it. halfCloser reaches the socket through CloseWrite itself or
// through NetConn(), so the wrapper type the branch is given must offer neither; the wrapper the next handler is
// given must still offer one of them (C03.R9 evaluates halfCloser on it).
func c03TeeBranch(c *Ctx, r *Report, rule string) {
	r.rule(rule, "tee: the connection handed to the concurrently running branch is wrapped in a type that offers neither CloseWrite nor NetConn() (a relay in the branch cannot half-close the client under the main chain's relay); the connection handed to the next handler is wrapped in one that does", 2)
	fnName := "modules/l4tee.(*Handler).Handle"
	fn := c.Fn(fnName)
	if fn == nil {
		r.bad(rule, fnName, "exists", "-", "function not found")
		return
	}
	// the dynamic types wrapped by cx.Wrap(...) in Handle, its closures and helpers of the package that build the
	// connections for it (a helper's result is followed into its return statements)
	var wrappedD func(v ssa.Value, depth int) []types.Type
	wrappedD = func(v ssa.Value, depth int) []types.Type {
		var out []types.Type
		if depth > 3 {
			return nil
		}
		idx := 0
		var viaCall *ssa.Call
		switch x := v.(type) {
		case *ssa.Extract:
			if cl, ok := x.Tuple.(*ssa.Call); ok {
				viaCall, idx = cl, x.Index
			}
		case *ssa.Call:
			viaCall = x
		}
		if viaCall != nil && calleeID(viaCall) != "layer4.(*Connection).Wrap" {
			if callee := viaCall.Call.StaticCallee(); callee != nil && callee.Pkg == fn.Pkg && len(callee.Blocks) > 0 {
				for _, ret := range returnsOf(callee) {
					if idx < len(ret.Results) {
						out = append(out, wrappedD(ret.Results[idx], depth+1)...)
					}
				}
				return out
			}
		}
		for _, o := range origins(v, sliceOpts{}) {
			call, ok := o.V.(*ssa.Call)
			if !ok {
				continue
			}
			if calleeID(call) != "layer4.(*Connection).Wrap" || len(call.Call.Args) < 2 {
				if call != viaCall && o.V != v {
					out = append(out, wrappedD(call, depth+1)...)
				}
				continue
			}
			if mi, ok := call.Call.Args[1].(*ssa.MakeInterface); ok {
				out = append(out, mi.X.Type())
			} else {
				out = append(out, nil)
			}
		}
		return out
	}
	wrapped := func(v ssa.Value) []types.Type { return wrappedD(v, 0) }
	offers := func(t types.Type) []string {
		var has []string
		for _, tt := range []types.Type{t, types.NewPointer(t)} {
			ms := c.Prog.MethodSets.MethodSet(tt)
			for _, m := range []string{"CloseWrite", "NetConn"} {
				if ms.Lookup(nil, m) != nil {
					has = append(has, m)
				}
			}
		}
		return dedup(has)
	}
	nBranch, nNext := 0, 0
	var visit func(f *ssa.Function, inGo bool)
	visit = func(f *ssa.Function, inGo bool) {
		for _, b := range f.Blocks {
			for _, in := range b.Instrs {
				if g, ok := in.(*ssa.Go); ok {
					if mc, isClosure := g.Call.Value.(*ssa.MakeClosure); isClosure {
						visit(mc.Fn.(*ssa.Function), true)
					} else if callee := g.Call.StaticCallee(); callee != nil && callee.Pkg == fn.Pkg && len(callee.Blocks) > 0 {
						// the branch runs as a named function of the package: the connection it hands on is one of its parameters
						for _, ci := range callsIn(callee) {
							cm := ci.Common()
							if !cm.IsInvoke() || cm.Method.Name() != "Handle" || len(cm.Args) == 0 {
								continue
							}
							p, isParam := cm.Args[0].(*ssa.Parameter)
							idx := -1
							if isParam {
								idx = paramIndex(callee, p)
							}
							if idx < 0 || idx >= len(g.Call.Args) {
								r.bad(rule, fnName, "connection of "+c.ipos(ci), c.ipos(ci), "undecided: the connection handed on by the branch function is not one of its parameters")
								continue
							}
							for _, t := range wrapped(g.Call.Args[idx]) {
								if t == nil {
									r.bad(rule, fnName, "connection of "+c.ipos(ci), c.ipos(ci), "undecided: the wrapper's type is not visible at cx.Wrap")
									continue
								}
								has := offers(t)
								nBranch++
								r.check(len(has) == 0, rule, fnName, "branch gets "+typeStr(t), c.ipos(ci), "offers neither CloseWrite nor NetConn()",
									"the wrapper handed to the concurrently running branch offers "+strings.Join(has, " and ")+": a relay in the branch that finishes first half-closes the client's socket while the main chain's relay is still writing to it (the client sees end-of-stream early, the rest of the main upstream's bytes are lost)")
							}
						}
					}
					continue
				}
				ci, ok := in.(ssa.CallInstruction)
				if !ok || !ci.Common().IsInvoke() && !strings.HasSuffix(calleeID(ci), ".Handle") {
					continue
				}
				if ci.Common().Method == nil || ci.Common().Method.Name() != "Handle" && !strings.HasSuffix(calleeID(ci), ".Handle") {
					continue
				}
				if len(ci.Common().Args) == 0 {
					continue
				}
				arg := ci.Common().Args[0]
				ts := wrapped(arg)
				if f != fn {
					// inside a closure the argument is a captured variable
					ts = nil
					for _, o := range origins(arg, sliceOpts{}) {
						if call, ok := o.V.(*ssa.Call); ok && calleeID(call) == "layer4.(*Connection).Wrap" && len(call.Call.Args) >= 2 {
							if mi, ok := call.Call.Args[1].(*ssa.MakeInterface); ok {
								ts = append(ts, mi.X.Type())
							} else {
								ts = append(ts, nil)
							}
						}
					}
				}
				if len(ts) == 0 {
					r.bad(rule, fnName, "connection of "+c.ipos(ci), c.ipos(ci), "undecided: the connection handed on here is not the result of cx.Wrap(<wrapper value>)")
					continue
				}
				for _, t := range ts {
					if t == nil {
						r.bad(rule, fnName, "connection of "+c.ipos(ci), c.ipos(ci), "undecided: the wrapper's type is not visible at cx.Wrap")
						continue
					}
					has := offers(t)
					if inGo {
						nBranch++
						r.check(len(has) == 0, rule, fnName, "branch gets "+typeStr(t), c.ipos(ci), "offers neither CloseWrite nor NetConn()",
							"the wrapper handed to the concurrently running branch offers "+strings.Join(has, " and ")+": a relay in the branch that finishes first half-closes the client's socket while the main chain's relay is still writing to it (the client sees end-of-stream early, the rest of the main upstream's bytes are lost)")
					} else {
						nNext++
						r.check(len(has) > 0, rule, fnName, "next handler gets "+typeStr(t), c.ipos(ci), "offers "+strings.Join(has, " and "),
							"the wrapper handed to the next handler offers neither CloseWrite nor NetConn(): a relay behind the tee cannot half-close the client")
					}
				}
			}
		}
	}
	visit(fn, false)
	if nBranch == 0 || nNext == 0 {
		r.bad(rule, fnName, "instances", c.pos(fn.Pos()), fmt.Sprintf("undecided: %d branch and %d next hand-over(s) found, expected at least one each", nBranch, nNext))
	}
}

// ifaceDynTypes: the concrete types of the values that flow into the interface value v (through phis, interface
// conversions and the cells of local variables); nil entries are left out.
func ifaceDynTypes(v ssa.Value, seen map[ssa.Value]bool) []types.Type {
	if seen[v] {
		return nil
	}
	seen[v] = true
	switch x := v.(type) {
	case *ssa.MakeInterface:
		return []types.Type{x.X.Type()}
	case *ssa.ChangeInterface:
		return ifaceDynTypes(x.X, seen)
	case *ssa.Phi:
		var out []types.Type
		for _, e := range x.Edges {
			out = append(out, ifaceDynTypes(e, seen)...)
		}
		return out
	case *ssa.UnOp:
		if al, ok := x.X.(*ssa.Alloc); ok {
			var out []types.Type
			for _, ref := range *al.Referrers() {
				if st, ok := ref.(*ssa.Store); ok && st.Addr == al {
					out = append(out, ifaceDynTypes(st.Val, seen)...)
				}
			}
			return out
		}
	}
	return nil
}
