package main

import (
	"fmt"
	"go/types"
	"strings"
)

// c03HalfCloser: which connection gets the half-close on behalf of the client's connection. halfCloser is evaluated
// on chains of concrete connection types: the FIRST connection of the chain that offers CloseWrite is the one to
// use - a TLS connection must be shut down by its own CloseWrite (close_notify), not by a FIN on the socket under
// it - and wrappers that do not offer it are looked through (layer4.Connection, proxyprotocol.Conn, NetConn()).
func c03HalfCloser(c *Ctx, r *Report, rule string) {
	r.rule(rule, "halfCloser, evaluated on chains of concrete connection types (tls over tcp; layer4.Connection over tls / over tcp; a NetConn() wrapper over tcp; udp): returns the first connection of the chain that offers CloseWrite, none for a chain without one", 5)
	fnName := "modules/l4proxy.halfCloser"
	fn := c.Fn(fnName)
	if fn == nil {
		r.bad(rule, fnName, "exists", "-", "function not found")
		return
	}
	typ := func(pkg, name string) types.Type {
		if p := c.Prog.ImportedPackage(pkg); p != nil {
			if t := p.Type(name); t != nil {
				return types.NewPointer(t.Type())
			}
		}
		return nil
	}
	tlsT, tcpT, udpT := typ("crypto/tls", "Conn"), typ("net", "TCPConn"), typ("net", "UDPConn")
	cxT := typ(modPath+"/layer4", "Connection")
	if tlsT == nil || tcpT == nil || udpT == nil || cxT == nil {
		r.bad(rule, fnName, "types", c.pos(fn.Pos()), "undecided: crypto/tls.Conn, net.TCPConn, net.UDPConn or layer4.Connection not found")
		return
	}
	// a wrapper of the module that offers NetConn() but not CloseWrite
	var netConnWrapper types.Type
	for _, p := range c.Pkgs {
		sc := p.Types.Scope()
		for _, n := range sc.Names() {
			tn, ok := sc.Lookup(n).(*types.TypeName)
			if !ok {
				continue
			}
			for _, t := range []types.Type{tn.Type(), types.NewPointer(tn.Type())} {
				ms := types.NewMethodSet(t)
				if ms.Lookup(nil, "NetConn") != nil && ms.Lookup(nil, "CloseWrite") == nil && ms.Lookup(nil, "Read") != nil && netConnWrapper == nil && !strings.HasSuffix(typeStr(t), "layer4.Connection") {
					netConnWrapper = t
				}
			}
		}
	}
	ref := func(desc string, t types.Type) SV {
		return SV{K: "ref", Known: true, Desc: desc, DynT: t, Dyn: typeStr(t)}
	}
	type chain struct {
		name string
		top  SV
		heap map[string]SV
		want string // description of the connection expected, "" = none
	}
	chains := []chain{
		{"tls over tcp", ref("tlsconn", tlsT), map[string]SV{"inner:tlsconn": ref("tcp", tcpT)}, "tlsconn"},
		{"tcp", ref("tcp", tcpT), nil, "tcp"},
		{"udp", ref("udp", udpT), nil, ""},
		{"layer4.Connection over tls over tcp", ref("cx", cxT), map[string]SV{"cx.Conn": ref("tlsconn", tlsT), "inner:tlsconn": ref("tcp", tcpT)}, "tlsconn"},
		{"layer4.Connection over tcp", ref("cx", cxT), map[string]SV{"cx.Conn": ref("tcp", tcpT)}, "tcp"},
		{"layer4.Connection over udp", ref("cx", cxT), map[string]SV{"cx.Conn": ref("udp", udpT)}, ""},
	}
	if netConnWrapper != nil {
		chains = append(chains, chain{"NetConn() wrapper (" + typeStr(netConnWrapper) + ") over tcp", ref("wrapper", netConnWrapper), map[string]SV{"inner:wrapper": ref("tcp", tcpT)}, "tcp"},
			chain{"NetConn() wrapper over tls over tcp", ref("wrapper", netConnWrapper), map[string]SV{"inner:wrapper": ref("tlsconn", tlsT), "inner:tlsconn": ref("tcp", tcpT)}, "tlsconn"})
	}
	for _, ch := range chains {
		sc := &Scenario{Name: ch.name, MaxVisit: 8, Params: map[string]SV{"p0": ch.top}, Heap: map[string]SV{}}
		for k, v := range ch.heap {
			sc.Heap[k] = v
		}
		sc.Call = func(callee string, args []SV, ev *symEval, st *symState) (SV, bool) {
			if strings.HasSuffix(callee, ".NetConn") && len(args) == 1 {
				if v, ok := st.heap["inner:"+args[0].Desc]; ok {
					return v, true
				}
				return symNil(), true
			}
			return SV{}, false
		}
		paths, err := evalPaths(fn, sc)
		if err != nil || len(paths) == 0 {
			r.bad(rule, fnName, ch.name, c.pos(fn.Pos()), fmt.Sprintf("undecided: %v", err))
			continue
		}
		var problems []string
		for _, p := range paths {
			if p.Outcome != "return" || len(p.Ret) != 2 {
				problems = append(problems, "undecided path: "+p.Outcome)
				continue
			}
			got := ""
			if p.Ret[1].Known && p.Ret[1].B {
				got = p.Ret[0].Desc
			} else if !p.Ret[1].Known {
				problems = append(problems, "undecided: "+p.Ret[1].Desc)
				continue
			}
			if got != ch.want {
				w := ch.want
				if w == "" {
					w = "none"
				}
				g := got
				if g == "" {
					g = "none"
				}
				problems = append(problems, fmt.Sprintf("the half-close goes to %s, the first connection of the chain that offers CloseWrite is %s (a TLS stream must end with its own close_notify, a socket under a wrapper must still see the FIN)", g, w))
			}
		}
		r.check(len(problems) == 0, rule, fnName, ch.name, c.pos(fn.Pos()), fmt.Sprintf("%d path(s)", len(paths)), strings.Join(dedup(problems), "; "))
	}
}
